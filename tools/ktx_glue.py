#!/usr/bin/env python3
r"""ktx_glue — source-level translator for the *stateful glue* of /repo/src (buffering, padding, length encoding,
data-dependent loops): imperative Rust  ->  Lean functions in the Option monad, in the shape of the hand models
(`lean/CxVerif/Impl/*.lean`): state structure in, state structure out.  Used by kernel spec modules
tools/kernels/glue_*.py through `TRANSLATE = ktx_glue.translate` (see kernel_translate.generate_all()); the output
`lean/CxVerif/Extracted/Glue*.lean` is regenerated from the CURRENT source on every run and tie theorems
(`Props/C01/GlueTie*.lean`) prove every generated `<fn>_src` equal to the hand model for ALL states and inputs.
The lexer / parser are those of kernel_translate.py (`P`) and ktx_words.py (`lex`, `P2`, `Macro`), extended here (`GP`).

MEANING GIVEN TO RUST (the run-time library is lean/CxVerif/Util/GlueRt.lean, namespace `Cx.Glue`)
  values      `usize` = `Nat` (unbounded; `+ * / %` exact, `-` CHECKED: underflow = failure, as in an overflow-checked
              build and as the out-of-range index it would become otherwise); `u8/u16/u32/u64` = `UIntN` words
              (only `& | ^ ! << >>` by literal counts, `as`, `wrapping_*`, comparisons; checked `+ - *` on words is
              refused); integer struct fields named in the spec's `nat_fields` (byte counters `u64`/`u128`) = `Nat`
              with the truncation written: `+`/`+=` = `(a + b) % 2^w` (release semantics; the overflow-checked
              build panics instead — that is property C20's business and is stated in the hand models),
              `<< k` = `(a <<< k) % 2^w`, `>> k` = `a >>> k`; `bool` = `Bool`/`Prop` conditions;
              `&[T]`, `&mut [T]`, `[T; n]` = `List T` (`Bytes` for u8); array types named in `custom_types`
              (e.g. `[u32; 8]` = `W8 UInt32`) through their list view; structs = the Lean structures named by the
              spec (`GStruct` entries re-derive the field list from the Rust declaration on every run).
  failure     a function that can panic returns `Option`; `none` exactly where Rust panics (or would be UB):
              slice ranges `b[lo..hi]` (`Glue.slice`), `copy_from_slice` (`Glue.copy_from_slice`: range + length),
              `b[i]` (`Glue.index`/`set_index`), `<&[T; n]>::try_from(s).unwrap()` (`len == n`), `assert!`,
              `assert_eq!`, checked `usize` subtraction, `unreachable_unchecked()`, a failing callee / closure.
              A check that is already established on the current path (same operands, SSA names) is not repeated.
  state       `&mut self` / `&mut` parameters / `FnMut` closures: the new values are RETURNED, in the order
              (self, closure states…, `&mut` parameters…, return value); struct fields are tracked one by one and the
              structure is rebuilt (`S.mk f1 f2 …`) where a whole value is needed.  Every Rust binding/assignment
              is one Lean `let` with a fresh SSA name (`i`, `i_1`, …).
  borrows     `let x = &mut PLACE;`, `Ok(t) =>` of a `try_from(&mut PLACE)`: `x` is an ALIAS of the place (reads and
              writes go to the place; range bounds are frozen at creation).  `&mut b[lo..hi]` passed to a callee:
              read the slice, call, write the result back.
  closures    a parameter `F: FnMut(&[u8])` is a pair `(func : σ → Bytes → Option σ) (st : σ)`; `func(x)` threads
              `st`.  A closure literal `|x| body` may mutate captured state under ONE variable; the smallest place
              containing everything it mutates (e.g. `self.state`) is abstracted: `fun s x => body[place := s]`, the
              place is the initial state and receives the final one.  A one-call body is an inline `fun`, a longer
              one becomes `<fn>_src_c<n>` over the variables it reads.
  returns     `fn f(&mut self) -> &mut [T; I]` (mode="write"): translated as `f_write_src … (v : List T)`, the state
              after the body with `v` stored through the returned place; call sites `*x.f() = e;` and (for I = 1)
              `x.f()[0] = e;` use it.  `-> &[T; N]` returns a copy of the value.
  control     `if` without `return` inside: the variables the branches modify are joined through a tuple
              (`let r : Option (A × B) := if c then … some (a, b) else some (a, b); match r with …`).
              `if` with a `return` in a branch: the continuation is inlined into the one branch that falls through,
              or — if several do — becomes a separate definition `<fn>_src_k<n>` called from each.
  loops       `for x in xs.iter()` (`iter_mut` refused) = structural recursion on the list; `for i in a..b` =
              recursion on the count `b - a`; `while c { … }` = recursion on a FUEL expression named by the spec
              (`fuel={"<loop#>": "<rust expr>"}`; running out of fuel with the condition still true is failure, so
              the tie theorem has to show that it never happens); loop bodies may not `return`/`break`/`continue`.
              Each loop is its own definition `<fn>_src_loop<n>` over the variables the body modifies.
  idioms      `ptr::write_bytes(p.as_mut_ptr(), c, n)` = `p[0..n] = [c; n]` (range-checked);
              raw-pointer cursor loops (`read_array_type!`): `let mut x: *mut T = a.get_unchecked_mut(0)` is a cursor
              (a, 0); `x = x.add(k)`; `*x = e` = `a[i] = e` (checked); `ptr::copy_nonoverlapping(y, &mut tmp as …, n)`
              = `tmp = y.array[i..i+n]` (checked; `tmp` must be an `[u8; n]`).
  macros      functions / structs defined through an item-level `macro_rules!` invocation are expanded first, nested
              invocations of the same macro included (spec: `macro="write_array_type"` — invocation found by the fn
              name —, or `macro="digest", macro_args=r"256\s+Sha256\s*,"`); `assert!`, `assert_eq!`, `assert_ne!`
              are checks; other macros inside bodies are refused.
  other       struct literals `S { f: e, … }` / `Self { … }` (all fields, checked against the declaration), `[c; n]`
              (`Glue.fill`; an unsuffixed `[0; n]` without annotation needs `untyped_array_elem` in the spec), array
              literals, `if c { a } else { b }` as a pure value, `match` ONLY as
              `match <&mut [T; n]>::try_from(PLACE) { Ok(x) => …, Err(_) => <diverges> }`, `to_be_bytes/to_le_bytes`
              (`u32be`, `u64le`, `natToBE n`, …), `uN::from_be_bytes/from_le_bytes`, `.len()`, `.iter()` (in `for`),
              `wrapping_add/sub/mul` on words; callees are other kernels of the same spec (translated first) or
              `Extern`s named by the spec (functions tied elsewhere, e.g. the compression function).
  consts      `const X: usize = e;` looked up by name in the kernel's file and inlined as the translated initialiser;
              `size_of::<uN>()`.
Anything else raises TranslateError (-> broken extraction): nothing is skipped silently.  After audit 3 (tools/ktx_glue_guard.py):
  lookup      the function is the ONE live definition in the live `impl` blocks the scope regex names (bounded region, item `#[cfg]`
              evaluated: x86_64, sse2, cryptoxide_verif, default cargo features, not test; other keys refused);
  body lint   `#[cfg]`/unknown attributes on statements, nested `fn`/`use`/`struct`/… items, a binding in a nested block that shadows
              an outer one, a `let` that re-binds a `&mut` parameter, imports of a used name that differ from the pinned list: refused;
  order       `return e` / the trailing expression is evaluated BEFORE the state is handed back; an assignment whose place operands
              and value both matter to the state (`a[self.i] = self.next()`, `x += self.bump()`) and a `while` condition with effects
              are refused; `&&`/`||` with a fallible right operand is refused; `let x = &mut a[lo..hi]` checks the range at once;
              `x = …` on a `&mut` borrow (re-binding) is refused, `let y = out;` of a `&mut` parameter is an alias;
  integers    usize `/`, `%` by anything but a non-zero constant carry the check `d = 0 -> none`; usize `<<` needs a literal count
              < 64 and is `% 2 ^ 64`; a value whose type hangs only on unsuffixed literals (`let k = 0;`) may not be cast (`as`)
              unless a use confirms that it is a usize (rustc would infer i32).
NOT modelled (trusted): that `usize` `+`/`*` do not overflow (all such values are slice lengths / array sizes), allocation, `Clone`,
memory safety of the `unsafe` idioms beyond the range checks above.
"""
import copy
import os
import re

import kernel_translate as KT
from kernel_translate import TranslateError, P, strip_comments, find_fn
import ktx_words as KW
from ktx_words import lex, match_close, isop, toks_text
import ktx_glue_guard as GUARD

LEAN_KEYWORDS = {"at", "from", "end", "open", "show", "have", "fun", "then", "else", "if", "do", "let", "in", "with",
                 "match", "by", "where", "def", "instance", "structure", "class", "local", "section", "namespace",
                 "variable", "universe", "import", "prefix", "infix", "notation", "macro", "syntax", "deriving", "mutual",
                 "theorem", "example", "abbrev", "axiom", "private", "protected", "return", "for", "unless", "try", "catch",
                 "finally", "Type", "Prop", "Sort", "using", "this", "nomatch", "suffices", "calc", "obtain", "set_option",
                 "attribute", "some", "none", "true", "false", "fun", "rec"}
WORD_BITS = {"u8": 8, "u16": 16, "u32": 32, "u64": 64}
NATW_BITS = {"u64": 64, "u128": 128, "u32": 32}
LEAN_WORD = {8: "UInt8", 16: "UInt16", 32: "UInt32", 64: "UInt64"}

T_NAT, T_BOOL, T_UNIT = ("nat",), ("bool",), ("unit",)


def REPO():
    return os.environ.get("CX_REPO", KT.REPO)


# ------------------------------------------------------------------------------------------------------ parser

class GP(KW.P2):
    """ktx_words.P2 + full types, turbofish, `<T>::f` paths, closures, struct literals"""

    def __init__(self, toks):
        super().__init__(toks)
        self.nostruct = 0

    # ---- types: ("ref", mut, T) ("ptr", mut, T) ("arr", T, n) ("slice", T) ("path", name, gargs) ("infer",) ("tuple", [T])
    def ty(self):
        if self.at("&"):
            self.eat(); mut = False
            if self.atid("mut"):
                self.eat(); mut = True
            return ("ref", mut, self.ty())
        if self.at("&&"):
            raise TranslateError("`&&` type not supported")
        if self.at("*"):
            self.eat(); q = self.eat()[1]
            if q not in ("mut", "const"):
                raise TranslateError("bad raw pointer type")
            return ("ptr", q == "mut", self.ty())
        if self.at("["):
            self.eat(); e = self.ty()
            if self.at(";"):
                self.eat(); n = self.expr(); self.eat("]")
                return ("arr", e, n)
            self.eat("]")
            return ("slice", e)
        if self.at("("):
            self.eat(); items = []
            while not self.at(")"):
                items.append(self.ty())
                if self.at(","):
                    self.eat()
            self.eat(")")
            return ("tuple", items)
        p = self.eat()
        if p[0] != "id":
            raise TranslateError(f"bad type at {p}")
        if p[1] == "_":
            return ("infer",)
        name = p[1]
        while self.at("::") and self.peek(1)[0] == "id":
            self.eat(); name += "::" + self.eat()[1]
        gargs = []
        if self.at("<"):
            gargs = self.generic_args()
        return ("path", name, gargs)

    def generic_args(self):
        self.eat("<"); out = []
        while not self.at(">"):
            if self.at(">>"):
                raise TranslateError("nested generic arguments not supported")
            if self.peek()[0] == "int":
                p = self.eat(); out.append(("lit", p[1], p[2]))
            elif self.at("{"):
                self.eat(); out.append(self.expr()); self.eat("}")
            else:
                out.append(("type", self.ty()))
            if self.at(","):
                self.eat()
        self.eat(">")
        return out

    def cond_expr(self):
        self.nostruct += 1
        try:
            return self.expr()
        finally:
            self.nostruct -= 1

    def stmt(self):
        if self.atid("for"):
            self.eat(); pat = self.pattern(); self.eat("in")
            rng = self.cond_expr()
            return ("for", pat, rng, self.braced())
        if self.atid("while"):
            self.eat(); c = self.cond_expr()
            return ("while", c, self.braced())
        return super().stmt()

    def postfix(self):
        e = self.atom()
        while True:
            if self.at("("):
                self.eat(); args = self.args(")")
                e = ("call", e, args)
            elif self.at("["):
                self.eat(); ix = self.expr(); self.eat("]")
                e = ("index", e, ix)
            elif self.at("."):
                self.eat(); name = self.eat()
                if name[0] == "int":
                    e = ("field", e, str(name[1]))
                    continue
                gargs = []
                if self.at("::"):
                    self.eat(); gargs = self.generic_args()
                if self.at("("):
                    self.eat(); args = self.args(")")
                    e = ("method", e, name[1], args, gargs)
                else:
                    if gargs:
                        raise TranslateError("turbofish without call")
                    e = ("field", e, name[1])
            elif self.at("?"):
                raise TranslateError("`?` not supported")
            else:
                return e

    def args(self, close):
        out = []
        saved, self.nostruct = self.nostruct, 0
        while not self.at(close):
            out.append(self.expr())
            if self.at(","):
                self.eat()
        self.eat(close)
        self.nostruct = saved
        return out

    def atom(self):
        p = self.peek()
        if self.at("|", "||") or self.atid("move"):
            if self.atid("move"):
                self.eat()
            params = []
            if self.at("||"):
                self.eat()
            else:
                self.eat("|")
                while not self.at("|"):
                    pat = self.pattern(); t = None
                    if self.at(":"):
                        self.eat(); t = self.ty()
                    params.append((pat, t))
                    if self.at(","):
                        self.eat()
                self.eat("|")
            return ("closure", params, self.expr())
        if self.at("<"):
            self.eat(); t = self.ty(); self.eat(">"); self.eat("::"); name = self.eat()[1]
            return ("qpath", t, name)
        if self.atid("if"):
            self.eat(); c = self.cond_expr(); a = self.braced(); b = None
            if self.atid("else"):
                self.eat()
                b = [("ret", self.atom())] if self.atid("if") else self.braced()
            return ("if", c, a, b)
        if self.atid("match"):
            self.eat(); scrut = self.cond_expr(); self.eat("{"); arms = []
            while not self.at("}"):
                pats = [self.pattern()]
                while self.at("|"):
                    self.eat(); pats.append(self.pattern())
                if self.atid("if"):
                    raise TranslateError("match guards not supported")
                self.eat("=>")
                saved, self.nostruct = self.nostruct, 0
                blocklike = self.at("{") or self.atid("unsafe")
                body = self.expr()
                self.nostruct = saved
                if self.at("="):           # `Ok(t) => *t = e,`
                    self.eat(); rhs = self.expr()
                    body = ("block", [("assign", body, "=", rhs)])
                if self.at(","):
                    self.eat()
                elif not blocklike and not self.at("}"):
                    raise TranslateError("expected `,` after match arm")
                arms.append((pats, body))
            self.eat("}")
            return ("match", scrut, arms)
        if p[0] == "id" and p[1] not in ("unsafe",) and not (self.peek(1)[0] == "op" and self.peek(1)[1] == "!"):
            # path, possibly with turbofish segments and a struct literal
            if p[1] in ("let", "for", "while", "return", "fn", "struct", "impl", "mod", "loop", "break", "continue"):
                raise TranslateError(f"unexpected keyword `{p[1]}` in expression")
            self.eat(); name = p[1]; gargs = []
            while self.at("::"):
                self.eat()
                if self.at("<"):
                    gargs = self.generic_args()
                else:
                    name += "::" + self.eat()[1]
            if self.at("{") and not self.nostruct and (name.split("::")[-1][0].isupper()) and self.peek()[2] != "macro" \
                    and (self.peek(1)[1] == "}" or (self.peek(1)[0] == "id" and self.peek(2)[1] in (":", ",", "}"))):
                self.eat("{"); fields = []
                while not self.at("}"):
                    if self.at(".."):
                        raise TranslateError("struct update syntax not supported")
                    f = self.eat()[1]
                    if self.at(":"):
                        self.eat(); v = self.expr()
                    else:
                        v = ("path", f)
                    fields.append((f, v))
                    if self.at(","):
                        self.eat()
                self.eat("}")
                return ("struct", name, fields)
            return ("gpath", name, gargs) if gargs else ("path", name)
        return super().atom()


def parse_body(toks):
    p = GP(toks)
    b = p.block()
    if p.peek()[0] != "eof":
        raise TranslateError(f"trailing tokens after block: {p.peek()[1]!r}")
    return b


def parse_header(hdr):
    """`fn name<generics>(params) -> ret {`  ->  dict(name, generics=[("const", I) | ("closure", F, [argtypes])],
    recv = None|"ref"|"mut"|"val", params=[(name, type ast)], ret = type ast | None)"""
    toks = lex(hdr)
    p = GP(toks)
    while not p.atid("fn"):
        p.eat()
    p.eat("fn"); name = p.eat()[1]
    generics = []
    if p.at("<"):
        p.eat()
        while not p.at(">"):
            if p.atid("const"):
                p.eat(); g = p.eat()[1]; p.eat(":"); p.ty()
                generics.append(("const", g))
            else:
                g = p.eat()
                if g[0] != "id":
                    raise TranslateError("lifetime / unsupported generic parameter")
                g = g[1]
                if not p.at(":"):
                    raise TranslateError(f"unbounded type parameter {g}")
                p.eat(":"); b = p.eat()[1]
                if b not in ("FnMut", "Fn"):
                    raise TranslateError(f"unsupported bound {b} on {g}")
                p.eat("("); argtys = []
                while not p.at(")"):
                    argtys.append(p.ty())
                    if p.at(","):
                        p.eat()
                p.eat(")")
                if p.at("->"):
                    raise TranslateError("closures with a return value are not supported")
                generics.append(("closure", g, argtys))
            if p.at(","):
                p.eat()
        p.eat(">")
    p.eat("("); recv, params = None, []
    while not p.at(")"):
        if p.at("&") and (p.peek(1)[1] == "self" or (p.peek(1)[1] == "mut" and p.peek(2)[1] == "self")):
            p.eat(); recv = "ref"
            if p.atid("mut"):
                p.eat(); recv = "mut"
            p.eat("self")
        elif p.atid("self") or (p.atid("mut") and p.peek(1)[1] == "self"):
            if p.atid("mut"):
                p.eat()
            p.eat("self"); recv = "val"
        else:
            if p.atid("mut"):
                p.eat()
            n = p.eat()[1]; p.eat(":"); t = p.ty()
            params.append((n, t))
        if p.at(","):
            p.eat()
    p.eat(")")
    ret = None
    if p.at("->"):
        p.eat(); ret = p.ty()
    if p.atid("where"):
        raise TranslateError("where clauses not supported")
    p.eat("{")
    return dict(name=name, generics=generics, recv=recv, params=params, ret=ret)


# ------------------------------------------------------------------------------------------------------ specs

class GlueCfg:
    """shared configuration of one generated file

    structs       type key (as written in the source, e.g. "FixedBuffer", "eng256::Engine") ->
                  dict(lean=<Lean structure name>, file=<rust file>, rust=<struct name in that file>, generics=[names])
    aliases       type name as written in some file -> type key   (e.g. "Engine" in eng256.rs -> "eng256::Engine")
    custom_types  normalised Rust type text ("[u32;STATE_LEN]") -> dict(lean=…, elem=<rust int type>, n=<int>,
                  to_list="{0}.toList", proj=[field names])
    nat_fields    set of "<type key>.<field>" integer fields modelled as Nat with explicit truncation
    externs       (type key | None, fn name) -> Extern   (functions tied elsewhere: hand model / other translators)
    consts        rust const name -> Lean text (overrides the lookup in the source)
    """

    def __init__(self, **kw):
        self.structs = kw.get("structs", {})
        self.aliases = kw.get("aliases", {})
        self.custom_types = kw.get("custom_types", {})
        self.nat_fields = set(kw.get("nat_fields", ()))
        self.externs = kw.get("externs", {})
        self.untyped_array_elem = kw.get("untyped_array_elem")   # element type of `[0; n]` literals without annotation
        self.consts = kw.get("consts", {})
        self.fns = {}            # (type key | None, fn name) -> FnInfo   (filled as kernels are translated)
        self._fields = {}
        self._src = {}
        self._expanded = {}

    def src(self, f):
        if f not in self._src:
            try:
                self._src[f] = strip_comments(open(os.path.join(REPO(), f)).read())
            except OSError as e:
                raise TranslateError(f"cannot read {f}: {e}")
        return self._src[f]


class Extern:
    """a callee that is not translated here.  args: list of ("val"|"mut", ty); ret: ty | None; `lean` is a template
    over the argument texts ({0}, {1}, … ; receiver first when recv is set); the Lean function returns
    (Option of) the tuple (mut args…, ret)"""

    def __init__(self, lean, args, ret=None, fallible=False, recv=None):
        self.lean, self.args, self.ret, self.fallible, self.recv = lean, args, ret, fallible, recv


class GK:
    """one function to translate.  file, fn, scope (regex of the impl header), impl (type key of Self) and
    impl_generics, lean_name, mode ("fn" | "write"), macro (name of the item macro that defines the fn),
    fuel {loop number: rust expr}, doc"""

    def __init__(self, cfg, **kw):
        self.cfg = cfg
        self.file = kw["file"]; self.fn = kw["fn"]; self.scope = kw.get("scope")
        self.impl = kw.get("impl"); self.impl_generics = kw.get("impl_generics", [])
        self.lean_name = kw["lean_name"]; self.mode = kw.get("mode", "fn")
        self.macro = kw.get("macro"); self.macro_args = kw.get("macro_args"); self.fuel = kw.get("fuel", {}); self.externs = kw.get("externs", {})
        self.untyped_array_elem = kw.get("untyped_array_elem")   # element type of `[0; n]` literals without annotation
        self.doc = kw.get("doc", ""); self.key = kw.get("key", (self.impl, self.fn))
        self.params = ""         # (for the fallback definition of kernel_translate.generate_all)
        self.kind = "fn"


class GStruct:
    """re-derive the field list of a Rust struct and emit `<Lean>.mk_src`, a constructor with NAMED fields: a field
    added / removed / renamed / retyped in the source no longer elaborates against the hand model's structure"""

    def __init__(self, cfg, key, lean_name=None):
        self.cfg, self.key = cfg, key
        parts = cfg.structs[key]["lean"].split(".")
        self.lean_name = lean_name or ".".join(parts[1:] if len(parts) > 1 else parts) + ".mk_src"
        self.params = ""
        self.kind = "struct"


class FnInfo:
    def __init__(self, **kw):
        self.__dict__.update(kw)


class V:
    """a Lean value: text, type, atomic? (needs no parentheses), prop? (a Prop-valued condition)"""

    def __init__(self, t, ty, at=False, prop=False, weak=frozenset()):
        self.t, self.ty, self.at, self.prop = t, ty, at, prop
        self.weak = weak         # ids of unsuffixed-literal `let`s this value's integer type hangs on (see Tr.ev)

    def p(self):
        return self.t if self.at else f"({self.t})"

    def __repr__(self):
        return f"V({self.t!r}, {self.ty})"


class Alias:
    def __init__(self, place, ty):
        self.place, self.ty = place, ty


class Cursor:
    """raw pointer into an array variable: (root place, index value)"""

    def __init__(self, place, idx, ety, mut):
        self.place, self.idx, self.ety, self.mut = place, idx, ety, mut


class Var:
    def __init__(self, ty, val, param=None, weak=None):
        self.ty, self.val = ty, val      # val: V | dict field -> (V | dict) | Alias | Cursor
        self.param = param               # name of the `&mut` parameter this variable IS (a shadowing `let` makes a new Var without it)
        self.weak = weak                 # id of an unsuffixed-literal `let` whose type (assumed usize) is not yet confirmed


class Env:
    def __init__(self):
        self.vars = {}
        self.facts = set()

    def copy(self):
        e = Env()
        e.vars = {k: Var(v.ty, copy.deepcopy(v.val) if isinstance(v.val, dict) else v.val, v.param, v.weak) for k, v in self.vars.items()}
        e.facts = set(self.facts)
        return e


class Scope:
    """a region with its own result type: a definition (main + its join definitions share one), a joined `if`, a loop
    definition, a closure body.  `fallible` is computed from the blocks before rendering."""

    def __init__(self, kind):
        self.kind, self.blocks, self.forced = kind, [], False
        self._fall = None

    def fallible(self):
        if self._fall is None:
            self._fall = self.forced or any(block_fallible(b) for b in self.blocks)
        return self._fall


def block_fallible(b):
    items, tail = b
    for it in items:
        if it[0] in ("check", "bind"):
            return True
        if it[0] == "joinif" and it[1].fallible():
            return True
        if it[0] == "scall" and it[3].fallible():
            return True
    return tail_fallible(tail)


def tail_fallible(t):
    if t is None:
        return False
    if t[0] == "fail":
        return True
    if t[0] == "if":
        return block_fallible(t[2]) or block_fallible(t[3])
    if t[0] == "match":
        return any(block_fallible(b) for _, b in t[2])
    return False


# ------------------------------------------------------------------------------------------------------ rendering

def render_block(b, ind, scope):
    """lines of a block; `scope` decides how success values are wrapped"""
    items, tail = b
    lines = []
    # peephole: `match e with | none => none | some x => some x`  ==>  `e`
    if items and items[-1][0] == "bind" and tail[0] == "val" and tail[1] == items[-1][1] and scope.fallible():
        tail = ("raw", items[-1][2]); items = items[:-1]
    for it in items:
        k = it[0]
        if k == "let":
            lines.append(f"{ind}let {it[1]} := {it[2]}")
        elif k == "check":
            lines.append(f"{ind}if {it[1]} then none else")
        elif k == "bind":
            lines += [f"{ind}match {it[2]} with", f"{ind}| none => none", f"{ind}| some {it[1]} =>"]
            ind += "  "
        elif k == "bind0":
            lines += [f"{ind}match {it[2]} with", f"{ind}| {it[1]} =>"]
            ind += "  "
        elif k == "scall":                   # call of a loop definition: bind or let, by its fallibility
            if it[3].fallible():
                lines += [f"{ind}match {it[2]} with", f"{ind}| none => none", f"{ind}| some {it[1]} =>"]
                ind += "  "
            else:
                lines += [f"{ind}match {it[2]} with", f"{ind}| {it[1]} =>"]
                ind += "  "
        elif k == "joinif":
            sc, pat, lty, cond, ba, bb = it[1:]
            if sc.fallible():
                lines.append(f"{ind}let r : Option ({lty}) :=")
            else:
                lines.append(f"{ind}let r : {lty} :=")
            lines.append(f"{ind}  if {cond} then")
            lines += render_block(ba, ind + "    ", sc)
            lines.append(f"{ind}  else")
            lines += render_block(bb, ind + "    ", sc)
            if sc.fallible():
                lines += [f"{ind}match r with", f"{ind}| none => none", f"{ind}| some {pat} =>"]
            else:
                lines += [f"{ind}match r with", f"{ind}| {pat} =>"]
            ind += "  "
        elif k == "comment":
            lines.append(f"{ind}-- {it[1]}")
        else:
            raise TranslateError(f"render: unknown item {k}")
    lines += render_tail(tail, ind, scope)
    return lines


def render_tail(t, ind, scope):
    k = t[0]
    if k == "val":
        return [f"{ind}some {par(t[1])}" if scope.fallible() else f"{ind}{t[1]}"]
    if k == "fail":
        return [f"{ind}none"]
    if k == "raw":
        return [f"{ind}{t[1]}"]
    if k == "if":
        return [f"{ind}if {t[1]} then"] + render_block(t[2], ind + "  ", scope) + [f"{ind}else"] + render_block(t[3], ind + "  ", scope)
    if k == "match":
        lines = [f"{ind}match {t[1]} with"]
        for pat, b in t[2]:
            lines.append(f"{ind}| {pat} =>")
            lines += render_block(b, ind + "  ", scope)
        return lines
    raise TranslateError(f"render: unknown tail {k}")


ATOM = re.compile(r"^[A-Za-z_σ][A-Za-z0-9_.'σ]*$|^[0-9]+$")


def par(t):
    t = t.strip()
    if ATOM.match(t) or (t[0] in "(⟨[" and balanced_outer(t)):
        return t
    return f"({t})"


def balanced_outer(t):
    pairs = {"(": ")", "⟨": "⟩", "[": "]"}
    close = pairs[t[0]]
    d = 0
    for i, c in enumerate(t):
        if c == t[0]:
            d += 1
        elif c == close:
            d -= 1
            if d == 0:
                return i == len(t) - 1
    return False


def tup(texts):
    return texts[0] if len(texts) == 1 else "(" + ", ".join(texts) + ")"


def nonzero_const(text):
    """is the Lean text a closed natural-number expression (literals, + * and parentheses) with a non-zero value?"""
    t = text.strip()
    if not re.fullmatch(r"[0-9+*() ]+", t):
        return False
    try:
        return int(eval(t, {"__builtins__": {}}, {})) != 0
    except Exception:
        return False


def names_in(text):
    return set(re.findall(r"[A-Za-z_σ][A-Za-z0-9_']*", text))


# ------------------------------------------------------------------------------------------------------ translator

def ty_text(t):
    """normalised text of a type AST (module qualifiers of constants dropped)"""
    k = t[0]
    if k in ("ref", "ptr"):
        return ty_text(t[2])
    if k == "arr":
        return f"[{ty_text(t[1])};{expr_text(t[2])}]"
    if k == "slice":
        return f"[{ty_text(t[1])}]"
    if k == "path":
        return t[1]
    if k == "infer":
        return "_"
    raise TranslateError(f"type {t}")


def expr_text(e):
    k = e[0]
    if k == "lit":
        return str(e[1])
    if k == "path":
        return e[1].split("::")[-1]
    if k == "paren":
        return "(" + expr_text(e[1]) + ")"
    if k == "bin":
        return expr_text(e[2]) + e[1] + expr_text(e[3])
    raise TranslateError(f"constant expression {e[0]} in a type")


class Tr:
    def __init__(self, k: GK):
        self.k, self.cfg = k, k.cfg
        self.counter = {}
        self.used_generics = []
        self.defs = []               # auxiliary definitions (text), emitted before the main one
        self.nloop = self.njoin = self.nclos = 0
        self.modlog = []
        self.closures = {}           # generic name -> dict(argtys=[ty], var=rust param, st=rust state var)
        self.generics = {}           # const generic name -> V
        self.main = Scope("def")
        self.ret_ty = None
        self.sig = None
        # unsuffixed integer literals: `let k = 0;` is translated as usize.  rustc infers the type from the uses and falls back to i32;
        # every use the translator accepts forces the same type on both sides EXCEPT an `as` cast.  So: union-find over the literal
        # `let`s (merged when they meet each other), confirmed when one meets a typed operand / context; a cast of a value whose type
        # is never confirmed is refused at the end (run()).
        self.weak_parent, self.weak_firm, self.weak_casts, self.nweak = {}, set(), [], 0

    # ---------------------------------------------------------------- names
    def fresh(self, base):
        base = getattr(self, "base_name", {}).get(base, base)
        base = re.sub(r"[^A-Za-z0-9_]", "_", base)
        if base in LEAN_KEYWORDS:
            base += "_"
        n = self.counter.get(base, 0)
        self.counter[base] = n + 1
        name = base if n == 0 else f"{base}_{n}"
        if n and name in self.counter:
            return self.fresh(name)
        if n:
            self.counter[name] = 1
        return name

    def snapshot(self):
        return (dict(self.counter), list(self.used_generics), len(self.defs), self.nloop, self.njoin, self.nclos, len(self.modlog))

    def restore(self, s):
        self.counter, self.used_generics = dict(s[0]), list(s[1])
        del self.defs[s[2]:]
        self.nloop, self.njoin, self.nclos = s[3], s[4], s[5]
        del self.modlog[s[6]:]

    # ---------------------------------------------------------------- types
    def conv(self, t, natw=False):
        k = t[0]
        if k == "ref":
            return self.conv(t[2], natw)
        if k == "ptr":
            raise TranslateError("raw pointer type outside the cursor idiom")
        if k in ("arr", "slice"):
            norm = ty_text(t)
            if norm in self.cfg.custom_types:
                return ("custom", norm)
            return ("list", self.conv(t[1]))
        if k == "tuple" and not t[1]:
            return T_UNIT
        if k == "path":
            name = t[1]; last = name.split("::")[-1]
            if name in self.closures:
                return ("closure", name)
            if last == "usize":
                return T_NAT
            if last == "bool":
                return T_BOOL
            if last == "u128":
                return ("natw", 128)
            if last in WORD_BITS:
                return ("natw", WORD_BITS[last]) if natw else ("word", WORD_BITS[last])
            key = self.type_key(name)
            if key is not None:
                sd = self.cfg.structs[key]
                gn = sd.get("generics", [])
                if len(gn) != len(t[2]):
                    if name == "Self" or not t[2]:
                        return ("struct", key, tuple((g, self.generic(g).t) for g in gn if g in self.generics) if name == "Self" else ())
                    raise TranslateError(f"generic arguments of {name}")
                return ("struct", key, tuple((g, self.const_arg(a).t) for g, a in zip(gn, t[2])))
        raise TranslateError(f"unsupported type {t}")

    def type_key(self, name):
        if name == "Self":
            return self.k.impl
        for cand in ((self.k.file, name), name):
            if cand in self.cfg.aliases:
                return self.cfg.aliases[cand]
        if name in self.cfg.structs:
            return name
        return None

    def const_arg(self, a):
        if a[0] == "type":
            t = a[1]
            if t[0] == "path" and not t[2]:
                return self.ev(("path", t[1]), None, None, T_NAT)
            raise TranslateError("type argument where a constant is expected")
        return self.ev(a, None, None, T_NAT)

    def lean_ty(self, ty):
        k = ty[0]
        if k in ("nat", "natw"):
            return "Nat"
        if k == "word":
            return LEAN_WORD[ty[1]]
        if k == "bool":
            return "Bool"
        if k == "unit":
            return "Unit"
        if k == "list":
            return "Bytes" if ty[1] == ("word", 8) else f"List {par(self.lean_ty(ty[1]))}"
        if k == "custom":
            return self.cfg.custom_types[ty[1]]["lean"]
        if k == "struct":
            return self.cfg.structs[ty[1]]["lean"]
        if k == "state":
            return ty[1]
        raise TranslateError(f"no Lean type for {ty}")

    def fields(self, sty):
        """[(field, ty)] of a struct type (generic arguments substituted)"""
        key = sty[1]
        if key not in self.cfg._fields:
            self.cfg._fields[key] = struct_decl(self.cfg, key)
        out = []
        saved = self.generics
        self.generics = {g: V(t, T_NAT, True) for g, t in sty[2]}
        try:
            for f, tast in self.cfg._fields[key]:
                out.append((f, self.conv(tast, natw=f"{key}.{f}" in self.cfg.nat_fields)))
        finally:
            self.generics = saved
        return out

    def field_ty(self, sty, f):
        for n, t in self.fields(sty):
            if n == f:
                return t
        raise TranslateError(f"no field {f} in {sty[1]}")

    def generic(self, g):
        if g not in self.generics:
            raise TranslateError(f"unknown generic {g}")
        if g in self.declared_generics and g not in self.used_generics:
            self.used_generics.append(g)
        return self.generics[g]

    declared_generics = ()

    # ---------------------------------------------------------------- struct values
    def explode(self, v, sty):
        return {f: V(f"{v.p()}.{f}", t, True) for f, t in self.fields(sty)}

    def whole(self, val, ty):
        if isinstance(val, V):
            return val
        if isinstance(val, dict):
            parts = [self.whole(val[f], t) for f, t in self.fields(ty)]
            names = [f for f, _ in self.fields(ty)]
            bases = {p.t[:-len(f) - 1] for p, f in zip(parts, names) if p.t.endswith("." + f)}
            if len(bases) == 1 and all(p.t == f"{list(bases)[0]}.{f}" for p, f in zip(parts, names)):
                b = list(bases)[0]
                return V(b, ty, bool(ATOM.match(b)))
            return V(f"{self.lean_ty(ty)}.mk " + " ".join(p.p() for p in parts), ty)
        raise TranslateError("a borrow / pointer is used as a value")

    def var_whole(self, env, name):
        v = env.vars[name]
        return self.whole(v.val, v.ty)

    # ---------------------------------------------------------------- items
    def let(self, items, base, v):
        """bind v to a fresh name (unless it already is a name)"""
        if v.at and ATOM.match(v.t) and not v.t[0].isdigit():
            return v
        n = self.fresh(base)
        items.append(("let", n, v.t))
        return V(n, v.ty, True)

    def bind(self, items, base, text, ty):
        n = self.fresh(base)
        items.append(("bind", n, text))
        return V(n, ty, True)

    def check(self, env, items, failcond):
        if failcond in env.facts:
            return
        env.facts.add(failcond)
        items.append(("check", failcond))

    # ---------------------------------------------------------------- places
    def place_of(self, e, env, items):
        """(root var, [("f", name) | ("r", lo, hi) | ("i", idx)]) of a place expression, or None"""
        k = e[0]
        if k == "path":
            if e[1] in env.vars:
                val = env.vars[e[1]].val
                if isinstance(val, Alias):
                    return val.place
                if isinstance(val, Cursor):
                    return None
                return (e[1], [])
            return None
        if k in ("paren", "deref"):
            if k == "deref" and e[1][0] == "path" and e[1][1] in env.vars and isinstance(env.vars[e[1][1]].val, Cursor):
                c = env.vars[e[1][1]].val
                return (c.place[0], c.place[1] + [("i", c.idx)])
            return self.place_of(e[1], env, items)
        if k == "ref":
            return self.place_of(e[2], env, items)
        if k == "field":
            b = self.place_of(e[1], env, items)
            if b is None:
                return None
            if self.place_ty(b, env)[0] != "struct":
                return None
            return (b[0], b[1] + [("f", e[2])])
        if k == "index":
            b = self.place_of(e[1], env, items)
            if b is None:
                return None
            if b[1] and b[1][-1][0] in ("r", "i"):
                raise TranslateError("nested index places")
            ix = e[2]
            if ix[0] == "range":
                lo = V("0", T_NAT, True) if ix[1] is None else self.atomize(self.ev(ix[1], env, items, T_NAT), items, "lo")
                if ix[2] is None:
                    base = self.read_place(b, env, items)
                    hi = self.length(base)
                else:
                    hi = self.ev(ix[2], env, items, T_NAT)
                    if len(ix) > 3 and ix[3] == "..=":
                        hi = V(f"{hi.p()} + 1", T_NAT)
                if ix[2] is None and len(ix) > 3 and ix[3] == "..=":
                    raise TranslateError("`..=` without upper bound")
                hi = self.atomize(hi, items, "hi")
                return (b[0], b[1] + [("r", lo, hi)])
            i = self.atomize(self.ev(ix, env, items, T_NAT), items, "ix")
            return (b[0], b[1] + [("i", i)])
        if k == "method" and e[2] == "unwrap" and e[1][0] == "call" and e[1][1][0] == "qpath" and e[1][1][2] == "try_from":
            p, _ = self.try_from(e[1], env, items, fail=True)
            return p
        return None

    def atomize(self, v, items, base):
        """simple operands stay inline (so that checks compare textually), compound ones are let-bound"""
        return v

    def place_ty(self, place, env):
        ty = env.vars[place[0]].ty
        for st in place[1]:
            if st[0] == "f":
                ty = self.field_ty(ty, st[1])
            elif st[0] == "r":
                ty = ("list", self.elem_ty(ty))
            else:
                ty = self.elem_ty(ty)
        return ty

    def elem_ty(self, ty):
        if ty[0] == "list":
            return ty[1]
        if ty[0] == "custom":
            return self.int_ty(self.cfg.custom_types[ty[1]]["elem"])
        raise TranslateError(f"indexing a value of type {ty}")

    def int_ty(self, name):
        return T_NAT if name == "usize" else ("word", WORD_BITS[name])

    def as_list(self, v):
        if v.ty[0] == "custom":
            ct = self.cfg.custom_types[v.ty[1]]
            return V(ct["to_list"].format(v.p()), ("list", self.int_ty(ct["elem"])), True)
        if v.ty[0] != "list":
            raise TranslateError(f"a slice is expected, got {v.ty}")
        return v

    def length(self, v):
        if v.ty[0] == "custom":
            return V(str(self.cfg.custom_types[v.ty[1]]["n"]), T_NAT, True)
        if v.ty[0] != "list":
            raise TranslateError(f".len() of {v.ty}")
        return V(f"{v.p()}.length", T_NAT, True)

    def read_place(self, place, env, items):
        var = env.vars[place[0]]
        cur, ty = var.val, var.ty
        if isinstance(cur, (Alias, Cursor)):
            raise TranslateError("borrow used as a value")
        for st in place[1]:
            if st[0] == "f":
                fty = self.field_ty(ty, st[1])
                cur = cur[st[1]] if isinstance(cur, dict) else V(f"{cur.p()}.{st[1]}", fty, True)
                ty = fty
            else:
                cur = self.whole(cur, ty)
                if st[0] == "r":
                    l = self.as_list(cur)
                    cur = self.bind(items, "t", f"Glue.slice {l.p()} {st[1].p()} {st[2].p()}", l.ty)
                    ty = l.ty
                else:
                    if cur.ty[0] == "custom" and st[1].t.isdigit():
                        ct = self.cfg.custom_types[cur.ty[1]]
                        if int(st[1].t) >= ct["n"]:
                            raise TranslateError("constant index out of range")
                        ety = self.int_ty(ct["elem"])
                        cur = V(f"{cur.p()}.{ct['proj'][int(st[1].t)]}", ety, True)
                    else:
                        l = self.as_list(cur)
                        cur = self.bind(items, "t", f"Glue.index {l.p()} {st[1].p()}", l.ty[1])
                    ty = cur.ty
        return self.whole(cur, ty)

    def write_place(self, place, v, env, items):
        self.modlog.append(place[0])
        var = env.vars[place[0]]
        fpath = [st[1] for st in place[1] if st[0] == "f"]
        if place[1] and place[1][-1][0] in ("r", "i"):
            st = place[1][-1]
            basep = (place[0], place[1][:-1])
            base = self.read_place(basep, env, items)
            if base.ty[0] != "list":
                raise TranslateError(f"store into a value of type {base.ty}")
            nm = "_".join([place[0]] + fpath)
            if st[0] == "r":
                v = self.bind(items, nm, f"Glue.copy_from_slice {base.p()} {st[1].p()} {st[2].p()} {v.p()}", base.ty)
            else:
                v = self.bind(items, nm, f"Glue.set_index {base.p()} {st[1].p()} {v.p()}", base.ty)
        if not fpath:
            var.val = v
            return
        if isinstance(var.val, V):
            var.val = self.explode(var.val, var.ty)
        d, ty = var.val, var.ty
        for f in fpath[:-1]:
            fty = self.field_ty(ty, f)
            if isinstance(d[f], V):
                d[f] = self.explode(d[f], fty)
            d, ty = d[f], fty
        d[fpath[-1]] = v

    def place_name(self, place):
        return "_".join([place[0]] + [st[1] for st in place[1] if st[0] == "f"])

    def try_from(self, call, env, items, fail):
        """`<&[mut] [T; n]>::try_from(ARG)`: (place | None, value); the length test is a check when `fail`"""
        t = call[1][1]
        while t[0] == "ref":
            t = t[2]
        if t[0] != "arr" or len(call[2]) != 1:
            raise TranslateError("unsupported try_from")
        n = self.ev(t[2], env, items, T_NAT)
        arg = call[2][0]
        p = self.place_of(arg, env, items)
        cur = self.read_place(p, env, items) if p is not None else self.ev(arg, env, items)
        cur = self.as_list(cur)
        if fail:
            self.check(env, items, f"{cur.p()}.length ≠ {n.p()}")
        return p, cur

    # ---------------------------------------------------------------- unsuffixed literals (see __init__)
    def wfind(self, i):
        while self.weak_parent.get(i, i) != i:
            i = self.weak_parent[i]
        return i

    def wunion(self, ids):
        roots = [self.wfind(i) for i in ids]
        if not roots:
            return
        firm = any(r in self.weak_firm for r in roots)
        for r in roots[1:]:
            if r != roots[0]:
                self.weak_parent[r] = roots[0]
        if firm:
            self.weak_firm.add(self.wfind(roots[0]))

    def wfirm(self, ids):
        for i in ids:
            self.weak_firm.add(self.wfind(i))

    def wmeet(self, a, b):
        """two operands that rustc unifies: the weak ids of the result"""
        sa, sb = a.ty is None or bool(a.weak), b.ty is None or bool(b.weak)
        if sa and sb:
            ids = a.weak | b.weak
            self.wunion(list(ids))
            return ids
        self.wfirm(a.weak | b.weak)
        return frozenset()

    # ---------------------------------------------------------------- expressions
    def lit(self, n, ty):
        if ty is None or ty[0] in ("nat", "natw"):
            return V(str(n), ty, True)
        if ty[0] == "word":
            if not 0 <= n < 2 ** ty[1]:
                raise TranslateError("literal out of range")
            return V(f"({n} : {LEAN_WORD[ty[1]]})", ty, True)
        raise TranslateError(f"integer literal of type {ty}")

    def coerce(self, v, ty):
        if v.ty is None:
            if not v.t.isdigit():
                raise TranslateError("untyped non-literal")
            return self.lit(int(v.t), ty or T_NAT)
        if ty is not None and ty[0] == "list" and v.ty[0] == "custom":
            return self.as_list(v)
        return v

    def suffix_ty(self, suf, want):
        if suf is None:
            return want if want is not None and want[0] in ("nat", "natw", "word") else None
        if suf == "usize":
            return T_NAT
        if suf == "u128":
            return ("natw", 128)
        if suf in WORD_BITS:
            return want if want is not None and want[0] == "natw" and want[1] == WORD_BITS[suf] else ("word", WORD_BITS[suf])
        raise TranslateError(f"literal suffix {suf}")

    def ev(self, e, env, items, want=None, soft=False):
        """value of an expression.  soft=False: the context has a definite type (index, argument, store, return …), which confirms the
        assumed type of unsuffixed-literal variables in it; soft=True (operands, cast source, untyped `let`): the caller decides"""
        v = self.ev0(e, env, items, want)
        if v is not None and v.weak and not soft:
            self.wfirm(v.weak)
            v = V(v.t, v.ty, v.at, v.prop)
        return v

    def ev0(self, e, env, items, want=None):
        k = e[0]
        if k == "lit":
            return self.lit(e[1], self.suffix_ty(e[2], want))
        if k == "paren":
            v = self.ev(e[1], env, items, want, soft=True)
            return V(v.t, v.ty, v.at, v.prop, v.weak)
        if k == "ref":
            return self.ev(e[2], env, items, want, soft=True)
        if k == "path":
            name = e[1]
            if env is not None and name in env.vars:
                p = self.place_of(e, env, items)
                if p is None:
                    raise TranslateError(f"pointer `{name}` used as a value")
                r = self.read_place(p, env, items)
                w = env.vars[name].weak
                if w is not None and isinstance(r, V):
                    r = V(r.t, r.ty, r.at, r.prop, frozenset([w]))
                return r
            if name in self.generics:
                return self.generic(name)
            if name in ("true", "false"):
                return V(name, T_BOOL, True)
            return self.const(name, want)
        if k in ("field", "index", "deref"):
            if env is None:
                raise TranslateError("place in a constant")
            p = self.place_of(e, env, items)
            if p is not None:
                return self.read_place(p, env, items)
            if k == "deref":
                return self.ev(e[1], env, items, want)
            base = self.ev(e[1], env, items)
            if k == "field":
                if base.ty[0] != "struct":
                    raise TranslateError("field of a non-struct")
                return V(f"{base.p()}.{e[2]}", self.field_ty(base.ty, e[2]), True)
            return self.index_value(base, e[2], env, items)
        if k == "bin":
            return self.binop(e[1], e[2], e[3], env, items, want)
        if k == "not":
            v = self.ev(e[1], env, items, want)
            if v.ty == T_BOOL:
                return V(f"¬ {v.p()}", T_BOOL, False, True) if v.prop else V(f"!{v.p()}", T_BOOL, False)
            if v.ty is not None and v.ty[0] == "word":
                return V(f"~~~{v.p()}", v.ty)
            raise TranslateError(f"`!` on {v.ty}")
        if k == "cast":
            return self.cast(self.ev(e[1], env, items, soft=True), e[2], want)
        if k == "call":
            r = self.call(e, env, items, want)
            if r is None:
                raise TranslateError("a call without a value is used as a value")
            return r
        if k == "method":
            r = self.method(e, env, items, want)
            if r is None:
                raise TranslateError(f"method `{e[2]}` without a value is used as a value")
            return r
        if k == "struct":
            key = self.type_key(e[1])
            if key is None:
                raise TranslateError(f"unknown struct {e[1]}")
            sty = want if (want is not None and want[0] == "struct" and want[1] == key) else self.conv(("path", e[1], []))
            given = dict(e[2])
            fl = self.fields(sty)
            if set(given) != {f for f, _ in fl}:
                raise TranslateError(f"struct literal {e[1]}: fields {sorted(given)} vs declaration {[f for f, _ in fl]}")
            parts = [self.coerce(self.ev(given[f], env, items, t), t) for f, t in fl]
            return V(f"{self.lean_ty(sty)}.mk " + " ".join(p.p() for p in parts), sty)
        if k == "repeat":
            ety = want[1] if want is not None and want[0] == "list" else None
            c = self.ev(e[1], env, items, ety)
            if c.ty is None and ety is None:
                dflt = self.k.untyped_array_elem
                if dflt is None:
                    raise TranslateError("`[lit; n]` with an unsuffixed literal and no type annotation: name `untyped_array_elem` in the kernel spec")
                ety = self.int_ty(dflt)
            c = self.coerce(c, ety)
            n = self.ev(e[2], env, items, T_NAT)
            return V(f"Glue.fill {n.p()} {c.p()}", ("list", c.ty))
        if k == "array":
            ety = want[1] if want is not None and want[0] == "list" else None
            vs = [self.ev(x, env, items, ety) for x in e[1]]
            ety = ety or next((v.ty for v in vs if v.ty is not None), None)
            vs = [self.coerce(v, ety) for v in vs]
            return V("[" + ", ".join(v.t for v in vs) + "]", ("list", ety), True)
        if k == "tuple" and not e[1]:
            return V("()", T_UNIT, True)
        if k == "if":
            if e[3] is None:
                raise TranslateError("`if` without else used as a value")
            pre = []
            c = self.cond(e[1], env, pre)
            a = self.pure_block(e[2], env, pre, want)
            b = self.pure_block(e[3], env, pre, want or a.ty)
            if pre:
                raise TranslateError("`if` expression with effects")
            a = self.coerce(a, b.ty); b = self.coerce(b, a.ty)
            return V(f"if {c} then {a.t} else {b.t}", a.ty)
        if k in ("block", "mblock") and len(e[1]) == 1 and e[1][0][0] == "ret":
            return self.ev(e[1][0][1], env, items, want)
        raise TranslateError(f"unsupported expression `{k}`")

    def pure_block(self, stmts, env, items, want):
        if len(stmts) != 1 or stmts[0][0] != "ret":
            raise TranslateError("`if` expression with statements")
        return self.ev(stmts[0][1], env, items, want)

    def index_value(self, base, ix, env, items):
        l = self.as_list(base)
        if ix[0] == "range":
            lo = V("0", T_NAT, True) if ix[1] is None else self.ev(ix[1], env, items, T_NAT)
            hi = self.length(l) if ix[2] is None else self.ev(ix[2], env, items, T_NAT)
            if len(ix) > 3 and ix[3] == "..=":
                if ix[2] is None:
                    raise TranslateError("`..=` without upper bound")
                hi = V(f"{hi.p()} + 1", T_NAT)
            return self.bind(items, "t", f"Glue.slice {l.p()} {lo.p()} {hi.p()}", l.ty)
        i = self.ev(ix, env, items, T_NAT)
        return self.bind(items, "t", f"Glue.index {l.p()} {i.p()}", l.ty[1])

    def const(self, name, want):
        last = name.split("::")[-1]
        if last in self.cfg.consts:
            return V(self.cfg.consts[last], want or T_NAT, True)
        src = self.cfg.src(self.k.file)
        found = {re.sub(r"\s+", " ", m.group(1) + "=" + m.group(2)).strip()
                 for m in re.finditer(r"\bconst\s+" + re.escape(last) + r"\s*:\s*([^=;]+)=([^;]+);", src)}
        if len(found) != 1:
            raise TranslateError(f"constant {name}: {len(found)} definitions in {self.k.file}")
        tytext, init = list(found)[0].split("=", 1)
        p = GP(lex(tytext)); ty = self.conv(p.ty())
        p = GP(lex(init)); ie = p.expr()
        if p.peek()[0] != "eof":
            raise TranslateError(f"constant {name}: initialiser not understood")
        if self.const_depth > 8:
            raise TranslateError("constant recursion")
        self.const_depth += 1
        try:
            v = self.coerce(self.ev(ie, None, None, ty), ty)
        finally:
            self.const_depth -= 1
        return V(v.t, ty, v.at)

    const_depth = 0

    ARITH = {"+": "+", "*": "*", "/": "/", "%": "%"}
    CMP = {"==": "=", "!=": "≠", "<": "<", "<=": "≤", ">": ">", ">=": "≥"}
    BITS = {"&": "&&&", "|": "|||", "^": "^^^"}

    def binop(self, op, l, r, env, items, want):
        if op in ("&&", "||"):
            a = self.cond(l, env, items)
            pre = []
            b = self.cond(r, env, pre)
            if pre:
                raise TranslateError("fallible right operand of a short-circuit operator")
            return V(f"{a} {'∧' if op == '&&' else '∨'} {b}", T_BOOL, False, True)
        if op in self.CMP:
            a = self.ev(l, env, items, soft=True)
            b = self.ev(r, env, items, a.ty, soft=True)
            self.wmeet(a, b)
            if a.ty is None:
                a = self.coerce(a, b.ty or T_NAT)
            b = self.coerce(b, a.ty)
            if a.ty != b.ty or a.ty[0] not in ("nat", "natw", "word", "bool"):
                raise TranslateError(f"comparison of {a.ty} and {b.ty}")
            return V(f"{a.p()} {self.CMP[op]} {b.p()}", T_BOOL, False, True)
        if op in ("<<", ">>"):
            a = self.ev(l, env, items, want, soft=True)
            wk = a.weak
            a = self.coerce(a, want or T_NAT)
            if r[0] != "lit":
                if a.ty[0] == "word":
                    raise TranslateError("word shift by a non-literal count")
                n = self.coerce(self.ev(r, env, items, T_NAT), T_NAT)
                ntext, nval = n.p(), None
            else:
                ntext, nval = str(r[1]), r[1]
            lop = "<<<" if op == "<<" else ">>>"
            if a.ty[0] == "nat":
                # usize: the count must be a literal below the width; `<<` loses the bits shifted out (release) — written out
                if nval is None or nval >= 64:
                    raise TranslateError("usize shift: only a literal count < 64 is supported")
                return V(f"({a.p()} <<< {ntext}) % 2 ^ 64", T_NAT, weak=wk) if op == "<<" else V(f"{a.p()} >>> {ntext}", T_NAT, weak=wk)
            if a.ty[0] == "natw":
                if nval is None or nval >= a.ty[1]:
                    raise TranslateError("shift count")
                return V(f"({a.p()} <<< {ntext}) % 2 ^ {a.ty[1]}", a.ty) if op == "<<" else V(f"{a.p()} >>> {ntext}", a.ty)
            if a.ty[0] == "word":
                if nval >= a.ty[1]:
                    raise TranslateError("shift count")
                return V(f"{a.p()} {lop} {nval}", a.ty)
            raise TranslateError(f"shift of {a.ty}")
        a = self.ev(l, env, items, want, soft=True)
        b = self.ev(r, env, items, a.ty if a.ty is not None else want, soft=True)
        wk = self.wmeet(a, b)
        if a.ty is None:
            a = self.coerce(a, b.ty or want or T_NAT)
        b = self.coerce(b, a.ty)
        if a.ty != b.ty:
            raise TranslateError(f"operands of `{op}`: {a.ty} vs {b.ty}")
        t = a.ty
        r = self.binop_arith(op, a, b, t, env, items)
        return V(r.t, r.ty, r.at, r.prop, wk) if wk else r

    def binop_arith(self, op, a, b, t, env, items):
        if op in self.BITS:
            if t[0] not in ("word", "nat", "natw"):
                raise TranslateError(f"`{op}` on {t}")
            return V(f"{a.p()} {self.BITS[op]} {b.p()}", t)
        if t[0] == "nat":
            if op in ("/", "%") and not nonzero_const(b.t):
                # Rust panics on a zero divisor (also in release builds); Lean's `/ 0 = 0` would be a value
                if env is None:
                    raise TranslateError(f"`{op}` by a divisor that is not a non-zero constant, in a constant")
                self.check(env, items, f"{b.p()} = 0")
            if op in self.ARITH:
                return V(f"{a.p()} {self.ARITH[op]} {b.p()}", t)
            if op == "-":
                self.check(env, items, f"{a.p()} < {b.p()}")
                return V(f"{a.p()} - {b.p()}", t)
        if t[0] == "natw" and op == "+":
            return V(f"({a.p()} + {b.p()}) % 2 ^ {t[1]}", t)
        raise TranslateError(f"`{op}` on {t} is not supported (checked word arithmetic is refused)")

    def cast(self, v, tast, want):
        last = tast[1].split("::")[-1] if tast[0] == "path" else None
        if last is None:
            raise TranslateError("cast to a non-integer type")
        if v.weak:
            self.weak_casts.append(v.weak)
        if v.ty is None:
            v = self.coerce(v, T_NAT)
        if last == "usize":
            to = T_NAT
        elif last == "u128":
            to = ("natw", 128)
        elif last in WORD_BITS:
            to = ("natw", WORD_BITS[last]) if (want is not None and want[0] == "natw") else ("word", WORD_BITS[last])
        else:
            raise TranslateError(f"cast to {last}")
        f = v.ty
        if f == to:
            return v
        if f[0] == "nat" and to[0] == "natw":
            return V(v.t, to, v.at) if to[1] >= 64 else V(f"{v.p()} % 2 ^ {to[1]}", to)
        if f[0] == "natw" and to[0] == "natw":
            return V(v.t, to, v.at) if to[1] >= f[1] else V(f"{v.p()} % 2 ^ {to[1]}", to)
        if f[0] == "natw" and to[0] == "nat":
            return V(v.t, to, v.at) if f[1] <= 64 else V(f"{v.p()} % 2 ^ 64", to)
        if f[0] in ("nat", "natw") and to[0] == "word":
            return V(f"{LEAN_WORD[to[1]]}.ofNat {v.p()}", to)
        if f[0] == "word" and to[0] == "word":
            return V(f"{v.p()}.to{LEAN_WORD[to[1]]}", to, True)
        if f[0] == "word" and to[0] in ("nat", "natw"):
            return V(f"{v.p()}.toNat", to, True)
        raise TranslateError(f"cast {f} -> {to}")

    # ---------------------------------------------------------------- conditions
    def cond(self, e, env, items):
        v = self.ev(e, env, items, T_BOOL)
        if v.ty != T_BOOL:
            raise TranslateError("condition is not a bool")
        return v.t

    NEG = {"==": "!=", "!=": "==", "<": ">=", ">=": "<", ">": "<=", "<=": ">"}

    def neg_cond(self, e, env, items):
        """the condition under which `assert!(e)` fails"""
        if e[0] == "paren":
            return self.neg_cond(e[1], env, items)
        if e[0] == "not":
            return self.cond(e[1], env, items)
        if e[0] == "bin" and e[1] in self.NEG:
            return self.cond(("bin", self.NEG[e[1]], e[2], e[3]), env, items)
        v = self.ev(e, env, items, T_BOOL)
        return f"¬ {v.p()}" if v.prop else f"{v.p()} = false"

    # ---------------------------------------------------------------- calls
    def lookup_fn(self, key):
        if key in self.k.externs:
            return self.k.externs[key]
        if key in self.cfg.externs:
            return self.cfg.externs[key]
        if key in self.cfg.fns:
            return self.cfg.fns[key]
        return None

    def call(self, e, env, items, want):
        f, args = e[1], e[2]
        if f[0] == "path" and env is not None and f[1] in env.vars and env.vars[f[1]].ty[0] == "closure":
            cl = self.closures[env.vars[f[1]].ty[1]]
            if len(args) != len(cl["argtys"]):
                raise TranslateError("closure arity")
            vs = [self.coerce(self.ev(a, env, items, t), t) for a, t in zip(args, cl["argtys"])]
            st = self.var_whole(env, cl["st"])
            n = self.bind(items, cl["st"], f"{env.vars[f[1]].val.t} {st.p()} " + " ".join(v.p() for v in vs), env.vars[cl["st"]].ty)
            self.write_place((cl["st"], []), n, env, items)
            return None
        if f[0] == "gpath":
            last = f[1].split("::")[-1]
            if last == "size_of" and len(f[2]) == 1 and f[2][0][0] == "type" and f[2][0][1][0] == "path":
                t = f[2][0][1][1].split("::")[-1]
                bits = {"u8": 8, "u16": 16, "u32": 32, "u64": 64, "u128": 128, "usize": 64}.get(t)
                if bits is None or args:
                    raise TranslateError("size_of")
                return V(str(bits // 8), T_NAT, True)
            raise TranslateError(f"unsupported generic call {f[1]}")
        if f[0] == "qpath":
            raise TranslateError("`<T>::f(..)` is only supported as `try_from(..).unwrap()` or as a match scrutinee")
        if f[0] != "path":
            raise TranslateError("call of a computed function")
        segs = f[1].split("::")
        last = segs[-1]
        if last == "write_bytes" and len(segs) >= 2 and segs[-2] == "ptr":
            return self.idiom_write_bytes(args, env, items)
        if last == "copy_nonoverlapping" and len(segs) >= 2 and segs[-2] == "ptr":
            return self.idiom_copy_nonoverlapping(args, env, items)
        if last in ("from_be_bytes", "from_le_bytes") and len(segs) >= 2 and segs[-2] in ("u32", "u64") and len(args) == 1:
            x = self.as_list(self.ev(args[0], env, items, ("list", ("word", 8))))
            fn = {"from_be_bytes": "be", "from_le_bytes": "le"}[last] + {"u32": "U32", "u64": "U64"}[segs[-2]]
            return V(f"{fn} {x.p()}", ("word", int(segs[-2][1:])))
        key = None
        if len(segs) >= 2:
            tk = self.type_key("::".join(segs[:-1]))
            if tk is not None:
                key = (tk, last)
        if key is None:
            key = (None, last)
        info = self.lookup_fn(key)
        if info is None:
            raise TranslateError(f"callee {f[1]} is not translated / not declared extern")
        gvals = {}
        if key[0] is not None and want is not None and want[0] == "struct" and want[1] == key[0]:
            gvals = {g: V(t, T_NAT, True) for g, t in want[2]}
        return self.apply(info, None, gvals, args, env, items, want)

    def method(self, e, env, items, want):
        recv, name, args = e[1], e[2], e[3]
        gargs = e[4] if len(e) > 4 else []
        if name == "unwrap" and recv[0] == "call" and recv[1][0] == "qpath" and recv[1][2] == "try_from":
            _, cur = self.try_from(recv, env, items, fail=True)
            return cur
        if name == "copy_from_slice":
            p = self.place_of(recv, env, items)
            if p is None or len(args) != 1:
                raise TranslateError("copy_from_slice on a non-place")
            src = self.as_list(self.ev(args[0], env, items, self.place_ty(p, env)))
            if not (p[1] and p[1][-1][0] == "r"):
                cur = self.read_place(p, env, items)
                p = (p[0], p[1] + [("r", V("0", T_NAT, True), self.length(cur))])
            self.write_place(p, src, env, items)
            return None
        # struct methods first (receiver must be a place for &mut self)
        p = self.place_of(recv, env, items)
        rty = self.place_ty(p, env) if p is not None else None
        rv = None
        if rty is None:
            rv = self.ev(recv, env, items)
            rty = rv.ty
        if rty is not None and rty[0] == "struct":
            info = self.lookup_fn((rty[1], name))
            if info is None:
                raise TranslateError(f"method {rty[1]}::{name} is not translated / not declared extern")
            gvals = {g: V(t, T_NAT, True) for g, t in rty[2]}
            for (kind, g), a in zip([x for x in getattr(info, "fn_generics", [])], gargs):
                gvals[g] = self.const_arg(a)
            return self.apply(info, p if p is not None else rv, gvals, args, env, items, want)
        v = rv if rv is not None else self.read_place(p, env, items)
        if name == "len" and not args:
            return self.length(v)
        if name in ("to_be_bytes", "to_le_bytes") and not args:
            be = name == "to_be_bytes"
            if v.ty[0] == "word" and v.ty[1] in (32, 64):
                return V(f"u{v.ty[1]}{'be' if be else 'le'} {v.p()}", ("list", ("word", 8)))
            if v.ty[0] == "natw":
                return V(f"{'natToBE' if be else 'natToLE'} {v.ty[1] // 8} {v.p()}", ("list", ("word", 8)))
            raise TranslateError(f"{name} on {v.ty}")
        if name in ("wrapping_add", "wrapping_sub", "wrapping_mul") and len(args) == 1 and v.ty[0] == "word":
            b = self.coerce(self.ev(args[0], env, items, v.ty), v.ty)
            sym = {"wrapping_add": "+", "wrapping_sub": "-", "wrapping_mul": "*"}[name]
            return V(f"{v.p()} {sym} {b.p()}", v.ty)
        if name in ("iter", "as_ref", "as_slice", "clone") and not args and v.ty[0] in ("list", "custom"):
            return v if name != "iter" else self.as_list(v)
        raise TranslateError(f"unsupported method `{name}` on {v.ty}")

    def apply(self, info, recv, gvals, args, env, items, want, write_val=None):
        """call of a translated / extern function; returns the value (or None)"""
        if isinstance(info, Extern):
            return self.apply_extern(info, recv, args, env, items)
        texts, back = [], []         # back: (place, output index)
        for g in info.generics:
            if g not in gvals:
                raise TranslateError(f"call of {info.lean_name}: generic {g} is not determined")
            texts.append(gvals[g].p())
        outs = []
        if info.recv is not None:
            if recv is None:
                raise TranslateError("missing receiver")
            if isinstance(recv, V):
                if info.recv == "mut":
                    raise TranslateError("&mut self method on a temporary")
                texts.append(recv.p())
            else:
                texts.append(self.read_place(recv, env, items).p())
                if info.recv == "mut":
                    outs.append(("place", recv, info.recv_ty))
        if len(args) != len(info.params):
            raise TranslateError(f"call of {info.lean_name}: arity")
        clos_outs, mut_outs = [], []
        for a, (pn, pty, mode) in zip(args, info.params):
            if mode == "closure":
                ftext, splace, sv = self.closure_arg(a, info.closures[pn], env, items)
                texts += [ftext, sv.p()]
                clos_outs.append(("place", splace, sv.ty))
            elif mode == "mut":
                p = self.place_of(a, env, items)
                if p is None:
                    raise TranslateError("`&mut` argument is not a place")
                v = self.coerce(self.read_place(p, env, items), pty)
                texts.append(v.p())
                mut_outs.append(("place", p, v.ty))
            else:
                v = self.coerce(self.ev(a, env, items, pty), pty)
                self.check_ty(v.ty, pty, f"argument {pn} of {info.lean_name}")
                texts.append(v.p())
        if info.mode == "write":
            if write_val is None:
                raise TranslateError(f"{info.lean_name} returns a mutable borrow: only `*f() = e` is supported")
            texts.append(write_val.p())
        elif write_val is not None:
            raise TranslateError("store through a call that is not a write-mode kernel")
        outs += clos_outs + mut_outs
        ret_ty = info.ret_ty if info.mode != "write" else None
        if ret_ty is not None and info.ret_generic:
            ret_ty = self.subst_ty(ret_ty, gvals)
        if ret_ty is not None:
            outs.append(("ret", None, ret_ty))
        text = info.lean_name + "".join(" " + t for t in texts)
        return self.bind_outs(text, outs, info.fallible, env, items)

    def subst_ty(self, ty, gvals):
        if ty[0] == "struct":
            return ("struct", ty[1], tuple((g, gvals[t].t if t in gvals else t) for g, t in ty[2]))
        return ty

    def check_ty(self, got, exp, what):
        if got is None or exp is None:
            return
        g = ("struct", got[1]) if got[0] == "struct" else got
        x = ("struct", exp[1]) if exp[0] == "struct" else exp
        if g != x:
            raise TranslateError(f"{what}: type {got} where {exp} is expected")

    def bind_outs(self, text, outs, fallible, env, items):
        names = []
        for kind, place, ty in outs:
            names.append(self.fresh(self.place_name(place) if kind == "place" else "t"))
        if not outs:
            if fallible:
                items.append(("bind", "()", text))
            return None
        pat = tup(names)
        if fallible:
            items.append(("bind", pat, text))
        elif len(names) == 1:
            items.append(("let", pat, text))
        else:
            items.append(("bind0", pat, text))
        ret = None
        for (kind, place, ty), n in zip(outs, names):
            if kind == "place":
                self.write_place(place, V(n, ty, True), env, items)
            else:
                ret = V(n, ty, True)
        return ret

    def apply_extern(self, info, recv, args, env, items):
        texts, outs = [], []
        if info.recv is not None:
            texts.append(self.read_place(recv, env, items).p() if not isinstance(recv, V) else recv.p())
            if info.recv == "mut":
                outs.append(("place", recv, self.place_ty(recv, env)))
        if len(args) != len(info.args):
            raise TranslateError("extern arity")
        for a, (mode, ty) in zip(args, info.args):
            if mode == "mut":
                p = self.place_of(a, env, items)
                if p is None:
                    raise TranslateError("`&mut` argument is not a place")
                v = self.read_place(p, env, items)
                outs.append(("place", p, v.ty))
            else:
                v = self.coerce(self.ev(a, env, items, ty), ty)
            self.check_ty(v.ty, ty, "extern argument")
            texts.append(v.p())
        if info.ret is not None:
            outs.append(("ret", None, info.ret))
        return self.bind_outs(info.lean.format(*texts), outs, info.fallible, env, items)

    def closure_arg(self, a, cl, env, items):
        """(function text, state place, initial state value) for a closure argument"""
        if a[0] == "path" and a[1] in env.vars and env.vars[a[1]].ty[0] == "closure":
            mine = self.closures[env.vars[a[1]].ty[1]]
            return env.vars[a[1]].val.t, (mine["st"], []), self.var_whole(env, mine["st"])
        if a[0] != "closure":
            raise TranslateError("closure argument is not a closure literal")
        params, body = a[1], a[2]
        if len(params) != len(cl["argtys"]) or any(p[0][0] != "var" for p in params):
            raise TranslateError("closure parameters")
        # pass 1: which place does the body mutate?
        snap = self.snapshot()
        env1 = env.copy(); it1 = []
        for (pat, _), t in zip(params, cl["argtys"]):
            env1.vars[pat[1]] = Var(t, V(pat[1], t, True))
        self.expr_stmt(body, env1, it1)
        changed = self.changed_places(env, env1)
        self.restore(snap)
        if len(changed) != 1:
            raise TranslateError(f"a closure must mutate exactly one captured place, found {len(changed)}")
        place = changed[0]
        sty = self.place_ty(place, env)
        init = self.read_place(place, env, items)
        # pass 2: the place abstracted
        env2 = env.copy(); it2 = []
        s = self.fresh("s")
        self.write_place(place, V(s, sty, True), env2, it2)
        self.modlog.pop()
        binders = [f"({s} : {self.lean_ty(sty)})"]
        for (pat, _), t in zip(params, cl["argtys"]):
            n = self.fresh(pat[1])
            env2.vars[pat[1]] = Var(t, V(n, t, True))
            binders.append(f"({n} : {self.lean_ty(t)})")
        self.expr_stmt(body, env2, it2)
        out = self.read_place(place, env2, it2)
        sc = Scope("closure"); sc.forced = True
        blk = (it2, ("val", out.t)); sc.blocks.append(blk)
        lines = render_block(blk, "", sc)
        if len(lines) == 1:
            return f"(fun {' '.join(binders)} => {lines[0].strip()})", place, init
        # a separate definition over the captured variables it reads
        self.nclos += 1
        name = f"{self.k.lean_name}_c{self.nclos}"
        body_text = "\n".join(render_block(blk, "  ", sc))
        caps = self.captures(env2, body_text, exclude={s} | {b.split()[0][1:] for b in binders})
        self.defs.append(f"def {name} {self.sigma_binder()}{self.generic_binders(body_text)}" + "".join(f"({n} : {t}) " for n, t in caps)
                         + " ".join(binders) + f" : Option {par(self.lean_ty(sty))} :=\n{body_text}\n")
        gs = "".join(f" {g}" for g in self.generic_names(body_text))
        return "(" + name + gs + "".join(" " + n for n, _ in caps) + ")", place, init

    def changed_places(self, env0, env1):
        """minimal places whose value differs between env0 and env1 (variables of env0 only)"""
        out = []
        for name, v0 in env0.vars.items():
            v1 = env1.vars[name]
            if isinstance(v0.val, (Alias, Cursor)):
                continue
            paths = []
            self.diff(v0.val, v1.val, v0.ty, [], paths)
            if not paths:
                continue
            pre = paths[0]
            for q in paths[1:]:
                i = 0
                while i < len(pre) and i < len(q) and pre[i] == q[i]:
                    i += 1
                pre = pre[:i]
            out.append((name, [("f", f) for f in pre]))
        return out

    def diff(self, a, b, ty, path, out):
        if isinstance(a, V) and isinstance(b, V):
            if a.t != b.t:
                out.append(path)
            return
        if self.whole(a, ty).t == self.whole(b, ty).t:
            return
        if isinstance(a, V):
            a = self.explode(a, ty)
        if isinstance(b, V):
            b = self.explode(b, ty)
        for f, t in self.fields(ty):
            self.diff(a[f], b[f], t, path + [f], out)

    def changed_vars(self, env0, envs, mark):
        """variables of env0 whose whole value differs in one of envs, in order of first modification"""
        order = []
        for n in self.modlog[mark:]:
            if n not in order:
                order.append(n)
        out = []
        for n in order + [x for x in env0.vars if x not in order]:
            if n not in env0.vars or n in out:
                continue
            v0 = env0.vars[n]
            for e in envs:
                if self.state_text(e.vars[n]) != self.state_text(v0):
                    out.append(n)
                    break
        return out

    def state_text(self, var):
        if isinstance(var.val, Cursor):
            return "cursor:" + var.val.idx.t
        if isinstance(var.val, Alias):
            return "alias"
        return self.whole(var.val, var.ty).t

    # ---------------------------------------------------------------- unsafe idioms
    def idiom_write_bytes(self, args, env, items):
        if len(args) != 3 or args[0][0] != "method" or args[0][2] != "as_mut_ptr" or args[0][3]:
            raise TranslateError("ptr::write_bytes: only `write_bytes(x.as_mut_ptr(), c, n)`")
        p = self.place_of(args[0][1], env, items)
        if p is None or (p[1] and p[1][-1][0] in ("r", "i")):
            raise TranslateError("ptr::write_bytes on a non-place")
        ety = self.elem_ty(self.place_ty(p, env))
        c = self.coerce(self.ev(args[1], env, items, ety), ety)
        n = self.coerce(self.ev(args[2], env, items, T_NAT), T_NAT)
        self.write_place((p[0], p[1] + [("r", V("0", T_NAT, True), n)]), V(f"Glue.fill {n.p()} {c.p()}", ("list", ety)), env, items)
        return None

    def idiom_copy_nonoverlapping(self, args, env, items):
        if len(args) != 3:
            raise TranslateError("ptr::copy_nonoverlapping arity")
        src, dst = args[0], args[1]
        while dst[0] in ("cast", "ref", "paren"):
            dst = dst[1] if dst[0] != "ref" else dst[2]
        if src[0] != "path" or src[1] not in env.vars or not isinstance(env.vars[src[1]].val, Cursor):
            raise TranslateError("ptr::copy_nonoverlapping: source must be a pointer cursor")
        cur = env.vars[src[1]].val
        dp = self.place_of(dst, env, items)
        if dp is None or dp[1]:
            raise TranslateError("ptr::copy_nonoverlapping: destination must be a local array")
        n = self.coerce(self.ev(args[2], env, items, T_NAT), T_NAT)
        hi = V(f"{cur.idx.p()} + {n.p()}", T_NAT)
        v = self.read_place((cur.place[0], cur.place[1] + [("r", cur.idx, hi)]), env, items)
        old = self.read_place(dp, env, items)
        self.check(env, items, f"{old.p()}.length ≠ {n.p()}")
        self.write_place(dp, v, env, items)
        return None

    # ---------------------------------------------------------------- statements (linear)
    DIVERGE = ("unreachable_unchecked", "unreachable", "panic", "unimplemented")

    def diverges(self, e):
        while e[0] in ("block", "mblock") and len(e[1]) == 1 and e[1][0][0] in ("ret", "expr"):
            e = e[1][0][1]
        if e[0] == "call" and e[1][0] == "path" and e[1][1].split("::")[-1] in self.DIVERGE:
            return True
        return e[0] == "bmacro" and e[1] in self.DIVERGE

    def expr_stmt(self, e, env, items):
        k = e[0]
        if k == "call":
            self.call(e, env, items, None)
        elif k == "method":
            self.method(e, env, items, None)
        elif k == "if":
            self.join_if(e, env, items)
        elif k == "match":
            self.do_match(e, env, items)
        elif k in ("block", "mblock"):
            self.block_stmts(e[1], env, items)
        elif k == "bmacro":
            self.bmacro(e, env, items)
        elif k == "paren":
            self.expr_stmt(e[1], env, items)
        elif k == "tuple" and not e[1]:
            pass
        else:
            raise TranslateError(f"unsupported expression statement `{k}`")

    def bmacro(self, e, env, items):
        name, toks = e[1], e[2]
        if name not in ("assert", "assert_eq", "assert_ne"):
            raise TranslateError(f"macro {name}! is not supported here")
        p = GP(list(toks)); args = []
        while p.peek()[0] != "eof":
            args.append(p.expr())
            if p.at(","):
                p.eat()
            elif p.peek()[0] != "eof":
                raise TranslateError(f"{name}!: arguments")
        if name == "assert":
            if not args:
                raise TranslateError("assert!()")
            self.check(env, items, self.neg_cond(args[0], env, items))
        else:
            if len(args) < 2:
                raise TranslateError(f"{name}!: arguments")
            op = "!=" if name == "assert_eq" else "=="
            self.check(env, items, self.cond(("bin", op, args[0], args[1]), env, items))

    def do_match(self, e, env, items):
        """only `match <&mut [T; n]>::try_from(PLACE) { Ok(x) => …, Err(_) => <diverges> }`"""
        scrut, arms = e[1], e[2]
        if not (scrut[0] == "call" and scrut[1][0] == "qpath" and scrut[1][2] == "try_from" and len(arms) == 2):
            raise TranslateError("unsupported match")
        ok = err = None
        for pats, body in arms:
            if len(pats) != 1 or pats[0][0] != "tstruct" or len(pats[0][2]) != 1:
                raise TranslateError("unsupported match pattern")
            if pats[0][1] == "Ok":
                ok = (pats[0][2][0], body)
            elif pats[0][1] == "Err":
                err = (pats[0][2][0], body)
        if ok is None or err is None or not self.diverges(err[1]):
            raise TranslateError("match on try_from: the Err arm must diverge")
        p, cur = self.try_from(scrut, env, items, fail=True)
        if ok[0][0] == "wild":
            pass
        elif ok[0][0] == "var":
            if p is None:
                env.vars[ok[0][1]] = Var(cur.ty, cur)
            else:
                env.vars[ok[0][1]] = Var(cur.ty, Alias(p, cur.ty))
        else:
            raise TranslateError("Ok pattern")
        body = ok[1]
        if body[0] in ("block", "mblock"):
            self.block_stmts(body[1], env, items)
        else:
            self.expr_stmt(body, env, items)
        if ok[0][0] == "var":
            del env.vars[ok[0][1]]

    def block_stmts(self, stmts, env, items):
        """a nested block in linear position; its local variables go out of scope afterwards"""
        before = set(env.vars)
        for s in stmts:
            if s[0] == "ret":
                self.expr_stmt(s[1], env, items)
            else:
                self.stmt(s, env, items)
        for n in list(env.vars):
            if n not in before:
                del env.vars[n]

    def stmt(self, s, env, items):
        k = s[0]
        if k == "let":
            self.do_let(s, env, items)
        elif k == "assign":
            self.do_assign(s, env, items)
        elif k == "expr":
            self.expr_stmt(s[1], env, items)
        elif k == "for":
            self.do_for(s, env, items)
        elif k == "while":
            self.do_while(s, env, items)
        elif k == "return":
            raise TranslateError("`return` inside a loop body, closure or joined branch is not supported")
        elif k == "cfg":
            raise TranslateError("#[cfg] on a statement is not supported")
        else:
            raise TranslateError(f"unsupported statement `{k}`")

    def do_let(self, s, env, items):
        pat, tast, init = s[1], s[2], s[3]
        if pat[0] != "var":
            raise TranslateError("only `let x` patterns")
        name = pat[1]
        if init is None:
            raise TranslateError("`let` without initialiser")
        if tast is not None and tast[0] == "ptr":
            # raw pointer cursor: `let mut x: *mut T = a.get_unchecked_mut(0);`
            if init[0] == "method" and init[2] in ("get_unchecked_mut", "get_unchecked", "as_ptr", "as_mut_ptr"):
                p = self.place_of(init[1], env, items)
                idx = V("0", T_NAT, True)
                if init[2].startswith("get_unchecked"):
                    if len(init[3]) != 1:
                        raise TranslateError("get_unchecked arity")
                    idx = self.coerce(self.ev(init[3][0], env, items, T_NAT), T_NAT)
                if p is None:
                    raise TranslateError("pointer into a non-place")
                env.vars[name] = Var(("ptr",), Cursor(p, idx, self.elem_ty(self.place_ty(p, env)), tast[1]))
                return
            raise TranslateError("unsupported raw pointer initialiser")
        e = init
        if e[0] == "ref" and e[1]:
            p = self.place_of(e[2], env, items)
            if p is None:
                raise TranslateError("`&mut` of a non-place")
            if p[1] and p[1][-1][0] in ("r", "i"):
                self.read_place(p, env, items)        # Rust checks the range when the borrow is created, used or not
            env.vars[name] = Var(self.place_ty(p, env), Alias(p, self.place_ty(p, env)))
            return
        e0 = e
        while e0[0] == "paren":
            e0 = e0[1]
        if e0[0] == "path" and e0[1] in env.vars and (isinstance(env.vars[e0[1]].val, Alias) or env.vars[e0[1]].param is not None):
            # `let y = out;` moves a `&mut` borrow: y is the same place
            p = self.place_of(e0, env, items)
            env.vars[name] = Var(self.place_ty(p, env), Alias(p, self.place_ty(p, env)))
            return
        want = self.conv(tast) if tast is not None and tast[0] != "infer" else None
        v = self.ev(init, env, items, want, soft=want is None)
        wid = None
        if want is None and (v.ty is None or v.weak):
            self.nweak += 1
            wid = self.nweak
            self.wunion([wid] + sorted(v.weak))
        v = self.coerce(v, want or (T_NAT if v.ty is None else v.ty))
        n = self.fresh(name)
        items.append(("let", n, v.t))
        env.vars[name] = Var(v.ty, V(n, v.ty, True), weak=wid)

    OPASSIGN = {"+=": "+", "-=": "-", "*=": "*", "&=": "&", "|=": "|", "^=": "^", "<<=": "<<", ">>=": ">>"}

    def write_call(self, lhs):
        """`*x.f::<I>() = e` / `x.f::<1>()[0] = e`: (method call expr, index | None) when f is a write-mode kernel"""
        idx = None
        e = lhs
        if e[0] == "deref":
            e = e[1]
        elif e[0] == "index":
            idx, e = e[2], e[1]
        else:
            return None
        while e[0] == "paren":
            e = e[1]
        if e[0] != "method":
            return None
        return e, idx

    def do_assign(self, s, env, items):
        lhs, op, rhs = s[1], s[2], s[3]
        wc = self.write_call(lhs)
        if wc is not None:
            m, idx = wc
            p = self.place_of(m[1], env, items)
            rty = self.place_ty(p, env) if p is not None else None
            if rty is not None and rty[0] == "struct":
                info = self.lookup_fn((rty[1], m[2]))
                if isinstance(info, FnInfo) and info.mode == "write":
                    if op != "=":
                        raise TranslateError("compound store through a returned borrow")
                    gvals = {g: V(t, T_NAT, True) for g, t in rty[2]}
                    for (kind, g), a in zip(info.fn_generics, m[4] if len(m) > 4 else []):
                        gvals[g] = self.const_arg(a)
                    ety = info.write_ty[1]
                    if idx is None:
                        val = self.as_list(self.coerce(self.ev(rhs, env, items, info.write_ty), info.write_ty))
                    else:
                        # only `f::<1>()[0] = e`: the whole one-element array
                        n = gvals.get(info.write_len)
                        if not (idx[0] == "lit" and idx[1] == 0 and n is not None and n.t == "1"):
                            raise TranslateError("element store through a returned borrow is only supported for `[T; 1]`")
                        x = self.coerce(self.ev(rhs, env, items, ety), ety)
                        val = V(f"[{x.t}]", info.write_ty, True)
                    self.apply(info, p, gvals, m[3], env, items, None, write_val=val)
                    return
        if lhs[0] == "path" and lhs[1] in env.vars and isinstance(env.vars[lhs[1]].val, Cursor):
            # `x = x.add(k)`
            c = env.vars[lhs[1]].val
            if op == "=" and rhs[0] == "method" and rhs[2] == "add" and rhs[1] == lhs and len(rhs[3]) == 1:
                kx = self.coerce(self.ev(rhs[3][0], env, items, T_NAT), T_NAT)
                n = self.fresh(lhs[1] + "_ix")
                items.append(("let", n, f"{c.idx.p()} + {kx.p()}"))
                self.modlog.append(lhs[1])
                env.vars[lhs[1]].val = Cursor(c.place, V(n, T_NAT, True), c.ety, c.mut)
                return
            raise TranslateError("unsupported pointer assignment")
        l0 = lhs
        while l0[0] == "paren":
            l0 = l0[1]
        if l0[0] == "path" and l0[1] in env.vars and (isinstance(env.vars[l0[1]].val, Alias) or env.vars[l0[1]].param is not None):
            raise TranslateError(f"`{l0[1]} = …` re-binds a `&mut` borrow (only stores through it, `*{l0[1]} = …` / `{l0[1]}[i] = …`, are translated)")
        mark = len(self.modlog)
        p = self.place_of(lhs, env, items)
        if p is None:
            raise TranslateError("assignment to a non-place")
        place_wrote = len(self.modlog) != mark
        pty = self.place_ty(p, env)
        mark = len(self.modlog)
        dest_weak = env.vars[p[0]].weak if not p[1] else None
        if op == "=":
            v = self.ev(rhs, env, items, pty, soft=dest_weak is not None)
        else:
            v = self.binop_values(self.OPASSIGN[op], lhs, rhs, env, items, pty)
        if dest_weak is not None:
            if v.ty is None or v.weak:
                self.wunion([dest_weak] + sorted(v.weak))
            else:
                self.wfirm([dest_weak])
        elif v.weak:
            self.wfirm(v.weak)
        rhs_wrote = len(self.modlog) != mark
        # Rust evaluates the assigned value first, then the operands of the place expression (and, for `op=` on integers, reads the
        # place after the value).  Here the place comes first; that is the same unless an operand has an effect on the state.
        if place_wrote or (rhs_wrote and (op != "=" or any(st[0] in ("r", "i") for st in p[1]))):
            raise TranslateError("assignment whose operands have side effects: Rust's evaluation order (value, then place) is not translated")
        v = self.coerce(v, pty)
        self.check_ty(v.ty, pty, "assignment")
        if v.ty == T_BOOL and v.prop:
            v = V(f"decide {v.p()}", T_BOOL)
        if not (p[1] and p[1][-1][0] in ("r", "i")):
            n = self.fresh(self.place_name(p))
            items.append(("let", n, v.t))
            v = V(n, v.ty, True)
        self.write_place(p, v, env, items)

    def binop_values(self, op, lhs, rhs, env, items, ty):
        return self.binop(op, lhs, rhs, env, items, ty)

    # ---------------------------------------------------------------- joined `if`
    def join_if(self, e, env, items):
        c = self.cond(e[1], env, items)
        sc = Scope("if")
        mark = len(self.modlog)
        envA = env.copy(); itA = []
        self.block_stmts(e[2], envA, itA)
        envB = env.copy(); itB = []
        if e[3] is not None:
            self.block_stmts(e[3], envB, itB)
        changed = self.changed_vars(env, [envA, envB], mark)
        for n in changed:
            if isinstance(env.vars[n].val, (Alias, Cursor)):
                raise TranslateError("a pointer / borrow is changed in a branch")
        if not changed:
            tA = tB = ("val", "()")
            pat, lty = "()", "Unit"
        else:
            tA = ("val", tup([self.var_whole(envA, n).t for n in changed]))
            tB = ("val", tup([self.var_whole(envB, n).t for n in changed]))
            names = [self.fresh(n) for n in changed]
            pat = tup(names)
            lty = " × ".join(par(self.lean_ty(env.vars[n].ty)) for n in changed)
        ba, bb = (itA, tA), (itB, tB)
        sc.blocks += [ba, bb]
        if not changed and not sc.fallible():
            return
        items.append(("joinif", sc, pat, lty, c, ba, bb))
        for n, ln in zip(changed, names if changed else []):
            env.vars[n].val = V(ln, env.vars[n].ty, True)
            self.modlog.append(n)

    # ---------------------------------------------------------------- auxiliary definitions (loops, join points)
    def param_env(self, env):
        """an environment in which every variable of env is a fresh parameter; [(rust name, lean name, lean type, kind)]"""
        envK, plist = Env(), []
        for vn, var in env.vars.items():
            if isinstance(var.val, Alias):
                envK.vars[vn] = var
            elif isinstance(var.val, Cursor):
                pn = self.fresh(vn + "_ix")
                plist.append((vn, pn, "Nat", "cursor"))
                envK.vars[vn] = Var(var.ty, Cursor(var.val.place, V(pn, T_NAT, True), var.val.ety, var.val.mut), var.param, var.weak)
            elif var.ty[0] == "closure":
                cl = self.closures[var.ty[1]]
                plist.append((vn, var.val.t, cl["lean_ty"], "func"))
                envK.vars[vn] = var
            else:
                pn = self.fresh(vn)
                plist.append((vn, pn, self.lean_ty(var.ty), "var"))
                envK.vars[vn] = Var(var.ty, V(pn, var.ty, True), var.param, var.weak)
        return envK, plist

    def arg_text(self, env, vn, kind):
        var = env.vars[vn]
        if kind == "cursor":
            return var.val.idx.p()
        if kind == "func":
            return var.val.t
        return self.whole(var.val, var.ty).p()

    def sigma_binder(self):
        return "".join(f"{{{c['sigma']} : Type}} " for c in self.closures.values())

    def generic_names(self, text):
        used = names_in(text)
        out = [g for g in self.declared_generics if g in used]
        for g in out:
            self.generic(g)
        return out

    def generic_binders(self, text):
        return "".join(f"({g} : Nat) " for g in self.generic_names(text))

    def captures(self, env, text, exclude=()):
        used = names_in(text)
        out = []
        for vn, var in env.vars.items():
            if isinstance(var.val, V) and var.val.t in used and var.val.t not in exclude and ATOM.match(var.val.t):
                out.append((var.val.t, self.lean_ty(var.ty) if var.ty[0] != "closure" else self.closures[var.ty[1]]["lean_ty"]))
        return out

    def do_for(self, s, env, items):
        pat, rng, body = s[1], s[2], s[3]
        if pat[0] == "wild":
            lv = None
        elif pat[0] == "var":
            lv = pat[1]
        else:
            raise TranslateError("unsupported `for` pattern")
        if rng[0] == "paren":
            rng = rng[1]
        if rng[0] == "range" and rng[1] is not None and rng[2] is not None and (len(rng) < 4 or rng[3] == ".."):
            lo = self.coerce(self.ev(rng[1], env, items, T_NAT), T_NAT)
            hi = self.coerce(self.ev(rng[2], env, items, T_NAT), T_NAT)
            kind, lty = "count", T_NAT
            loop_args = [f"({hi.p()} - {lo.p()})", lo.p()]
        elif rng[0] == "method" and rng[2] == "iter" and not rng[3]:
            xs = self.as_list(self.ev(rng[1], env, items))
            kind, lty = "list", xs.ty[1]
            loop_args = [xs.p()]
        else:
            raise TranslateError("unsupported `for` iterator (only `a..b` and `xs.iter()`)")
        self.aux_loop(kind, lv, lty, loop_args, None, body, env, items)

    def do_while(self, s, env, items):
        ln = self.nloop + 1
        ftext = self.k.fuel.get(ln, self.k.fuel.get(str(ln)))
        if ftext is None:
            raise TranslateError(f"`while` loop #{ln}: the kernel spec names no fuel expression")
        p = GP(lex(ftext)); fe = p.expr()
        fuel = self.coerce(self.ev(fe, env, items, T_NAT), T_NAT)
        self.aux_loop("while", None, None, [fuel.p()], s[1], s[2], env, items)

    def aux_loop(self, kind, lv, lty, loop_args, cond, body, env, items):
        self.nloop += 1
        name = f"{self.k.lean_name}_loop{self.nloop}"
        # pass 1: which variables does the body modify?
        snap = self.snapshot(); nl = self.nloop
        mark = len(self.modlog)
        env1 = env.copy(); it1 = []
        if lv is not None:
            env1.vars[lv] = Var(lty, V(lv, lty, True))
        self.block_stmts(body, env1, it1)
        modified = self.changed_vars(env, [env1], mark)
        self.restore(snap); self.nloop = nl
        for n in modified:
            if isinstance(env.vars[n].val, Alias):
                raise TranslateError("a borrow is re-bound in a loop")
        # pass 2
        envL, plist = self.param_env(env)
        sc = Scope("loop"); sc.forced = kind == "while"
        pre = []
        markc = len(self.modlog)
        ctext = self.cond(cond, envL, pre) if kind == "while" else None
        if len(self.modlog) != markc:
            raise TranslateError("`while` condition with side effects (the effect of the last, failing evaluation would be lost)")
        itL = []
        envL.facts = set()
        if kind == "list":
            x = self.fresh(lv or "x"); rest = self.fresh("rest"); xs = self.fresh("xs")
            if lv is not None:
                envL.vars[lv] = Var(lty, V(x, lty, True))
            binders = [f"({xs} : {self.lean_ty(('list', lty))})"]
        elif kind == "count":
            cnt = self.fresh("cnt"); cnt1 = self.fresh("cnt"); i = self.fresh(lv or "i")
            if lv is not None:
                envL.vars[lv] = Var(T_NAT, V(i, T_NAT, True))
            binders = [f"({cnt} : Nat)", f"({i} : Nat)"]
        else:
            fu = self.fresh("fuel"); fu1 = self.fresh("fuel")
            binders = [f"({fu} : Nat)"]
        self.block_stmts(body, envL, itL)
        if lv is not None:
            envL.vars.pop(lv, None)
        kinds = {vn: (pn, lt, kd) for vn, pn, lt, kd in plist}
        mods = [(vn,) + kinds[vn] for vn in modified]
        mod_new = [self.arg_text(envL, vn, kinds[vn][2]) for vn in modified]
        base = tup([pn for _, pn, _, _ in mods]) if mods else "()"
        rty = " × ".join(par(lt) for _, _, lt, _ in mods) if mods else "Unit"
        dummy = Scope("x"); dummy.forced = True
        text0 = "\n".join(render_block((pre + itL, ("raw", " ".join(mod_new) + " " + (ctext or ""))), "", dummy))
        used = names_in(text0)
        invs = [(vn, pn, lt, kd) for vn, pn, lt, kd in plist if vn not in modified and pn in used]
        gens = self.generic_names(text0)
        head = name + "".join(f" {g}" for g in gens) + "".join(f" {pn}" for _, pn, _, _ in invs)
        if kind == "list":
            rec = ("raw", f"{head} {rest}" + "".join(" " + t for t in mod_new))
            blk = ([], ("match", xs, [("[]", ([], ("val", base))), (f"{x} :: {rest}", (itL, rec))]))
        elif kind == "count":
            rec = ("raw", f"{head} {cnt1} ({i} + 1)" + "".join(" " + t for t in mod_new))
            blk = ([], ("match", cnt, [("0", ([], ("val", base))), (f"{cnt1} + 1", (itL, rec))]))
        else:
            rec = ("raw", f"{head} {fu1}" + "".join(" " + t for t in mod_new))
            inner = ([], ("match", fu, [("0", ([], ("fail",))), (f"{fu1} + 1", (itL, rec))]))
            blk = (pre, ("if", ctext, inner, ([], ("val", base))))
        sc.blocks.append(blk)
        rt = f"Option {par(rty)}" if sc.fallible() else rty
        self.defs.append(f"def {name} {self.sigma_binder()}" + "".join(f"({g} : Nat) " for g in gens)
                         + "".join(f"({pn} : {lt}) " for _, pn, lt, _ in invs) + " ".join(binders)
                         + "".join(f" ({pn} : {lt})" for _, pn, lt, _ in mods) + f" : {rt} :=\n"
                         + "\n".join(render_block(blk, "  ", sc)) + "\n")
        # call site
        call = (name + "".join(f" {g}" for g in gens) + "".join(" " + self.arg_text(env, vn, kd) for vn, _, _, kd in invs)
                + "".join(" " + a for a in loop_args) + "".join(" " + self.arg_text(env, vn, kd) for vn, _, _, kd in mods))
        if not mods and not sc.fallible():
            return
        names = [self.fresh(vn + ("_ix" if kd == "cursor" else "")) for vn, _, _, kd in mods]
        items.append(("scall", tup(names) if names else "()", call, sc))
        for (vn, _, _, kd), n in zip(mods, names):
            var = env.vars[vn]
            if kd == "cursor":
                var.val = Cursor(var.val.place, V(n, T_NAT, True), var.val.ety, var.val.mut)
            else:
                var.val = V(n, var.ty, True)
            self.modlog.append(vn)

    # ---------------------------------------------------------------- control flow with `return` (continuation passing)
    def has_return(self, x):
        if isinstance(x, tuple):
            if x and x[0] == "return":
                return True
            if x and x[0] == "closure":
                return False
            return any(self.has_return(y) for y in x)
        if isinstance(x, list):
            return any(self.has_return(y) for y in x)
        return False

    def if_of(self, s):
        if s[0] in ("expr", "ret") and s[1][0] == "if" and self.has_return(s[1]):
            return s[1]
        return None

    def ft(self, stmts):
        """how many times the continuation of `stmts` is reached textually (see seq)"""
        for i, s in enumerate(stmts):
            if s[0] == "return":
                return 0
            e = self.if_of(s)
            if e is not None:
                n = self.ft(e[2]) + (self.ft(e[3]) if e[3] is not None else 1)
                return 0 if n == 0 else self.ft(stmts[i + 1:])
        return 1

    def seq(self, stmts, env, items, k):
        """translate stmts into `items`; returns the tail.  k(env, items, value expr | None) -> tail"""
        for i, s in enumerate(stmts):
            if s[0] == "return":
                return self.fn_end(env, items, s[1])
            e = self.if_of(s)
            if e is not None:
                rest = stmts[i + 1:]
                n = self.ft(e[2]) + (self.ft(e[3]) if e[3] is not None else 1)
                c = self.cond(e[1], env, items)
                if n >= 2:
                    k2 = self.make_join(rest, env, e, k)
                else:
                    def k2(env2, items2, value, rest=rest, k=k):
                        if value is not None:
                            self.expr_stmt(value, env2, items2)
                        return self.seq(rest, env2, items2, k)
                envA = env.copy(); itA = []
                tA = self.seq(e[2], envA, itA, k2)
                envB = env.copy(); itB = []
                tB = self.seq(e[3], envB, itB, k2) if e[3] is not None else k2(envB, itB, None)
                return ("if", c, (itA, tA), (itB, tB))
            if s[0] == "ret":
                if i != len(stmts) - 1:
                    raise TranslateError("value expression in the middle of a block")
                return k(env, items, s[1])
            self.stmt(s, env, items)
        return k(env, items, None)

    def make_join(self, rest, env, ife, k):
        """the continuation after an `if` several of whose branches fall through: a separate definition.
        Variables declared inside the branches are not visible to it (Rust scoping), so env (before the if) has all."""
        self.njoin += 1
        name = f"{self.k.lean_name}_k{self.njoin}"
        envK, plist = self.param_env(env)
        itK = []
        tK = self.seq(rest, envK, itK, k)
        blk = (itK, tK)
        self.main.blocks.append(blk)
        dummy = Scope("x"); dummy.forced = True
        text0 = "\n".join(render_block(blk, "", dummy))
        used = names_in(text0)
        params = [(vn, pn, lt, kd) for vn, pn, lt, kd in plist if pn in used]
        gens = self.generic_names(text0)
        self.joins.append((name, gens, params, blk))

        def k2(env2, items2, value):
            if value is not None:
                self.expr_stmt(value, env2, items2)
            return ("raw", name + "".join(f" {g}" for g in gens) + "".join(" " + self.arg_text(env2, vn, kd) for vn, _, _, kd in params))
        return k2

    def fn_end(self, env, items, value):
        sig = self.sig
        outs = []
        if value is not None and self.ret_ty is None and self.k.mode != "write":
            self.expr_stmt(value, env, items)
            value = None
        if self.k.mode == "write":
            if value is None:
                raise TranslateError("write-mode kernel without a returned place")
            p = self.place_of(value, env, items)
            if p is None:
                raise TranslateError("the returned expression is not a place")
            self.write_place(p, V("v", self.write_ty, True), env, items)
            value = None
        # the returned expression is evaluated FIRST: its effects on self / closure states / `&mut` parameters are part of the state
        # that is handed back (`fn f(&mut self) -> usize { self.bump() }`)
        vtext = None
        if self.ret_ty is not None:
            if value is None:
                raise TranslateError("missing return value")
            v = self.coerce(self.ev(value, env, items, self.ret_ty), self.ret_ty)
            self.check_ty(v.ty, self.ret_ty, "return value")
            vtext = v.t
        elif value is not None:
            raise TranslateError("a value is returned from a function without return type")
        if sig["recv"] == "mut":
            outs.append(self.var_whole(env, "self").t)
        for pn, pty, mode in self.params:
            if mode == "closure":
                outs.append(self.var_whole(env, self.closures_by_param[pn]["st"]).t)
        for pn, pty, mode in self.params:
            if mode == "mut":
                if getattr(env.vars.get(pn), "param", None) != pn:
                    raise TranslateError(f"the `&mut` parameter `{pn}` is shadowed at the end of the function")
                outs.append(self.var_whole(env, pn).t)
        if vtext is not None:
            outs.append(vtext)
        return ("val", tup(outs) if outs else "()")

    # ---------------------------------------------------------------- one function
    def source(self):
        """(header text, body tokens) of the kernel's function; item-level macros expanded"""
        k = self.k
        text = self.cfg.src(k.file)
        if k.macro:
            text = expand_item_macro(self.cfg, k.file, k.macro, k.macro_args or (re.escape(k.fn) + r"\s*,"))
        # bounded `impl` region, unique live match, item-level #[cfg] evaluated (tools/ktx_glue_guard.py); then the body lint:
        # statement attributes, nested items, inner-block shadowing and re-bound `&mut` parameters are refused; `let x = &mut PLACE`
        # aliases are write-through here (class Alias)
        hdr, body = GUARD.find_fn(text, k.fn, k.scope, strip=False)
        GUARD.lint_fn(hdr, body, what=f"fn {k.fn}", alias_ok=True, weak_lit_ok=True)
        GUARD.check_fn_uses(k.file, self.cfg.src(k.file), hdr, body, what=f"fn {k.fn}")
        return hdr, lex(body)

    def run(self):
        k = self.k
        hdr, btoks = self.source()
        sig = self.sig = parse_header(hdr)
        if sig["name"] != k.fn:
            raise TranslateError("function name mismatch")
        body = parse_body(btoks)
        self.declared_generics = list(k.impl_generics) + [g[1] for g in sig["generics"] if g[0] == "const"]
        self.generics = {g: V(g, T_NAT, True) for g in self.declared_generics}
        nclos = sum(1 for g in sig["generics"] if g[0] == "closure")
        self.base_name = {}
        for g in sig["generics"]:
            if g[0] == "closure":
                pn = next((n for n, t in sig["params"] if t[0] == "path" and t[1] == g[1]), None)
                if pn is None:
                    raise TranslateError(f"closure type {g[1]} is not the type of a parameter")
                self.closures[g[1]] = dict(param=pn, st=pn + "#st", sigma="σ" if nclos == 1 else f"σ_{pn}", argtys=None)
                self.base_name[pn + "#st"] = "st" if nclos == 1 else f"st_{pn}"
        for g in sig["generics"]:
            if g[0] == "closure":
                cl = self.closures[g[1]]
                cl["argtys"] = [self.conv(t) for t in g[2]]
                cl["lean_ty"] = " → ".join([cl["sigma"]] + [par(self.lean_ty(t)) for t in cl["argtys"]] + [f"Option {cl['sigma']}"])
        self.closures_by_param = {c["param"]: c for c in self.closures.values()}
        env = Env()
        binders = []
        self.recv_ty = None
        if sig["recv"] is not None:
            if k.impl is None:
                raise TranslateError("method without impl type")
            self.recv_ty = self.self_ty()
            self.fresh("self")
            env.vars["self"] = Var(self.recv_ty, V("self", self.recv_ty, True))
            binders.append(f"(self : {self.lean_ty(self.recv_ty)})")
        self.params = []
        for pn, tast in sig["params"]:
            ln = self.fresh(pn)
            if tast[0] == "path" and tast[1] in self.closures:
                cl = self.closures[tast[1]]
                env.vars[pn] = Var(("closure", tast[1]), V(ln, ("closure", tast[1]), True))
                sn = self.fresh(cl["st"])
                sty = ("state", cl["sigma"])
                env.vars[cl["st"]] = Var(sty, V(sn, sty, True))
                binders += [f"({ln} : {cl['lean_ty']})", f"({sn} : {cl['sigma']})"]
                self.params.append((pn, None, "closure"))
                continue
            ty = self.conv(tast)
            mode = "mut" if (tast[0] == "ref" and tast[1]) else "val"
            env.vars[pn] = Var(ty, V(ln, ty, True), param=pn if mode == "mut" else None)
            binders.append(f"({ln} : {self.lean_ty(ty)})")
            self.params.append((pn, ty, mode))
        self.ret_ty = None
        self.write_ty = None
        write_len = None
        if sig["ret"] is not None:
            r = sig["ret"]
            if k.mode == "write":
                if not (r[0] == "ref" and r[1] and r[2][0] in ("arr", "slice")):
                    raise TranslateError("write-mode kernel must return `&mut [T; n]`")
                self.write_ty = self.conv(r)
                if r[2][0] == "arr" and r[2][2][0] == "path":
                    write_len = r[2][2][1]
                self.fresh("v")
                binders.append(f"(v : {self.lean_ty(self.write_ty)})")
            else:
                if r[0] == "ref" and r[1]:
                    raise TranslateError("a function returning `&mut` needs mode=\"write\"")
                self.ret_ty = self.conv(r)
                if self.ret_ty == T_UNIT:
                    self.ret_ty = None
        elif k.mode == "write":
            raise TranslateError("write-mode kernel without return type")
        self.joins = []
        items = []
        tail = self.seq(body, env, items, self.fn_end)
        blk = (items, tail)
        self.main.blocks.append(blk)
        for ids in self.weak_casts:
            if any(self.wfind(i) not in self.weak_firm for i in ids):
                raise TranslateError("`as` cast of a value whose integer type comes only from unsuffixed literals: rustc infers i32 there, "
                                     "the translation assumes usize (write the type or a literal suffix)")
        # result type
        outs = []
        if sig["recv"] == "mut":
            outs.append(self.lean_ty(self.recv_ty))
        outs += [self.closures_by_param[pn]["sigma"] for pn, _, m in self.params if m == "closure"]
        outs += [self.lean_ty(t) for _, t, m in self.params if m == "mut"]
        if self.ret_ty is not None:
            outs.append(self.lean_ty(self.ret_ty))
        rty = " × ".join(par(o) for o in outs) if outs else "Unit"
        fallible = self.main.fallible()
        rt = f"Option {par(rty)}" if fallible else rty
        # render: generics used anywhere in the main definition / its joins
        main_lines = render_block(blk, "  ", self.main)
        self.generic_names("\n".join(main_lines) + " " + " ".join(binders))
        out = list(self.defs)
        for name, gens, params, jb in self.joins:
            out.append(f"def {name} {self.sigma_binder()}" + "".join(f"({g} : Nat) " for g in gens)
                       + " ".join(f"({pn} : {lt})" for _, pn, lt, _ in params) + f" : {rt} :=\n"
                       + "\n".join(render_block(jb, "  ", self.main)) + "\n")
        gens = [g for g in self.declared_generics if g in self.used_generics]
        k.params = self.sigma_binder() + "".join(f"({g} : Nat) " for g in gens) + " ".join(binders)
        doc = f"/-- {k.doc + ' — ' if k.doc else ''}GENERATED from `fn {k.fn}` in {k.file}" + (f" (`{k.macro}!`)" if k.macro else "") + " -/\n"
        k.params = k.params.strip()
        out.append(doc + f"def {k.lean_name} {k.params} : {rt} :=\n" + "\n".join(main_lines) + "\n")
        ret_generic = self.ret_ty is not None and self.ret_ty[0] == "struct" and any(t in self.declared_generics for _, t in self.ret_ty[2])
        self.cfg.fns[k.key] = FnInfo(lean_name=k.lean_name, generics=gens,
                                     fn_generics=[g for g in sig["generics"] if g[0] == "const"], recv=sig["recv"],
                                     recv_ty=self.recv_ty, params=self.params,
                                     closures={c["param"]: c for c in self.closures.values()}, ret_ty=self.ret_ty,
                                     ret_generic=ret_generic, fallible=fallible, mode=k.mode, write_ty=self.write_ty,
                                     write_len=write_len)
        return "\n".join(out)

    def self_ty(self):
        sd = self.cfg.structs.get(self.k.impl)
        if sd is None:
            raise TranslateError(f"impl type {self.k.impl} is not a declared struct")
        return ("struct", self.k.impl, tuple((g, g) for g in sd.get("generics", [])))



def untok(toks):
    return " ".join(f"{t[1]}{t[2] or ''}" if t[0] == "int" else str(t[1]) for t in toks)   # (literal suffixes kept)


def expand_item_macro(cfg, file, macro, args_re):
    """text of the items an item-level invocation `macro!(<args matching args_re> …)` expands to (nested invocations
    of the same macro — `digest!(@internal …)` — are expanded too)"""
    key = (file, macro, args_re)
    if key in cfg._expanded:
        return cfg._expanded[key]
    text = cfg.src(file)
    ms = list(re.finditer(r"\b" + re.escape(macro) + r"\s*!\s*\(\s*" + args_re, text))
    if len(ms) != 1:
        raise TranslateError(f"invocation {macro}!({args_re} …): {len(ms)} matches in {file}")
    j = text.index("(", ms[0].start())
    end = KW.Sources.balanced(text, j)
    md = re.search(r"\bmacro_rules\s*!\s*" + re.escape(macro) + r"\s*([\(\[\{])", text)
    if not md:
        raise TranslateError(f"macro {macro} not found in {file}")
    mend = KW.Sources.balanced(text, md.end() - 1)
    mac = KW.Macro(macro, lex(text[md.end() - 1:mend]))

    def expand(args, depth):
        if depth > 8:
            raise TranslateError("macro recursion")
        for pat, body in mac.rules:
            r = mac.match(pat, args, 0)
            if r is not None:
                toks = mac.transcribe(body, r[0], 1, set())
                break
        else:
            raise TranslateError(f"macro {macro}!: no rule matches")
        out, i = [], 0
        while i < len(toks):
            t = toks[i]
            if t[0] == "id" and t[1] == macro and i + 2 < len(toks) and isop(toks[i + 1], "!") and isop(toks[i + 2], "(", "[", "{"):
                c = match_close(toks, i + 2)
                out += expand(toks[i + 3:c], depth + 1)
                i = c + 1
                if i < len(toks) and isop(toks[i], ";"):
                    i += 1
                continue
            out.append(t)
            i += 1
        return out
    res = untok(expand(lex(text[j + 1:end - 1]), 0))
    cfg._expanded[key] = res
    return res


def struct_decl(cfg, key):
    """[(field, type ast)] of the Rust struct declaration"""
    sd = cfg.structs[key]
    text = cfg.src(sd["file"])
    if sd.get("macro"):
        text = expand_item_macro(cfg, sd["file"], sd["macro"], sd["macro_args"])
    rust = sd.get("rust", key.split("::")[-1])
    ms = list(re.finditer(r"\bstruct\s+" + re.escape(rust) + r"\b[^{;(]*\{", text))
    if len(ms) != 1:
        raise TranslateError(f"struct {rust}: {len(ms)} declarations in {sd['file']}")
    end = KW.Sources.balanced(text, ms[0].end() - 1)
    p = GP(lex(text[ms[0].end():end - 1]))
    out = []
    while p.peek()[0] != "eof":
        if p.at("#"):
            p.eat(); p.i = match_close(p.t, p.i) + 1
            continue
        if p.atid("pub"):
            p.eat()
            if p.at("("):
                p.i = match_close(p.t, p.i) + 1
        f = p.eat()[1]; p.eat(":"); t = p.ty()
        out.append((f, t))
        if p.at(","):
            p.eat()
    return out


def translate_struct(k: GStruct):
    cfg = k.cfg
    sd = cfg.structs[k.key]
    fake = GK(cfg, file=sd["file"], fn="", lean_name=k.lean_name, impl=k.key, impl_generics=sd.get("generics", []))
    tr = Tr(fake)
    tr.declared_generics = list(sd.get("generics", []))
    sty = ("struct", k.key, tuple((g, g) for g in sd.get("generics", [])))
    fl = tr.fields(sty)
    lean = sd["lean"]
    k.params = " ".join(f"({f} : {tr.lean_ty(t)})" for f, t in fl)
    return (f"/-- the fields of `struct {sd.get('rust', k.key)}` ({sd['file']}) — GENERATED; elaborates only if the hand model's\n"
            f"    structure `{lean}` has exactly these fields with these types -/\n"
            f"def {k.lean_name} {k.params} : {lean} :=\n  {{ " + ", ".join(f"{f} := {f}" for f, _ in fl) + " }\n")


def translate(k):
    if getattr(k, "kind", "fn") == "struct":
        return translate_struct(k)
    return Tr(k).run()


# ------------------------------------------------------------------------------------------------------ self test

SELFTEST_SRC = r'''
pub struct Stage { total: usize, buf: [u8; 8], idx: usize, flag: bool }
impl Stage {
    // joined if/else without failure, && condition, bool store
    pub fn bump(&mut self, n: usize) {
        if n > 3 && self.idx < 8 { self.total += n; } else { self.total = self.total * 2; }
        self.flag = n == 0;
    }
    // data-dependent while loop (fuel), slice re-binding, element access
    pub fn drain(&mut self, data: &[u8]) -> usize {
        let mut m = data;
        let mut k = 0;
        while m.len() >= 2 {
            self.buf[self.idx] = m[1];
            self.idx += 1;
            m = &m[2..];
            k += 1;
        }
        k
    }
    pub fn bad_break(&mut self) { for i in 0..4 { if i == 2 { break; } } }
    pub fn bad_word_add(&mut self, a: u32, b: u32) -> u32 { a + b }
    pub fn bad_while(&mut self) { while self.idx < 4 { self.idx += 1; } }
    pub fn bad_return_in_loop(&mut self) { for i in 0..4 { if i == self.idx { return; } } }
    pub fn bad_method(&mut self, d: &[u8]) -> usize { d.iter().count() }
    pub fn bad_question(&mut self, d: &[u8]) { let x = foo(d)?; }
    pub fn two_fields(&mut self, d: &[u8]) { each(d, |x| { self.idx += 1; self.total += x.len(); }); }
    pub fn bad_two_roots(&mut self, d: &[u8]) { let mut c = 0; each(d, |x| { self.idx += 1; c += 1; }); }
}
pub fn each<F: FnMut(&[u8])>(d: &[u8], mut f: F) { f(d); }
'''


def selftest(lean=False):
    """positive: synthetic glue + (if /repo has it) Poly1305::input translate; negative: unsupported Rust raises"""
    F = "selftest.rs"
    cfg = GlueCfg(structs={"Stage": dict(lean="Stage", file=F)})
    cfg._src[F] = strip_comments(SELFTEST_SRC)
    base = dict(file=F, scope=r"impl Stage \{", impl="Stage")
    out = [translate(GStruct(cfg, "Stage"))]
    out.append(translate(GK(cfg, fn="each", file=F, lean_name="each_src")))
    for fn, kw in (("bump", {}), ("drain", {"fuel": {1: "data.len()"}}), ("two_fields", {})):
        out.append(translate(GK(cfg, fn=fn, lean_name=f"Stage.{fn}_src", **base, **kw)))
    bad = 0
    for fn in ("bad_break", "bad_word_add", "bad_while", "bad_return_in_loop", "bad_method", "bad_question", "bad_two_roots"):
        try:
            translate(GK(cfg, fn=fn, lean_name=f"Stage.{fn}_src", **base))
            print(f"SELFTEST FAIL: {fn} was translated")
            bad += 1
        except TranslateError as e:
            print(f"ok  refused {fn}: {e}")
    text = ("import CxVerif.Util.GlueRt\nimport CxVerif.Util.Bytes\nopen Cx\n"
            "structure Stage where\n  total : Nat\n  buf : Bytes\n  idx : Nat\n  flag : Bool\n\n" + "\n".join(out))
    if lean:
        import subprocess
        import tempfile
        d = os.path.join(os.path.dirname(os.path.dirname(os.path.abspath(__file__))), "lean")
        with tempfile.NamedTemporaryFile("w", suffix=".lean", delete=False) as f:
            f.write(text)
        p = subprocess.run(["lake", "env", "lean", f.name], cwd=d, stdout=subprocess.PIPE, stderr=subprocess.STDOUT, text=True)
        os.unlink(f.name)
        if p.returncode != 0:
            print("SELFTEST FAIL: Lean rejects the positive translations\n" + p.stdout[-3000:])
            bad += 1
        else:
            print("ok  Lean accepts the positive translations")
    else:
        print(text)
    return bad


if __name__ == "__main__":
    import sys
    sys.exit(1 if selftest("--lean" in sys.argv) else 0)
