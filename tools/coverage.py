#!/usr/bin/env python3
"""coverage.py [--tier quick|thorough] [--props C01,C02,…] [--json out.json]

Generator-quality measurement (not a check): builds the harness with `-C instrument-coverage` (nightly toolchain,
whose llvm-tools component provides llvm-profdata / llvm-cov), runs the correspondence workload of the given
properties against the REAL crate and reports, per source file of /repo/src, the lines and regions the workload
executed and the uncovered line ranges.  The result is written to /verif/coverage/summary.json and is quoted in
DESIGN.md; it tells where the differential tie is blind (those places are then covered by the translator tie or
by new generators)."""
import glob
import importlib
import json
import os
import subprocess
import sys

sys.path.insert(0, os.path.dirname(os.path.abspath(__file__)))
import cxlib as cx  # noqa: E402

TC = "nightly"
VARIANT_FLAGS = {"default": ("", []), "force32": ("", ["force-32bits"]), "avx2": ("-C target-feature=+sse4.1,+avx,+avx2", []),
                 "sse41": ("-C target-feature=+sse4.1", [])}


def tool(name):
    r = subprocess.run(["rustc", "+" + TC, "--print", "sysroot"], capture_output=True, text=True)
    for p in glob.glob(os.path.join(r.stdout.strip(), "lib/rustlib/*/bin/" + name)):
        return p
    raise SystemExit(name + " not found in the nightly toolchain")


def build(variant):
    rf, feats = VARIANT_FLAGS[variant]
    tdir = os.path.join(cx.CACHE, "target-cov-" + variant)
    env = dict(os.environ, CARGO_TARGET_DIR=tdir, CARGO_NET_OFFLINE="true",
               RUSTFLAGS=f"--cfg {cx.GUARD} -C instrument-coverage {rf}".strip())
    cmd = ["cargo", "+" + TC, "build", "--offline", "--quiet"]
    if feats:
        cmd += ["--features", ",".join(feats)]
    r = subprocess.run(cmd, cwd=cx.HARNESS, env=env, capture_output=True, text=True)
    if r.returncode:
        raise SystemExit("coverage build failed:\n" + r.stderr[-3000:])
    return os.path.join(tdir, "debug", "cxharness")


def main():
    tier = "quick"
    props = [f"C{i:02d}" for i in range(1, 21)]
    out_json = None
    a = sys.argv[1:]
    if "--tier" in a:
        tier = a[a.index("--tier") + 1]
    if "--props" in a:
        props = a[a.index("--props") + 1].split(",")
    if "--json" in a:
        out_json = a[a.index("--json") + 1]
    seed = int(os.environ.get("VERIF_SEED", "20260927"))
    covdir = os.path.join(cx.VERIF, "coverage")
    raw = os.path.join(cx.CACHE, "covraw")
    os.makedirs(covdir, exist_ok=True)
    subprocess.run(["rm", "-rf", raw])
    os.makedirs(raw)
    bins = {}
    ncases = 0
    for p in props:
        P = importlib.import_module("props." + p)
        variants = [v for v in getattr(P, "VARIANTS", ["default"]) if v in VARIANT_FLAGS]
        lines = [l for l, _ in P.gen(tier, cx.Rng(seed))]
        ncases += len(lines)
        for v in variants or ["default"]:
            if v not in bins:
                bins[v] = build(v)
            os.environ["LLVM_PROFILE_FILE"] = os.path.join(raw, f"{p}-{v}-%p-%m.profraw")
            cx.run_exec([bins[v], "run"], lines)
        cx.log(f"[coverage] {p}: {len(lines)} cases through {variants or ['default']}")
    prof = os.path.join(raw, "all.profdata")
    subprocess.run([tool("llvm-profdata"), "merge", "-sparse", "-o", prof] + glob.glob(os.path.join(raw, "*.profraw")), check=True)
    objs = []
    for b in bins.values():
        objs += ["-object", b]
    rep = subprocess.run([tool("llvm-cov"), "export", "-format=text", "-instr-profile", prof] + objs[1:2] + sum([["-object", b] for b in list(bins.values())[1:]], []),
                         capture_output=True, text=True)
    if rep.returncode:
        raise SystemExit("llvm-cov failed: " + rep.stderr[-2000:])
    data = json.loads(rep.stdout)
    files = {}
    for f in data["data"][0]["files"]:
        name = f["filename"]
        if "/src/" not in name or not name.startswith(cx.REPO):
            continue
        rel = os.path.relpath(name, cx.REPO)
        # uncovered lines from segments: (line, col, count, hasCount, isRegionEntry, isGap)
        covered, uncovered = set(), set()
        segs = f["segments"]
        for i, s in enumerate(segs):
            if not s[3]:
                continue
            end = segs[i + 1][0] if i + 1 < len(segs) else s[0]
            tgt = covered if s[2] > 0 else uncovered
            for ln in range(s[0], max(s[0], end) + (0 if (i + 1 < len(segs) and segs[i + 1][1] == 1) else 1)):
                tgt.add(ln)
        only_un = sorted(uncovered - covered)
        ranges, start, prev = [], None, None
        for ln in only_un:
            if start is None:
                start = prev = ln
            elif ln == prev + 1:
                prev = ln
            else:
                ranges.append((start, prev))
                start = prev = ln
        if start is not None:
            ranges.append((start, prev))
        sm = f["summary"]
        files[rel] = {"lines": sm["lines"]["count"], "lines_covered": sm["lines"]["covered"],
                      "regions": sm["regions"]["count"], "regions_covered": sm["regions"]["covered"],
                      "functions": sm["functions"]["count"], "functions_covered": sm["functions"]["covered"],
                      "uncovered_line_ranges": [f"{a}-{b}" if a != b else str(a) for a, b in ranges]}
    tot_l = sum(f["lines"] for f in files.values())
    tot_c = sum(f["lines_covered"] for f in files.values())
    summary = {"tier": tier, "properties": props, "cases": ncases, "variants": sorted(bins),
               "total_lines": tot_l, "total_lines_covered": tot_c,
               "line_coverage_percent": round(100.0 * tot_c / max(1, tot_l), 2), "files": files}
    with open(out_json or os.path.join(covdir, "summary.json"), "w") as fo:
        json.dump(summary, fo, indent=1)
    for rel, f in sorted(files.items()):
        pct = 100.0 * f["lines_covered"] / max(1, f["lines"])
        print(f"{pct:6.1f}%  {f['lines_covered']:5d}/{f['lines']:5d}  fn {f['functions_covered']}/{f['functions']}  {rel}  "
              + (" uncovered: " + ",".join(f["uncovered_line_ranges"][:12]) if f["uncovered_line_ranges"] else ""))
    print(f"TOTAL {summary['line_coverage_percent']}% of {tot_l} lines, {ncases} cases, variants {sorted(bins)}")


if __name__ == "__main__":
    main()
