#!/usr/bin/env python3
"""Translator: constant tables of /repo/src -> lean/CxVerif/Extracted/*.lean, regenerated on every run.

Each unit registers its tables in tools/extractors/<unit>.py as

    TABLES = [ Table(lean_file="Sha2", lean_name="K32", rust_name="K32", files="src/hashing/sha2/**/*.rs",
                     elem="UInt32", scope=None), ... ]

`rust_name` is searched (by name, in every file matching `files`) as `const|static NAME : T = <init> ;`
or `let NAME (: T)? = <init> ;`; `scope` optionally restricts the search to the body of `fn scope`/`mod scope`/
`impl scope`.  The initializer is parsed with a small Rust constant-expression evaluator (integer literals
with suffixes and `_`, nested arrays, `[x; n]` repeats, tuple-struct and struct literals (fields in source
order), references to other constants of the same file, + - * << >> | & ^ and parentheses, `as T` ignored).
The value is emitted as a (nested) Lean list literal of `elem`.
Lean files are rewritten only when their content changes.
"""
import glob
import importlib
import os
import pkgutil
import re
import sys
from dataclasses import dataclass, field
from typing import Optional

VERIF = os.path.dirname(os.path.dirname(os.path.abspath(__file__)))
REPO = os.environ.get("CX_REPO", "/repo")
OUT = os.path.join(VERIF, "lean", "CxVerif", "Extracted")


@dataclass
class Table:
    lean_file: str            # Extracted/<lean_file>.lean
    lean_name: str            # def name inside namespace Cx.Extracted.<lean_file>
    rust_name: str
    files: str                # glob relative to /repo
    elem: str = "Nat"         # Lean element type: Nat, Int, UInt8, UInt32, UInt64
    scope: Optional[str] = None
    flatten: bool = False     # flatten nested structure into one list
    doc: str = ""
    post: Optional[object] = None   # optional python function value -> value


class ExtractError(Exception):
    pass


def strip_rust_comments(src):
    src = re.sub(r"/\*.*?\*/", lambda m: "\n" * m.group(0).count("\n"), src, flags=re.S)
    src = re.sub(r"//[^\n]*", "", src)
    return src


TOK = re.compile(r"\s*((?:0x[0-9a-fA-F_]+|0b[01_]+|0o[0-7_]+|[0-9][0-9_]*)(?:[ui](?:8|16|32|64|128|size))?|[A-Za-z_][A-Za-z0-9_]*(?:::[A-Za-z_][A-Za-z0-9_]*)*|<<|>>|[\[\](){};,:+\-*|&^!=.]|b?\"(?:[^\"\\]|\\.)*\")")
SUFFIX = re.compile(r"(?:_?(?:u8|u16|u32|u64|u128|usize|i8|i16|i32|i64|i128|isize))$")


def tokenize(s):
    out, i = [], 0
    s = s.strip()
    while i < len(s):
        m = TOK.match(s, i)
        if not m:
            if s[i:].strip() == "":
                break
            raise ExtractError(f"cannot tokenize near {s[i:i+30]!r}")
        out.append(m.group(1))
        i = m.end()
    return out


class Eval:
    def __init__(self, toks, resolver):
        self.t, self.i, self.res = toks, 0, resolver

    def peek(self):
        return self.t[self.i] if self.i < len(self.t) else None

    def eat(self, x=None):
        tok = self.peek()
        if x is not None and tok != x:
            raise ExtractError(f"expected {x!r} got {tok!r}")
        self.i += 1
        return tok

    def expr(self):
        return self.bor()

    def bor(self):
        v = self.bxor()
        while self.peek() == "|":
            self.eat(); v = v | self.bxor()
        return v

    def bxor(self):
        v = self.band()
        while self.peek() == "^":
            self.eat(); v = v ^ self.band()
        return v

    def band(self):
        v = self.shift()
        while self.peek() == "&":
            self.eat(); v = v & self.shift()
        return v

    def shift(self):
        v = self.add()
        while self.peek() in ("<<", ">>"):
            op = self.eat(); w = self.add()
            v = v << w if op == "<<" else v >> w
        return v

    def add(self):
        v = self.mul()
        while self.peek() in ("+", "-"):
            op = self.eat(); w = self.mul()
            v = v + w if op == "+" else v - w
        return v

    def mul(self):
        v = self.unary()
        while self.peek() == "*":
            self.eat(); v = v * self.unary()
        return v

    def unary(self):
        if self.peek() == "-":
            self.eat(); return -self.unary()
        if self.peek() == "&":
            self.eat(); return self.unary()
        v = self.atom()
        while self.peek() == "[" and isinstance(v, list):     # postfix indexing CONST[i]
            self.eat(); idx = self.expr(); self.eat("]"); v = v[idx]
        while self.peek() == "as":
            self.eat(); self.eat()
        return v

    def atom(self):
        tok = self.peek()
        if tok is None:
            raise ExtractError("unexpected end")
        if tok == "(":
            self.eat()
            v = self.expr()
            if self.peek() == ",":      # tuple
                items = [v]
                while self.peek() == ",":
                    self.eat()
                    if self.peek() == ")":
                        break
                    items.append(self.expr())
                v = items
            self.eat(")")
            return v
        if tok == "[":
            self.eat()
            items = []
            if self.peek() == "]":
                self.eat(); return items
            first = self.expr()
            if self.peek() == ";":
                self.eat(); n = self.expr(); self.eat("]")
                return [first] * n
            items.append(first)
            while self.peek() == ",":
                self.eat()
                if self.peek() == "]":
                    break
                items.append(self.expr())
            self.eat("]")
            return items
        if re.match(r"0x|0b|0o|[0-9]", tok):
            self.eat()
            t = SUFFIX.sub("", tok).replace("_", "")
            return int(t, 0) if not t.startswith("0o") else int(t[2:], 8)
        if tok.startswith('b"') or tok.startswith('"'):
            self.eat()
            body = tok[tok.index('"') + 1:-1]
            return list(bytes(body, "latin1").decode("unicode_escape").encode("latin1"))
        if re.match(r"[A-Za-z_]", tok):
            self.eat()
            nxt = self.peek()
            if nxt == "(":               # tuple struct / call: Name(a, b, ...)
                self.eat()
                items = []
                while self.peek() != ")":
                    items.append(self.expr())
                    if self.peek() == ",":
                        self.eat()
                self.eat(")")
                return items[0] if len(items) == 1 and tok.split("::")[-1] in ("Fe", "Scalar") else items
            if nxt == "{":               # struct literal: values in source order
                self.eat()
                items = []
                while self.peek() != "}":
                    self.eat()           # field name
                    self.eat(":")
                    items.append(self.expr())
                    if self.peek() == ",":
                        self.eat()
                self.eat("}")
                return items
            return self.res(tok)
        raise ExtractError(f"unexpected token {tok!r}")


def find_scope(src, scope):
    m = re.search(r"\b(?:fn|mod|impl(?:<[^>]*>)?(?:\s+\w+\s+for)?|struct|trait)\s+" + re.escape(scope) + r"\b[^{;]*\{", src)
    if not m:
        return None
    depth, i = 1, m.end()
    while i < len(src) and depth:
        depth += {"{": 1, "}": -1}.get(src[i], 0)
        i += 1
    return src[m.end():i - 1]


def find_init(src, name):
    """text of the initializer of const/static/let `name`"""
    m = re.search(r"\b(?:const|static|let)\s+(?:mut\s+)?" + re.escape(name) + r"\s*(?::[^=]*?)?=(?!=)", src)
    if not m:
        return None
    depth, i = 0, m.end()
    while i < len(src):
        c = src[i]
        if c in "([{":
            depth += 1
        elif c in ")]}":
            depth -= 1
        elif c == ";" and depth == 0:
            return src[m.end():i]
        i += 1
    return None


def rust_files(pattern):
    return sorted(glob.glob(os.path.join(REPO, pattern), recursive=True))


def extract_value(tb: Table):
    hits = []
    for f in rust_files(tb.files):
        src = strip_rust_comments(open(f).read())
        body = src
        if tb.scope:
            body = find_scope(src, tb.scope)
            if body is None:
                continue
        init = find_init(body, tb.rust_name)
        if init is None:
            continue

        def resolver(ident, _src=src, _body=body, _seen=[]):
            base = ident.split("::")[-1]
            if base in ("u32", "u64", "usize", "u8"):
                raise ExtractError(f"unexpected type name {ident}")
            if base in _seen:
                raise ExtractError(f"cyclic constant {ident}")
            ini = find_init(_body, base) or find_init(_src, base)
            if ini is None:
                # look in sibling files of the same glob
                for g in rust_files(tb.files):
                    s2 = strip_rust_comments(open(g).read())
                    ini = find_init(s2, base)
                    if ini is not None:
                        break
            if ini is None:
                raise ExtractError(f"cannot resolve constant {ident}")
            _seen.append(base)
            try:
                return Eval(tokenize(ini), resolver).expr()
            finally:
                _seen.pop()
        val = Eval(tokenize(init), resolver).expr()
        hits.append((f, val))
    if not hits:
        raise ExtractError(f"constant {tb.rust_name} not found in {tb.files}" + (f" scope {tb.scope}" if tb.scope else ""))
    vals = [v for _, v in hits]
    if any(v != vals[0] for v in vals[1:]):
        raise ExtractError(f"constant {tb.rust_name} has differing definitions in {[os.path.relpath(f, REPO) for f, _ in hits]}")
    v = vals[0]
    if tb.flatten:
        def fl(x):
            return [z for y in x for z in fl(y)] if isinstance(x, list) else [x]
        v = fl(v)
    if tb.post:
        v = tb.post(v)
    return v


def lean_type(v, elem):
    return "List (" + lean_type(v[0] if v else 0, elem) + ")" if isinstance(v, list) else elem


def lean_lit(v, elem, top=True):
    if isinstance(v, list):
        inner = ", ".join(lean_lit(x, elem, False) for x in v)
        return "[" + inner + "]"
    if v < 0:
        return f"({v})"
    return str(v)


def check_range(v, elem):
    lim = {"UInt8": 2**8, "UInt32": 2**32, "UInt64": 2**64}
    if isinstance(v, list):
        for x in v:
            check_range(x, elem)
    elif elem in lim and not (0 <= v < lim[elem]):
        raise ExtractError(f"value {v} out of range for {elem}")
    elif elem == "Nat" and v < 0:
        raise ExtractError(f"negative value {v} for Nat")


def all_tables():
    tabs = []
    pkg = os.path.join(os.path.dirname(os.path.abspath(__file__)), "extractors")
    sys.path.insert(0, os.path.dirname(os.path.abspath(__file__)))
    for m in sorted(pkgutil.iter_modules([pkg])):
        mod = importlib.import_module("extractors." + m.name)
        tabs += list(getattr(mod, "TABLES", []))
    return tabs


def write_if_changed(path, content):
    if os.path.exists(path) and open(path).read() == content:
        return False
    os.makedirs(os.path.dirname(path), exist_ok=True)
    with open(path, "w") as f:
        f.write(content)
    return True


def regenerate():
    """returns {"tables": n, "errors": [{"table":…, "error":…}], "changed": bool}"""
    tabs = all_tables()
    by_file, errors, n = {}, [], 0
    for tb in tabs:
        try:
            v = extract_value(tb)
            check_range(v, tb.elem)
            ty = lean_type(v, tb.elem)
            body = f"def {tb.lean_name} : {ty} :=\n  {lean_lit(v, tb.elem)}\n"
            n += 1
        except (ExtractError, RecursionError, ValueError, TypeError, IndexError) as e:
            errors.append({"table": f"{tb.lean_file}.{tb.lean_name}", "error": str(e)[:300]})
            # keep the Lean project buildable: an empty table makes every theorem about it fail
            ty = "List " + tb.elem
            body = f"/-- EXTRACTION FAILED: {str(e)[:200]} -/\ndef {tb.lean_name} : {ty} := []\n"
        doc = f"/-- {tb.doc} (from `{tb.rust_name}` in {tb.files}) -/\n" if not body.startswith("/--") else ""
        by_file.setdefault(tb.lean_file, []).append("set_option maxRecDepth 1000000 in\n" + doc + body)
    changed = False
    for lf, bodies in by_file.items():
        content = ("-- GENERATED by tools/extract_tables.py from /repo/src on every run. Do not edit.\n"
                   f"namespace Cx.Extracted.{lf}\n\n" + "\n".join(bodies) + f"\nend Cx.Extracted.{lf}\n")
        changed |= write_if_changed(os.path.join(OUT, lf + ".lean"), content)
    import kernel_translate
    kfiles, kerrors, kn = kernel_translate.generate_all()
    for lf, content in kfiles.items():
        changed |= write_if_changed(os.path.join(OUT, lf + ".lean"), content)
    errors += kerrors
    return {"tables": n, "errors": errors, "changed": changed, "kernels": kn}


if __name__ == "__main__":
    r = regenerate()
    print(r)
