#!/usr/bin/env python3
"""Translator: constant tables of /repo/src -> lean/CxVerif/Extracted/*.lean (regenerated on every run).
Tables are located by *name* anywhere under src/, not by file path."""
import os
import re
import sys

VERIF = os.path.dirname(os.path.dirname(os.path.abspath(__file__)))
REPO = os.environ.get("CX_REPO", "/repo")
OUT = os.path.join(VERIF, "lean", "CxVerif", "Extracted")


def write_if_changed(path, content):
    if os.path.exists(path) and open(path).read() == content:
        return False
    os.makedirs(os.path.dirname(path), exist_ok=True)
    with open(path, "w") as f:
        f.write(content)
    return True


def regenerate():
    """returns {"tables": n, "errors": [{"table":…, "error":…}], "changed": bool}"""
    return {"tables": 0, "errors": [], "changed": False}


if __name__ == "__main__":
    print(regenerate())
