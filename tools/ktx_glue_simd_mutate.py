#!/usr/bin/env python3
"""Mutation test of the SIMD glue tie (tools/ktx_glue_simd.py, Props/C16/GlueTieSimd*.lean): apply one textual mutation at a time
to a SCRATCH COPY of the Rust sources (never /repo), regenerate Extracted/ with CX_REPO pointing at the copy, rebuild the tie and
report which theorems stop checking.  Run in a private copy of /verif (it rewrites lean/CxVerif/Extracted and restores it at the
end):   python3 tools/ktx_glue_simd_mutate.py [mutation names…]
Expected: every mutation except the `*_whitespace_comment` ones (no change of the generated file) breaks the build.
`--isolate`: after the extraction every OTHER generated file (Extracted/Simd.lean …: the constant tables of the older lane models,
which many of these mutations also change) is restored to its baseline, so that only the translator tie is exercised."""
import os, re, subprocess, sys, time, json, tempfile
V = os.path.dirname(os.path.dirname(os.path.abspath(__file__)))
RC = os.path.join(tempfile.gettempdir(), "ktx_glue_simd_mutate_repo")
os.makedirs(RC, exist_ok=True)
CC = "src/chacha/sse2.rs"
SSE, AVX = "src/hashing/sha2/impl256/sse41.rs", "src/hashing/sha2/impl256/avx.rs"
BAVX, BAVX2 = "src/hashing/blake2/avx.rs", "src/hashing/blake2/avx2.rs"
MODS = {"a": ["CxVerif.Props.C16.GlueTieSimd"], "b": ["CxVerif.Props.C16.GlueTieSimdSha"], "c": ["CxVerif.Props.C16.GlueTieSimdBlake2"]}
MUT = {
    # ---- (a) chacha/sse2.rs
    "a1_increment_add_epi64": (CC, "align.0[0] = align.0[0].wrapping_add(1);\n        self.d = align.to_m128i();",
                               "self.d = unsafe { _mm_add_epi64(self.d, _mm_set_epi32(0, 0, 0, 1)) };"),
    "a2_swizzle_imm_39_93": (CC, "$b = _mm_shuffle_epi32($b, 0b00111001);", "$b = _mm_shuffle_epi32($b, 0b10010011);"),
    "a3_rotate_shift_count": (CC, "_mm_srli_epi32($c, 32 - $d)", "_mm_srli_epi32($c, 31 - $d)"),
    "a4_key32_second_half_offset": (CC, "_mm_loadu_si128(k.add(16) as *const __m128i)", "_mm_loadu_si128(k.add(8) as *const __m128i)"),
    "a5_nonce12_lane": (CC, "n.0[1] = u32::from_le_bytes(nonce[0..4].try_into().unwrap());", "n.0[0] = u32::from_le_bytes(nonce[0..4].try_into().unwrap());"),
    "a6_output_row_order": (CC, "_mm_storeu_si128(o.add(2), self.c);\n            _mm_storeu_si128(o.add(3), self.d);",
                            "_mm_storeu_si128(o.add(3), self.c);\n            _mm_storeu_si128(o.add(2), self.d);"),
    "a7_increment64_carry_lane": (CC, "align.0[1] = align.0[1].wrapping_add(1);", "align.0[2] = align.0[2].wrapping_add(1);"),
    "a8_add_back_xor": (CC, "self.c = _mm_add_epi32(self.c, initial.c);", "self.c = _mm_xor_si128(self.c, initial.c);"),
    "a9_rounds_count": (CC, "for _ in 0..(ROUNDS / 2) {", "for _ in 0..(ROUNDS / 2 + 1) {"),
    "a10_round_second_swizzle_order": (CC, "swizzle!(self.d, self.c, self.b);", "swizzle!(self.b, self.c, self.d);"),
    "a11_align_repr_removed": (CC, "#[repr(align(16))]\npub struct Align128", "pub struct Align128"),
    "a12_nonce_len_test": (CC, "} else if nonce.len() == 8 {", "} else if nonce.len() >= 8 {"),
    "a_whitespace_comment": None,
    # ---- (b) sha2/impl256/sse41.rs, avx.rs
    "b1_gather_add_15": (SSE, "temp = _mm_insert_epi32(temp, read(block.add(16)), 1);", "temp = _mm_insert_epi32(temp, read(block.add(15)), 1);"),
    "b2_avx_batch_advance": (AVX, "block = &block[512..]", "block = &block[256..]"),
    "b3_pshufb_mask_byte": (SSE, "_mm_set_epi8(12, 13, 14, 15, 8,", "_mm_set_epi8(12, 13, 15, 14, 8,"),
    "b4_sigma0_shift": (SSE, "_mm_xor_si128(_mm_srli_epi32(w, 7), _mm_srli_epi32(w, 18))", "_mm_xor_si128(_mm_srli_epi32(w, 7), _mm_srli_epi32(w, 19))"),
    "b5_schedule_register_arg": (SSE, "SCHEDULE_ROUND_INC!(schedule, i, w3, w0, w2, w11);\n        SCHEDULE_ROUND_INC!(schedule, i, w4, w1, w3, w12);\n        SCHEDULE_ROUND_INC!(schedule, i, w5, w2, w4, w13);\n        SCHEDULE_ROUND_INC!(schedule, i, w6",
                                 "SCHEDULE_ROUND_INC!(schedule, i, w3, w0, w2, w12);\n        SCHEDULE_ROUND_INC!(schedule, i, w4, w1, w3, w12);\n        SCHEDULE_ROUND_INC!(schedule, i, w5, w2, w4, w13);\n        SCHEDULE_ROUND_INC!(schedule, i, w6"),
    "b6_extract_index_off_by_one": (SSE, "_mm_extract_epi32(*schedule.get_unchecked($i), $j)", "_mm_extract_epi32(*schedule.get_unchecked($i + 1), $j)"),
    "b7_compress_lane_order": (SSE, "compress_once!(1);\n    compress_once!(2);", "compress_once!(2);\n    compress_once!(1);"),
    "b8_avx_insert_lane": (AVX, "temp = _mm256_insert_epi32(temp, read(block.add(64)), 4);", "temp = _mm256_insert_epi32(temp, read(block.add(64)), 5);"),
    "b9_tail_store_index": (SSE, "schedule[49] = _mm_add_epi32(w1,", "schedule[48] = _mm_add_epi32(w1,"),
    "b10_batch_threshold": (SSE, "while block.len() >= 256 {", "while block.len() > 256 {"),
    "b11_round_ch": (AVX, ".wrapping_add($g ^ ($e & ($f ^ $g)))", ".wrapping_add($f ^ ($e & ($f ^ $g)))"),
    "b12_avx_falls_to_reference": (AVX, "sse41::digest_block(state, block)", "sse41::digest_block(state, &block[..0])"),
    "b13_schedule_k_index": (AVX, "$schedule[$i] = _mm256_add_epi32($w3, _mm256_set1_epi32(K32[$i] as i32));", "$schedule[$i] = _mm256_add_epi32($w3, _mm256_set1_epi32(K32[$i + 1] as i32));"),
    "b_whitespace_comment": None,
    # ---- (c) blake2/avx.rs, avx2.rs
    "c1_gather_index": (BAVX, "_mm_unpacklo_epi64(m7, m2),\n                _mm_unpackhi_epi64(m4, m6),", "_mm_unpacklo_epi64(m7, m3),\n                _mm_unpackhi_epi64(m4, m6),"),
    "c2_blake2s_blend_imm": (BAVX, "let t0 = _mm_blend_epi16(m1, m2, 0x0C);\n                    let t1 = _mm_slli_si128(m3, 4);", "let t0 = _mm_blend_epi16(m1, m2, 0x30);\n                    let t1 = _mm_slli_si128(m3, 4);"),
    "c3_rot16_mask_byte": (BAVX, "let r16 = _mm_setr_epi8(2, 3, 4, 5, 6, 7, 0, 1, 10,", "let r16 = _mm_setr_epi8(2, 3, 4, 5, 6, 7, 1, 0, 10,"),
    "c4_counter_sign_extend": (BAVX2, "_mm256_set_epi64x(0, -1i64, t[1] as i64, t[0] as i64)", "_mm256_set_epi64x(0, -1i64, t[1] as i64, t[0] as i32 as i64)"),
    "c5_flag_lane": (BAVX, "_mm_set_epi64x(0, -1i64)", "_mm_set_epi64x(-1i64, 0)"),
    "c6_avx2_diag_imm": (BAVX2, "a = _mm256_permute4x64_epi64(a, _MM_SHUFFLE(2, 1, 0, 3));", "a = _mm256_permute4x64_epi64(a, _MM_SHUFFLE(0, 3, 2, 1));"),
    "c7_G_operand": (BAVX, "row3l = _mm_add_epi64(row3l, row4l);", "row3l = _mm_add_epi64(row3l, row4h);"),
    "c8_round_order": (BAVX, "ROUND!(load8!());\n    ROUND!(load9!());\n    ROUND!(load0!());", "ROUND!(load9!());\n    ROUND!(load8!());\n    ROUND!(load0!());"),
    "c9_store_offset": (BAVX, "_mm_store_si128(h.add(1), _mm_xor_si128(orig_a1, row1h));", "_mm_store_si128(h.add(2), _mm_xor_si128(orig_a1, row1h));"),
    "c10_blake2s_add_width": (BAVX, "row1 = _mm_add_epi32(_mm_add_epi32(row1, $b), row2);", "row1 = _mm_add_epi64(_mm_add_epi32(row1, $b), row2);"),
    "c11_avx2_rot63": (BAVX2, "_mm256_or_si256(_mm256_srli_epi64(v, 63), _mm256_add_epi64(v, v))", "_mm256_or_si256(_mm256_srli_epi64(v, 62), _mm256_add_epi64(v, v))"),
    "c12_iv_offset": (BAVX, "let mut row4l = _mm_xor_si128(_mm_loadu_si128(iv.add(2)), _mm_loadu_si128(t));", "let mut row4l = _mm_xor_si128(_mm_loadu_si128(iv.add(3)), _mm_loadu_si128(t));"),
    "c13_blake2s_flag_value": (BAVX, "_mm_set_epi32(0, -1i32, t[1] as i32, t[0] as i32)", "_mm_set_epi32(0, 1i32, t[1] as i32, t[0] as i32)"),
    "c14_avx2_blend_macro_imm": (BAVX2, "_mm256_blend_epi32($a, $b, 0xF0)", "_mm256_blend_epi32($a, $b, 0x0F)"),
    "c_whitespace_comment": None,
}

def sh(cmd, env=None, cwd=None):
    e = dict(os.environ); e.update(env or {})
    p = subprocess.run(cmd, cwd=cwd, env=e, stdout=subprocess.PIPE, stderr=subprocess.STDOUT, text=True)
    return p.returncode, p.stdout

def fresh():
    src = os.environ.get("CX_REPO", "/repo")
    sh(["rsync", "-a", "--delete", src + "/src", src + "/Cargo.toml", RC + "/"])

def harmless(fam):
    files = {"a": [CC], "b": [SSE, AVX], "c": [BAVX, BAVX2]}[fam]
    for f in files:
        p = os.path.join(RC, f); s = open(p).read()
        s = "// leading comment\n\n" + s
        if fam == "a":
            s = s.replace("unsafe {", "unsafe   {   // a comment\n        /* block\n comment */")
            s = s.replace("_mm_add_epi32(", "_mm_add_epi32 (\n  ")
            s = s.replace(";\n", " ;\n", 40)
        else:       # the older table extractor (tools/extractors/simd.py) is line-oriented: comments and blank lines only
            s = s.replace(";\n", ";   // a comment\n", 60)
            s = s.replace("{\n", "{\n\n    /* block\n comment */\n", 12)
        open(p, "w").write(s)

def run(name):
    fresh()
    fam = name[0]
    m = MUT[name]
    if m is None:
        harmless(fam)
    else:
        f, old, new = m
        p = os.path.join(RC, f); s = open(p).read()
        assert s.count(old) >= 1, (name, "pattern not found")
        s = s.replace(old, new)
        open(p, "w").write(s)
    gpath = os.path.join(V, "lean/CxVerif/Extracted/GlueSimd.lean")
    base = open(gpath).read()
    edir = os.path.join(V, "lean/CxVerif/Extracted")
    saved = {f: open(os.path.join(edir, f)).read() for f in os.listdir(edir) if f.endswith(".lean") and f != "GlueSimd.lean"} if ISOLATE else {}
    rc, out = sh(["python3", "tools/extract_tables.py"], env={"CX_REPO": RC}, cwd=V)
    for f, txt in saved.items():
        if open(os.path.join(edir, f)).read() != txt:
            open(os.path.join(edir, f), "w").write(txt)
    gen = open(gpath).read()
    t0 = time.time()
    mods = MODS[fam]
    rc, out = sh(["lake", "build"] + mods, cwd=V + "/lean")
    dt = time.time() - t0
    sys.path.insert(0, V + "/tools")
    import cxlib
    broken = cxlib.failing_decls(out, mods)
    thms = sorted({b["theorem"] or b["file"] for b in broken})
    if rc != 0 and not thms:
        thms = sorted(set(re.findall(r"error: (CxVerif/\S+?\.lean:\d+)", out)))[:4]
    failed = re.findall(r"TRANSLATION FAILED: ([^\n]*?) -/", gen)
    return dict(mutation=name, generated_changed=gen != base, extraction_errors=failed[:2], build_ok=rc == 0, seconds=round(dt, 1), failing=thms[:8])

ISOLATE = "--isolate" in sys.argv
if __name__ == "__main__":
    names = [a for a in sys.argv[1:] if not a.startswith("--")] or list(MUT)
    fams = sorted({n[0] for n in names})
    allmods = [m for f in fams for m in MODS[f]]
    sh(["python3", "tools/extract_tables.py"], cwd=V)
    rc, out = sh(["lake", "build"] + allmods, cwd=V + "/lean")
    assert rc == 0, out[-2000:]
    for n in names:
        sh(["python3", "tools/extract_tables.py"], cwd=V)
        r = run(n); print(json.dumps(r), flush=True)
    sh(["python3", "tools/extract_tables.py"], cwd=V)
    rc, out = sh(["lake", "build"] + allmods, cwd=V + "/lean")
    print("restored baseline build ok:", rc == 0)
