"""Case generators of unit b32 (the 32-bit curve backends fe32 / scalar32): gen_C17.

Ops: `b32.fe.prog`, `b32.scalar.*` (lean/CxVerif/Driver/B32.lean: answered by the 32-bit limb models and the Spec)
plus the existing `ge.base_mul` (table look-ups of the 32-bit build).  Everything is run by the default AND the
force-32bits harness builds.

Directed by the models Impl/Fe32.lean / Impl/Scalar32.lean:
 * `from_bytes32` below replays fe32::from_bytes (ten overlapping loads, ten rounded carries) so that operands can be
   labelled by the signed limbs they decode to: limbs at the carry thresholds +-2^25 / +-2^24, the 6 surplus bits of
   the first load (low word >= 0xffffffed), non-canonical encodings p..p+18, bit 255 set;
 * programs keep the ref10 operand discipline with an explicit weight: a reduced element (output of from_bytes /
   mul / square / a constant) has weight 1 (|limb| <= 1.01*2^25 resp. 2^24), add/sub add the weights, and a
   multiplication / squaring / to_bytes takes operands of weight <= 3 (3.03*2^25 < 1.65*2^26, the ref10 bound):
   sums of up to three reduced elements feed the multiplier; inside that domain neither build may panic;
 * sc_reduce / sc_muladd work on 21-bit limbs cut out of the byte string at bit 21*i: every limb of the 24 (12) at
   0, 1, 2^20-1, 2^20, 2^20+1, 2^21-1 (the rounded carry threshold is 2^20), multiples of L +- delta, S + L.
"""
from gens import fe64 as G

P = 2**255 - 19
L = 2**252 + 27742317777372353535851937790883648493
OFF = [0, 26, 51, 77, 102, 128, 153, 179, 204, 230]
WID = [26, 25, 26, 25, 26, 25, 26, 25, 26, 25]


def le32(v):
    return (v % 2**256).to_bytes(32, "little").hex()


def le(n, size):
    return (n % (1 << (8 * size))).to_bytes(size, "little").hex()


def push(v):
    return "b" + le32(v)


def from_bytes32(v):
    """limbs of fe32::from_bytes(le32(v)) — replay of the model (Python ints, `>>` is the arithmetic shift)"""
    s = (v % 2**256).to_bytes(32, "little")
    l3 = lambda i: s[i] | s[i + 1] << 8 | s[i + 2] << 16
    l4 = lambda i: l3(i) | s[i + 3] << 24
    h = [l4(0), l3(4) << 6, l3(7) << 5, l3(10) << 3, l3(13) << 2, l4(16), l3(20) << 7, l3(23) << 5, l3(26) << 4,
         (l3(29) & 8388607) << 2]
    c = (h[9] + (1 << 24)) >> 25; h[0] += c * 19; h[9] -= c << 25
    for i in (1, 3, 5, 7):
        c = (h[i] + (1 << 24)) >> 25; h[i + 1] += c; h[i] -= c << 25
    for i in (0, 2, 4, 6, 8):
        c = (h[i] + (1 << 25)) >> 26; h[i + 1] += c; h[i] -= c << 26
    return h


def from_chunks(ch):
    return sum((c % (1 << WID[i])) << OFF[i] for i, c in enumerate(ch)) % 2**255


EDGE = {26: [0, 1, 2**25 - 2, 2**25 - 1, 2**25, 2**25 + 1, 2**26 - 2, 2**26 - 1, 2**24, 2**24 - 1],
        25: [0, 1, 2**24 - 2, 2**24 - 1, 2**24, 2**24 + 1, 2**25 - 2, 2**25 - 1, 2**23, 2**23 - 1]}


def limb_values(rng, tier):
    """operands whose 26/25-bit chunks sit on the rounding thresholds of the carries"""
    vs = []
    # one chunk at an edge, others zero / all ones / random
    for i in range(10):
        for e in EDGE[WID[i]]:
            vs.append(e << OFF[i])
            vs.append(((2**255 - 1) & ~(((1 << WID[i]) - 1) << OFF[i])) | (e << OFF[i]))
            r = rng.getrandbits(255)
            vs.append((r & ~(((1 << WID[i]) - 1) << OFF[i])) | (e << OFF[i]))
    # all chunks at the same kind of edge: every limb decodes to the extreme -2^25 / -2^24 (chunk = threshold, or
    # threshold - 1 with an incoming carry), to +2^25 - 1, to 0 with carries rippling through all ten limbs
    vs.append(from_chunks([2**25] + [(2**24 - 1) if WID[i] == 25 else (2**25 - 1) for i in range(1, 10)]))
    vs.append(from_chunks([(2**24) if WID[i] == 25 else (2**25) for i in range(10)]))
    vs.append(from_chunks([(2**24 - 1) if WID[i] == 25 else (2**25 - 1) for i in range(10)]))
    vs.append(from_chunks([(2**25 - 1) if WID[i] == 25 else (2**26 - 1) for i in range(10)]))
    vs.append(from_chunks([2**25] + [(2**25 - 1) if WID[i] == 25 else (2**26 - 1) for i in range(1, 10)]))
    for m in range(0, 1024, 1 if tier != "quick" else 7):
        vs.append(from_chunks([EDGE[WID[i]][4] if m >> i & 1 else EDGE[WID[i]][3] for i in range(10)]))
    for _ in range(40 if tier == "quick" else 600):
        vs.append(from_chunks([rng.choice(EDGE[WID[i]] + [rng.getrandbits(WID[i])]) for i in range(10)])
                  | (rng.getrandbits(1) << 255))
    # the six surplus bits of the first load (bits 26..31 sit in h0 AND are carried into h1): low word near 2^32,
    # with bit 254 / 255 set (the wrap 2^255 = 19 lands in h0 as well)
    for low in (0xffffffed, 0xffffffee, 0xffffffff, 0xfffffff0, 0xfc000000, 0xfbffffff, 0xfe000000, 0xfdffffff, 0x03ffffff, 0x04000000):
        for hi in (0, 1 << 254, 1 << 255, 3 << 254, (2**255 - 1) ^ 0xffffffff, (2**256 - 1) ^ 0xffffffff):
            vs.append((hi & ~0xffffffff) | low)
    # non-canonical encodings of 0..18 and their bit-255 twins; neighbours of p and 2^255
    for k in range(-3, 20):
        vs += [P + k, P + k + 2**255, (2**255 + k) % 2**256, k % 2**256, (2**256 - 19 + k) % 2**256]
    out, seen = [], set()
    for v in vs:
        v %= 2**256
        if v not in seen:
            seen.add(v)
            out.append(v)
    return out


def classify(v):
    h = from_bytes32(v)
    tags = []
    if any(abs(x) == (2**25 if i % 2 == 0 else 2**24) for i, x in enumerate(h)):
        tags.append("limb=-thr")
    if any(x == (2**25 - 1 if i % 2 == 0 else 2**24 - 1) for i, x in enumerate(h)):
        tags.append("limb=thr-1")
    if abs(h[1]) > 2**24 or abs(h[9]) > 2**24:
        tags.append("odd>2^24")
    if v % 2**255 >= P:
        tags.append("noncanon")
    if v >> 255:
        tags.append("bit255")
    return "+".join(tags) if tags else "plain"


# ------------------------------------------------------------------------------------------------ programs

def gen_expr(rng, depth, leaves):
    """(tokens, weight) with weight <= 3 everywhere; every intermediate is emitted with `t`"""
    if depth == 0 or rng.random() < 0.15:
        if rng.random() < 0.1:
            return ([rng.choice(["c0", "c1", "cs", "cd", "c2"])], 1)
        return ([push(rng.choice(leaves) if rng.random() < 0.7 else G.rand_value(rng))], 1)
    r = rng.random()
    if r < 0.6:
        op = rng.choice(["+", "-", "+", "-", "*"])
        a, wa = gen_expr(rng, depth - 1, leaves)
        b, wb = gen_expr(rng, depth - 1, leaves)
        if op == "*":
            return (a + b + ["*", "t"], 1)
        while wa + wb > 3:
            if wa >= wb:
                a, wa = a + ["c1", "*"], 1
            else:
                b, wb = b + ["c1", "*"], 1
        return (a + b + [op, "t"], wa + wb)
    op = rng.choice(["~", "s", "q", "i", "w", "r"])
    a, wa = gen_expr(rng, depth - 1, leaves)
    if op == "r":
        n = rng.choice([0, 1, 2, 3, 5, 10, 20, 50, 100, rng.randrange(0, 260)])
        return (a + [f"r{n}", "t"], wa if n == 0 else 1)
    if op == "~":
        return (a + ["~", "t"], wa)
    return (a + [op, "t"], 1)


def gen_fe(tier, rng):
    quick = tier == "quick"
    lv = limb_values(rng, tier)
    sp = G.special_values()
    # encodings: to_bytes / is_nonzero / is_negative of every boundary operand, and of its negation / double
    for v in lv:
        yield (f"b32.fe.prog {push(v)};t;z;n", "enc." + classify(v))
    for v in sp:
        yield (f"b32.fe.prog {push(v)};t;z;n;~;t;z;n", "enc.special")
    for v in (lv if not quick else lv[::5]):
        yield (f"b32.fe.prog {push(v)};d;+;t;z;n;{push(v)};+;t;z;n;~;t", "enc.weight3")
    for _ in range(200 if quick else 4000):
        yield (f"b32.fe.prog {push(G.rand_value(rng))};t;z;n", "enc.random")
    # equality = equality mod p, over all encodings of one residue and over different limb representations
    for v in sp + lv[:: (6 if quick else 1)]:
        r = v % 2**255 % P
        for w in (r, r + P if r + P < 2**255 else r, r + 2**255, (r + 1) % P, (P - r) % P):
            yield (f"b32.fe.prog {push(v)};{push(w)};=", "eq.encodings")
    # single operators on the boundary set
    some = lv if not quick else lv[::4]
    for a in some:
        yield (f"b32.fe.prog {push(a)};s;t;z;n", "square")
        yield (f"b32.fe.prog {push(a)};q;t;q;t", "square_and_double")
        yield (f"b32.fe.prog {push(a)};~;t;s;t", "neg_square")
        yield (f"b32.fe.prog {push(a)};r0;t;r1;t;r2;t", "square_repeatdly")
    for a in (lv[::3] if not quick else lv[::25]):
        yield (f"b32.fe.prog {push(a)};i;t;d;o1;*;t", "invert")
        yield (f"b32.fe.prog {push(a)};w;t", "pow25523")
    pairs = 250 if quick else 6000
    for _ in range(pairs):
        a, b = rng.choice(lv), rng.choice(lv + sp)
        yield (f"b32.fe.prog {push(a)};{push(b)};o1;o1;+;t;p;o1;o1;-;t;p;*;t", "binop.boundary")
    # limb growth before a multiplication: sums / differences of three reduced elements on both sides (ref10 bound)
    for _ in range(300 if quick else 8000):
        xs = [rng.choice(lv) if rng.random() < 0.7 else G.rand_value(rng) for _ in range(6)]
        o = [rng.choice("+-") for _ in range(4)]
        A = f"{push(xs[0])};{push(xs[1])};{o[0]};{push(xs[2])};{o[1]}"
        B = f"{push(xs[3])};{push(xs[4])};{o[2]};{push(xs[5])};{o[3]}"
        yield (f"b32.fe.prog {A};t;{B};t;*;t", "grow.3x3.mul")
        yield (f"b32.fe.prog {A};s;t;{B};q;t;=", "grow.3.square")
    # the extreme: all limbs at -2^25/-2^24 (or +thr-1), three times, squared / multiplied
    ext = [lv_i for lv_i in lv if classify(lv_i).startswith("limb=")][: (40 if quick else 400)]
    for a in ext:
        yield (f"b32.fe.prog {push(a)};d;+;{push(a)};+;d;t;s;t;x;q;t;p;d;*;t", "grow.extreme")
        yield (f"b32.fe.prog {push(a)};~;d;+;{push(a)};-;d;t;s;t", "grow.extreme.neg")
    # representation paths: 0, 1, small values and p-1 reached through different computations
    for _ in range(150 if quick else 3000):
        a, b = (rng.choice(lv) if rng.random() < 0.5 else G.rand_value(rng) for _ in range(2))
        A, B = push(a), push(b)
        zero_paths = [
            f"{A};{B};+;{B};{A};+;-",
            f"{A};d;+;{A};+;{A};{push(3)};*;-",
            f"{A};{B};+;s;{A};s;-;c1;*;{B};s;-;c1;*;{A};{B};*;d;+;-",
            f"{A};{B};*;{B};{A};*;-",
            f"{A};~;{A};+",
            f"{A};{B};-;{B};{A};-;+",
            f"{A};s;{A};d;*;-",
            f"{A};q;{A};s;d;+;-",
        ]
        z = rng.choice(zero_paths)
        yield (f"b32.fe.prog {z};t;z;n", "repr.zero")
        k = rng.choice([1, 2, 18, 19, 20, P - 1, P - 2, P - 19, (P - 1) // 2])
        yield (f"b32.fe.prog {z};{push(k)};+;t;z;n", "repr.small")
        yield (f"b32.fe.prog {z};{push(k)};x;-;t;z;n", "repr.small")
        yield (f"b32.fe.prog {z};c0;=;{z};{push(k)};+;{push(k)};=", "repr.eq")
    # algebraic laws (Spec answers true)
    for _ in range(80 if quick else 2000):
        a, b, c = (rng.choice(lv) if rng.random() < 0.5 else G.rand_value(rng) for _ in range(3))
        yield (f"b32.fe.prog {push(a)};{push(b)};+;{push(c)};*;{push(a)};{push(c)};*;{push(b)};{push(c)};*;+;=", "law.distrib")
        yield (f"b32.fe.prog {push(a)};d;*;{push(a)};s;=;r1;=", "law.square")
    # expression programs inside the weight discipline
    for _ in range(400 if quick else 10000):
        toks, _ = gen_expr(rng, rng.choice([2, 3, 4]), lv)
        yield ("b32.fe.prog " + ";".join(toks + ["t", "z", "n"]), "prog.weighted")
    yield ("b32.fe.prog c0;t;c1;t;cs;t;cd;t;c2;t;cs;s;t;cd;cd;+;c2;=", "const")
    yield ("b32.fe.prog +", "malformed")
    yield ("b32.fe.prog b00;t", "malformed")


# ------------------------------------------------------------------------------------------------ scalars

def limbs21(n, rng, top_bits):
    """integers whose 21-bit limbs (cut at bit 21*i) sit at the carry thresholds"""
    E = [0, 1, 2**20 - 1, 2**20, 2**20 + 1, 2**21 - 1]
    out = []
    for i in range(n):
        w = 21 if i < n - 1 else top_bits
        for e in E + [2**w - 1]:
            e %= 1 << w
            out.append(e << (21 * i))
            allones = (1 << (21 * (n - 1) + top_bits)) - 1
            out.append((allones & ~(((1 << w) - 1) << (21 * i))) | (e << (21 * i)))
            r = rng.getrandbits(21 * (n - 1) + top_bits)
            out.append((r & ~(((1 << w) - 1) << (21 * i))) | (e << (21 * i)))
    for e in E:
        out.append(sum((e % (1 << (21 if i < n - 1 else top_bits))) << (21 * i) for i in range(n)))
    for _ in range(4 * n):
        out.append(sum(rng.choice(E + [rng.getrandbits(21)]) % (1 << (21 if i < n - 1 else top_bits)) << (21 * i) for i in range(n)))
    return out


def gen_scalar(tier, rng):
    from gens import scalar64 as S
    quick = tier == "quick"
    yield ("b32.scalar.const zero", "const")
    yield ("b32.scalar.const one", "const")
    yield (f"b32.scalar.reduce_wide {S.KAT_WIDE}", "kat")
    for a, b, c in S.KAT_MULADD:
        yield (f"b32.scalar.muladd {bytes(a).hex()} {bytes(b).hex()} {bytes(c).hex()}", "kat")
    # canonical decoding: the byte-wise comparison loop (31 down to 0) — L with every single byte raised / lowered,
    # every prefix of L followed by 00.. / ff.., k*L +- delta, S + L; the big-endian twin of L (the pre-fix constant)
    Lb = L.to_bytes(32, "little")
    cv = []
    for i in range(32):
        for nb in {(Lb[i] + 1) % 256, (Lb[i] - 1) % 256, 0, 0xff, Lb[i] ^ 0x80, Lb[i] ^ 1}:
            x = bytearray(Lb); x[i] = nb
            cv.append((int.from_bytes(x, "little"), "c.L.byte"))
        cv.append((int.from_bytes(Lb[i:].rjust(32, b"\x00"), "little"), "c.L.prefix"))
        cv.append((int.from_bytes(bytes([0xff] * i) + Lb[i:], "little"), "c.L.prefix"))
        cv.append((int.from_bytes(bytes([0x00] * i) + Lb[i:], "little"), "c.L.prefix"))
    cv.append((int.from_bytes(Lb, "big"), "c.L.bigendian"))
    cv.append((int.from_bytes(Lb, "big") - 1, "c.L.bigendian"))
    cv.append((int.from_bytes(Lb, "big") + 1, "c.L.bigendian"))
    for k in range(16):
        for d in (-2, -1, 0, 1, 2):
            cv.append((k * L + d, "c.kL"))
    for _ in range(60 if quick else 1500):
        s = rng.randrange(L)
        cv.append((s, "c.S"))
        cv.append((s + L, "c.S+L"))
        cv.append((s + rng.randrange(1, 15) * L, "c.S+kL"))
        cv.append((rng.getrandbits(256), "c.random"))
    for v, kind in cv + (S.canon_values(tier, rng) if not quick else []):
        if 0 <= v < 2**256:
            yield (f"b32.scalar.canonical {le(v, 32)}", kind)
    for v in (0, 1, L - 1, L, 2**256 - 1, rng.getrandbits(256)):
        yield (f"b32.scalar.roundtrip {le(v, 32)}", "roundtrip")
    # sc_reduce: 24 limbs of 21 bits (top limb 29 bits)
    wv = [(v, "wide.limb21") for v in limbs21(24, rng, 29)]
    wv += [(v, k) for v, k in S.wide_values(tier, rng)]
    for v, kind in wv:
        yield (f"b32.scalar.reduce_wide {le(v, 64)}", kind)
        if rng.randrange(10) == 0 or kind in ("wide.small",):
            yield (f"b32.scalar.reduce_then_canonical {le(v, 64)}", kind)
    # sc_muladd: a, b over limb patterns (12 limbs, top limb 25 bits) and operand classes; c reduced
    lp = limbs21(12, rng, 25)
    cls = [0, 1, 2, L - 1, L - 2, L, L + 1, 2**252 - 1, 2**252, 2**253 - 1, 2**255 - 1, 2**255, 2**256 - 1, 2**256 - 2,
           15 * L, (L + 1) // 2]
    cc = [0, 1, L - 1, L - 2, (L - 1) // 2, 2**252 - 1, 2**252]
    for a in cls:
        for b in cls:
            for c in (cc if not quick else [rng.choice(cc), L - 1]):
                yield (f"b32.scalar.muladd {le(a, 32)} {le(b, 32)} {le(c, 32)}", "muladd.classes")
    for _ in range(400 if quick else 8000):
        a = rng.choice(lp) if rng.random() < 0.6 else rng.getrandbits(256)
        b = rng.choice(lp) if rng.random() < 0.6 else rng.getrandbits(256)
        c = rng.choice(lp + cc) % L if rng.random() < 0.6 else rng.randrange(L)
        yield (f"b32.scalar.muladd {le(a, 32)} {le(b, 32)} {le(c, 32)}", "muladd.limb21")
    # digits
    for i in range(0, 256, 1 if not quick else 5):
        yield (f"b32.scalar.bits {le(1 << i, 32)}", "digits.bit")
    for i in range(64):
        yield (f"b32.scalar.nibbles {le(rng.randrange(1, 16) << (4 * i), 32)}", "digits.nibble")
    for _ in range(20 if quick else 300):
        v = rng.getrandbits(256)
        yield (f"b32.scalar.bits {le(v, 32)}", "digits.random")
        yield (f"b32.scalar.nibbles {le(v, 32)}", "digits.random")


def gen_tables(tier, rng):
    """every entry of the 32-bit GE_BASE is looked up: each single-nibble scalar d*16^i (64 x 15) through
    scalarmult_base — the signed recoding maps d in 9..15 to the negated entry 16-d of row i/2 plus a carry"""
    for i in range(64):
        for d in range(1, 16):
            n = d << (4 * i)
            if n < 2**255:
                yield (f"ge.base_mul {le(n, 32)}", "tables.single_nibble")


def gen_C17(tier, rng):
    yield from gen_fe(tier, rng)
    yield from gen_scalar(tier, rng)
    yield from gen_tables(tier, rng)
