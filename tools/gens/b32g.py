"""unit b32g — the group / protocol workloads once more under the prefix `b32g.`, so that `cxdrv impl` answers them with the
32-bit MODELS (lean/CxVerif/Driver/B32Group.lean: Impl.Ge32 / X25519_32 / Ed25519_32) while the harness runs the same crate
calls (default build: 64-bit backend, force-32bits build: fe32 / scalar32) and `cxdrv spec` the same Spec as for `<op>`.
A deterministic sample of the quick C12–C15 streams (every k-th line among the ops that exist under the second name), drawn
with an own fixed-seed `Rng`: the streams of the other C17 generators are not perturbed."""
from cxlib import Rng

OPS = ("x25519.dh", "x25519.base", "x25519.iter", "x25519.sym",
       "ge.prog", "ge.decode", "ge.roundtrip", "ge.base_mul", "ge.double_mul", "ge.add", "ge.sub", "ge.double", "ge.negate",
       "ed25519.keypair", "ed25519.sign", "ed25519.sign_kp", "ed25519.sign_ext", "ed25519.ext_public", "ed25519.verify",
       "ed25519.exchange", "ed25519.sign_via_ext", "ed25519.check")
# the 32-bit models run on `Int` limbs with every i32/i64 range check: ~10 x slower than the 64-bit ones; iterated ladders are capped
MAX_ITER = 8


def eligible(line):
    op, _, rest = line.partition(" ")
    if op not in OPS:
        return False
    if op == "x25519.iter":
        try:
            return int(rest.split(" ")[0]) <= MAX_ITER
        except ValueError:
            return True                 # malformed count: every executor refuses alike
    return True


def gen_C17(tier, rng):
    from props import _auto            # (imported here: props._auto imports the gens modules)
    sub = Rng(0xB32C17)
    for prop, kq, kt in (("C12", 6, 3), ("C13", 6, 3), ("C14", 6, 3), ("C15", 8, 4)):
        k = kq if tier == "quick" else kt
        seen = {}
        for line, kind in _auto.make_gen(prop, also=False)("quick", sub):
            if not eligible(line):
                continue
            op = line.split(" ", 1)[0]
            i = seen.get(op, 0)
            seen[op] = i + 1
            if i < 3 or i % k == 0:     # per op: the first three lines and then every k-th (rare ops are not sampled away)
                yield ("b32g." + line, f"{prop}/{kind}")
