"""Case generators for SHA-1 and RIPEMD-160 (unit sha1ripemd): gen_C01 (one-shot digests), gen_C02 (context histories).

Directed by the model: block size B = 64, padding regimes (len % 64 < 56: one final block; >= 56: two), length field
(8 bytes BE for SHA-1, 2 x 4 bytes LE for RIPEMD-160), FixedBuffer::input regimes (top-up of a partial buffer /
whole blocks straight from the slice / stash the tail)."""

ALGS = ("sha1", "ripemd160")
B = 64


def hx(b):
    return "-" if len(b) == 0 else bytes(b).hex()


def _msg(rng, n, style):
    if style == 0:
        return rng.rbytes(n)
    if style == 1:
        return bytes(n)
    if style == 2:
        return b"\xff" * n
    return bytes((i * 7 + 1) & 0xff for i in range(n))


def gen_C01(tier, rng):
    for alg in ALGS:
        # every length 0..=4B+1, exhaustively, random contents (thorough: also all-zero / all-ones / 0x80-rich)
        for n in range(0, 4 * B + 2):
            yield (f"hash.{alg} {hx(rng.rbytes(n))}", f"{alg}.len0..4B+1")
            if tier == "thorough":
                yield (f"hash.{alg} {hx(bytes(n))}", f"{alg}.len0..4B+1.zero")
                yield (f"hash.{alg} {hx(bytes([255]) * n)}", f"{alg}.len0..4B+1.ff")
                yield (f"hash.{alg} {hx(bytes([128]) * n)}", f"{alg}.len0..4B+1.80")
        # padding / block boundaries further out: k*B + {-9..+1}, and where the bit length crosses a byte of the
        # length field (len*8 = 2^8, 2^16: len = 32, 8192) — the LE/BE placement of the length bytes shows there
        ks = (5, 8, 16, 127, 128) if tier == "quick" else (5, 7, 8, 16, 31, 32, 64, 127, 128, 129, 255, 256, 512)
        for k in ks:
            for d in range(-9, 2):
                n = k * B + d
                yield (f"hash.{alg} {hx(rng.rbytes(n))}", f"{alg}.blockboundary")
        for n in (8191, 8192, 8193):
            yield (f"hash.{alg} {hx(rng.rbytes(n))}", f"{alg}.lenfield-carry")
        # random lengths up to 8 KiB (quick) / 64 KiB (thorough)
        cnt, mx = (40, 8 * 1024) if tier == "quick" else (160, 64 * 1024)
        for i in range(cnt):
            n = rng.randrange(mx + 1)
            yield (f"hash.{alg} {hx(_msg(rng, n, 0 if i % 8 else rng.randrange(4)))}", f"{alg}.random")
        # the upper end of the sampled range the property names (64 KiB), once per algorithm in both tiers
        yield (f"hash.{alg} {hx(rng.rbytes(64 * 1024))}", f"{alg}.64KiB")
        # published vectors
        for m in (b"", b"a", b"abc", b"message digest", b"abcdefghijklmnopqrstuvwxyz",
                  b"abcdbcdecdefdefgefghfghighijhijkijkljklmklmnlmnomnopnopq",
                  b"ABCDEFGHIJKLMNOPQRSTUVWXYZabcdefghijklmnopqrstuvwxyz0123456789", b"1234567890" * 8):
            yield (f"hash.{alg} {hx(m)}", f"{alg}.vector")


CHUNKS = (0, 1, 63, 64, 65, 131)


def _alphabet(rng):
    """the op alphabet of the exhaustive part: update / update_mut with every chunk length, fork, swap, reset,
    finalize_reset, finalize-of-clone"""
    ops = []
    for c in CHUNKS:
        ops.append(("u", c))
        ops.append(("m", c))
    ops += [("c", None), ("x", None), ("r", None), ("F", None), ("d", None)]
    return ops


def _render(rng, seq):
    out = []
    for k, c in seq:
        out.append(k + (hx(rng.rbytes(c)) if c is not None else ""))
    return ";".join(out)


def gen_C02(tier, rng):
    import itertools
    alpha = _alphabet(rng)
    depth = 3 if tier == "quick" else 4
    for alg in ALGS:
        # exhaustive histories over the alphabet (17 symbols; quick: depth <= 3, thorough: depth <= 4 complete, 17^4 = 83521),
        # each followed by `d;F;d` so that every history is observed and the state after finalize_reset is observed too.
        for dpt in range(1, depth + 1):
            for seq in itertools.product(alpha, repeat=dpt):
                yield (f"hctx.{alg} {_render(rng, seq)};d;F;d", f"{alg}.exhaustive.depth{dpt}")
        # split independence, directed: one message cut at every position around the block boundaries
        for total in (B - 1, B, B + 1, 2 * B, 2 * B + 3, 3 * B + 7):
            msg = rng.rbytes(total)
            for cut in range(0, total + 1):
                if tier == "quick" and not (cut % B in (0, 1, 55, 56, 63) or cut == total):
                    continue
                yield (f"hctx.{alg} u{hx(msg[:cut])};m{hx(msg[cut:])};d", f"{alg}.split2")
        # byte-at-a-time and fixed-stride feeding
        for stride in (1, 3, 5, 16, 63, 64, 65):
            msg = rng.rbytes(3 * B + 11)
            parts = [msg[i:i + stride] for i in range(0, len(msg), stride)]
            yield (f"hctx.{alg} " + ";".join("m" + hx(p) for p in parts) + ";d;F", f"{alg}.stride")
        # random histories of 5..40 ops
        n = 150 if tier == "quick" else 1500
        for _ in range(n):
            ln = rng.randrange(5, 41)
            seq = []
            for _ in range(ln):
                r = rng.random()
                if r < 0.55:
                    c = rng.choice([0, 1, 55, 56, 63, 64, 65, 127, 128, 131, rng.randrange(0, 300),
                                    rng.randrange(0, 300), rng.randrange(0, 2000)])
                    seq.append((rng.choice("um"), c))
                else:
                    seq.append((rng.choice("cxrFdd"), None))
            yield (f"hctx.{alg} {_render(rng, seq)};d", f"{alg}.random-history")
        # malformed / refused: the protocol's own error path (both executors must refuse alike)
        yield (f"hctx.{alg} q", f"{alg}.malformed")


# ----------------------------------------------------------------------------- C20 (sha1 / ripemd160 part)

def gen_C20(tier, rng):
    """refusal matrix of the legacy `Digest` wrappers (`computed` assert, exact-length `result` buffer); the `hashing`
    contexts have no refusing call: every reuse pattern is answered"""
    from . import _refusal
    for alg in ALGS:
        yield from _refusal.digest_object_rows(alg, 20, B, rng)
        yield from _refusal.context_reuse_rows(alg, B, rng)
