"""long single calls (>= 2^16, 2^20, 2^24 bytes) against chunked feeding: call-size boundaries that a message of a few
blocks never reaches (u16 / u24 truncations of lengths, batch loops over very many blocks, per-call caps)"""

HASHES = ["sha1", "ripemd160", "sha224", "sha256", "sha384", "sha512", "sha512_224", "sha512_256", "sha3_224", "sha3_256",
          "sha3_384", "sha3_512", "keccak224", "keccak256", "keccak384", "keccak512", "blake2b", "blake2b_keyed", "blake2s",
          "blake2s_keyed"]
MACS = ["poly1305", "hmac_sha256", "hmac_sha1", "hmac_sha512", "hmac_sha3_256", "blake2b_mac", "blake2s_mac"]
CIPHERS = ["chacha20", "chacha8_k16", "chacha20orig", "xchacha20", "salsa20", "xsalsa20"]


def sizes(tier, rng):
    base = [65535, 65536, 65537, 65536 + 15, 2 * 65536 + 1, (1 << 20) + 1, (2 << 20) + 77]
    if tier == "thorough":
        base += [(1 << 24) + 16, (1 << 24) - 1, (3 << 20) + 4093, (1 << 22)]
    return base


def cases(tier, rng, fam, algs, per):
    for alg in algs:
        szs = sizes(tier, rng)
        picks = szs if tier == "thorough" else rng.sample(szs, per)
        for bl in picks:
            pl = rng.choice([0, 1, 15, 63, 127])
            chunk = rng.choice([4093, 65536, 1000, 64 * 1024 - 1])
            yield (f"long.{fam} {alg} {rng.getrandbits(48)} {pl} {bl} {chunk}", f"long.{fam}")


def gen_C01(tier, rng):
    yield from cases(tier, rng, "hash", HASHES, 3)


def gen_C02(tier, rng):
    yield from cases(tier, rng, "hash", HASHES, 2)


def gen_C03(tier, rng):
    yield from cases(tier, rng, "cipher", CIPHERS, 2)


def gen_C04(tier, rng):
    yield from cases(tier, rng, "cipher", CIPHERS, 3)


def gen_C05(tier, rng):
    yield from cases(tier, rng, "mac", ["poly1305"], 5)


def gen_C06(tier, rng):
    yield from cases(tier, rng, "aead", ["chacha20poly1305"], 4)


def gen_C07(tier, rng):
    yield from cases(tier, rng, "aead", ["chacha20poly1305"], 2)


def gen_C08(tier, rng):
    yield from cases(tier, rng, "mac", [m for m in MACS if m.startswith("hmac")], 3)


def gen_C09(tier, rng):
    yield from cases(tier, rng, "mac", MACS, 2)


def gen_C16(tier, rng):
    yield from cases(tier, rng, "hash", ["sha256", "sha224", "blake2b", "blake2s", "blake2b_keyed"], 3)
    yield from cases(tier, rng, "cipher", ["chacha20", "xchacha20"], 2)


def gen_C20(tier, rng):
    yield from cases(tier, rng, "hash", ["sha256", "sha512", "sha3_256", "blake2b", "sha1"], 1)
    yield from cases(tier, rng, "mac", ["poly1305", "hmac_sha256"], 1)
