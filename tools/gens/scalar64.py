"""Case generators for the scalar64 unit (curve25519/scalar, 64-bit backend): scalar part of C15.

Directed by the model Impl/Scalar64.lean: 56-bit limb boundaries, the borrow chain of lt_order/reduce256
(each limb equal to / one off the limb of L), multiples of L (the quotient estimate of the Barrett step is
replayed in Python to label inputs by the number of conditional subtractions they need), the
q1/r1 split at bit 248/264, and the carry run of `slide`."""

L = 2**252 + 27742317777372353535851937790883648493
MASK56 = 2**56 - 1
M_LIMBS = [(L >> (56 * i)) & MASK56 for i in range(5)]
MU = 2**512 // L
MU_LIMBS = [(MU >> (56 * i)) & MASK56 for i in range(5)]


def le(n, size):
    return (n % (1 << (8 * size))).to_bytes(size, "little").hex()


def q3_code(x):
    """the code's quotient estimate: (mu*q1) >> 264 computed WITHOUT the columns 0..2 of the product"""
    q1 = x >> 248
    ql = [(q1 >> (56 * i)) & MASK56 for i in range(4)] + [q1 >> 224]
    s = 0
    for i in range(5):
        for j in range(5):
            if i + j >= 3:
                s += MU_LIMBS[i] * ql[j] << (56 * (i + j - 3))
    return s >> 96


def nsub(x):
    """number of conditional subtractions after the Barrett step (0..2 expected; >2 would be a defect)"""
    return (x - q3_code(x) * L) // L


def wide_values(tier, rng):
    big = tier == "thorough"
    kmax = (2**512 - 1) // L
    out = []

    def add(v, kind):
        if 0 <= v < 2**512:
            out.append((v, kind))
    for v in (0, 1, 2, L - 1, L, L + 1, 2 * L - 1, 2 * L, 2 * L + 1, 3 * L - 1, 3 * L, 3 * L + 1):
        add(v, "wide.small")
    for v in (2**252, 2**252 - 1, 2**253 - 1, 2**255 - 1, 2**255, 2**256 - 1, 2**256, 2**248 - 1, 2**248, 2**264 - 1,
              2**264, 2**264 + 1, 2**511, 2**512 - 1, 2**512 - 2, 2**512 - L, 2**504 - 1, 2**504):
        add(v, "wide.pow2")
    ks = list(range(1, 34)) + [2**j for j in range(5, 260)] + [2**j - 1 for j in range(5, 260, 3)] + \
        [kmax, kmax - 1, kmax - 2, kmax // 2, kmax // 3]
    ks += [rng.getrandbits(rng.randrange(1, 260)) for _ in range(400 if big else 60)]
    for k in ks:
        if k > kmax:
            continue
        for d in (-1, 0, 1) if (big or k < 40 or k >= kmax - 2) else (rng.choice([-1, 0, 1]),):
            add(k * L + d, "wide.kL")
        if big:
            add(k * L + L // 2, "wide.kL")
            add(k * L + rng.randrange(L), "wide.kL")
    for j in range(0, 260):
        for d in ((-1, 0, 1) if big else (rng.choice([-1, 1]),)):
            add((L << j) + d, "wide.L<<k")
            add((L << j) + d * (1 << rng.randrange(0, j + 1)), "wide.L<<k")
    # limb-boundary patterns of r1 (5 limbs below bit 264) and q1 (5 limbs from bit 248)
    for base in (0, 248):
        for i in range(5):
            w = 56 if (i < 4 or base == 248) else 40
            ones = ((1 << w) - 1) << (base + 56 * i)
            add(ones, "wide.limb")
            add((2**512 - 1) ^ ones, "wide.limb")
            add(ones + rng.getrandbits(base + 56 * i) if base + 56 * i else ones, "wide.limb")
            add((1 << (base + 56 * i)) - 1, "wide.limb")
            add(1 << (base + 56 * i), "wide.limb")
    for i in range(64):
        add(0xff << (8 * i), "wide.byte")
        add((2**512 - 1) ^ (0xff << (8 * i)), "wide.byte")
    for i in range(0, 512, 1 if big else 7):
        add(1 << i, "wide.bit")
        add((2**512 - 1) ^ (1 << i), "wide.bit")
    # number of conditional subtractions after the Barrett step, replayed with the model: x = k*L + small over all
    # magnitudes.  (frac(2^512/L) = 0.2249 and L > 2^252, so the estimate is off by at most 1: sub0 / sub1 occur,
    # sub2 never; a sub2 or 3plus label in the distribution report would be news.)
    found = {0: 0, 1: 0, 2: 0}
    want = 200 if big else 40
    tries = 0
    while tries < (20000 if big else 4000) and (found[0] < want or found[1] < want):
        tries += 1
        k = kmax - rng.getrandbits(rng.choice([8, 64, 200, 250, 258, 259, 260])) if rng.randrange(2) else rng.getrandbits(rng.randrange(1, 260))
        if k < 0:
            continue
        x = k * L + rng.choice([0, 1, rng.getrandbits(rng.randrange(1, 245))])
        if x >= 2**512:
            continue
        n = nsub(x)
        if n >= 3:
            add(x, "wide.barrett.3plus")
        elif found[n] < want:
            found[n] += 1
            add(x, f"wide.barrett.sub{n}")
    for _ in range(3000 if big else 500):
        add(rng.getrandbits(512), "wide.random")
    for _ in range(600 if big else 100):
        add(rng.getrandbits(rng.choice([8, 64, 248, 252, 253, 256, 264, 300, 448, 504])), "wide.random.short")
        x = rng.getrandbits(512)
        add(x - x % L + rng.choice([0, 1, L - 1]), "wide.random.kL")
    return out


def canon_values(tier, rng):
    big = tier == "thorough"
    out = []

    def add(v, kind):
        if 0 <= v < 2**256:
            out.append((v, kind))
    for k in range(0, 16):
        for d in (-2, -1, 0, 1, 2):
            add(k * L + d, "c.kL")
    for v in (2**252 - 1, 2**252, 2**252 + 1, 2**253 - 1, 2**253, 2**254, 2**255 - 1, 2**255, 2**256 - 1, 2**256 - 2):
        add(v, "c.pow2")
    for i in range(256):
        add(1 << i, "c.bit")
        add(L ^ (1 << i), "c.L^bit")
        if big:
            add((L - 1) ^ (1 << i), "c.L^bit")
            add((2**256 - 1) ^ (1 << i), "c.bit")
    for i in range(32):   # L with one byte changed, every byte
        lb = (L >> (8 * i)) & 0xff
        for nb in {(lb + 1) % 256, (lb - 1) % 256, 0, 0xff, lb ^ 0x80, rng.randrange(256)}:
            add(L - (lb << (8 * i)) + (nb << (8 * i)), "c.L.byte")
            add((L - 1) - ((((L - 1) >> (8 * i)) & 0xff) << (8 * i)) + (nb << (8 * i)), "c.L.byte")
    # borrow chain: each 56-bit limb at / one off the limb of L, others equal / extreme
    for i in range(5):
        w = 56 if i < 4 else 32
        for li in {M_LIMBS[i], (M_LIMBS[i] - 1) % (1 << w), (M_LIMBS[i] + 1) % (1 << w), 0, (1 << w) - 1}:
            base = L - (M_LIMBS[i] << (56 * i)) + (li << (56 * i))
            add(base, "c.limb")
            low = (1 << (56 * i)) - 1
            add((base & ~low) | (rng.getrandbits(56 * i) if i else 0), "c.limb")
            add(base & ~low, "c.limb")
            add(base | low, "c.limb")
    for _ in range(1500 if big else 300):
        add(rng.getrandbits(256), "c.random")
        add(rng.randrange(L), "c.random<L")
        add(L + rng.getrandbits(rng.randrange(1, 252)), "c.random>=L")
        add(L - 1 - rng.getrandbits(rng.randrange(1, 252)), "c.random<L")
    return out


def operand_classes(rng, n_rand):
    s = [0, 1, 2, L - 1, L - 2, (L - 1) // 2, (L + 1) // 2, 2**252 - 1, 2**252, L, L + 1, 2 * L - 1, 2 * L,
         2**253 - 1, 2**255 - 1, 2**255, 2**256 - 1, 2**256 - 2, 15 * L, 15 * L + 1,
         MASK56, MASK56 << 56, MASK56 << 112, MASK56 << 168, (2**32 - 1) << 224, 2**224 - 1, 2**56, 2**112, 2**168, 2**224]
    s += [rng.randrange(L) for _ in range(n_rand)] + [rng.getrandbits(256) for _ in range(n_rand)]
    return s


# known-answer inputs of the crate's own tests (scalar64.rs `reduction`, scalar/mod.rs `muladd_ivs`)
KAT_WIDE = bytes([30, 1, 102, 252, 230, 223, 126, 62, 154, 62, 25, 173, 159, 16, 157, 227, 21, 140, 223, 132, 84, 209, 86,
                  118, 35, 85, 26, 144, 12, 4, 76, 170, 93, 151, 77, 147, 32, 213, 10, 135, 235, 26, 71, 94, 108, 45, 193,
                  229, 106, 233, 198, 109, 246, 81, 108, 91, 63, 108, 220, 6, 119, 115, 9, 117]).hex()
KAT_MULADD = [
    ([1, 0, 0, 0, 0xff] + [0] * 27, [0] * 32, [1, 2, 3, 4, 5, 6, 7, 8, 9, 10, 12, 13, 15, 16] + [0] * 18),
    ([1] + [0] * 31, [1, 2, 3, 4, 5, 6, 7, 8, 9, 10, 12, 13, 15, 26, 17, 18, 19, 20, 1, 2, 3, 4, 5, 6, 7, 1, 2, 3, 4, 5, 6, 1], [0] * 32),
    ([1] + [0] * 31, [1, 2, 3, 4, 5, 6, 7, 8, 9, 10, 12, 13, 15, 16, 17, 18, 19, 20, 1, 2, 3, 4, 5, 6, 7, 1, 2, 3, 4, 5, 6, 1],
     [10, 20, 30, 40, 50, 60] + [0] * 26),
    ([0, 0, 0, 30, 0, 0, 0, 0, 0, 0, 40, 0, 0, 0, 0, 0, 124] + [0] * 15,
     [0, 0, 0, 0, 1, 2, 0, 4, 0, 0, 0, 8, 16, 32, 234] + [0] * 16 + [1], [0, 0, 0, 1, 1] + [0] * 24 + [1, 1, 1]),
]


def gen_C15(tier, rng):
    big = tier == "thorough"
    yield ("scalar.const zero", "const")
    yield ("scalar.const one", "const")
    yield (f"scalar.reduce_wide {KAT_WIDE}", "kat")
    for a, b, c in KAT_MULADD:
        yield (f"scalar.muladd {bytes(a).hex()} {bytes(b).hex()} {bytes(c).hex()}", "kat")
    for v, kind in wide_values(tier, rng):
        yield (f"scalar.reduce_wide {le(v, 64)}", kind)
        if kind in ("wide.small", "wide.kL", "wide.barrett.sub1") or rng.randrange(8) == 0:
            yield (f"scalar.reduce_then_canonical {le(v, 64)}", kind)
    for v, kind in canon_values(tier, rng):
        yield (f"scalar.canonical {le(v, 32)}", kind)
        if rng.randrange(4) == 0 or kind in ("c.pow2", "c.kL"):
            yield (f"scalar.roundtrip {le(v, 32)}", kind)
    # operand classes
    s = operand_classes(rng, 6 if big else 3)
    for a in s:
        for b in s:
            yield (f"scalar.add {le(a, 32)} {le(b, 32)}", "add.classes")
            yield (f"scalar.mul {le(a, 32)} {le(b, 32)}", "mul.classes")
    small = [0, 1, L - 1, L - 2, 2**252, (L + 1) // 2, 2**255 - 1, 2**256 - 1, L, rng.randrange(L), rng.getrandbits(256)]
    for a in small:
        for b in small:
            for c in small:
                yield (f"scalar.muladd {le(a, 32)} {le(b, 32)} {le(c, 32)}", "muladd.classes")
    for _ in range(6000 if big else 800):
        a, b = rng.getrandbits(256), rng.getrandbits(256)
        c = rng.randrange(L)
        if rng.randrange(4) == 0:
            a = rng.randrange(L)
        if rng.randrange(4) == 0:
            b = rng.getrandbits(255) & ~7 | (1 << 254)     # a clamped secret scalar as in ed25519 signing
        if rng.randrange(8) == 0:
            c = rng.getrandbits(256)
        yield (f"scalar.muladd {le(a, 32)} {le(b, 32)} {le(c, 32)}", "muladd.random")
        # products adjacent to multiples of L: a*b = k*L + d  via b = (k*L + d) / a when it divides — use a = 1, c = -d
        if rng.randrange(3) == 0:
            k = rng.randrange(16)
            yield (f"scalar.muladd {le(1, 32)} {le(min(k * L, 2**256 - 1), 32)} {le(rng.choice([0, 1, L - 1]), 32)}", "muladd.kL")
    for _ in range(3000 if big else 400):
        a, b = rng.getrandbits(256), rng.getrandbits(256)
        yield (f"scalar.mul {le(a, 32)} {le(b, 32)}", "mul.random")
        a, b = rng.randrange(L), rng.randrange(L)
        yield (f"scalar.add {le(a, 32)} {le(b, 32)}", "add.random")
        yield (f"scalar.add {le(a, 32)} {le(L - a + rng.choice([-1, 0, 1]), 32)}", "add.wrap")
    # digit decompositions: every single-nibble scalar (64 x 15), boundary values, runs of ones
    dig = []
    for pos in range(64):
        for d in range(1, 16):
            dig.append((d << (4 * pos), "digits.nibble"))
    for v in (0, 1, L - 1, L, 2**252, 2**253 - 1, 2**255 - 1, 2**255, 2**256 - 1):
        dig.append((v, "digits.boundary"))
    for _ in range(600 if big else 120):
        dig.append((rng.getrandbits(255), "digits.random<2^255"))
        dig.append((rng.randrange(L), "digits.random<L"))
        dig.append((rng.getrandbits(256), "digits.random256"))
        # long runs of ones / alternating windows (carry propagation of slide)
        lo, hi = sorted((rng.randrange(256), rng.randrange(256)))
        dig.append((((1 << hi) - (1 << lo)) | rng.getrandbits(lo + 1), "digits.runs"))
        dig.append((int("".join(rng.choice(["1111", "0000", "1010", "0111", "1000"]) for _ in range(64)), 2), "digits.runs"))
    for v, kind in dig:
        h = le(v, 32)
        if kind == "digits.nibble" or rng.randrange(3) == 0:
            yield (f"scalar.nibbles {h}", kind)
        if kind != "digits.nibble" or rng.randrange(4) == 0:
            yield (f"scalar.bits {h}", kind)
        yield (f"scalar.slide {h}", kind)
        yield (f"scalar.slide_contract {h}", kind)
