"""Case generators of unit `mackdf`: gen_C08 (HMAC), gen_C09 (MAC / legacy digest object histories),
gen_C10 (HKDF, PBKDF2, scrypt), gen_C20 (KDF limits, invalid scrypt parameters, output buffer sizes).

Directed by the models (Impl/Hmac.lean, Impl/Digest.lean, Impl/Kdf.lean):
  * HMAC key regimes: len <= B copied and zero padded (0, 1, B-1, B), len > B hashed first (B+1, 2B+5), for the
    block sizes 64 / 128 / 72 / 104 / 136 / 144 of the legacy wrappers;
  * object flags: `computed` (legacy wrappers, BLAKE2 wrappers), `finished` (Hmac): second result, input after
    result, reset, block-multiple messages (where a lazily flushed buffer would show), wrong output buffer sizes;
  * HKDF one-byte block counter: L around k*HashLen and around 255*HashLen; the PRK length check of `hkdf_expand`
    (`assert!(prk.len() >= digest.output_bytes())`: 0, 1, HashLen-1 refused; HashLen, HashLen+1, 2*HashLen accepted);
    PBKDF2 loop structure c = 1 / 2 / > 2
    and the partial last block; scrypt BlockMix interleaving (r = 1, odd r, r = 8), Integerify (N up to 2^10),
    p > 1 (the scratch vectors are reused), parameter constraints of ScryptParams::new.
"""

BLOCK = {"sha1": 64, "sha224": 64, "sha256": 64, "sha384": 128, "sha512": 128, "sha512_224": 128, "sha512_256": 128,
         "sha3_224": 144, "sha3_256": 136, "sha3_384": 104, "sha3_512": 72,
         "keccak224": 144, "keccak256": 136, "keccak384": 104, "keccak512": 72, "ripemd160": 64}
OUT = {"sha1": 20, "sha224": 28, "sha256": 32, "sha384": 48, "sha512": 64, "sha512_224": 28, "sha512_256": 32,
       "sha3_224": 28, "sha3_256": 32, "sha3_384": 48, "sha3_512": 64,
       "keccak224": 28, "keccak256": 32, "keccak384": 48, "keccak512": 64, "ripemd160": 20}
FIXED = list(BLOCK)
BLAKE = ["blake2b_64", "blake2b_32", "blake2b_20", "blake2s_32", "blake2s_16"]
ALL = FIXED + BLAKE


def block_of(d):
    return BLOCK[d] if d in BLOCK else (128 if d.startswith("blake2b") else 64)


def out_of(d):
    return OUT[d] if d in OUT else int(d.split("_")[1])


def hx(b):
    return "-" if len(b) == 0 else bytes(b).hex()


def split(rng, msg, how):
    """list of chunks of msg"""
    n = len(msg)
    if how == "whole" or n == 0:
        return [msg]
    if how == "bytes":
        return [msg[i:i + 1] for i in range(n)]
    if how == "two":
        k = rng.randrange(n + 1)
        return [msg[:k], msg[k:]]
    if how == "empties":
        k = rng.randrange(n + 1)
        return [b"", msg[:k], b"", msg[k:], b""]
    cuts = sorted(rng.randrange(n + 1) for _ in range(rng.randrange(1, 5)))
    out, p = [], 0
    for c in cuts + [n]:
        out.append(msg[p:c])
        p = c
    return out


def prog_inputs(chunks):
    return ";".join("i" + hx(c) for c in chunks)


# ----------------------------------------------------------------------------------------------- C08

def gen_C08(tier, rng):
    hows = ("whole", "two", "random", "empties", "bytes")
    for d in ALL:
        B, H = block_of(d), out_of(d)
        keylens = [0, 1, B - 1, B, B + 1, 2 * B + 5, rng.randrange(2, 3 * B)]
        if tier == "thorough":
            keylens += [H, H + 1, B - H, 3 * B, rng.randrange(2, 3 * B)]
        msglens = [0, 1, B - 1, B, B + 1, 2 * B + 3, rng.randrange(0, 4 * B)]
        for kl in keylens:
            key = rng.rbytes(kl)
            picks = msglens if tier == "thorough" else [msglens[i] for i in sorted(rng.sample(range(len(msglens)), 3))]
            for ml in picks:
                msg = rng.rbytes(ml)
                how = hows[rng.randrange(len(hows))] if ml <= 300 else hows[rng.randrange(4)]
                fin = "R" if rng.randrange(2) else "W"
                yield (f"mac.hmac {d} {hx(key)} {prog_inputs(split(rng, msg, how))};{fin};o",
                       f"hmac.{d}.key{'<=B' if kl <= B else '>B'}.{how}")
        # all-zero / all-0x36 / all-0x5c keys (pads cancel), key = its own hash length
        for key in (bytes(B), b"\x36" * B, b"\x5c" * B, b"\x36" * (B + 1)):
            yield (f"mac.hmac {d} {hx(key)} i{hx(rng.rbytes(17))};R", f"hmac.{d}.padkey")
    # RFC 2202 / RFC 4231 style vectors
    for d in ("sha1", "sha256", "sha512", "sha224", "sha384"):
        yield (f"mac.hmac {d} {'0b' * 20} i{hx(b'Hi There')};R", "hmac.vector")
        yield (f"mac.hmac {d} {hx(b'Jefe')} i{hx(b'what do ya want for nothing?')};R", "hmac.vector")
        yield (f"mac.hmac {d} {'aa' * 131} i{hx(b'Test Using Larger Than Block-Size Key - Hash Key First')};R", "hmac.vector")


# ----------------------------------------------------------------------------------------------- C09

def _chunk(rng, B, kind):
    if kind == 0:
        return b""
    if kind == 1:
        return rng.rbytes(1)
    if kind == 2:
        return rng.rbytes(B)
    if kind == 3:
        return rng.rbytes(2 * B)
    if kind == 4:
        return rng.rbytes(B - 1)
    return rng.rbytes(rng.randrange(1, 2 * B + 2))


def _hist(rng, B, H, depth, alphabet):
    """random history; after a result op the next op is a reset 2 times out of 3 (so that long histories do not all
    end at the first refused op), otherwise anything (input after result, second result, ...)"""
    ops, after_result = [], False
    for _ in range(depth):
        a = alphabet[rng.randrange(len(alphabet))]
        if after_result and rng.randrange(3):
            a = "r" if "k" not in alphabet or rng.randrange(4) else "k"
        after_result = a in ("R", "W")
        if a == "i":
            ops.append("i" + hx(_chunk(rng, B, rng.randrange(6))))
        elif a == "Wn":
            ops.append("W" + str([H - 1, H + 1, 0, H, 2 * H][rng.randrange(5)]))
            after_result = True
        elif a == "k":
            ops.append("k" + hx(rng.rbytes([0, 1, 16, 32, 64][rng.randrange(5)])))
        else:
            ops.append(a)
    return ";".join(ops)


def _exhaustive(rng, B, depth, letters=("i", "R", "W", "r")):
    """all words over the letters up to the given depth; `i` chunks cycle through the length classes.  With the clone
    letters (`c` push a clone, `x` swap with the top of the stack) words whose `x` finds an empty stack (a no-op) and
    words ending in `c` (a clone nobody looks at) are skipped: they repeat a shorter word."""
    words = [[]]
    for _ in range(depth):
        words = [w + [l] for w in words for l in letters if not (l == "x" and "c" not in w)]
        for w in words:
            if w[-1] == "c":
                continue
            k = [0]

            def ren(l):
                if l == "i":
                    k[0] += 1
                    return "i" + hx(_chunk(rng, B, (k[0] + len(w)) % 5))
                return l
            yield ";".join(ren(l) for l in w)


CLONE_LETTERS = ("i", "R", "W", "r", "c", "x")


DIRECTED = ["R;R", "W;W", "R;W", "R;i00", "R;i-", "i-;R", "r;R", "R;r;R", "i{m};R;r;i{m};R", "i{m};r;R", "i{m};R;r;R",
            "i{b};R;R", "i{b};R;i00", "i{b};i{b};W;r;i{b};R", "o;i{m};o;R;o;r;o", "R;r;r;i{m};R", "i{m};r;r;i{m};W"]


def _directed(rng, B):
    m, b = rng.rbytes(rng.randrange(1, 40)), rng.rbytes(B)
    for t in DIRECTED:
        yield t.replace("{m}", hx(m)).replace("{b}", hx(b))


def gen_C09(tier, rng):
    quick = tier != "thorough"
    depth = 4 if quick else 6
    nrand = 12 if quick else 60
    # --- HMAC objects (not Clone)
    for d in ALL:
        B, H = block_of(d), out_of(d)
        key = rng.rbytes([0, 1, 20, B, B + 1][rng.randrange(5)])
        for p in _directed(rng, B):
            yield (f"mac.hmac {d} {hx(key)} {p}", f"hmacobj.{d}.directed")
        for _ in range(nrand):
            key = rng.rbytes([0, 1, 20, B, B + 1][rng.randrange(5)])
            p = _hist(rng, B, H, rng.randrange(1, depth + 1), ["i", "i", "R", "W", "r", "o", "Wn"])
            yield (f"mac.hmac {d} {hx(key)} {p}", f"hmacobj.{d}.random")
    # every history over {input, result, raw_result, reset} to depth 4 for EVERY HMAC type (340 per type); thorough: depth 5
    # (1364 per type) for one type of each engine family
    deep = () if quick else ("sha256", "sha3_256", "sha512", "blake2s_32", "sha1", "ripemd160", "blake2b_64")
    for d in ALL:
        key = rng.rbytes([20, 1, block_of(d), block_of(d) + 1][ALL.index(d) % 4])
        for p in _exhaustive(rng, block_of(d), 5 if d in deep else 4):
            yield (f"mac.hmac {d} {hx(key)} {p}", f"hmacobj.{d}.exhaustive")
    # --- legacy digest objects vs the one-shot functions (Spec = the hash of the bytes since the last reset)
    for d in ALL:
        B, H = block_of(d), out_of(d)
        isb = d.startswith("blake2")
        # Digest::input_str / result_str (hex convenience API) on ASCII strings across the padding boundaries
        for n in sorted({0, 1, 3, B - 9, B - 1, B, B + 1, 2 * B + 5} - {-1, -9}):
            if n >= 0:
                txt = bytes(0x20 + rng.randrange(95) for _ in range(n))
                yield (f"dig.str {d} {hx(txt)}", f"digstr.{d}")
        for p in _directed(rng, B):
            yield (f"dig.obj {d} {p}", f"digobj.{d}.directed")
        alpha = ["i", "i", "R", "W", "r", "o", "Wn", "c", "x"]
        for _ in range(nrand):
            p = _hist(rng, B, H, rng.randrange(1, depth + 1), alpha)
            yield (f"dig.obj {d} {p}", f"digobj.{d}.random")
        if isb:
            # keyed through the inherent reset_with_key, then Digest::reset (finding (d), fixed by /repo c8ec1e5: reset used to drop the key)
            for _ in range(4 if quick else 16):
                p = _hist(rng, B, H, rng.randrange(2, depth + 1), alpha + ["k", "k"])
                yield (f"dig.obj {d} {p}", f"digobj.{d}.rekey")
    # every history over {input, result, raw_result, reset, clone, swap} to depth 4 for EVERY legacy digest type (the
    # objects are Clone); thorough: depth 5 without the clone letters for one type of each engine family
    deep = () if quick else ("sha1", "sha512", "keccak256", "ripemd160", "sha3_512", "blake2b_64", "sha256", "blake2s_32")
    for d in ALL:
        for p in _exhaustive(rng, block_of(d), 4, CLONE_LETTERS):
            yield (f"dig.obj {d} {p}", f"digobj.{d}.exhaustive")
        if d in deep:
            for p in _exhaustive(rng, block_of(d), 5):
                if p.count(";") == 4:
                    yield (f"dig.obj {d} {p}", f"digobj.{d}.exhaustive5")
    # static one-shot of the BLAKE2 wrappers
    for v, mx in (("blake2b", 64), ("blake2s", 32)):
        for ol in (1, mx // 2, mx, 0, mx + 1):
            for kl in (0, 1, mx, mx + 1, 64, 65):
                yield (f"dig.{v} {ol} {hx(rng.rbytes(kl))} {hx(rng.rbytes(rng.randrange(0, 300)))}", f"digobj.{v}.static")
    # --- keyed BLAKE2 as Mac (Clone, reset_with_key)
    for v, mx, B in (("blake2b", 64, 128), ("blake2s", 32, 64)):
        for ol in (mx, 16, 1):
            for kl in (0, 1, mx // 2, mx):
                key = rng.rbytes(kl)
                for p in _directed(rng, B):
                    yield (f"mac.{v} {ol} {hx(key)} {p}", f"blake2mac.{v}.directed")
                for _ in range(max(2, nrand // 3)):
                    p = _hist(rng, B, ol, rng.randrange(1, depth + 1), ["i", "i", "R", "W", "r", "o", "Wn", "c", "x", "k"])
                    yield (f"mac.{v} {ol} {hx(key)} {p}", f"blake2mac.{v}.random")
        key = rng.rbytes(mx)
        for p in _exhaustive(rng, B, 4, CLONE_LETTERS):
            yield (f"mac.{v} {mx} {hx(key)} {p}", f"blake2mac.{v}.exhaustive")
        if not quick:
            for p in _exhaustive(rng, B, 5):
                if p.count(";") == 4:
                    yield (f"mac.{v} {mx} {hx(key)} {p}", f"blake2mac.{v}.exhaustive5")
        # re-keying transitions between every pair of key classes (empty / 1 byte / half / full), before and after a
        # result, followed by Digest::reset (which must re-key with the LAST key): seeded change C09-7 special-cased the
        # empty key in reset_with_key
        kcls = [b"", rng.rbytes(1), rng.rbytes(mx // 2), rng.rbytes(mx)]
        msg = hx(rng.rbytes(B + 3))
        for k0 in kcls:
            for k1 in kcls:
                for pre in ("", f"i{msg};", f"i{msg};R;"):
                    for post in (f"i{msg};R", f"r;i{msg};R", "R", f"i{msg};R;r;i{msg};R"):
                        yield (f"mac.{v} {mx} {hx(k0)} {pre}k{hx(k1)};{post}", f"blake2mac.{v}.rekey-pairs")
                yield (f"dig.obj {v}_{mx} k{hx(k0)};i{msg};k{hx(k1)};i{msg};R", f"digobj.{v}.rekey-pairs")
                yield (f"dig.obj {v}_{mx} k{hx(k0)};k{hx(k1)};r;i{msg};R", f"digobj.{v}.rekey-pairs")
        # the shortest witnesses of finding (d) (fixed by /repo c8ec1e5)
        yield (f"mac.{v} {mx} {hx(key)} r;R", f"blake2mac.{v}.reset-witness")
        yield (f"mac.{v} {mx} {hx(key)} R;r;R", f"blake2mac.{v}.reset-witness")
        # constructor refusals
        for ol, kl in ((0, 0), (mx + 1, 0), (mx, mx + 1), (mx, 65), (mx, 64)):
            yield (f"mac.{v} {ol} {hx(rng.rbytes(kl))} i00;R", f"blake2mac.{v}.ctor")


# ----------------------------------------------------------------------------------------------- C10

def gen_C10(tier, rng):
    quick = tier != "thorough"
    # --- HKDF
    hk = ["sha256", "sha1", "sha512"] + ([] if quick else ["sha3_256", "ripemd160", "blake2b_64", "sha384", "keccak512"])
    for d in hk:
        B, H = block_of(d), out_of(d)
        for sl in (0, 1, H, B - 1, B, B + 1, 2 * B + 5):
            for il in ((0, 22) if quick else (0, 22, 80, 200)):
                yield (f"kdf.hkdf_extract {d} {hx(rng.rbytes(sl))} {hx(rng.rbytes(il))} {H}", f"hkdf.extract.{d}")
        for wrong in (H - 1, H + 1, 0, 2 * H):
            yield (f"kdf.hkdf_extract {d} {hx(rng.rbytes(7))} {hx(rng.rbytes(9))} {wrong}", f"hkdf.extract.{d}.badlen")
        # a digest object that is not fresh (data fed, or already finalised) must give the same RFC value, also when the
        # salt / PRK is longer than a block (the key is then hashed with that very object)
        for pre in ("-", hx(rng.rbytes(1)), hx(rng.rbytes(B - 1)), hx(rng.rbytes(B + 3)), hx(rng.rbytes(5)) + "!", "00!"):
            for sl in (0, H, B, B + 1, 2 * B + 5):
                yield (f"kdf.hkdf_extract_used {d} {pre} {hx(rng.rbytes(sl))} {hx(rng.rbytes(22))} {H}", f"hkdf.extract.used.{d}")
            for pl in (H, B + 1):
                yield (f"kdf.hkdf_expand_used {d} {pre} {hx(rng.rbytes(pl))} {hx(rng.rbytes(10))} {2 * H + 1}", f"hkdf.expand.used.{d}")
        Ls = [0, 1, H - 1, H, H + 1, 2 * H - 1, 2 * H, 2 * H + 1, 3 * H, 17 * H + 5, 254 * H, 254 * H + 1, 255 * H - 1, 255 * H,
              255 * H + 1, 256 * H, 256 * H + 1, 300 * H]
        if not quick:
            Ls += [k * H for k in (4, 5, 8, 16, 32, 64, 127, 128, 129, 200)] + [rng.randrange(1, 255 * H) for _ in range(8)]
        for i, L in enumerate(Ls):
            # the documented domain: |PRK| >= HashLen ("prk - The pseudorandom key of at least `digest.output_bytes()` octets",
            # RFC 5869 2.3) and L <= 255*HashLen; everything else must be refused (PANIC).
            # Every named L with a VALID PRK (|PRK| = HashLen), unconditionally ...
            info = rng.rbytes([0, 10, 80, B, 3][rng.randrange(5)])
            yield (f"kdf.hkdf_expand {d} {hx(rng.rbytes(H))} {hx(info)} {L}", f"hkdf.expand.{d}.{'ok' if L <= 255 * H else 'over'}")
            # ... and IN ADDITION with a PRK of another length class (0, 1: refused; block, block+1: longer than HashLen), cycling
            pl = [0, 1, B, B + 1][i % 4]
            cls = "shortprk" if pl < H else ("longprk.ok" if L <= 255 * H else "longprk.over")
            yield (f"kdf.hkdf_expand {d} {hx(rng.rbytes(pl))} {hx(info)} {L}", f"hkdf.expand.{d}.{cls}")
        # PRK lengths one below / at / one above HashLen (and 0, 1, 2*HashLen), for output lengths inside and beyond the limit
        for pl in (0, 1, H - 1, H, H + 1, 2 * H):
            for L in ((1, H + 1) if quick else (0, 1, H, H + 1, 255 * H, 255 * H + 1)):
                cls = "shortprk" if pl < H else ("ok" if L <= 255 * H else "over")
                yield (f"kdf.hkdf_expand {d} {hx(rng.rbytes(pl))} {hx(rng.rbytes(4))} {L}", f"hkdf.expand.{d}.prklen.{cls}")
    # the witness line of the theorems `hkdf_expand_old_accepts_short_prk` (Props/C10/Kdf.lean, Props/C20/Refusal.lean): a one-byte PRK
    yield ("kdf.hkdf_expand sha256 0b 696e666f 33", "hkdf.expand.sha256.prklen.shortprk")
    # RFC 5869 test case 1 and 3 (SHA-256), 4 (SHA-1)
    yield (f"kdf.hkdf_extract sha256 000102030405060708090a0b0c {'0b' * 22} 32", "hkdf.vector")
    yield ("kdf.hkdf_expand sha256 077709362c2e32df0ddc3f0dc47bba6390b6c73bb50f9c3122ec844ad7c2b3e5 f0f1f2f3f4f5f6f7f8f9 42", "hkdf.vector")
    yield (f"kdf.hkdf_extract sha256 - {'0b' * 22} 32", "hkdf.vector")
    yield (f"kdf.hkdf_extract sha1 000102030405060708090a0b0c {'0b' * 11} 20", "hkdf.vector")
    # --- PBKDF2
    prfs = ["sha1", "sha256", "sha512"] + ([] if quick else ["sha3_256", "ripemd160", "blake2s_32", "sha224", "keccak384"])
    for d in prfs:
        B, H = block_of(d), out_of(d)
        dks = [0, 1, H - 1, H, H + 1, 2 * H, 2 * H + 7, 3 * H + 1]
        for c in range(1, 7):
            for dk in (dks if not quick else [dks[i] for i in sorted(rng.sample(range(len(dks)), 4))]):
                pwd = rng.rbytes([0, 8, B, B + 1, 13][rng.randrange(5)])
                salt = rng.rbytes([0, 4, 16, 100][rng.randrange(4)])
                yield (f"kdf.pbkdf2 {d} {hx(pwd)} {hx(salt)} {c} {dk}", f"pbkdf2.{d}.c{min(c, 3)}")
        for c in ((10, 100) if quick else (7, 10, 33, 100, 1000, 4096)):
            yield (f"kdf.pbkdf2 {d} {hx(rng.rbytes(9))} {hx(rng.rbytes(8))} {c} {H + 3}", f"pbkdf2.{d}.large-c")
        yield (f"kdf.pbkdf2 {d} {hx(rng.rbytes(9))} {hx(rng.rbytes(8))} 0 {H}", f"pbkdf2.{d}.c0")
        yield (f"kdf.pbkdf2 {d} {hx(rng.rbytes(9))} {hx(rng.rbytes(8))} 2 {40 * H + 1}", f"pbkdf2.{d}.many-blocks")
    yield (f"kdf.pbkdf2 sha1 {hx(b'password')} {hx(b'salt')} 1 20", "pbkdf2.vector")
    yield (f"kdf.pbkdf2 sha1 {hx(b'password')} {hx(b'salt')} 2 20", "pbkdf2.vector")
    yield (f"kdf.pbkdf2 sha1 {hx(b'passwordPASSWORDpassword')} {hx(b'saltSALTsaltSALTsaltSALTsaltSALTsalt')} 4096 25", "pbkdf2.vector")
    yield (f"kdf.pbkdf2 sha256 {hx(b'passwd')} {hx(b'salt')} 1 64", "pbkdf2.vector")
    # keyed BLAKE2 as the PRF of PBKDF2: pbkdf2 calls mac.reset() after every PRF call (finding (d), fixed by /repo c8ec1e5, showed here too)
    for v, ol in (("blake2bmac", 64), ("blake2smac", 32)):
        for c in (1, 2, 3):
            for dk in (ol, ol + 1):
                yield (f"kdf.pbkdf2 {v}_{ol} {hx(rng.rbytes(16))} {hx(rng.rbytes(8))} {c} {dk}", f"pbkdf2.{v}")
    # --- scrypt
    yield ("kdf.scrypt - - 4 1 1 64", "scrypt.vector")
    yield (f"kdf.scrypt {hx(b'password')} {hx(b'NaCl')} 10 8 16 64" if not quick else
           f"kdf.scrypt {hx(b'password')} {hx(b'NaCl')} 4 8 2 64", "scrypt.vector")
    # the grid the property names: log2 N in 1..=10, r in 1..=8, p in 1..=4 (320 points, sum of N*r*p = 7.4e5).
    # thorough: ALL of it.  quick: every logN up to 10 with r = p = 1 and on a diagonal through r and p, every r, every p,
    # then a seeded sample that keeps the sum of N*r*p under the budget (so it is weighted to cheap points).
    maxlog = 10
    grid = [(logn, r, p) for logn in range(1, maxlog + 1) for r in range(1, 9) for p in range(1, 5)]
    if quick:
        chosen = set()
        for logn in range(1, maxlog + 1):
            chosen.add((logn, 1, 1))
            chosen.add((logn, 1 + (logn * 3) % 8, 1 + logn % 4))
        for r in range(1, 9):
            chosen.add((1 + r % 6, r, 1 + (r + 1) % 4))
            chosen.add((2, r, 1))
        for p in range(1, 5):
            chosen.add((3, 3, p))
            chosen.add((1, 1, p))
        want, budget = 60, 2.0e5       # budget: sum of N*r*p over the sample
        cost = sum((1 << l) * r * p for (l, r, p) in chosen)
        tries = 0
        while len(chosen) < want and tries < 5000:
            tries += 1
            g = grid[rng.randrange(len(grid))]
            c = (1 << g[0]) * g[1] * g[2]
            if g in chosen or cost + c > budget:
                continue
            chosen.add(g)
            cost += c
    else:
        chosen = set(grid)             # want = 320: the full grid
    dks = [1, 2, 31, 32, 33, 63, 64, 65, 96, 97, 128, 129, 130]
    for i, (logn, r, p) in enumerate(sorted(chosen)):
        dk = dks[i % len(dks)] if i % 3 else rng.randrange(1, 131)
        pwd = rng.rbytes([0, 8, 64, 65, 20][rng.randrange(5)])
        salt = rng.rbytes([0, 4, 16, 40][rng.randrange(4)])
        yield (f"kdf.scrypt {hx(pwd)} {hx(salt)} {logn} {r} {p} {dk}",
               f"scrypt.grid.logN{'<=6' if logn <= 6 else '7..10'}.r{'1' if r == 1 else ('odd' if r % 2 else 'even')}.p{'1' if p == 1 else '>1'}")
    # dkLen 1..=130, every value, at r = p = 1 and at a point with r > 1 and p > 1 (the PBKDF2 output stage sees p*128*r bytes)
    for (logn, r, p) in ((2, 1, 1), (2, 3, 2)):
        for dk in range(1, 131):
            yield (f"kdf.scrypt {hx(rng.rbytes(5))} {hx(rng.rbytes(5))} {logn} {r} {p} {dk}", f"scrypt.dklen.r{r}p{p}")
    if not quick:
        yield (f"kdf.scrypt {hx(rng.rbytes(5))} {hx(rng.rbytes(5))} 15 1 1 32", "scrypt.maxN-for-r1")
        yield (f"kdf.scrypt {hx(rng.rbytes(5))} {hx(rng.rbytes(5))} 12 2 1 32", "scrypt.largeN")
    for line, kind in _scrypt_invalid(rng):
        yield (line, kind)


def _scrypt_invalid(rng):
    # ScryptParams::new: accept / refuse
    for logn in (0, 1, 2, 15, 16, 17, 31, 32, 33, 47, 48, 56, 57, 62, 63, 64, 65, 100, 255):
        for r in (0, 1, 2, 3, 4, 8):
            yield (f"kdf.scrypt_params {logn} {r} 1", "scrypt.params.logN-r")
    for r, p in ((1, 0), (1, 1), (1, 2 ** 30 - 1), (1, 2 ** 30), (2, 2 ** 29 - 1), (2, 2 ** 29), (2 ** 15, 2 ** 15 - 1),
                 (2 ** 15, 2 ** 15), (2 ** 30 - 1, 1), (2 ** 30, 1), (2 ** 32 - 1, 1), (2 ** 32 - 1, 2 ** 32 - 1), (3, 357913941),
                 (3, 357913942), (7, 153391689), (7, 153391690)):
        yield (f"kdf.scrypt_params 1 {r} {p}", "scrypt.params.r-p")
    for logn, r in ((50, 2 ** 7 - 1), (50, 2 ** 7), (40, 2 ** 17 - 1), (40, 2 ** 17), (56, 4), (57, 4), (55, 8), (56, 8), (30, 2 ** 27), (30, 2 ** 27 - 1)):
        yield (f"kdf.scrypt_params {logn} {r} 1", "scrypt.params.usize")
    for _ in range(40):
        logn = rng.randrange(0, 70)
        r = [0, 1, 2, 3, 5, 8, 100, 2 ** 20][rng.randrange(8)]
        p = [0, 1, 2, 4, 1000, 2 ** 28, 2 ** 30][rng.randrange(7)]
        yield (f"kdf.scrypt_params {logn} {r} {p}", "scrypt.params.random")
    # scrypt() itself with refused parameters / lengths
    for logn, r, p, dk in ((0, 1, 1, 32), (16, 1, 1, 32), (4, 0, 1, 32), (4, 1, 0, 32), (4, 1, 1, 0), (64, 8, 1, 32), (32, 1, 1, 16)):
        yield (f"kdf.scrypt {hx(rng.rbytes(4))} {hx(rng.rbytes(4))} {logn} {r} {p} {dk}", "scrypt.refused")


# ----------------------------------------------------------------------------------------------- C20 (part)

def gen_C20(tier, rng):
    # requests beyond the KDF limits
    for d in ("sha256", "sha1", "sha512", "sha3_512", "blake2s_16"):
        H = out_of(d)
        for L in (255 * H, 255 * H + 1, 255 * H + H, 256 * H + 1, 1000 * H):
            yield (f"kdf.hkdf_expand {d} {hx(rng.rbytes(H))} {hx(rng.rbytes(3))} {L}", f"limit.hkdf.{'ok' if L <= 255 * H else 'over'}")
        for wrong in (0, H - 1, H, H + 1):
            yield (f"kdf.hkdf_extract {d} - {hx(rng.rbytes(5))} {wrong}", "limit.hkdf.prklen")
        yield (f"kdf.pbkdf2 {d} 70 73 0 {H}", "limit.pbkdf2.c0")
        yield (f"kdf.pbkdf2 {d} 70 73 1 0", "limit.pbkdf2.empty-output")
    for line, kind in _scrypt_invalid(rng):
        yield (line, "limit." + kind)
    # output buffer sizes of result / raw_result
    for d in ALL:
        H = out_of(d)
        for n in (0, 1, H - 1, H, H + 1, 2 * H, 200):
            yield (f"dig.obj {d} i616263;W{n}", "bufsize.digest")
            yield (f"mac.hmac {d} 6b6579 i616263;W{n}", "bufsize.hmac")
    for v, mx in (("blake2b", 64), ("blake2s", 32)):
        for ol in (1, 20, mx):
            for n in (0, ol - 1, ol, ol + 1, mx, mx + 1):
                yield (f"mac.{v} {ol} 6b6579 i616263;W{n}", "bufsize.blake2mac")
        # constructor domains: outlen 0 / max+1, key max / max+1 / 64 / 65
        for ol in (0, 1, mx, mx + 1, 65, 1000):
            for kl in (0, 1, mx, mx + 1, 64, 65, 200):
                yield (f"mac.{v} {ol} {hx(rng.rbytes(kl))} i00;R", "ctor.blake2mac")
            yield (f"dig.obj {v}_{ol} i00;R;o", "ctor.blake2dig")
            yield (f"dig.{v} {ol} - 00", "ctor.blake2static")
        for kl in (0, 1, mx, mx + 1, 64, 65, 200):
            yield (f"mac.{v} {mx} 6b i00;k{hx(rng.rbytes(kl))};i00;R", "rekey.blake2mac")
    # the `finished` / `computed` flags of the MAC objects: input, result and raw_result after a result are refused
    # (HMAC and the BLAKE2 MACs alike), reset clears the flag; very large and zero-length buffers
    for d in ALL:
        H = out_of(d)
        key = rng.rbytes(rng.choice([1, block_of(d), block_of(d) + 1]))
        for first in ("R", "W", f"W{H}"):
            for second in ("i00", "i-", "R", "W", f"W{H}", f"W{H - 1}", f"W{H + 1}", "W0", "W100000"):
                yield (f"mac.hmac {d} {hx(key)} i616263;{first};{second}", "state.hmac.refuse")
            for ok in ("r;i00;R", "r;R", "o;r;W"):
                yield (f"mac.hmac {d} {hx(key)} i616263;{first};{ok}", "state.hmac.accept")
        yield (f"mac.hmac {d} {hx(key)} W100000", "bufsize.hmac")
        yield (f"dig.obj {d} W100000", "bufsize.digest")
    for v, mx in (("blake2b", 64), ("blake2s", 32)):
        for ol in (1, mx):
            for first in ("R", "W", f"W{ol}"):
                for second in ("i00", "i-", "R", "W", f"W{ol}", f"W{ol + 1}", "W0", "W100000", "r;i00;R", "k6b;i00;R"):
                    kind = "state.blake2mac.accept" if second[0] in "rk" else "state.blake2mac.refuse"
                    yield (f"mac.{v} {ol} 6b6579 i616263;{first};{second}", kind)
    # `hkdf_expand` documents "prk … of at least digest.output_bytes() octets" (RFC 5869 2.3 "PRK  a pseudorandom key of at
    # least HashLen octets"): a shorter PRK must be refused (`assert!(prk.len() >= digest.output_bytes())`, PANIC), never
    # answered with a value; HashLen, HashLen + 1 and 2*HashLen are accepted
    for d in ("sha256", "sha1", "sha512"):
        H = out_of(d)
        for pl in (0, 1, H - 1, H, H + 1, 2 * H):
            yield (f"kdf.hkdf_expand {d} {hx(rng.rbytes(pl))} {hx(rng.rbytes(3))} {H + 1}",
                   "refuse.hkdf.prklen" if pl < H else "accept.hkdf.prklen")
        # iteration counts next to the refused 0; output lengths around one block
        for c in (0, 1, 2):
            for dk in (0, 1, H - 1, H, H + 1):
                yield (f"kdf.pbkdf2 {d} 70 73 {c} {dk}", "limit.pbkdf2.c0" if c == 0 else "accept.pbkdf2")
    yield ("kdf.hkdf_expand sha256 0b 696e666f 33", "refuse.hkdf.prklen")   # the line of the witness theorem (one-byte PRK)
    # scrypt output length: 0 refused, 1 / 32 / 33 accepted (the upper limit (2^32-1)*32 cannot be allocated here)
    for dk in (0, 1, 31, 32, 33):
        yield (f"kdf.scrypt 70 73 2 1 1 {dk}", "limit.scrypt.dklen0" if dk == 0 else "accept.scrypt.dklen")
