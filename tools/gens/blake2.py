"""Case generators of the `blake2` unit (ops: see lean/CxVerif/Driver/Blake2.lean).

gen_C01: one-shot digests — parameter grids x boundary lengths, every length 0..=4B+1 for the standard sizes,
         random messages; gen_C02: context histories (exhaustive to a depth, random beyond);
gen_C20: the refused-parameter matrix of the BLAKE2 entry points.
"""
import itertools

ALGS = {"blake2b": dict(B=128, max=64, std=(28, 32, 48, 64)),
        "blake2s": dict(B=64, max=32, std=(28, 32))}


def hx(b):
    return "-" if len(b) == 0 else bytes(b).hex()


def _lens(B):
    return [0, 1, B - 1, B, B + 1, 2 * B, 2 * B + 1]


def gen_C01(tier, rng):
    quick = tier == "quick"
    for alg, p in ALGS.items():
        B, mx = p["B"], p["max"]
        # parameter grid x boundary lengths
        outs = sorted({1, mx // 4, mx // 2, mx - 1, mx}) if quick else range(1, mx + 1)
        keys = [0, 1, mx - 1, mx] if quick else range(0, mx + 1)
        for o in outs:
            for k in keys:
                key = rng.rbytes(k)
                for n in _lens(B):
                    yield (f"hash.{alg} {o} {hx(key)} {hx(rng.rbytes(n))}", f"{alg}.grid")
        # every length 0..=4B+1: the one-shot functions (unkeyed) and keyed standard sizes
        for n in range(0, 4 * B + 2):
            msg = rng.rbytes(n)
            for o in p["std"]:
                yield (f"hash.{alg}_{8 * o} {hx(msg)}", f"{alg}.everylen.oneshot")
            sizes = (mx,) if quick else p["std"]
            for o in sizes:
                yield (f"hash.{alg} {o} - {hx(msg)}", f"{alg}.everylen.unkeyed")
                k = rng.choice([1, mx // 2, mx])
                yield (f"hash.{alg} {o} {hx(rng.rbytes(k))} {hx(msg)}", f"{alg}.everylen.keyed")
        # BITS that are not a multiple of 8 (output bytes = ceil(BITS / 8))
        bits = ([1, 7, 9, 15, 17, 255, 257, 383, 504, 505, 511] if alg == "blake2b"
                else [1, 7, 9, 15, 17, 127, 129, 248, 249, 255])
        for bt in bits:
            for n in (0, 1, B, B + 1):
                yield (f"hashbits.{alg} {bt} {hx(rng.rbytes(rng.choice([0, 3])))} {hx(rng.rbytes(n))}", f"{alg}.bits")
        # random messages
        cnt, top = (40, 8 * 1024) if quick else (200, 64 * 1024)
        for i in range(cnt):
            n = rng.randrange(top + 1) if i % 4 else rng.choice([top, top - 1, (top // B) * B, rng.randrange(1, 32) * B])
            o = rng.randrange(1, mx + 1)
            k = rng.choice([0, 0, rng.randrange(1, mx + 1), mx])
            yield (f"hash.{alg} {o} {hx(rng.rbytes(k))} {hx(rng.rbytes(n))}", f"{alg}.random")
        # long messages (> 4B+1) for the fixed-size one-shot functions `hashing::blake2x_nnn` and their contexts, up to the
        # 64 KiB the property names; one 64 KiB message through the parameterised entry point, keyed and unkeyed
        for o in p["std"]:
            for n in (4 * B + 2, 5 * B - 1, 5 * B, 5 * B + 1, 16 * B, rng.randrange(4 * B + 2, 8193), 65536):
                yield (f"hash.{alg}_{8 * o} {hx(rng.rbytes(n))}", f"{alg}.long.oneshot")
        yield (f"hash.{alg} {mx} - {hx(rng.rbytes(65536))}", f"{alg}.64KiB")
        yield (f"hash.{alg} {rng.randrange(1, mx + 1)} {hx(rng.rbytes(mx))} {hx(rng.rbytes(65536))}", f"{alg}.64KiB")
        # small refused stream
        for o, k in ((0, 0), (mx + 1, 0), (mx, mx + 1), (0, mx + 1)):
            yield (f"hash.{alg} {o} {hx(rng.rbytes(k))} {hx(rng.rbytes(3))}", f"{alg}.refused")


def _chunks(B):
    return [0, 1, B - 1, B, B + 1, 2 * B + 3]


def _finish(seq):
    """make every history observable: final digest of the current context and of a forked one"""
    toks = list(seq) + ["d"]
    if "c" in seq:
        toks += ["x", "d"]
    return ";".join(toks)


def gen_C02(tier, rng):
    quick = tier == "quick"
    depth = 3 if quick else 4
    for alg, p in ALGS.items():
        B, mx = p["B"], p["max"]

        def tok(sym):
            kind, arg = sym
            if kind in ("u", "m"):
                return kind + (rng.rbytes(arg).hex() if arg else "")
            if kind in ("k", "G"):
                return kind + (rng.rbytes(arg).hex() if arg else "")
            return kind
        # the alphabet of the exhaustive part: update and update_mut with EVERY chunk length class, fork / swap, reset,
        # reset_with_key with the empty / a 1-byte / a maximal key, finalize_reset, finalize_reset_with_key with a 1-byte and a
        # maximal key, finalize-of-clone (22 symbols)
        alphabet = ([("u", c) for c in _chunks(B)] + [("m", c) for c in _chunks(B)]
                    + [("c", 0), ("x", 0), ("r", 0), ("k", 0), ("k", 1), ("k", mx), ("F", 0), ("G", 1), ("G", mx), ("d", 0)])
        apis = ("dyn", "ctx", "std")
        n4 = 0
        for d in range(1, depth + 1):
            for seq in itertools.product(alphabet, repeat=d):
                if seq[0][0] == "x" or (d == depth and seq[-1][0] in ("c",)):
                    continue
                toks = [tok(s) for s in seq]
                prog = _finish(toks)
                key = rng.rbytes(rng.choice([1, mx]))
                o = rng.choice([1, mx // 2, mx])
                so = rng.choice(p["std"])
                skey = key if rng.randrange(2) else b""
                # depth <= 3: every sequence through all three APIs (ContextDyn, Context<8*outlen> with the …_at functions,
                # the const-generic Context<224|256|384|512> with finalize()/finalize_reset()); depth 4 (thorough): the three
                # APIs take turns (one API per sequence, round robin)
                if d <= 3:
                    which = apis
                else:
                    which = (apis[n4 % 3],)
                    n4 += 1
                if "dyn" in which:
                    yield (f"hctxdyn.{alg} {mx} - {prog}", f"{alg}.exh{d}.dyn")
                if "ctx" in which:
                    yield (f"hctx.{alg} {o} {hx(key)} {prog}", f"{alg}.exh{d}.ctx")
                if "std" in which:
                    yield (f"hctxstd.{alg} {so} {hx(skey)} {prog}", f"{alg}.exh{d}.std")
        # re-keying transitions between every pair of key classes (empty / 1 byte / max-1 / max) through reset_with_key (k)
        # and finalize_reset_with_key (G), from a fresh, a partially filled and a just-finalised context
        kcls = [b"", rng.rbytes(1), rng.rbytes(mx - 1), rng.rbytes(mx)]
        for k0 in kcls:
            for k1 in kcls:
                m1 = rng.rbytes(B + 3).hex()
                for api in ("hctx", "hctxdyn"):
                    for pre in ("", f"u{m1};", "F;"):
                        for t in ("k", "G"):
                            yield (f"{api}.{alg} {mx} {hx(k0)} {pre}{t}{k1.hex()};u{m1};d;r;u{m1};d", f"{alg}.rekey-pairs")
        # random histories of 5..40 operations
        cnt = 300 if quick else 3000
        for i in range(cnt):
            n = rng.randrange(5, 41)
            toks, depth_stack = [], 0
            for _ in range(n):
                r = rng.randrange(100)
                if r < 55:
                    c = rng.choice(_chunks(B) + [rng.randrange(0, 3 * B), rng.randrange(0, 3 * B)]
                                   + ([rng.randrange(1000, 5000)] if rng.randrange(6) == 0 else []))
                    toks.append(rng.choice("um") + (rng.rbytes(c).hex() if c else ""))
                elif r < 63:
                    toks.append("c"); depth_stack += 1
                elif r < 71:
                    toks.append("x" if depth_stack else "d")
                elif r < 76:
                    toks.append("r")
                elif r < 82:
                    k = rng.choice([0, 1, mx - 1, mx, rng.randrange(0, mx + 1)])
                    toks.append("k" + (rng.rbytes(k).hex() if k else ""))
                elif r < 88:
                    toks.append("F")
                elif r < 92:
                    k = rng.choice([0, 1, mx, rng.randrange(0, mx + 1)])
                    toks.append("G" + (rng.rbytes(k).hex() if k else ""))
                else:
                    toks.append("d")
            prog = _finish(toks)
            key = rng.rbytes(rng.choice([0, 0, 1, mx, rng.randrange(0, mx + 1)]))
            api = ("hctx", "hctxdyn", "hctxstd")[i % 3]
            o = rng.choice(p["std"]) if api == "hctxstd" else rng.randrange(1, mx + 1)
            yield (f"{api}.{alg} {o} {hx(key)} {prog}", f"{alg}.random.{api}")


def gen_C20(tier, rng):
    """refused parameters: outlen 0 / > max / huge, key > max, BITS out of range, wrong output buffer, rekey with a long key;
    next to each refused value the nearest accepted one"""
    for alg, p in ALGS.items():
        B, mx = p["B"], p["max"]
        msgs = [b"", rng.rbytes(1), rng.rbytes(B), rng.rbytes(B + 1)]
        for m in msgs:
            for o in (0, 1, mx - 1, mx, mx + 1, mx + 2):
                for k in (0, 1, mx, mx + 1, mx + 2, 2 * mx, B, B + 1, 200):
                    yield (f"hash.{alg} {o} {hx(rng.rbytes(k))} {hx(m)}", f"{alg}.refuse.hash")
            for o in (0, mx, mx + 1, 255, 256, 257, 2**16, 2**32 - 1, 2**32, 2**32 + mx, 2**63, 2**64 - 1):
                for k in (0, mx, mx + 1):
                    yield (f"hashdyn.{alg} {o} {hx(rng.rbytes(k))} {hx(m)}", f"{alg}.refuse.dyn")
            bits = ([0, 1, 504, 505, 511, 513, 519, 520, 521, 1024] if alg == "blake2b"
                    else [0, 1, 248, 249, 255, 257, 263, 264, 265, 512])
            for bt in bits:
                for k in (0, mx, mx + 1):
                    yield (f"hashbits.{alg} {bt} {hx(rng.rbytes(k))} {hx(m)}", f"{alg}.refuse.bits")
            for o in (1, mx // 2, mx):
                for bl in (0, o - 1, o, o + 1, mx, mx + 1, 8 * mx, 4 * B):
                    if bl >= 0:
                        yield (f"finat.{alg} {o} {bl} {hx(rng.rbytes(rng.choice([0, mx])))} {hx(m)}", f"{alg}.refuse.outbuf")
        for api in ("hctx", "hctxdyn", "hctxstd"):
            o = mx
            for k in (mx - 1, mx, mx + 1, mx + 2, B, 2 * B):
                for t in ("k", "G"):
                    pre = rng.choice(["", "u" + rng.rbytes(B + 1).hex() + ";", "F;"])
                    yield (f"{api}.{alg} {o} {hx(rng.rbytes(rng.choice([0, mx])))} {pre}{t}{rng.rbytes(k).hex()};ub0;d",
                           f"{alg}.refuse.rekey")

    yield from gen_C20_counter(tier, rng)


def gen_C20_counter(tier, rng):
    """hook `verif_set_counter`: the two counter words preset next to their wrap-around (low word about to wrap,
    both words all-ones, controls far from it), then 0..3 more blocks and finalisation.  The Spec's answer treats
    the counter as one 2w-bit number (start value t0 + 2^w t1)."""
    quick = tier == "quick"
    for alg, p in ALGS.items():
        B, mx = p["B"], p["max"]
        M = 2 ** (64 if alg == "blake2b" else 32)
        lows = [M - 1, M - 2, M - B + 1, M - B, M - B - 1, M - 2 * B + 1, M - 2 * B, M - 2 * B - 1, M - 3 * B, M - 3 * B - 1,
                M - 4 * B, M // 2, M // 2 - 1, M // 2 - B, M // 2 + 1, M // 4, 2 ** 16 - 1, 2 ** 31 if M > 2 ** 32 else 2 ** 15, 2 ** 32 - B if M > 2 ** 32 else 2 ** 8 - 1,
                0, 1, B, 12345]
        highs = [0, 1, M - 2, M - 1]
        datalens = [0, 1, B - 1, B, B + 1, 2 * B, 2 * B + 1, 3 * B, 3 * B + 1]
        for t0 in lows:
            for t1 in highs:
                for n in datalens:
                    if quick and (t0 * 7 + t1 * 3 + n) % 3 and not (t0 in (M - B, M - 1) and t1 in (0, M - 1)):
                        continue
                    data = rng.rbytes(n)
                    key = rng.rbytes(rng.choice([0, 0, 1, mx]))
                    api = rng.choice(["hctx", "hctxdyn", "hctxstd"])
                    o = rng.choice(p["std"]) if api == "hctxstd" else rng.choice([1, mx // 2, mx])
                    total = t0 + (B if key else 0) + n
                    kind = "wrap2w" if t1 == M - 1 and total >= M else ("wraplow" if total >= M else "nowrap")
                    style = rng.randrange(3)
                    if style == 0 or n == 0:
                        prog = f"T{t0}:{t1};u{hx(data) if n else ''};d"
                    elif style == 1:
                        c = rng.randrange(0, n + 1)
                        prog = f"T{t0}:{t1};m{data[:c].hex()};c;m{data[c:].hex()};F;x;d"
                    else:
                        prog = "T%d:%d;%s;d" % (t0, t1, ";".join("u" + data[i:i + B].hex() for i in range(0, n, B)))
                    yield (f"{api}.{alg} {o} {hx(key)} {prog}", f"{alg}.counter.{kind}")
        # after a reset / reset_with_key / finalize_reset the counter restarts at zero whatever it was
        for t0, t1 in ((M - 1, M - 1), (M - B, 0)):
            key = rng.rbytes(mx)
            yield (f"hctxdyn.{alg} {mx} - T{t0}:{t1};r;u{rng.rbytes(B + 1).hex()};d", f"{alg}.counter.reset")
            yield (f"hctxdyn.{alg} {mx} - T{t0}:{t1};k{key.hex()};u{rng.rbytes(B + 1).hex()};d", f"{alg}.counter.reset")
