"""Case generators of unit fe64: X25519 (C12) and the field part of C15.

Ops (see lean/CxVerif/Driver/Fe64.lean): fe.prog, x25519.dh, x25519.base, x25519.iter, x25519.sym, x25519.tryfrom.
Every generator is directed by the model: operands sit on the regime boundaries of the 51-bit limb code
(0, 1, p-1, p, p+1, 2^255-1, 2^256-1, 2^255-19+k, single limbs / all limbs saturated, bit 255 set) and of the
ladder (every single-bit scalar, clamped bits, small-order and non-canonical u).
"""
P = 2**255 - 19
M51 = 2**51 - 1


def le32(v):
    return (v % 2**256).to_bytes(32, "little").hex()


# ------------------------------------------------------------------------------------------------ operands

# u-coordinates of the points of small order on Curve25519 (and on its twist), cf. the well-known list
SMALL_ORDER_U = [
    0,
    1,
    325606250916557431795983626356110631294008115727848805560023387167927233504,
    39382357235489614581723060781553021112529911719440698176882885853963445705823,
    P - 1,
    P,
    P + 1,
]


def special_values():
    """32-byte little-endian integers (may exceed p, may have bit 255 set)"""
    vs = [0, 1, 2, 9, 19, 20, P - 2, P - 1, P, P + 1, P + 2, P + 18, 2**255 - 1, 2**255, 2**255 + 1,
          2**255 + 18, 2**255 + 19, 2**256 - 20, 2**256 - 19, 2**256 - 2, 2**256 - 1, 2**254, 2**254 - 1,
          (P - 1) // 2, (P + 1) // 2, 2**252 - 3, 2**252 - 2, 2**128, 2**128 - 1]
    # limb boundaries of the 5x51 representation: one limb saturated, one limb = 1, all limbs saturated but one
    for i in range(5):
        vs.append(M51 << (51 * i))
        vs.append(1 << (51 * i))
        vs.append((2**255 - 1) ^ (M51 << (51 * i)))
        vs.append((1 << (51 * i)) - 1)
        vs.append((1 << (51 * i)) - 19 if i else 0)
    # every 0/saturated limb pattern
    for m in range(32):
        vs.append(sum((M51 << (51 * i)) for i in range(5) if m >> i & 1))
    # 26/25-bit limb boundaries of the 32-bit backend (shared generator for C17)
    off = 0
    for i in range(10):
        w = 26 if i % 2 == 0 else 25
        vs.append(((1 << w) - 1) << off)
        off += w
    # small-order u
    for u in SMALL_ORDER_U:
        vs += [u, u + 2**255] + ([u + P] if u + P < 2**255 else [])
    out, seen = [], set()
    for v in vs:
        v %= 2**256
        if v not in seen:
            seen.add(v)
            out.append(v)
    return out


def rand_value(rng):
    k = rng.randrange(8)
    if k == 0:   # near p
        return (P + rng.randrange(-40, 40)) % 2**256
    if k == 1:   # near 2^255 / bit 255 set
        return (2**255 + rng.randrange(-40, 40) + rng.choice([0, 0, P - 2**255])) % 2**256
    if k == 2:   # limbs drawn from {0, 1, 2^51-1, 2^51-2, random}
        v = 0
        for i in range(5):
            v |= rng.choice([0, 1, M51, M51 - 1, M51 - 18, rng.getrandbits(51)]) << (51 * i)
        return v | (rng.getrandbits(1) << 255)
    if k == 3:   # small
        return rng.getrandbits(rng.choice([8, 16, 64]))
    return rng.getrandbits(256)


# ------------------------------------------------------------------------------------------------ C12

def gen_C12(tier, rng):
    quick = tier == "quick"
    nine = le32(9)
    specials_u = special_values()
    scal_special = [0, 2**256 - 1, 2**255 - 1, 2**254, 7, 8, 248, 2**255, 2**254 + 8, P, 2**252, 2**255 - 8]
    scal_bits = [1 << i for i in range(256)]
    # every single-bit scalar x {9, random u, a small-order u, a non-canonical u}
    for s in scal_bits:
        yield (f"x25519.base {le32(s)}", "base.bit")
        yield (f"x25519.dh {le32(s)} {nine}", "dh.bit.9")
        yield (f"x25519.dh {le32(s)} {le32(rng.getrandbits(256))}", "dh.bit.random")
        if not quick:
            yield (f"x25519.dh {le32(s)} {le32(rng.choice(SMALL_ORDER_U))}", "dh.bit.smallorder")
            yield (f"x25519.dh {le32(s)} {le32(rng.choice(specials_u))}", "dh.bit.special")
            yield (f"x25519.dh {le32(2**256 - 1 - s)} {le32(rng.getrandbits(256))}", "dh.cobit.random")
    # every single-bit scalar x every u the property names: 0, 1, p-1, p, p+1, 2^255-1, 2^256-1 and the known small-order u values
    # (thorough: all 256 bits x 9 u = 2304 lines; quick: every 8th bit, 288 lines) — by construction, not by a random draw
    named_u = []
    for u in [0, 1, P - 1, P, P + 1, 2**255 - 1, 2**256 - 1] + SMALL_ORDER_U:
        if u not in named_u:
            named_u.append(u)
    for i, s in enumerate(scal_bits):
        if quick and i % 8:
            continue
        for u in named_u:
            yield (f"x25519.dh {le32(s)} {le32(u)}", "dh.bit.named_u")
    # special scalars x all special u
    for s in scal_special + [rng.getrandbits(256) for _ in range(2 if quick else 8)]:
        yield (f"x25519.base {le32(s)}", "base.special")
        for u in specials_u:
            yield (f"x25519.dh {le32(s)} {le32(u)}", "dh.special")
    # single-bit neighbours of the distinguished u values (a shortcut keyed on "u is the base point" / "u is 0" that
    # compares too few bytes or bits is only visible one bit away from the value: seeded change C12-5)
    near = [9, 0, 1, P - 1, P, P + 1] + (list(SMALL_ORDER_U) if not quick else [])
    for u0 in near:
        for bit in range(256):
            if quick and u0 != 9 and bit % 8 not in (0, 7):
                continue
            s = rng.getrandbits(256)
            yield (f"x25519.dh {le32(s)} {le32(u0 ^ (1 << bit))}", "dh.near_special")
    # the same for scalars next to distinguished scalar values (0, the clamping pattern)
    for bit in range(0, 256, 1 if not quick else 5):
        yield (f"x25519.dh {le32((2**254 + 8) ^ (1 << bit))} {le32(rng.getrandbits(256))}", "dh.near_scalar")
    # random x random / random x near-boundary
    for _ in range(300 if quick else 6000):
        yield (f"x25519.dh {le32(rng.getrandbits(256))} {le32(rand_value(rng))}", "dh.random")
    for _ in range(100 if quick else 2000):
        yield (f"x25519.base {le32(rng.getrandbits(256))}", "base.random")
    # base == dh(.,9) is visible because both answer the same Spec; exchange symmetry
    for _ in range(40 if quick else 600):
        a, b = rng.getrandbits(256), rng.choice([rng.getrandbits(256), rng.choice(scal_special), 1 << rng.randrange(256)])
        yield (f"x25519.sym {le32(a)} {le32(b)}", "sym")
    # RFC 7748 5.2 iteration
    yield (f"x25519.iter 1 {nine} {nine}", "iter.rfc")
    yield (f"x25519.iter 1000 {nine} {nine}", "iter.rfc")
    if not quick:
        # ~10^5 chained evaluations spread over the cores: 32 chains of 3000 from random starts
        for _ in range(32):
            yield (f"x25519.iter 3000 {le32(rng.getrandbits(256))} {le32(rand_value(rng))}", "iter.chain")
    else:
        for _ in range(16):
            yield (f"x25519.iter 100 {le32(rng.getrandbits(256))} {le32(rand_value(rng))}", "iter.chain")
    # wrapper types
    for n in (0, 1, 31, 32, 33, 64):
        yield (f"x25519.tryfrom {'-' if n == 0 else rng.rbytes(n).hex()}", "tryfrom")


# ------------------------------------------------------------------------------------------------ C15 (field)

UN = ["~", "s", "q", "i", "w"]          # neg square square_and_double invert pow25523
BINOPS = ["+", "-", "*"]


def push(v):
    return "b" + le32(v)


def gen_expr(rng, depth, leaves, free=False):
    """returns (tokens, level): level 0 = output of a reducing operator / a decoded value, level 1 = result of one
    add/sub/neg/double of reduced values.  Inside the documented discipline add/sub/neg take level-0 operands and a
    multiplication/squaring takes operands of level <= 1.  free=True ignores the discipline (64-bit backend only,
    where every public operator carries its result)."""
    if depth == 0 or rng.random() < 0.15:
        if rng.random() < 0.12:
            return ([rng.choice(["c0", "c1", "cs", "cd", "c2"])], 0)
        return ([push(rng.choice(leaves) if rng.random() < 0.6 else rand_value(rng))], 0)
    r = rng.random()
    if r < 0.55:
        op = rng.choice(BINOPS)
        a, la = gen_expr(rng, depth - 1, leaves, free)
        b, lb = gen_expr(rng, depth - 1, leaves, free)
        if op == "*":
            return (a + b + ["*", "t"], 0)
        if not free:
            # operands of add/sub must be reduced: squaring-free way to reduce = multiply by one
            if la > 0:
                a = a + ["c1", "*"]
            if lb > 0:
                b = b + ["c1", "*"]
        return (a + b + [op, "t"], 1)
    op = rng.choice(UN + ["r"])
    a, la = gen_expr(rng, depth - 1, leaves, free)
    if op == "r":
        n = rng.choice([0, 1, 2, 3, 5, 10, 20, 50, 100, rng.randrange(0, 260)])
        return (a + [f"r{n}", "t"], la if n == 0 else 0)
    if op == "~":
        if la > 0 and not free:
            a = a + ["c1", "*"]
        return (a + ["~", "t"], 1)
    if op == "q":
        return (a + ["q", "t"], 1)
    return (a + [op, "t"], 0)


def gen_C15(tier, rng):
    quick = tier == "quick"
    sp = special_values()
    # to_bytes is canonical for every input encoding; predicates
    for v in sp:
        yield (f"fe.prog {push(v)};t;z;n", "enc.special")
    for k in range(-24, 44):
        for base in (P, 2**255, 0, 2**256):
            yield (f"fe.prog {push((base + k) % 2**256)};t;z;n", "enc.nearp")
    for _ in range(300 if quick else 5000):
        yield (f"fe.prog {push(rand_value(rng))};t;z;n", "enc.random")
    # equality is equality mod p (all encodings of one residue; neighbours)
    for v in sp + [rand_value(rng) for _ in range(50 if quick else 1000)]:
        r = v % 2**255 % P
        alts = [r, r + P if r + P < 2**255 else r, r + 2**255, (r + 1) % P, (P - r) % P]
        for w in alts:
            yield (f"fe.prog {push(v)};{push(w)};=", "eq")
    # single operators on all pairs / all values of the boundary set
    small = sp if not quick else sp[:40] + [rng.choice(sp) for _ in range(20)]
    for a in sp:
        yield (f"fe.prog {push(a)};~;t;z;n;~;t", "neg")
        yield (f"fe.prog {push(a)};s;t;z;n", "square")
        yield (f"fe.prog {push(a)};q;t;q;t", "square_and_double")
        yield (f"fe.prog {push(a)};i;t;d;o1;*;t", "invert")        # z^-1 and z * z^-1
        yield (f"fe.prog {push(a)};w;t", "pow25523")
        for n in (0, 1, 2, 5, 10, 20, 50, 100, 255):
            yield (f"fe.prog {push(a)};r{n};t", "square_repeatdly")
    for a in small:
        for b in small:
            yield (f"fe.prog {push(a)};{push(b)};o1;o1;+;t;p;o1;o1;-;t;p;*;t", "binop.boundary")
    for _ in range(500 if quick else 10000):
        a, b = rand_value(rng), rand_value(rng)
        yield (f"fe.prog {push(a)};{push(b)};o1;o1;+;t;p;o1;o1;-;t;p;*;t", "binop.random")
    # unreduced intermediate feeding a multiply / square: (a+b)*(c-d), (a-b)^2, (2a^2)*(−b), sq&double chains
    for _ in range(400 if quick else 8000):
        a, b, c, d = (rng.choice(sp) if rng.random() < 0.5 else rand_value(rng) for _ in range(4))
        yield (f"fe.prog {push(a)};{push(b)};+;{push(c)};{push(d)};-;*;t", "disc.addsub_mul")
        yield (f"fe.prog {push(a)};{push(b)};-;s;t;{push(c)};~;s;t;=", "disc.sub_square")
        yield (f"fe.prog {push(a)};q;{push(b)};~;*;t;q;t", "disc.double_mul")
    # constants
    yield ("fe.prog c0;t;c1;t;cs;t;cd;t;c2;t;cs;s;t;cd;cd;+;c2;=", "const")
    # algebraic identities (answers `true` from the Spec)
    for _ in range(100 if quick else 2000):
        a, b, c = (rng.choice(sp) if rng.random() < 0.4 else rand_value(rng) for _ in range(3))
        yield (f"fe.prog {push(a)};{push(b)};+;{push(c)};*;{push(a)};{push(c)};*;{push(b)};{push(c)};*;+;=", "law.distrib")
        yield (f"fe.prog {push(a)};{push(b)};*;{push(b)};{push(a)};*;=", "law.comm")
        yield (f"fe.prog {push(a)};d;*;{push(a)};s;=;r1;=", "law.square")
    # values reached through DIFFERENT computation paths (non-trivial limb representations of 0, 1, small values, p-1):
    # the canonical encoding and the zero / sign tests must not depend on the representation
    for _ in range(120 if quick else 2500):
        a, b = (rng.choice(sp) if rng.random() < 0.3 else rand_value(rng) for _ in range(2))
        A, B = push(a), push(b)
        zero_paths = [
            f"{A};{B};+;{B};{A};+;-",                                   # (a+b) - (b+a)
            f"{A};d;+;{A};+;{A};{push(3)};*;-",                         # (a+a+a) - 3a
            f"{A};{B};+;s;{A};s;-;{B};s;-;{A};{B};*;d;+;-",             # (a+b)^2 - a^2 - b^2 - 2ab
            f"{A};{B};*;{B};{A};*;-",                                   # ab - ba
            f"{A};~;{A};+",                                             # (-a) + a
            f"{A};{B};-;{B};{A};-;+",                                   # (a-b) + (b-a)
            f"{A};s;{A};d;*;-",                                         # a^2 - a*a
            f"{A};q;{A};s;d;+;-",                                       # 2a^2 - (a^2 + a^2)
        ]
        z = rng.choice(zero_paths)
        yield (f"fe.prog {z};t;z;n", "repr.zero")
        k = rng.choice([1, 2, 18, 19, 20, P - 1, P - 2, P - 19, (P - 1) // 2])
        yield (f"fe.prog {z};{push(k)};+;t;z;n", "repr.small")
        yield (f"fe.prog {z};{push(k)};x;-;t;z;n", "repr.small")
        yield (f"fe.prog {z};c0;=;{z};{push(k)};+;{push(k)};=", "repr.eq")
    # expression programs of depth <= 4 inside the discipline
    for _ in range(600 if quick else 12000):
        toks, _ = gen_expr(rng, rng.choice([2, 3, 4]), sp)
        yield ("fe.prog " + ";".join(toks + ["t", "z", "n"]), "prog.disciplined")
    # 64-bit backend: every public operator carries, so any composition is inside the proven invariant
    for _ in range(300 if quick else 6000):
        toks, _ = gen_expr(rng, rng.choice([3, 4, 5]), sp, free=True)
        yield ("fe.prog " + ";".join(toks + ["t", "z", "n"]), "prog.free")
    # long chains of non-carrying doublings interleaved (square_and_double output feeds sub/neg/add directly)
    for _ in range(50 if quick else 500):
        a, b = rand_value(rng), rng.choice(sp)
        yield (f"fe.prog {push(a)};q;{push(b)};q;o1;o1;-;t;p;o1;o1;+;t;p;x;-;t;~;t;q;t;r0;q;t", "prog.doubling")
    # malformed requests (refused by all executors alike)
    yield ("fe.prog +", "malformed")
    yield ("fe.prog b00;t", "malformed")
    yield ("fe.prog c1;o3", "malformed")


# ----------------------------------------------------------------------------- C20 (x25519 wrapper types)

def gen_C20(tier, rng):
    """`TryFrom<&[u8]>` of `SecretKey` / `PublicKey` / `SharedSecret` answers `Err(())` for every length but 32 (one
    below / above, zero, twice, very large); `dh` / `base` take the wrapper types, `ed25519::*` take arrays: no other
    length can be passed"""
    for n in (0, 1, 16, 31, 32, 33, 64, 100000):
        for _ in range(2):
            yield (f"x25519.tryfrom {'-' if n == 0 else rng.rbytes(n).hex()}", "tryfrom.accept" if n == 32 else "tryfrom.refuse")
