"""Case generators of the poly1305 unit (ops `poly.mac`, `poly.hist`; see lean/CxVerif/Driver/Poly1305.lean).

gen_C05(tier, rng)  -- C05: tag = RFC 8439 for every key, message, chunking
gen_C09(tier, rng)  -- C09 (Poly1305 part): operation histories

The generator is directed by an exact Python copy of the limb code (`Limb`), which tells where the
accumulator of the *implementation* (5 x 26-bit limbs, only partially reduced) lands before the final
reduction: the wrap-around stream contains only messages for which that value is proved (by running the
copy) to lie in [p, 2^130), i.e. the `g = h + 5 - 2^130` / mask-select path of `finish` takes `g`.
"""

P = (1 << 130) - 5
CLAMP = 0x0ffffffc0ffffffc0ffffffc0fffffff
M26 = 0x3ffffff


def hx(b):
    return "-" if len(b) == 0 else bytes(b).hex()


def le(b):
    return int.from_bytes(bytes(b), "little")


def spec_mac(key, msg):
    r = le(key[:16]) & CLAMP
    s = le(key[16:32])
    a = 0
    for i in range(0, len(msg), 16):
        a = ((a + le(msg[i:i + 16] + b"\x01")) * r) % P
    return ((a + s) % (1 << 128)).to_bytes(16, "little")


class Limb:
    """exact copy of src/poly1305.rs new/block (wrapping arithmetic), used only to *direct* the generator"""

    def __init__(self, key):
        k = bytes(key)
        rd = lambda o: le(k[o:o + 4])
        self.r = [rd(0) & 0x3ffffff, (rd(3) >> 2) & 0x3ffff03, (rd(6) >> 4) & 0x3ffc0ff, (rd(9) >> 6) & 0x3f03fff,
                  (rd(12) >> 8) & 0x00fffff]
        self.h = [0] * 5
        self.maxlimb = [0] * 5      # the largest limb values seen (distribution report)

    def block(self, m, final):
        hibit = 0 if final else 1 << 24
        rd = lambda o: le(m[o:o + 4])
        r0, r1, r2, r3, r4 = self.r
        s1, s2, s3, s4 = r1 * 5, r2 * 5, r3 * 5, r4 * 5
        h0, h1, h2, h3, h4 = self.h
        h0 += rd(0) & M26
        h1 += (rd(3) >> 2) & M26
        h2 += (rd(6) >> 4) & M26
        h3 += (rd(9) >> 6) & M26
        h4 += (rd(12) >> 8) | hibit
        d0 = h0 * r0 + h1 * s4 + h2 * s3 + h3 * s2 + h4 * s1
        d1 = h0 * r1 + h1 * r0 + h2 * s4 + h3 * s3 + h4 * s2
        d2 = h0 * r2 + h1 * r1 + h2 * r0 + h3 * s4 + h4 * s3
        d3 = h0 * r3 + h1 * r2 + h2 * r1 + h3 * r0 + h4 * s4
        d4 = h0 * r4 + h1 * r3 + h2 * r2 + h3 * r1 + h4 * r0
        c = d0 >> 26; h0 = d0 & M26
        d1 += c; c = d1 >> 26; h1 = d1 & M26
        d2 += c; c = d2 >> 26; h2 = d2 & M26
        d3 += c; c = d3 >> 26; h3 = d3 & M26
        d4 += c; c = d4 >> 26; h4 = d4 & M26
        h0 += c * 5; c = h0 >> 26; h0 &= M26
        h1 += c
        self.h = [h0, h1, h2, h3, h4]
        self.maxlimb = [max(a, b) for a, b in zip(self.maxlimb, self.h)]

    def absorb(self, msg):
        msg = bytes(msg)
        n = len(msg) // 16
        for i in range(n):
            self.block(msg[16 * i:16 * i + 16], False)
        rest = msg[16 * n:]
        if rest:
            self.block(rest + b"\x01" + bytes(15 - len(rest)), True)
        return self

    def val(self):
        return sum(x << (26 * i) for i, x in enumerate(self.h))


def pre_final(key, msg):
    """value of the limb accumulator when `finish` starts its final reduction"""
    return Limb(key).absorb(msg).val()


# ----------------------------------------------------------------------------- keys

def key_classes(rng):
    """(label, key) pairs: the key classes of the property's quantifier"""
    rb = rng.rbytes
    out = [("random", rb(32)), ("random", rb(32)), ("all-ones", b"\xff" * 32), ("zero", bytes(32))]
    for r in (0, 1, 2):
        out.append((f"r={r}", r.to_bytes(16, "little") + rb(16)))
    out.append(("s-all-ones", rb(16) + b"\xff" * 16))
    out.append(("r-unclamped-ff", b"\xff" * 16 + rb(16)))            # every clamped bit is set in the key
    out.append(("r-unclamped-only", ((~CLAMP) & ((1 << 128) - 1)).to_bytes(16, "little") + rb(16)))  # clamps to 0
    out.append(("r-max-clamped", CLAMP.to_bytes(16, "little") + b"\xff" * 16))
    # a random key with exactly the forbidden bits forced to 1
    k = le(rb(16)) | ((~CLAMP) & ((1 << 128) - 1))
    out.append(("r-unclamped-random", k.to_bytes(16, "little") + rb(16)))
    return out


def chunkings(n, rng, tier):
    """chunk-length lists (remainder is the last piece) for a message of n bytes"""
    cs = ["-"]                                   # one call
    if n >= 1:
        cs.append(",".join(["1"] * n))           # bytewise: the last 1-byte call is the last call before the result
        cs.append(",".join(["1"] * n) + ",0")    # … and with a final empty call
    if n >= 2:
        cs.append(f"{n - 1},1")                  # the final call is one byte (completes a block when n % 16 == 0)
    if n >= 16:
        r = n % 16 or 16
        cs.append(f"{n - r},{r}")                # whole blocks, then exactly the rest as the final call
        if r >= 2:
            cs.append(f"{n - r},{r - 1},1")      # the rest in two calls, the second completing it
    if n >= 2:
        a = rng.randrange(1, min(n, 16))         # partial …
        b = rng.randrange(0, min(n - a, 16) + 1)     # … then partial (may or may not complete the block)
        cs.append(f"{a},{b}")
        cs.append(f"0,{a},0,{b},0")              # with empty calls in between
    if n >= 17:
        cs.append("15,1")                        # fills the staging buffer exactly
        cs.append("15,2")
        cs.append("1,16")
        cs.append("16,1")
    k = 1 if tier == "quick" else 8
    for _ in range(k):
        lens, left = [], n
        while left > 0 and len(lens) < 12:
            x = rng.choice([0, 1, 2, 3, 7, 15, 16, 17, 31, 32, 33, rng.randrange(0, 40)])
            x = min(x, left)
            lens.append(x)
            left -= x
        cs.append(",".join(map(str, lens)) if lens else "-")
    return list(dict.fromkeys(cs))


# ----------------------------------------------------------------------------- RFC vectors

def h2b(s):
    return bytes.fromhex(s.replace(" ", "").replace("\n", ""))


RFC_TEXT_IETF = (b"Any submission to the IETF intended by the Contributor for publication as all or part of an IETF "
                 b"Internet-Draft or RFC and any statement made within the context of an IETF activity is considered "
                 b"an \"IETF Contribution\". Such statements include oral statements in IETF sessions, as well as "
                 b"written and electronic communications made at any time or place, which are addressed to")

RFC_VECTORS = [
    # (name, key, msg, tag)  RFC 8439 §2.5.2
    ("2.5.2", h2b("85d6be7857556d337f4452fe42d506a80103808afb0db2fd4abff6af4149f51b"),
     b"Cryptographic Forum Research Group", h2b("a8061dc1305136c6c22b8baf0c0127a9")),
    # A.3 #1
    ("A.3#1", bytes(32), bytes(64), bytes(16)),
    # A.3 #2
    ("A.3#2", bytes(16) + h2b("36e5f6b5c5e06070f0efca96227a863e"), RFC_TEXT_IETF,
     h2b("36e5f6b5c5e06070f0efca96227a863e")),
    # A.3 #3
    ("A.3#3", h2b("36e5f6b5c5e06070f0efca96227a863e") + bytes(16), RFC_TEXT_IETF,
     h2b("f3477e7cd95417af89a6b8794c310cf0")),
    # A.3 #4
    ("A.3#4", h2b("1c9240a5eb55d38af333888604f6b5f0473917c1402b80099dca5cbc207075c0"),
     b"'Twas brillig, and the slithy toves\nDid gyre and gimble in the wabe:\nAll mimsy were the borogoves,\n"
     b"And the mome raths outgrabe.", h2b("4541669a7eaaee61e708dc7cbcc5eb62")),
    # A.3 #5: R=2, data = 2^128-1 -> h reaches 2^130-2 >= p
    ("A.3#5", (2).to_bytes(16, "little") + bytes(16), b"\xff" * 16, (3).to_bytes(16, "little")),
    # A.3 #6: (h + s) wraps 2^128
    ("A.3#6", (2).to_bytes(16, "little") + b"\xff" * 16, (2).to_bytes(16, "little"), (3).to_bytes(16, "little")),
    # A.3 #7: R=1, three blocks whose sum overflows 2^130
    ("A.3#7", (1).to_bytes(16, "little") + bytes(16),
     b"\xff" * 16 + b"\xf0" + b"\xff" * 15 + b"\x11" + bytes(15), (5).to_bytes(16, "little")),
    # A.3 #8: R=1, sum = 2^130-5 exactly -> tag 0
    ("A.3#8", (1).to_bytes(16, "little") + bytes(16),
     b"\xff" * 16 + b"\xfb" + b"\xfe" * 15 + b"\x01" * 16, bytes(16)),
    # A.3 #9: R=2, data = 2^128 - 3 -> (2^129-3)*2 = 2^130 - 6 = p - 1
    ("A.3#9", (2).to_bytes(16, "little") + bytes(16), b"\xfd" + b"\xff" * 15,
     h2b("faffffffffffffffffffffffffffffff")),
    # A.3 #10
    ("A.3#10", h2b("01000000000000000400000000000000") + bytes(16),
     h2b("E33594D7505E43B9 00000000 00000000 3394D7505E4379CD 01000000 00000000 0000000000000000 00000000 00000000"
         "0100000000000000 00000000 00000000"), h2b("14000000000000005500000000000000")),
    # A.3 #11
    ("A.3#11", h2b("01000000000000000400000000000000") + bytes(16),
     h2b("E33594D7505E43B9 00000000 00000000 3394D7505E4379CD 01000000 00000000 0000000000000000 00000000 00000000"),
     h2b("13000000000000000000000000000000")),
    # crate's own vectors (NaCl, donna wrap, TLS draft)
    ("tls-1", b"this is 32-byte key for Poly1305", bytes(32), h2b("49ec78090e481ec6c26b33b91ccc0307")),
    ("tls-2", b"this is 32-byte key for Poly1305", b"Hello world!", h2b("a6f745008f81c916a20dcc74eef2b2f0")),
]


def selfcheck():
    """the Python reference used to direct the generator agrees with the published tags"""
    for name, k, m, t in RFC_VECTORS:
        assert spec_mac(k, m) == t, name
    return True


# ----------------------------------------------------------------------------- model-guided wrap-around search

def clamp_bytes(r):
    return (r & CLAMP).to_bytes(16, "little")


def wrap_search(rng, count, partial_ok=True):
    """messages whose limb accumulator lies in [p, 2^130) when `finish` starts.

    Choose r, a random prefix of full blocks, a target residue k in 0..4 and solve the last block
        (acc + m + 2^(8*len)) * r == k (mod p)   for m;   keep it when m < 2^(8*len);
    then *run the limb copy* and keep only the cases that really land in [p, 2^130)."""
    out, tries = [], 0
    while len(out) < count and tries < 400000:
        tries += 1
        cls = rng.randrange(4)
        if cls == 0:
            r = rng.choice([1, 2, 3, 4, 5, 6, 7, 8, 12, 0x0ffffffc, 0x0fffffff])
        elif cls == 1:
            r = CLAMP
        else:
            r = le(rng.rbytes(16)) & CLAMP
        if r == 0:
            continue
        key = clamp_bytes(r) if rng.randrange(2) else (r | (le(rng.rbytes(16)) & ~CLAMP & ((1 << 128) - 1))).to_bytes(16, "little")
        key = key + rng.choice([bytes(16), b"\xff" * 16, rng.rbytes(16)])
        nfull = rng.randrange(0, 4)
        pre = rng.rbytes(16 * nfull)
        acc = 0
        for i in range(nfull):
            acc = ((acc + le(pre[16 * i:16 * i + 16] + b"\x01")) * r) % P
        ln = 16 if (not partial_ok or rng.randrange(3)) else rng.randrange(13, 16)
        k = rng.randrange(5)
        m = (k * pow(r, -1, P) - acc - (1 << (8 * ln))) % P
        if m >= 1 << (8 * ln):
            continue
        msg = pre + m.to_bytes(ln, "little")
        v = pre_final(key, msg)
        if P <= v < (1 << 130):
            out.append((key, msg, v - P))
    return out


def maxcarry_blocks(rng, count):
    """r·m patterns that drive the column sums / carries of `block` to their maxima: all-ones limbs"""
    out = []
    keys = [CLAMP.to_bytes(16, "little") + b"\xff" * 16, b"\xff" * 32,
            (0x0ffffffc0ffffffc0ffffffc0ffffffc).to_bytes(16, "little") + bytes(16)]
    for key in keys:
        for n in (1, 2, 3, 4, 5, 8, 16):
            out.append((key, b"\xff" * (16 * n)))
            out.append((key, b"\xff" * (16 * n - 1)))
            out.append((key, b"\xff" * (16 * n + 1)))
    for _ in range(count):
        key = rng.choice(keys)
        n = rng.randrange(1, 6)
        msg = bytearray(b"\xff" * (16 * n + rng.randrange(0, 16)))
        for _ in range(rng.randrange(0, 3)):
            msg[rng.randrange(len(msg))] = rng.choice([0, 0xfe, 0xfb, 0x7f, rng.randrange(256)])
        out.append((key, bytes(msg)))
    return out


# ----------------------------------------------------------------------------- C05

def gen_C05(tier, rng):
    selfcheck()
    quick = tier == "quick"
    # 1. published vectors, each in several chunkings
    for name, k, m, _t in RFC_VECTORS:
        for c in chunkings(len(m), rng, tier):
            yield (f"poly.mac {hx(k)} {c} {hx(m)}", "rfc." + name)
    # 2. every length 0..=80 x key classes x chunkings
    keys = key_classes(rng)
    for n in range(0, 81):
        for label, key in keys:
            msg = rng.rbytes(n)
            cs = chunkings(n, rng, tier)
            if quick and label not in ("random", "all-ones", "r-unclamped-ff"):
                cs = cs[:3]
            for c in cs:
                yield (f"poly.mac {hx(key)} {c} {hx(msg)}", "len0-80." + label)
        # constant-byte messages (00 / ff) of every length under the all-ones key
        for fill in (0, 255):
            yield (f"poly.mac {'ff' * 32} - {hx(bytes([fill]) * n)}", "len0-80.fill")
    # 3. model-guided wrap-around: pre-final accumulator in [p, 2^130)
    for key, msg, off in wrap_search(rng, 60 if quick else 3000):
        for c in (["-"] if quick else chunkings(len(msg), rng, "quick")[:3]):
            yield (f"poly.mac {hx(key)} {c} {hx(msg)}", f"wrap.h=p+{off}")
    # 4. maximal carries
    for key, msg in maxcarry_blocks(rng, 20 if quick else 2000):
        yield (f"poly.mac {hx(key)} - {hx(msg)}", "maxcarry")
    # 5. random keys/messages up to 4 KiB, random chunkings
    for _ in range(60 if quick else 6000):
        n = rng.choice([rng.randrange(0, 200), rng.randrange(0, 4097), 4096, 4095, 1024])
        key, msg = rng.rbytes(32), rng.rbytes(n)
        lens, left = [], n
        while left > 0 and len(lens) < 40:
            x = min(left, rng.choice([rng.randrange(0, 20), rng.randrange(0, 700), 16, 32, 64]))
            lens.append(x)
            left -= x
        c = ",".join(map(str, lens)) if lens and rng.randrange(4) else "-"
        yield (f"poly.mac {hx(key)} {c} {hx(msg)}", "random<=4KiB")
    # 6. accessor
    yield (f"poly.output_bytes {hx(rng.rbytes(32))}", "output_bytes")


# ----------------------------------------------------------------------------- C09 (Poly1305 part)

def hist_defect_c(line):
    """True iff the history exercises recorded defect (c): a result taken while the number of bytes since the
    last reset is a multiple of 16 (incl. 0) is followed, on the same object and before any reset, by another
    result or an input. Looks only at the case line (helper for known-finding classification)."""
    toks = line.split(" ")
    if toks[0] != "poly.hist" or len(toks) < 3 or toks[2] == "-":
        return False
    cur = {"n": 0, "fin": False, "taint": False}
    stack = []
    for op in toks[2].split(";"):
        if op[0] == "i":
            if cur["taint"]:
                return True
            if cur["fin"]:
                return False            # refused by code and Spec alike; the history ends
            cur["n"] += 0 if op[1:] == "-" else len(op[1:]) // 2
        elif op[0] in "RW":
            if op[0] == "W" and op[1:] and int(op[1:]) < 16:
                return False            # refused; the history ends
            if cur["taint"]:
                return True
            if not cur["fin"]:
                cur["fin"] = True
                cur["taint"] = cur["n"] % 16 == 0
        elif op[0] == "r":
            cur = {"n": 0, "fin": False, "taint": False}
        elif op[0] == "c":
            stack.append(dict(cur))
        elif op[0] == "x" and stack:
            cur, stack[-1] = stack[-1], cur
    return False


def gen_C09(tier, rng):
    quick = tier == "quick"
    keys = [rng.rbytes(32), b"\xff" * 32, (2).to_bytes(16, "little") + bytes(16), rng.rbytes(32)]

    def sym(s):
        if s.startswith("i"):
            n = int(s[1:])
            return "i" + hx(rng.rbytes(n))
        return s

    # i15;i1 / i27;i5 / i5;i5;i5;i1 complete a block with a SHORT final call (a one-byte call that completes the
    # staging buffer right before the result is a distinct path: seeded change C05-5)
    alpha = ["i0", "i1", "i5", "i15", "i16", "i32", "i27", "R", "W", "r", "c", "x"]
    depth = 4 if quick else 5
    # exhaustive histories up to `depth` over the alphabet
    def rec(prefix, d):
        if prefix:
            yield prefix
        if d == 0:
            return
        for a in alpha:
            yield from rec(prefix + [a], d - 1)
    for h in rec([], depth):
        key = keys[rng.randrange(len(keys))]
        yield (f"poly.hist {hx(key)} {';'.join(sym(s) for s in h)}", f"hist.depth{len(h)}")
    if not quick:
        # every history of depth exactly 6 over a reduced alphabet (partial / block-multiple input, both results,
        # reset, clone, swap)
        import itertools
        for h in itertools.product(["i5", "i16", "R", "W", "r", "c", "x"], repeat=6):
            key = keys[rng.randrange(len(keys))]
            yield (f"poly.hist {hx(key)} {';'.join(sym(s) for s in h)}", "hist.depth6")
    # random histories of depth 6 (thorough: many), richer lengths
    rich = ["i0", "i1", "i15", "i16", "i17", "i31", "i32", "i33", "i48", "i64", "i80", "R", "R", "W", "W", "r", "c", "x",
            "W15", "W17", "W0"]
    for _ in range(300 if quick else 30000):
        d = 6 if not quick else rng.randrange(5, 7)
        h = [rng.choice(rich) for _ in range(d)]
        key = keys[rng.randrange(len(keys))]
        yield (f"poly.hist {hx(key)} {';'.join(sym(s) for s in h)}", "hist.random6")
    # the empty history
    yield (f"poly.hist {hx(keys[0])} -", "hist.empty")


# ----------------------------------------------------------------------------- C20 (poly1305 part)

def gen_C20(tier, rng):
    """refusal matrix of the `Poly1305` object (the key is `&[u8; 32]` by type): `raw_result` into a buffer shorter
    than 16 bytes (one below, zero; 16, one above, twice, very large are accepted), `input` after `result` /
    `raw_result`; a second result is NOT refused (same tag), `reset` clears the flag"""
    keys = [rng.rbytes(32), b"\xff" * 32, bytes(32)]
    for key in keys:
        for n_in in (0, 5, 16, 33):
            pre = "" if n_in == 0 else f"i{hx(rng.rbytes(n_in))};"
            for n in (0, 1, 15, 16, 17, 32, 100000):
                kind = "refuse.outbuf" if n < 16 else "accept.outbuf"
                yield (f"poly.hist {hx(key)} {pre}W{n}", kind)
                # a refused raw_result ends the history; after an accepted one the object is finished
                yield (f"poly.hist {hx(key)} {pre}W{n};R;W{n}", kind)
            for first in ("R", "W", "W16", "W17"):
                for second in ("i00", "i-", f"i{hx(rng.rbytes(16))}"):
                    yield (f"poly.hist {hx(key)} {pre}{first};{second}", "refuse.input-after-result")
                for second in ("R", "W", "W100", "R;W;R"):
                    yield (f"poly.hist {hx(key)} {pre}{first};{second}", "accept.second-result")
                yield (f"poly.hist {hx(key)} {pre}{first};W15", "refuse.outbuf")
                yield (f"poly.hist {hx(key)} {pre}{first};r;i{hx(rng.rbytes(3))};R", "accept.after-reset")
                yield (f"poly.hist {hx(key)} {pre}c;{first};x;i00;R", "accept.clone-before-result")
                yield (f"poly.hist {hx(key)} {pre}{first};c;x;i00", "refuse.clone-after-result")
        yield (f"poly.output_bytes {hx(key)}", "accept.output_bytes")
