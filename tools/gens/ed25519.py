"""Case generators of the unit `ed25519` (Edwards group layer + Ed25519): gen_C13, gen_C14, gen_C15 (group part).

Directed by the models Impl/Ge.lean, Impl/Ed25519.lean:
 * scalarmult_base: 64 signed radix-16 digits, one table row per byte position, |digit| selects the column,
   the sign the conditional negation, a carry run when nibbles are >= 8  -> every single-nibble scalar (64 x 15),
   carry chains (0x88.., 0x77.., 0xff..), the scalars named by the property;
 * double_scalarmult_vartime: sliding-window digits (carry runs of `slide`), the empty-digit early return (a = b = 0);
 * from_bytes: square / sqrt(-1)-times-square / non-square branches, sign selection, x = 0 with the sign bit,
   y >= p (the 19 non-canonical y), all 8 small-order points;
 * signing: SHA-512 block boundaries after the 32-byte prefix (nonce) and the 64-byte R||A prefix;
 * verify: the refusal ladder (undecodable A, S >= L, all-zero key) and the final byte comparison.

An independent pure-Python Ed25519 (RFC 8032 section 6 style, hashlib SHA-512) computes honest signatures, forged
triples that satisfy the equation, and the expected values of the `ed25519.check` cases (RFC 8032 section 7.1
vectors and random ones): there all three executors must answer `true`."""
import hashlib

P = 2**255 - 19
L = 2**252 + 27742317777372353535851937790883648493
D = (-121665 * pow(121666, P - 2, P)) % P
SQRTM1 = pow(2, (P - 1) // 4, P)


def hx(b):
    return "-" if len(b) == 0 else bytes(b).hex()


def le32(n):
    return (n % 2**256).to_bytes(32, "little")


# ---- reference group (extended coordinates, RFC 8032 section 6) ----
def pt_add(p, q):
    a = (p[1] - p[0]) * (q[1] - q[0]) % P
    b = (p[1] + p[0]) * (q[1] + q[0]) % P
    c = 2 * p[3] * q[3] * D % P
    d = 2 * p[2] * q[2] % P
    e, f, g, h = b - a, d - c, d + c, b + a
    return (e * f % P, g * h % P, f * g % P, e * h % P)


def pt_mul(s, p):
    q = (0, 1, 1, 0)
    while s > 0:
        if s & 1:
            q = pt_add(q, p)
        p = pt_add(p, p)
        s >>= 1
    return q


def pt_neg(p):
    return ((-p[0]) % P, p[1], p[2], (-p[3]) % P)


def pt_affine(p):
    zi = pow(p[2], P - 2, P)
    return (p[0] * zi % P, p[1] * zi % P)


def pt_enc(p):
    x, y = pt_affine(p)
    return (y | ((x & 1) << 255)).to_bytes(32, "little")


def recover_x(y, sign, strict=False):
    """lenient like the code (y already reduced); returns None for a non-point"""
    u = (y * y - 1) % P
    v = (D * y * y + 1) % P
    x = u * pow(v, 3, P) * pow(u * pow(v, 7, P), (P - 5) // 8, P) % P
    if (v * x * x - u) % P != 0:
        if (v * x * x + u) % P != 0:
            return None
        x = x * SQRTM1 % P
    if strict and x == 0 and sign:
        return None
    if (x & 1) != sign:
        x = (P - x) % P
    return x


def pt_dec(b):
    n = int.from_bytes(b, "little")
    y = (n & (2**255 - 1)) % P
    x = recover_x(y, n >> 255)
    if x is None:
        return None
    return (x, y, 1, x * y % P)


BY = 4 * pow(5, P - 2, P) % P
BPT = (recover_x(BY, 0), BY, 1, recover_x(BY, 0) * BY % P)


def H(m):
    return hashlib.sha512(m).digest()


def clamp(h32):
    a = bytearray(h32)
    a[0] &= 248
    a[31] &= 127
    a[31] |= 64
    return bytes(a)


def expand(seed):
    h = H(seed)
    return clamp(h[:32]) + h[32:]


def ref_public(seed):
    return pt_enc(pt_mul(int.from_bytes(expand(seed)[:32], "little"), BPT))


def ref_sign_ext(ext, pk, msg):
    a = int.from_bytes(ext[:32], "little")
    r = int.from_bytes(H(ext[32:] + msg), "little") % L
    R = pt_enc(pt_mul(r, BPT))
    k = int.from_bytes(H(R + pk + msg), "little") % L
    return R + le32((r + k * a) % L)


def ref_sign(seed, msg):
    return ref_sign_ext(expand(seed), ref_public(seed), msg)


def small_order_points():
    """the 8 points of order dividing 8 (encodings), from [L]P of hashed points"""
    pts = {}
    ctr = 0
    while len(pts) < 8:
        q = pt_dec(H(b"small-order" + bytes([ctr]))[:32])
        ctr += 1
        if q is None:
            continue
        t = pt_mul(L, q)
        g = t
        for _ in range(8):
            pts[pt_enc(g)] = g
            g = pt_add(g, t)
    return sorted(pts.items())


SMALL = small_order_points()


def noncanonical_encodings():
    """all encodings with 255-bit y-field >= p (y in 0..18), both sign bits; and x = 0 with the sign bit"""
    out = []
    for y in range(19):
        for s in (0, 1):
            out.append(((y + P) | (s << 255)).to_bytes(32, "little"))
    out.append((1 | (1 << 255)).to_bytes(32, "little"))          # (0, 1) with sign bit
    out.append(((P - 1) | (1 << 255)).to_bytes(32, "little"))    # (0, -1) with sign bit
    return out


def random_point(rng):
    while True:
        b = rng.rbytes(32)
        if pt_dec(b) is not None:
            return b


def random_nonpoint(rng):
    while True:
        b = rng.rbytes(32)
        if pt_dec(b) is None:
            return b


RFC_VECTORS = [
    # RFC 8032 section 7.1: (secret key, public key, message, signature)
    ("9d61b19deffd5a60ba844af492ec2cc44449c5697b326919703bac031cae7f60",
     "d75a980182b10ab7d54bfed3c964073a0ee172f3daa62325af021a68f707511a", "",
     "e5564300c360ac729086e2cc806e828a84877f1eb8e5d974d873e065224901555fb8821590a33bacc61e39701cf9b46bd25bf5f0595bbe24655141438e7a100b"),
    ("4ccd089b28ff96da9db6c346ec114e0f5b8a319f35aba624da8cf6ed4fb8a6fb",
     "3d4017c3e843895a92b70aa74d1b7ebc9c982ccf2ec4968cc0cd55f12af4660c", "72",
     "92a009a9f0d4cab8720e820b5f642540a2b27b5416503f8fb3762223ebdb69da085ac1e43e15996e458f3613d0f11d8c387b2eaeb4302aeeb00d291612bb0c00"),
    ("c5aa8df43f9f837bedb7442f31dcb7b166d38535076f094b85ce3a2e0b4458f7",
     "fc51cd8e6218a1a38da47ed00230f0580816ed13ba3303ac5deb911548908025", "af82",
     "6291d657deec24024827e69c3abe01a30ce548a284743a445e3680d7db5ac3ac18ff9b538d16f290ae67f760984dc6594a7c15e9716ed28dc027beceea1ec40a"),
    ("833fe62409237b9d62ec77587520911e9a759cec1d19755b7da901b96dca3d42",
     "ec172b93ad5e563bf4932c70e1245034c35467ef2efd4d64ebf819683467e2bf",
     "ddaf35a193617abacc417349ae20413112e6fa4e89a97ea20a9eeee64b55d39a2192992a274fc1a836ba3c23a3feebbd"
     "454d4423643ce80e2a9ac94fa54ca49f",
     "dc2a4459e7369633a52b1bf277839a00201009a3efbf3ecb69bea2186c26b58909351fc9ac90b3ecfdfbc7c66431e0303dca179c138ac17ad9bef1177331a704"),
]


def sign_lengths(tier):
    # SHA-512: 128-byte blocks, the padding needs 17 bytes.  H(prefix32 || M): one block more when 32+len = 112 mod 128;
    # H(R || A || M): when 64+len = 112 mod 128.  Block-full lengths: 32+len = 0 mod 128, 64+len = 0 mod 128.
    edges = set()
    for k in range(0, 3):
        for base in (112 - 32, 128 - 32, 112 - 64, 128 - 64):
            for dlt in (-1, 0, 1):
                v = base + 128 * k + dlt
                if v >= 0:
                    edges.add(v)
    # every length 0..=300 in both tiers (the property's quantifier), plus the block edges beyond 300
    return sorted(set(range(0, 301)) | edges)


def seeds(rng, n):
    sp = [bytes(32), bytes([255]) * 32, bytes(range(32))]
    return sp + [rng.rbytes(32) for _ in range(n)]


def gen_C13(tier, rng):
    quick = tier == "quick"
    for sk, pk, msg, sig in RFC_VECTORS:
        yield (f"ed25519.check {sk} {msg or '-'} {pk} {sig}", "rfc8032-7.1")
    for s in seeds(rng, 12 if quick else 150):
        yield (f"ed25519.keypair {hx(s)}", "keypair")
        yield (f"ed25519.ext_public {hx(expand(s))}", "ext_public")
    # expected values from the independent Python reference
    for _ in range(10 if quick else 100):
        s = rng.rbytes(32)
        m = rng.rbytes(rng.randrange(0, 200))
        yield (f"ed25519.check {hx(s)} {hx(m)} {hx(ref_public(s))} {hx(ref_sign(s, m))}", "check.pyref")
    lens = sign_lengths(tier)
    nseed = 1 if quick else 3
    for ln in lens:
        for i in range(nseed):
            s = rng.rbytes(32)
            m = rng.rbytes(ln)
            yield (f"ed25519.sign {hx(s)} {hx(m)}", "sign.len")
            if quick and (ln > 130 or ln % 4 != 0) and ln not in (79, 80, 47, 48, 95, 96, 63, 64, 175, 176, 207, 208, 256, 300):
                continue
            yield (f"ed25519.sign_via_ext {hx(s)} {hx(m)}", "sign_via_ext")
            yield (f"ed25519.sign_ext {hx(expand(s))} {hx(m)}", "sign_ext")
    for ln in ((1000, 4096) if quick else (1000, 1023, 1024, 4096, 10000, 65536)):
        s = rng.rbytes(32)
        m = rng.rbytes(ln)
        yield (f"ed25519.sign {hx(s)} {hx(m)}", "sign.large")
        yield (f"ed25519.sign_ext {hx(expand(s))} {hx(m)}", "sign_ext.large")
    # special seeds and messages
    for s in seeds(rng, 0):
        for m in (b"", bytes(1), bytes([255]) * 64, bytes(128)):
            yield (f"ed25519.sign {hx(s)} {hx(m)}", "sign.special")
    # keypair whose public half is not the key of the seed (signature() takes it as given)
    for _ in range(4 if quick else 40):
        s = rng.rbytes(32)
        other = rng.choice([rng.rbytes(32), bytes(32), ref_public(rng.rbytes(32))])
        yield (f"ed25519.sign_kp {hx(s + other)} {hx(rng.rbytes(rng.randrange(0, 100)))}", "sign_kp.foreign_public")
    # extended secrets that are not the expansion of a seed (clamped by hand / arbitrary below 2^255)
    for _ in range(6 if quick else 60):
        ext = bytearray(rng.rbytes(64))
        ext[31] &= 127
        if rng.randrange(2):
            ext[:32] = clamp(bytes(ext[:32]))
        m = rng.rbytes(rng.randrange(0, 150))
        yield (f"ed25519.sign_ext {hx(ext)} {hx(m)}", "sign_ext.adhoc")
        yield (f"ed25519.ext_public {hx(ext)}", "ext_public.adhoc")
    # exchange: honest public keys, small-order / non-canonical / arbitrary y (y = 1 gives 1/(1-y) = 0-inverse)
    for _ in range(10 if quick else 120):
        yield (f"ed25519.exchange {hx(ref_public(rng.rbytes(32)))} {hx(rng.rbytes(32))}", "exchange.honest")
    for enc, _ in SMALL:
        yield (f"ed25519.exchange {hx(enc)} {hx(rng.rbytes(32))}", "exchange.small_order")
    for enc in noncanonical_encodings()[:: (4 if quick else 1)]:
        yield (f"ed25519.exchange {hx(enc)} {hx(rng.rbytes(32))}", "exchange.noncanonical")
    for _ in range(10 if quick else 100):
        yield (f"ed25519.exchange {hx(rng.rbytes(32))} {hx(rng.rbytes(32))}", "exchange.random")


def flip(b, bit):
    a = bytearray(b)
    a[bit // 8] ^= 1 << (bit % 8)
    return bytes(a)


def gen_C14(tier, rng):
    quick = tier == "quick"
    # honest pairs
    for ln in (list(range(0, 40)) + [63, 64, 65, 111, 112, 127, 128, 129, 200] if quick else list(range(0, 260))):
        s = rng.rbytes(32)
        m = rng.rbytes(ln)
        yield (f"ed25519.verify {hx(m)} {hx(ref_public(s))} {hx(ref_sign(s, m))}", "honest")
    # every single-bit flip of a sampled signature; message and key flips
    for _ in range(1 if quick else 6):
        s = rng.rbytes(32)
        m = rng.rbytes(rng.randrange(1, 80))
        pk = ref_public(s)
        sig = ref_sign(s, m)
        for bit in range(512):
            yield (f"ed25519.verify {hx(m)} {hx(pk)} {hx(flip(sig, bit))}", "flip.sig")
        for bit in range(256):
            yield (f"ed25519.verify {hx(m)} {hx(flip(pk, bit))} {hx(sig)}", "flip.key")
        for bit in range(8 * len(m)):
            if quick and bit % 3:
                continue
            yield (f"ed25519.verify {hx(flip(m, bit))} {hx(pk)} {hx(sig)}", "flip.msg")
        yield (f"ed25519.verify {hx(m + b'x')} {hx(pk)} {hx(sig)}", "flip.msg")
        yield (f"ed25519.verify {hx(m[:-1])} {hx(pk)} {hx(sig)}", "flip.msg")
    # S + k*L for every k that fits in 256 bits (k = 0 is the honest one); S = L, L-1, 0 ...
    for _ in range(2 if quick else 20):
        s = rng.rbytes(32)
        m = rng.rbytes(rng.randrange(0, 50))
        pk = ref_public(s)
        sig = ref_sign(s, m)
        S = int.from_bytes(sig[32:], "little")
        k = 0
        while S + k * L < 2**256:
            yield (f"ed25519.verify {hx(m)} {hx(pk)} {hx(sig[:32] + le32(S + k * L))}", "S+kL")
            k += 1
        for v in (0, 1, L - 1, L, L + 1, 2**252, 2**253 - 1, 2**255 - 1, 2**256 - 1):
            yield (f"ed25519.verify {hx(m)} {hx(pk)} {hx(sig[:32] + le32(v))}", "S.special")
    # small-order A and R: for small-order A, [k]A takes at most 8 values, so a valid (R, S) can be made without
    # a secret: R = [S]B - [k]A needs k = H(R||A||M) — search S = 0: R = -[k]A must be one of the 8 small points and
    # consistent with k: try all 8 R's; a consistent one exists for about 1/8..1 of the messages.
    found = 0
    tries = 0
    small = SMALL
    while tries < (400 if quick else 6000) and found < (12 if quick else 150):
        tries += 1
        A_enc, A_pt = rng.choice(small)
        m = rng.rbytes(rng.randrange(0, 40))
        S = rng.choice([0, 0, rng.randrange(L)])
        for R_enc, _ in small:
            k = int.from_bytes(H(R_enc + A_enc + m), "little") % L
            want = pt_enc(pt_add(pt_mul(S, BPT), pt_neg(pt_mul(k, A_pt)))) if S else pt_enc(pt_neg(pt_mul(k, A_pt)))
            if S == 0 and want == R_enc:
                found += 1
                yield (f"ed25519.verify {hx(m)} {hx(A_enc)} {hx(R_enc + le32(0))}", "small_order.forged_valid")
                break
        else:
            # not closed: still a legitimate adversarial triple (expected false, or true when A is rejected/accepted alike)
            R_enc = rng.choice(small)[0]
            yield (f"ed25519.verify {hx(m)} {hx(A_enc)} {hx(R_enc + le32(S))}", "small_order.random")
    # the RIGHT point in a WRONG (non-canonical) encoding of R: verify must compare the 32 bytes of R with the canonical
    # encoding of [S]B - [k]A, so these are all rejected although the decoded points are equal (seeded change C14-5:
    # projective comparison of the decoded R).  Alternative encodings exist for the identity (sign bit set; y = p + 1),
    # for (0, -1) (sign bit set) and for the two points with y = 0 (y-field = p); S = 0 and a small-order A close the
    # equation without a secret.
    alt = []
    for enc, pt in small:
        y = int.from_bytes(enc, "little") & (2**255 - 1)
        sign = int.from_bytes(enc, "little") >> 255
        cands = []
        if y < 19:
            cands.append((y + P) | (sign << 255))
        if pt[0] % P == 0:
            cands.append(y | ((1 - sign) << 255))
            if y < 19:
                cands.append((y + P) | ((1 - sign) << 255))
        for c in cands:
            b = c.to_bytes(32, "little")
            if b != enc and pt_dec(b) is not None and pt_enc(pt_dec(b)) == enc:
                alt.append((b, enc))
    closed = 0
    for _ in range(300 if quick else 4000):
        if closed >= (24 if quick else 300):
            break
        A_enc, A_pt = rng.choice(small)
        m = rng.rbytes(rng.randrange(0, 40))
        R_alt, R_can = rng.choice(alt)
        k = int.from_bytes(H(R_alt + A_enc + m), "little") % L
        if pt_enc(pt_neg(pt_mul(k, A_pt))) == R_can:
            closed += 1
            yield (f"ed25519.verify {hx(m)} {hx(A_enc)} {hx(R_alt + le32(0))}", "R.noncanonical.right_point")
    # the same with the identity as A in each of its encodings (then [k]A = O for every k) and any S: R = enc([S]B) is
    # canonical, so only S = 0 gives a point with a second encoding
    for A_enc in (le32(1), le32(1 | (1 << 255)), le32(P + 1)):
        for R_alt, R_can in alt:
            if R_can == le32(1):
                yield (f"ed25519.verify {hx(rng.rbytes(5))} {hx(A_enc)} {hx(R_alt + le32(0))}", "R.noncanonical.identity")
    # mixed-order forgeries: A = honest + small-order component is a different key; with S from the honest key the
    # equation fails in general; keep as adversarial samples
    for _ in range(8 if quick else 100):
        s = rng.rbytes(32)
        m = rng.rbytes(rng.randrange(0, 40))
        sig = ref_sign(s, m)
        T_enc, T_pt = rng.choice(small)
        A2 = pt_enc(pt_add(pt_dec(ref_public(s)), T_pt))
        yield (f"ed25519.verify {hx(m)} {hx(A2)} {hx(sig)}", "mixed_order.key")
        R2 = pt_enc(pt_add(pt_dec(sig[:32]), T_pt))
        yield (f"ed25519.verify {hx(m)} {hx(ref_public(s))} {hx(R2 + sig[32:])}", "mixed_order.R")
    # a valid equation built for ANY decodable A (including non-canonical encodings) needs the secret; but for the
    # refusal ladder the verdict only depends on decoding: sample A among non-canonical encodings, non-points, zero
    ncs = noncanonical_encodings()
    for enc in ncs:
        m = rng.rbytes(rng.randrange(0, 20))
        s = rng.rbytes(32)
        sig = ref_sign(s, m)
        yield (f"ed25519.verify {hx(m)} {hx(enc)} {hx(sig)}", "A.noncanonical")
        # non-canonical R never matches a canonical re-encoding
        yield (f"ed25519.verify {hx(m)} {hx(ref_public(s))} {hx(enc + sig[32:])}", "R.noncanonical")
    # R is not a point at all (no x for that y) while A, S and the message are those of an honest signature: verify never
    # decodes R, it compares bytes, so the verdict must be `false` without a panic; both sign bits, y < p and y >= 2^255 - 19 + k
    for i in range(12 if quick else 200):
        s_ = rng.rbytes(32)
        m = rng.rbytes(rng.randrange(0, 40))
        sig = ref_sign(s_, m)
        R_bad = bytearray(random_nonpoint(rng))
        if i % 3 == 1:
            R_bad[31] ^= 0x80                       # the other sign bit: still not a point (decoding ignores the sign for existence)
        yield (f"ed25519.verify {hx(m)} {hx(ref_public(s_))} {hx(bytes(R_bad) + sig[32:])}", "R.nonpoint")
        if i % 3 == 2:
            # also with S = 0 and with a small-order A (where a lenient check could accept anything)
            yield (f"ed25519.verify {hx(m)} {hx(rng.choice(SMALL)[0])} {hx(bytes(R_bad) + le32(0))}", "R.nonpoint")
    # non-canonical A that IS accepted: y in 0..18 on the curve, small order (y = 0: order 4; y = 1: identity):
    # A = (0,1) encoded as p+1: [k]A = identity, so R = [S]B with any S < L verifies under the lenient decoder
    for enc in (le32(P + 1), le32((P + 1) | (1 << 255)), le32(1 | (1 << 255)), le32(1)):
        for _ in range(2 if quick else 10):
            S = rng.randrange(L)
            m = rng.rbytes(rng.randrange(0, 20))
            R_enc = pt_enc(pt_mul(S, BPT))
            yield (f"ed25519.verify {hx(m)} {hx(enc)} {hx(R_enc + le32(S))}", "A.identity_encodings.valid_equation")
    for _ in range(20 if quick else 300):
        m = rng.rbytes(rng.randrange(0, 20))
        yield (f"ed25519.verify {hx(m)} {hx(random_nonpoint(rng))} {hx(rng.rbytes(32) + le32(rng.randrange(L)))}", "A.nonpoint")
    # all-zero public key: decodes (y = 0 is on the curve, order 4) but is refused; build a closing equation for it
    zero_pt = pt_dec(bytes(32))
    done = 0
    for _ in range(200 if quick else 2000):
        m = rng.rbytes(rng.randrange(0, 20))
        for R_enc, _ in small:
            k = int.from_bytes(H(R_enc + bytes(32) + m), "little") % L
            if pt_enc(pt_neg(pt_mul(k, zero_pt))) == R_enc:
                yield (f"ed25519.verify {hx(m)} {hx(bytes(32))} {hx(R_enc + le32(0))}", "A.zero.equation_holds")
                done += 1
                break
        if done >= (4 if quick else 40):
            break
    for _ in range(4 if quick else 40):
        yield (f"ed25519.verify {hx(rng.rbytes(5))} {hx(bytes(32))} {hx(rng.rbytes(32) + le32(rng.randrange(L)))}", "A.zero")
    yield (f"ed25519.verify - {hx(bytes(32))} {hx(bytes(64))}", "A.zero")
    # random triples
    for _ in range(60 if quick else 1500):
        A = rng.choice([random_point(rng), rng.rbytes(32)])
        S = rng.choice([rng.randrange(L), rng.getrandbits(256), rng.getrandbits(253)])
        yield (f"ed25519.verify {hx(rng.rbytes(rng.randrange(0, 64)))} {hx(A)} {hx(rng.rbytes(32) + le32(S))}", "random")


def gen_C15(tier, rng):
    quick = tier == "quick"
    # base_mul: every single-nibble scalar 64 x 15
    for pos in range(64):
        for v in range(1, 16):
            n = v << (4 * pos)
            if n < 2**255:
                yield (f"ge.base_mul {hx(le32(n))}", "base_mul.single_nibble")
    named = [0, 1, 2, 7, 8, 9, 15, 16, L - 1, L, L + 1, 2**252, 2**252 - 1, 2**253 - 1, 2**254, 2**255 - 1, 2**255 - 2,
             int("88" * 31 + "08", 16) % 2**255, int("77" * 32, 16), int("f" * 63, 16), int("8" * 63, 16),
             8 * L - 1, 8 * L % 2**255, 2 * L, 4 * L]
    for n in named:
        yield (f"ge.base_mul {hx(le32(n))}", "base_mul.named")
    for _ in range(60 if quick else 1500):
        yield (f"ge.base_mul {hx(le32(rng.getrandbits(rng.choice([255, 255, 253, 252, 128, 64]))))}", "base_mul.random")
    # every (position, signed digit) of the comb reached with a carry: nibble 0xf followed by v
    for pos in range(0, 62, 1 if not quick else 3):
        for v in (7, 8, 15):
            n = (0xf << (4 * pos)) | (v << (4 * pos + 4))
            yield (f"ge.base_mul {hx(le32(n))}", "base_mul.carry")
    # group programs: results reused as operands in non-normalised representations (z != 1 after scalarmult_base,
    # double, add) — every unary op followed by every binary op with the result on either side, associativity and
    # doubling identities; seeded change C15-8 (a wrong T after `Ge::double()`) is invisible to single operations
    def leaf():
        r = rng.randrange(4)
        if r == 0:
            return "b" + hx(random_point(rng))
        if r == 1:
            return "m" + hx(le32(rng.getrandbits(rng.choice([8, 64, 252, 255]))))
        if r == 2:
            return "b" + hx(rng.choice(SMALL)[0])
        return "b" + hx(pt_enc(BPT))
    unary = ["d", "D", "e", "n", "d;d", "D;n", "n;d", "c;+", "c;-"]
    binary = ["+", "-"]
    for u in unary:
        for bop in binary:
            for side in (0, 1):
                for _ in range(2 if quick else 8):
                    a, b = leaf(), leaf()
                    prog = f"{a};{u};{b};{bop}" if side == 0 else f"{b};{a};{u};{bop}"
                    yield (f"ge.prog {prog}", "prog.unary_then_binary")
                    yield (f"ge.prog {prog};{rng.choice(unary)};{leaf()};{rng.choice(binary)}", "prog.chain")
    for _ in range(30 if quick else 600):
        n = rng.randrange(3, 9)
        toks, depth = [leaf()], 1
        for _ in range(n):
            if depth >= 2 and rng.randrange(2):
                toks.append(rng.choice(binary)); depth -= 1
            elif rng.randrange(3) == 0:
                toks.append(leaf()); depth += 1
            else:
                toks.append(rng.choice(["d", "D", "e", "n", "c", "x"] if depth >= 2 else ["d", "D", "e", "n", "c"]))
                if toks[-1] == "c":
                    depth += 1
        while depth > 1:
            toks.append(rng.choice(binary)); depth -= 1
        yield (f"ge.prog {';'.join(toks)}", "prog.random")
    # double_mul
    pts = [e for e, _ in SMALL] + [pt_enc(BPT)] + [random_point(rng) for _ in range(6 if quick else 60)]
    scal = [0, 1, 2, 15, 16, 17, 31, L - 1, L, 2**252, 2**253 - 1, 2**255 - 1, int.from_bytes(bytes.fromhex("aa" * 31 + "2a"), "little"), int.from_bytes(bytes.fromhex("ff" * 31 + "7f"), "little")]
    assert all(v < 2**255 for v in scal)
    for A in pts[: (11 if quick else len(pts))]:
        for _ in range(3 if quick else 8):
            a = rng.choice(scal + [rng.getrandbits(255)] * 4)
            b = rng.choice(scal + [rng.getrandbits(255)] * 4)
            yield (f"ge.double_mul {hx(le32(a))} {hx(A)} {hx(le32(b))}", "double_mul.points")
    for a in scal:
        yield (f"ge.double_mul {hx(le32(a))} {hx(pt_enc(BPT))} {hx(le32(0))}", "double_mul.b=0")
        yield (f"ge.double_mul {hx(le32(0))} {hx(random_point(rng))} {hx(le32(a))}", "double_mul.a=0")
    for d in range(1, 32, 2):   # every odd window digit alone, at a few positions
        for pos in (0, 1, 100, 249):
            yield (f"ge.double_mul {hx(le32(d << pos))} {hx(random_point(rng))} {hx(le32(d << pos))}", "double_mul.window_digit")
    for _ in range(30 if quick else 800):
        yield (f"ge.double_mul {hx(le32(rng.getrandbits(255)))} {hx(random_point(rng))} {hx(le32(rng.getrandbits(255)))}", "double_mul.random")
    yield (f"ge.double_mul {hx(le32(5))} {hx(random_nonpoint(rng))} {hx(le32(7))}", "double_mul.nonpoint")
    # encode / decode
    for enc, _ in SMALL:
        yield (f"ge.decode {hx(enc)}", "decode.small_order")
        yield (f"ge.roundtrip {hx(enc)}", "roundtrip.small_order")
    for enc in noncanonical_encodings():
        yield (f"ge.decode {hx(enc)}", "decode.noncanonical")
        yield (f"ge.roundtrip {hx(enc)}", "roundtrip.noncanonical")
    for y in list(range(0, 40)) + [P - 1, P - 2, P - 3, (P - 1) // 2, 2**254, 2**255 - 20]:
        for s in (0, 1):
            yield (f"ge.decode {hx(le32((y % 2**255) | (s << 255)))}", "decode.small_y")
    for _ in range(60 if quick else 2000):
        yield (f"ge.roundtrip {hx(random_point(rng))}", "roundtrip.random_point")
        yield (f"ge.decode {hx(random_nonpoint(rng))}", "decode.nonpoint")
        yield (f"ge.decode {hx(rng.rbytes(32))}", "decode.random")
    yield (f"ge.roundtrip {hx(pt_enc(BPT))}", "roundtrip.base")
    # add / sub / double / negate against the affine law
    allpts = pts + [bytes.fromhex("01" + "00" * 31)]
    for _ in range(60 if quick else 1500):
        a = rng.choice(allpts + [random_point(rng)] * 6)
        b = rng.choice(allpts + [random_point(rng)] * 6 + [a])
        yield (f"ge.add {hx(a)} {hx(b)}", "add")
        yield (f"ge.sub {hx(a)} {hx(b)}", "sub")
    for a in allpts + [random_point(rng) for _ in range(20 if quick else 400)]:
        yield (f"ge.double {hx(a)}", "double")
        yield (f"ge.negate {hx(a)}", "negate")
        yield (f"ge.add {hx(a)} {hx(a)}", "add.self")
        yield (f"ge.sub {hx(a)} {hx(a)}", "sub.self")
    for e1, _ in SMALL:
        for e2, _ in SMALL:
            yield (f"ge.add {hx(e1)} {hx(e2)}", "add.small_order")
    yield (f"ge.add {hx(random_nonpoint(rng))} {hx(pt_enc(BPT))}", "add.nonpoint")
