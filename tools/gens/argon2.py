"""Case generators of the `argon2` unit (op: `argon2.hash`, see lean/CxVerif/Driver/Argon2.lean).

gen_C11: RFC 9106 section 5 vectors; the full small grid type x version x t 1..=4 x p 1..=5 x m (8p, non-multiples of
         4p, the next multiples); segment lengths around and above 128 (address-block refresh at 128, 256);
         tag lengths across 64 (4,5,31,32,33,63,64,65,96,128,300; thorough: every 4..=300); empty / block-crossing /
         long password, salt, key, aad; a random stream; parameters outside the RFC domain that the code accepts
         (m < 8p is silently raised to 8p, tag lengths 1..3) are answered by the Impl model only.
gen_C20: the refusal matrix of the Params builder and the zero-length tag.

NEVER generate a valid large p or m: `Memory::new` allocates p * lane_length KiB (p = 2^24-1 would ask for 128 GiB and
abort the harness).  Every valid case here has m <= MAX_M and p <= 64.
"""

TYPES = ("d", "i", "id")
VERSIONS = (19, 16)
TAGLENS = (4, 5, 31, 32, 33, 63, 64, 65, 96, 128, 300)
MAX_M = 6000


def hx(b):
    return "-" if len(b) == 0 else bytes(b).hex()


def case(ty, v, t, m, p, tl, pwd, salt, key, aad):
    assert m <= MAX_M and p <= 64
    return f"argon2.hash {ty} {v} {t} {m} {p} {tl} {hx(pwd)} {hx(salt)} {hx(key)} {hx(aad)}"


# H0 hashes 40 bytes of fixed fields + the four strings: lengths chosen to land on / around BLAKE2b block edges
LENS = (0, 1, 8, 16, 32, 63, 64, 65, 87, 88, 89, 127, 128, 129, 215, 216, 217, 300, 1000)


def inputs(rng, style=None):
    style = style or rng.choice(["typ", "typ", "empty", "long", "edge", "mixed"])
    if style == "typ":
        ls = (rng.randrange(1, 33), 16, rng.choice([0, 0, 8, 32]), rng.choice([0, 0, 12]))
    elif style == "empty":
        ls = (0, rng.choice([0, 8]), 0, 0)
    elif style == "long":
        ls = tuple(rng.choice([300, 1000, rng.randrange(130, 700)]) for _ in range(4))
    elif style == "edge":
        ls = tuple(rng.choice(LENS) for _ in range(4))
    else:
        ls = tuple(rng.choice([0, rng.randrange(0, 70)]) for _ in range(4))
    return tuple(rng.rbytes(n) for n in ls) + (style,)


def gen_C11(tier, rng):
    quick = tier == "quick"
    # -- RFC 9106 section 5 (and the same inputs under version 0x10)
    P, S, K, X = b"\x01" * 32, b"\x02" * 16, b"\x03" * 8, b"\x04" * 12
    for ty in TYPES:
        for v in VERSIONS:
            yield (case(ty, v, 3, 32, 4, 32, P, S, K, X), "rfc9106" if v == 19 else "rfc9106.v10")

    # -- the full small grid: memory rounding (m' = 4p*floor(m/4p)), single lane, all pass counts
    for ty in TYPES:
        for v in VERSIONS:
            for t in (1, 2, 3, 4):
                for p in (1, 2, 3, 4, 5):
                    ms = [8 * p, 8 * p + rng.randrange(1, 4 * p), 12 * p - 1 if p > 1 else 11, 12 * p,
                          16 * p + rng.randrange(0, 4 * p)]
                    if not quick:
                        ms += [8 * p + 1, 12 * p + 1, 16 * p - 1, 4 * p * rng.randrange(5, 20) + rng.randrange(0, 4 * p)]
                    for m in sorted(set(ms)):
                        tl = rng.choice(TAGLENS)
                        pw, sa, ke, ad, st = inputs(rng)
                        yield (case(ty, v, t, m, p, tl, pw, sa, ke, ad), f"grid.{st}")

    # -- segment lengths around 128 / 256: the address block is refreshed at index 128, 256, …; index_alpha on long
    #    segments; non-multiples of 4p on top
    segs = [127, 128, 129, 130, 131, 255, 256, 257, 258]
    combos = [(ty, v, p) for ty in TYPES for v in VERSIONS for p in (1, 2, 3, 4, 5)]
    n_seg = 36 if quick else 270
    for n in range(n_seg):
        ty, v, p = combos[n % len(combos)] if not quick else rng.choice(combos)
        if quick and n % 3 != 2:
            ty = rng.choice(["i", "id"])
        seg = segs[n % len(segs)] if n < 2 * len(segs) or not quick else rng.choice(segs)
        if seg > 200 and p > 3 and quick:
            p = rng.choice([1, 2])
        m = 4 * p * seg + rng.choice([0, 0, rng.randrange(0, 4 * p)])
        t = rng.choice([1, 2, 2, 3]) if seg < 200 else rng.choice([1, 2])
        pw, sa, ke, ad, st = inputs(rng, "typ")
        yield (case(ty, v, t, m, p, rng.choice(TAGLENS), pw, sa, ke, ad), f"seg{seg}")
    if not quick:
        # a few really long segments / single lane with thousands of blocks
        for ty, v, t, m, p in (("i", 19, 2, 4 * 1 * 515 + 3, 1), ("id", 19, 3, 4 * 2 * 390 + 5, 2), ("d", 16, 2, 4099, 1),
                               ("id", 16, 2, 4 * 3 * 385, 3), ("i", 16, 1, 4 * 5 * 260 + 19, 5), ("d", 19, 4, 3001, 4)):
            pw, sa, ke, ad, st = inputs(rng, "typ")
            yield (case(ty, v, t, m, p, 32, pw, sa, ke, ad), "seg.big")

    # -- tag lengths: H' direct (<= 64), 32-byte strides, the final partial hash
    for ty in TYPES:
        for v in VERSIONS:
            for tl in TAGLENS + (6, 62, 66, 95, 97, 127, 129, 160, 161, 299):
                p = rng.choice([1, 2, 4])
                pw, sa, ke, ad, st = inputs(rng, "typ")
                yield (case(ty, v, rng.choice([1, 2]), 8 * p + rng.randrange(0, 9), p, tl, pw, sa, ke, ad), "taglen")
    tls = range(4, 301) if not quick else sorted(rng.sample(list(range(4, 301)), 40))
    for tl in tls:
        ty, v = TYPES[tl % 3], VERSIONS[(tl // 3) % 2]
        pw, sa, ke, ad, st = inputs(rng, "typ")
        yield (case(ty, v, 1, 8, 1, tl, pw, sa, ke, ad), "taglen.every")
    for tl in (1000, 1024, 1025) if quick else (999, 1000, 1023, 1024, 1025, 2049, 4000):
        pw, sa, ke, ad, st = inputs(rng, "typ")
        yield (case(rng.choice(TYPES), 19, 1, 8, 1, tl, pw, sa, ke, ad), "taglen.long")

    # -- password / salt / key / aad lengths: every LENS value in each position, all empty, all long
    for pos in range(4):
        for n in LENS if not quick else LENS[::2] + (1000,):
            ls = [rng.choice([0, 3, 16]) for _ in range(4)]
            ls[pos] = n
            bs = [rng.rbytes(k) for k in ls]
            yield (case(rng.choice(TYPES), rng.choice(VERSIONS), 1, 8, 1, 32, *bs), f"inlen.{'PSKX'[pos]}")
    for ty in TYPES:
        yield (case(ty, 19, 2, 16, 2, 32, b"", b"", b"", b""), "inlen.allempty")
        yield (case(ty, 19, 1, 8, 1, 64, rng.rbytes(1000), rng.rbytes(1000), rng.rbytes(1000), rng.rbytes(1000)), "inlen.alllong")

    # -- more lanes than the grid (J_2 mod p with p not a power of two), m still small
    for p in (6, 7, 8, 13, 16, 33, 64) if not quick else (7, 16, 33):
        for ty in TYPES:
            pw, sa, ke, ad, st = inputs(rng, "typ")
            yield (case(ty, rng.choice(VERSIONS), rng.choice([1, 2, 3]), 8 * p + rng.randrange(0, 8 * p), p, 32, pw, sa, ke, ad), "lanes")

    # -- random stream
    cnt, top = (120, 700) if quick else (900, 2500)
    for i in range(cnt):
        p = rng.choice([1, 1, 2, 3, 4, 5, rng.randrange(1, 9)])
        m = rng.randrange(8 * p, max(8 * p + 1, top if i % 5 == 0 else 40 * p))
        t = rng.choice([1, 1, 2, 3, 4])
        tl = rng.choice([rng.randrange(4, 301), rng.choice(TAGLENS), 32])
        pw, sa, ke, ad, st = inputs(rng)
        yield (case(rng.choice(TYPES), rng.choice(VERSIONS), t, m, p, tl, pw, sa, ke, ad), f"random.{st}")

    # -- accepted outside the RFC domain: m < 8p is raised to 8p (documented), tag lengths 1..3; Spec has no answer
    for ty in TYPES:
        for (m, p) in ((0, 1), (7, 1), (1, 3), (8 * 4 - 1, 4), (39, 5)):
            pw, sa, ke, ad, st = inputs(rng, "typ")
            yield (case(ty, rng.choice(VERSIONS), rng.choice([1, 2]), m, p, 32, pw, sa, ke, ad), "m.override")
        for tl in (1, 2, 3):
            pw, sa, ke, ad, st = inputs(rng, "typ")
            yield (case(ty, 19, 1, 8, 1, tl, pw, sa, ke, ad), "taglen.short")
    # -- builder histories: the derived geometry must depend only on the LAST value given to each setter, not on the
    #    order or repetition of the calls (op argon2.build)
    yield from _builder(tier, rng)
    # -- refused
    yield from _refused(rng)


def _builder(tier, rng):
    ms = (8, 16, 24, 32, 40, 47, 48, 63, 64, 100, 129)
    ps = (1, 2, 3, 4, 5)

    def line(ty, prog, tl=32):
        pw, sa, ke, ad, st = inputs(rng, "typ")
        return f"argon2.build {ty} {','.join(prog) if prog else '-'} {tl} {hx(pw)} {hx(sa)} {hx(ke)} {hx(ad)}"
    named = [["p3", "m47", "p2"], ["m100", "p4", "p5"], ["m47", "p3", "m47", "p2"], ["p4", "m64", "p1"], ["m129", "p5", "p2", "t2"],
             ["p2", "m47", "p3", "v16"], ["m40", "p5", "m100", "p3"], [], ["t2"], ["p2", "m16"], ["m64", "p2", "m63"],
             ["p5", "p4", "p3", "m100"], ["m100", "m47", "p2"], ["v16", "t2", "m48", "p3", "t1", "v19"]]
    for i, prog in enumerate(named):
        yield (line(TYPES[i % 3], prog), "builder.named")
    # the same final parameters reached by two different call orders (both lines must give the Spec's tag)
    for _ in range(6 if tier == "quick" else 60):
        p1, p2 = rng.choice(ps), rng.choice(ps)
        m1, m2 = rng.choice(ms), rng.choice([m for m in ms if m >= 8 * max(p1, p2)] or [64])
        ty = rng.choice(TYPES)
        for prog in ([f"p{p1}", f"m{m1}", f"p{p2}", f"m{m2}"], [f"m{m2}", f"p{p2}"], [f"m{m1}", f"p{p1}", f"m{m2}", f"p{p2}"],
                     [f"p{p1}", f"m{m2}", f"p{p2}"]):
            yield (line(ty, prog), "builder.order")
    # random histories (some pass through m < 8p: answered by the Impl model only), some with a refusal in the middle
    for _ in range(24 if tier == "quick" else 300):
        n = rng.randrange(1, 6)
        prog = []
        for _ in range(n):
            k = rng.choice("mmppptv")
            if k == "m":
                prog.append(f"m{rng.choice(ms)}")
            elif k == "p":
                prog.append(f"p{rng.choice(ps)}")
            elif k == "t":
                prog.append(f"t{rng.choice([1, 2, 1, 0] if rng.randrange(8) == 0 else [1, 2])}")
            else:
                prog.append(f"v{rng.choice([16, 19, 19, 7] if rng.randrange(8) == 0 else [16, 19])}")
        yield (line(rng.choice(TYPES), prog, rng.choice([32, 4, 64, 65])), "builder.random")


def _refused(rng):
    ok = (b"pw", b"saltsalt", b"", b"")
    for ty in TYPES:
        for p in (0, 1 << 24, (1 << 24) + 1, (1 << 32) - 1):
            yield (f"argon2.hash {ty} 19 1 32 {p} 32 {hx(ok[0])} {hx(ok[1])} - -", "refused.p")
        yield (f"argon2.hash {ty} 19 0 32 1 32 {hx(ok[0])} {hx(ok[1])} - -", "refused.t")
        for v in (0, 1, 15, 17, 18, 20, 0x1000, (1 << 32) - 1):
            yield (f"argon2.hash {ty} {v} 1 32 1 32 {hx(ok[0])} {hx(ok[1])} - -", "refused.v")
        # several at once: the first failing setter wins (iterations, parallelism, version)
        yield (f"argon2.hash {ty} 7 0 32 0 32 {hx(ok[0])} {hx(ok[1])} - -", "refused.multi")
        yield (f"argon2.hash {ty} 7 1 32 {1 << 24} 32 {hx(ok[0])} {hx(ok[1])} - -", "refused.multi")
        # zero-length tag: BLAKE2b refuses a 0-byte digest (panic)
        yield (f"argon2.hash {ty} 19 1 8 1 0 {hx(ok[0])} {hx(ok[1])} - -", "refused.taglen0")


def gen_C20(tier, rng):
    yield from _refused(rng)
    # valid edge parameters next to the refused ones must NOT be refused
    for ty in TYPES:
        yield (case(ty, 16, 1, 8, 1, 4, b"", b"12345678", b"", b""), "accepted.min")
        yield (case(ty, 19, 1, 0, 1, 4, b"", b"", b"", b""), "accepted.m0")
        # the documented-unchecked ranges: tag lengths 1..3 (0 is refused, see _refused), salt shorter than 8 bytes,
        # memory below 8 blocks per lane (raised silently): accepted, identically in every build profile
        for tl in (1, 2, 3, 4, 5):
            yield (case(ty, 19, 1, 8, 1, tl, b"pw", b"saltsalt", b"", b""), "accepted.taglen")
        for sl in (0, 1, 7, 8):
            yield (case(ty, 19, 1, 8, 1, 32, b"pw", rng.rbytes(sl), b"", b""), "accepted.saltlen")
        for (m, p) in ((0, 1), (7, 1), (8, 1), (9, 1), (15, 2), (16, 2), (17, 2)):
            yield (case(ty, 19, 1, m, p, 32, b"pw", b"saltsalt", b"", b""), "accepted.mlow")
        # the legal neighbours of the refused setter values
        for (v, t, p) in ((16, 1, 1), (19, 1, 1), (19, 2, 1), (19, 1, 2)):
            yield (case(ty, v, t, 8 * p, p, 32, b"pw", b"saltsalt", b"", b""), "accepted.setters")
