"""Case generators of unit `sha2` (SHA-224/256/384/512/512-224/512-256): gen_C01 (one-shot digests), gen_C02 (histories).

Directed by the model: FixedBuffer regimes (buffer empty / partially filled / filled exactly / multi-block straight
from the input), the two padding branches (`N - idx - 1 < rem`, i.e. len mod B in B-8.. (B-16.. for the 64-bit
family)), the empty message, the 0x80 byte landing on the last byte of a block, multi-block inputs."""
import itertools

ALGS = [("sha224", 64), ("sha256", 64), ("sha384", 128), ("sha512", 128), ("sha512_224", 128), ("sha512_256", 128)]


def hx(b):
    return "-" if len(b) == 0 else bytes(b).hex()


def residues(B):
    """length classes mod B the property names (0, 1, B-9..B+1) plus the 128-bit length field boundary"""
    r = {0, 1} | {x % B for x in range(B - 9, B + 2)}
    if B == 128:
        r |= {x % B for x in range(B - 18, B - 8)}
    return sorted(r)


def gen_C01(tier, rng):
    quick = tier != "thorough"
    maxlen = 8192 if quick else 65536
    for alg, B in ALGS:
        # every length 0..=4B+1, random contents
        for n in range(0, 4 * B + 2):
            yield (f"hash.{alg} {hx(rng.rbytes(n))}", "len.exhaustive")
        # the same boundary lengths with extreme contents (all 00 / all ff / 0x80 bytes that mimic padding)
        for n in sorted({0, 1, B - 17, B - 16, B - 9, B - 8, B - 1, B, B + 1, 2 * B - 9, 2 * B - 8, 2 * B, 3 * B - 1}):
            for fill in (0x00, 0xFF, 0x80):
                yield (f"hash.{alg} {hx(bytes([fill]) * n)}", "len.boundary.fill")
        # long messages whose length mod B sits on every boundary class
        res = residues(B)
        reps = 1 if quick else 3
        for _ in range(reps):
            for r in res:
                k = rng.randrange(4, maxlen // B)
                n = k * B + r
                if n > maxlen:
                    n -= B
                yield (f"hash.{alg} {hx(rng.rbytes(n))}", "long.boundary")
        # uniformly random lengths
        for _ in range(12 if quick else 120):
            n = rng.randrange(4 * B + 2, maxlen + 1)
            yield (f"hash.{alg} {hx(rng.rbytes(n))}", "long.random")
        yield (f"hash.{alg} {hx(rng.rbytes(maxlen))}", "long.max")
        if quick:
            # the upper end of the sampled range the property names (64 KiB), once per algorithm in the quick tier too
            yield (f"hash.{alg} {hx(rng.rbytes(65536))}", "long.64KiB")


def chunk_lens(B):
    return [0, 1, B - 1, B, B + 1, 2 * B + 3]


def alphabet(B):
    """symbols of the exhaustive enumeration: (opcode, chunk length or None)"""
    syms = []
    for c in chunk_lens(B):
        syms.append(("u", c))
        syms.append(("m", c))
    syms += [("c", None), ("x", None), ("r", None), ("F", None), ("d", None)]
    return syms


def render(seq, rng):
    return ";".join(op if n is None else op + hx(rng.rbytes(n)) for op, n in seq)


def gen_C02(tier, rng):
    quick = tier != "thorough"
    for alg, B in ALGS:
        syms = alphabet(B)
        # exhaustive histories; a final `d` makes every history observable
        if quick:
            depth = 3
        else:
            depth = 4
        yield (f"hctx.{alg} -", "hist.empty")
        yield (f"hctx.{alg} d", "hist.exhaustive.d0")
        for d in range(1, depth + 1):
            for seq in itertools.product(syms, repeat=d):
                yield (f"hctx.{alg} {render(seq, rng)};d", f"hist.exhaustive.d{d}")
        # random histories of 5..40 operations
        lens = chunk_lens(B) + [B - 9, B - 8, B - 17, B - 16, 2 * B, 3 * B, 4 * B + 1, 2, B // 2]
        for _ in range(150 if quick else 1500):
            nops = rng.randrange(5, 41)
            seq = []
            for _ in range(nops):
                t = rng.random()
                if t < 0.55:
                    n = rng.choice(lens) if rng.random() < 0.7 else rng.randrange(0, 3 * B + 2)
                    seq.append((rng.choice("um"), n))
                elif t < 0.65:
                    seq.append(("c", None))
                elif t < 0.75:
                    seq.append(("x", None))
                elif t < 0.82:
                    seq.append(("r", None))
                elif t < 0.90:
                    seq.append(("F", None))
                else:
                    seq.append(("d", None))
            yield (f"hctx.{alg} {render(seq, rng)};d", "hist.random")
        # split independence: one message cut at every pair of positions around the block boundaries
        msg = rng.rbytes(2 * B + 5)
        cuts = sorted({0, 1, B - 1, B, B + 1, 2 * B - 1, 2 * B, 2 * B + 1, len(msg)})
        for i in cuts:
            for j in cuts:
                if i <= j:
                    parts = [msg[:i], msg[i:j], msg[j:]]
                    for ops in ("uuu", "mmm", "umu", "mum"):
                        prog = ";".join(o + hx(p) for o, p in zip(ops, parts))
                        yield (f"hctx.{alg} {prog};d;F;d", "hist.split")


# ----------------------------------------------------------------------------- C20 (sha2 part)

OUT_BYTES = {"sha224": 28, "sha256": 32, "sha384": 48, "sha512": 64, "sha512_224": 28, "sha512_256": 32}


def gen_C20(tier, rng):
    """refusal matrix of the legacy `Digest` wrappers (`computed` assert, exact-length `result` buffer); the `hashing`
    contexts have no refusing call: every reuse pattern is answered"""
    from . import _refusal
    for alg, B in ALGS:
        yield from _refusal.digest_object_rows(alg, OUT_BYTES[alg], B, rng)
        yield from _refusal.context_reuse_rows(alg, B, rng)
