"""Shared row builders of the C20 refusal matrix for the hash units (sha1ripemd, sha2, sha3): the legacy `Digest`
objects (`dig.obj`, op of unit mackdf: `computed` flag, output-buffer length of `result`) and the `hashing` contexts
(`hctx.<alg>`: no refusal exists — every reuse pattern must be answered, in all three build profiles).

Buffer sizes: each one below / above the digest length, zero, twice, very large.  History grammar: see
lean/CxVerif/Driver/MacKdf.lean (`i<hex>` input, `R` result into output_bytes(), `W<n>` result into n bytes, `r` reset,
`c` clone, `x` swap, `o` sizes) and AGENT_GUIDE 6 (`u`/`m` update, `F` finalize_reset, `d` finalize of a clone, `r` reset).
"""


def hx(b):
    return "-" if len(b) == 0 else bytes(b).hex()


def digest_object_rows(alg, H, B, rng):
    """`H` digest bytes, `B` block bytes of `alg`"""
    msgs = [b"", rng.rbytes(1), rng.rbytes(B - 1), rng.rbytes(B), rng.rbytes(B + 1)]
    # result into a buffer of every neighbouring length, before / after input
    for m in msgs:
        pre = "" if not m else f"i{hx(m)};"
        for n in (0, 1, H - 1, H, H + 1, 2 * H, 100000):
            kind = "accept.outbuf" if n == H else "refuse.outbuf"
            yield (f"dig.obj {alg} {pre}W{n};o", f"{alg}.{kind}")
    # the `computed` flag: input / result / raw result after a result are refused; reset clears the flag;
    # a refused call is the end of the history (the values emitted before it are kept)
    m = rng.rbytes(rng.choice([0, 3, B]))
    pre = "" if not m else f"i{hx(m)};"
    for first in ("R", "W", f"W{H}"):
        for second in ("i00", "i-", "R", "W", f"W{H}", f"W{H - 1}", f"W{H + 1}", "W0"):
            yield (f"dig.obj {alg} {pre}{first};{second}", f"{alg}.refuse.after-result")
        for ok in ("r;i00;R", "r;R", "o;r;W", "c;r;i6162;R;x"):
            yield (f"dig.obj {alg} {pre}{first};{ok}", f"{alg}.accept.after-reset")
    # a clone taken before the result is not finished by it
    yield (f"dig.obj {alg} {pre}c;R;x;i00;R", f"{alg}.accept.clone-before-result")
    yield (f"dig.obj {alg} {pre}R;c;x;i00", f"{alg}.refuse.clone-after-result")


def context_reuse_rows(alg, B, rng):
    """the `hashing::<alg>::Context` API has no refusing call: finalize_reset twice, update after finalize_reset,
    reset at any point, finalize of clones, empty updates"""
    a, b = rng.rbytes(rng.choice([0, 1, B - 1])), rng.rbytes(rng.choice([B, B + 1, 2 * B + 3]))
    for prog in ("F;F;d", f"u{hx(a)};F;F;u{hx(b)};F;d", f"m{hx(b)};d;d;F;d", "r;r;F;r;d", f"u{hx(b)};c;F;x;F;d",
                 f"F;u{hx(a)};r;m{hx(b)};F;F", "u-;m-;F;u-;d", f"u{hx(a)};d;u{hx(b)};d;F;m{hx(a)};d"):
        yield (f"hctx.{alg} {prog}", f"{alg}.accept.context-reuse")
