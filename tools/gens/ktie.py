"""kernel-level generators: limb states at and around the carry boundaries of the limb kernels"""

B26 = [0, 1, 2, 5, (1 << 26) - 6, (1 << 26) - 5, (1 << 26) - 2, (1 << 26) - 1, 1 << 26, (1 << 26) + 1, (1 << 26) + 4,
       (1 << 26) + 5, (1 << 26) + 63, (1 << 26) + (1 << 10), 0x3fffffb, 0x3fffffa]


def limb26(rng, wide=False):
    k = rng.random()
    if k < 0.45:
        return rng.choice(B26)
    if k < 0.55:
        return (1 << 26) + rng.randrange(1 << (20 if wide else 6))
    return rng.randrange(1 << 26)


def rlimbs(rng):
    # clamped r limbs as `new` produces them (masks), incl. extremes
    masks = [0x3ffffff, 0x3ffff03, 0x3ffc0ff, 0x3f03fff, 0x00fffff]
    k = rng.random()
    if k < 0.2:
        return masks
    if k < 0.3:
        return [rng.choice([0, 1, 2]), 0, 0, 0, 0]
    return [rng.getrandbits(26) & m for m in masks]


def gen_C05(tier, rng):
    n = 1500 if tier == "quick" else 20000
    for i in range(n):
        r = rlimbs(rng)
        h = [limb26(rng) for _ in range(5)]
        if i % 7 == 0:
            h[1] = (1 << 26) + rng.randrange(64)          # h1 unreduced (as `block` leaves it)
        if i % 5 == 0:
            h[2] = h[3] = h[4] = (1 << 26) - 1              # saturated upper limbs: carries ripple to the top
        pad = [rng.choice([0, 0xffffffff, rng.getrandbits(32)]) for _ in range(4)]
        yield (f"ktie.poly.finish {','.join(map(str, r))} {','.join(map(str, h))} {','.join(map(str, pad))}", "ktie.finish")
        blk = rng.choice([b"\xff" * 16, bytes(16), rng.rbytes(16), b"\xfb" + b"\xff" * 15])
        yield (f"ktie.poly.block {','.join(map(str, r))} {','.join(map(str, h))} {blk.hex()}", "ktie.block")
    # limbs outside the proven invariant: overflow-checked builds panic exactly where the model says
    for _ in range(50 if tier == "quick" else 500):
        r = [rng.getrandbits(32) for _ in range(5)]
        h = [rng.getrandbits(32) for _ in range(5)]
        yield (f"ktie.poly.block {','.join(map(str, r))} {','.join(map(str, h))} {rng.rbytes(16).hex()}", "ktie.block.wild")


