"""Case generators of unit `simd` (ops: lean/CxVerif/Driver/Simd.lean).  gen_C16 is run by tools/props/C16.py through the
four harness builds {default, +sse4.1, +avx, +avx2}; every build must answer what the lane model of its own code
path and the Spec answer.

SHA-256 (`simd.sha256/sha224 <off> <lens> <data>`): the FixedBuffer hands all whole blocks of one `update` to ONE
`digest_block` call, so a piece of 64k + r bytes arriving on an empty buffer is a call with exactly k blocks:
  * k = 1..=20 (4-way / 8-way batches with every scalar tail size 0..7, sse41 tails 0..3 after an 8-way batch),
  * at every slice offset 0..=31 from a 32-byte aligned address (`gather` reads i32 through raw pointers),
  * from the IV and from arbitrary chaining states (a prefix of whole blocks first),
  * the two-step pattern `update(a); update(b)` with a leaving 1..63 buffered bytes (buffer completion = a 1-block
    call on the internal buffer, then k blocks straight from the input slice at a shifted address),
  * k = 0 controls, long random inputs.
BLAKE2 (`simd.blake2b/s <outlen> <key> <off> <counter> <lens> <data>`): compress is one block per call; the inner
blocks of an `update` are compressed straight from the input slice (unaligned loads), the first and the last from
the context buffer:
  * keyed / unkeyed, message lengths around every block boundary up to 5 blocks (with / without the last-block flag on a
    full block: lengths nB and nB+1), every offset 0..=31, several output lengths,
  * counters preset through the hook at the sign / lane boundaries of the SIMD counter vector: 2^31-64 … 2^31+64,
    2^32-128 …, 2^63 …, 2^64-128 …, high word 0 / 1 / 2^31 / 2^63 / all-ones, both words all-ones,
  * split updates, long random inputs.
"""

B2 = {"blake2b": dict(B=128, mx=64, w=64, outs=(1, 20, 28, 32, 48, 63, 64)),
      "blake2s": dict(B=64, mx=32, w=32, outs=(1, 16, 20, 28, 31, 32))}


def hx(b):
    return "-" if len(b) == 0 else bytes(b).hex()


def nl(ls):
    return "-" if not ls else ",".join(str(x) for x in ls)


def _sha_case(rng, alg, off, lens, n, kind):
    return (f"simd.{alg} {off} {nl(lens)} {hx(rng.rbytes(n))}", f"{alg}.{kind}")


def gen_sha(tier, rng):
    quick = tier == "quick"
    alg = "sha256"
    # (1) k whole blocks in one call, every k and every offset
    for k in range(1, 21):
        for off in range(32):
            styles = [rng.randrange(4)] if quick else [0, 1, 2, 3]
            for st in styles:
                r = rng.choice([0, 0, 1, 55, 56, 63, rng.randrange(64)])
                if st == 0:      # from the IV: one update of 64k + r bytes
                    yield _sha_case(rng, alg, off, [], 64 * k + r, f"blocks.iv.k{k}")
                elif st == 1:    # arbitrary chaining state: p whole blocks first, then the k-block call
                    p = rng.choice([1, 1, 2, 3, 5])
                    yield _sha_case(rng, alg, off, [64 * p], 64 * p + 64 * k + r, f"blocks.chained.k{k}")
                elif st == 2:    # two-step: a leaves b buffered bytes; next update completes the buffer, then k blocks
                    b = rng.randrange(1, 64)
                    a = 64 * rng.choice([0, 0, 1, 2]) + b
                    yield _sha_case(rng, alg, off, [a], a + (64 - b) + 64 * k + r, f"blocks.twostep.k{k}")
                else:            # three updates: k blocks, then again j blocks from the advanced state
                    j = rng.randrange(1, 21)
                    yield _sha_case(rng, alg, off, [64 * k, 64 * j], 64 * k + 64 * j + r, f"blocks.again.k{k}")
    # (2) the buffered-bytes dimension exhaustively (0..63) for batch-relevant k
    for b in range(0, 64):
        for k in ((4, 8, 9) if quick else (1, 3, 4, 5, 7, 8, 9, 12, 13, 16, 17, 20)):
            off = rng.randrange(32)
            yield _sha_case(rng, alg, off, [b], b + ((64 - b) % 64) + 64 * k + rng.randrange(64), f"buffered.b{b // 16 * 16}")
    # (3) controls without a whole block, tiny pieces
    for n in (0, 1, 55, 56, 63, 64, 65, 119, 120, 127, 128):
        yield _sha_case(rng, alg, rng.randrange(32), [], n, "small")
        yield _sha_case(rng, alg, rng.randrange(32), [n // 2], n, "small.split")
    # (4) SHA-224 shares the engine
    for k in ((1, 4, 5, 8, 13, 20) if quick else range(1, 21)):
        yield _sha_case(rng, "sha224", rng.randrange(32), [rng.randrange(64)], 64 * k + rng.randrange(128), f"blocks.k{k}")
    # (5) random long inputs, random splits
    cnt, top = (30, 6000) if quick else (300, 40000)
    for _ in range(cnt):
        n = rng.randrange(top)
        cuts = sorted(rng.randrange(n + 1) for _ in range(rng.randrange(4)))
        lens = [b - a for a, b in zip([0] + cuts, cuts)]
        yield _sha_case(rng, alg, rng.randrange(32), lens, n, "random")


def _b2_case(rng, alg, o, key, off, ctr, lens, n, kind):
    c = "-" if ctr is None else f"{ctr[0]}:{ctr[1]}"
    return (f"simd.{alg} {o} {hx(key)} {off} {c} {nl(lens)} {hx(rng.rbytes(n))}", f"{alg}.{kind}")


def _counters(w, B):
    M = 2 ** w
    lows = set()
    for c in (2 ** 31, 2 ** 32, 2 ** 63, 2 ** 64, 2 ** 15, 2 ** 16):
        if c <= M:
            for d in (-2 * B, -B - 1, -B, -64, -1, 0, 1, 64, B):
                v = c + d
                if 0 <= v < M:
                    lows.add(v)
    lows |= {0, 1, B, M - 1, M - B, M // 2 - 1, M // 2}
    highs = [0, 1, 2 ** 31 - 1, 2 ** 31, M // 2 - 1, M // 2, M - 2, M - 1]
    highs = sorted({h for h in highs if 0 <= h < M})
    return sorted(lows), highs


def gen_blake2(tier, rng):
    quick = tier == "quick"
    for alg, p in B2.items():
        B, mx, w = p["B"], p["mx"], p["w"]
        # (1) lengths around every block boundary x keyed/unkeyed x every offset
        lens_ = sorted({0, 1, B - 1} | {n * B + d for n in range(1, 6) for d in (-1, 0, 1)} | {2 * B + 17, 4 * B + B // 2})
        for off in range(32):
            for n in lens_:
                if quick and (off * 5 + n) % 3:
                    continue
                for keyed in (False, True):
                    key = rng.rbytes(rng.choice([1, mx // 2, mx])) if keyed else b""
                    o = rng.choice(p["outs"])
                    flag = "full" if n and n % B == 0 else ("empty" if n == 0 else "partial")
                    yield _b2_case(rng, alg, o, key, off, None, [], n, f"{'keyed' if keyed else 'unkeyed'}.last-{flag}")
        # (2) split updates: the boundary between buffer path and direct path
        for _ in range(60 if quick else 600):
            n = rng.choice([B, B + 1, 2 * B, 2 * B + 1, 3 * B, 3 * B + 1, rng.randrange(6 * B)])
            a = rng.randrange(n + 1)
            b = rng.randrange(a, n + 1)
            key = rng.rbytes(rng.choice([0, 0, mx]))
            yield _b2_case(rng, alg, rng.choice(p["outs"]), key, rng.randrange(32), None, [a, b - a], n, "split")
        # (3) counters at the sign / lane boundaries
        lows, highs = _counters(w, B)
        datalens = [0, 1, B, B + 1, 2 * B, 2 * B + 1, 3 * B + 5]
        for t0 in lows:
            for t1 in highs:
                for n in datalens:
                    if quick and (t0 + 3 * t1 + n) % 5 and not (t0 in (2 ** w - 1, 2 ** w - B) and t1 in (0, 2 ** w - 1)):
                        continue
                    key = rng.rbytes(rng.choice([0, 0, 1, mx]))
                    total = t0 + (B if key else 0) + n
                    kind = "wrap2w" if t1 == 2 ** w - 1 and total >= 2 ** w else ("carry" if total >= 2 ** w else "nocarry")
                    yield _b2_case(rng, alg, rng.choice(p["outs"]), key, rng.randrange(32), (t0, t1), [], n, f"counter.{kind}")
        # (4) random long inputs
        cnt, top = (20, 3000) if quick else (200, 30000)
        for _ in range(cnt):
            n = rng.randrange(top)
            cuts = sorted(rng.randrange(n + 1) for _ in range(rng.randrange(3)))
            lens = [b - a for a, b in zip([0] + cuts, cuts)]
            key = rng.rbytes(rng.choice([0, rng.randrange(1, mx + 1)]))
            yield _b2_case(rng, alg, rng.randrange(1, mx + 1), key, rng.randrange(32), None, lens, n, "random")
        # (5) refused parameters stay refused in every build
        for o, k in ((0, 0), (mx + 1, 0), (mx, mx + 1)):
            yield _b2_case(rng, alg, o, rng.rbytes(k), 0, None, [], 3, "refused")


def gen_C16(tier, rng):
    yield from gen_sha(tier, rng)
    yield from gen_blake2(tier, rng)
