"""Case generators of the stream-cipher unit (ops: lean/CxVerif/Driver/Stream.lean, harness/src/ops_stream.rs).

gen_C03: keystream of every (variant, R, key length) from every counter regime.
gen_C04: operation histories (chunking, process/process_mut mix, seek from mid-block, clones, involution), DRG.
gen_C16: portable vs native ChaCha engine on identical inputs.
"""
import itertools

ROUNDS = (8, 12, 20)
LENS = (0, 1, 63, 64, 65, 127, 128, 129, 300)
M32 = 2 ** 32
M64 = 2 ** 64
# the N for which the harness instantiates Drg::bytes::<N> / fill_bytes::<N>
DRG_NS = (0, 1, 2, 3, 4, 5, 7, 8, 9, 12, 15, 16, 17, 24, 31, 32, 33, 48, 63, 64, 65, 96, 100, 127, 128, 129, 130, 191,
          192, 193, 200, 255, 256, 257, 300)

# variant -> (op, key lengths, nonce length, positioning op letter, counter modulus)
VARIANTS = {
    "chacha": ("stream.chacha", (16, 32), 12, "s", M32),
    "xchacha": ("stream.xchacha", (32,), 24, "s", M32),
    "chachaorig": ("stream.chachaorig", (16, 32), 8, "S", M64),
    "salsa": ("stream.salsa", (16, 32), 8, "S", M64),
    "xsalsa": ("stream.xsalsa", (32,), 24, "S", M64),
}


def hx(b):
    return "-" if len(b) == 0 else bytes(b).hex()


# every byte / half-word / lane boundary of the counter: an increment implemented on narrower or wider lanes
# (8, 16, 64 bit) or with a lost carry shows exactly there
CARRY32 = [2 ** 8 - 1, 2 ** 16 - 1, 2 ** 16, 2 ** 24 - 1, 2 ** 31 - 1, 2 ** 31]
CARRY64 = [2 ** 40 - 1, 2 ** 48 - 1, 2 ** 56 - 1, 2 ** 63 - 1, 2 ** 63]


def starts32(rng):
    return [0, 1, M32 - 2, M32 - 1, rng.randrange(2, M32 - 2)] + CARRY32


def starts64(rng):
    k = rng.randrange(1, M32 - 1)
    return [0, 1, M32 - 2, M32 - 1, M32, M32 + 1, k * M32 - 2, k * M32 - 1, k * M32, (M32 - 1) * M32 + M32 - 2,
            M64 - 2, M64 - 1, rng.randrange(2, M64 - 2)] + CARRY32 + CARRY64


def gen_C03(tier, rng):
    reps = 1 if tier == "quick" else 3
    for name, (op, klens, nlen, pos, mod) in VARIANTS.items():
        for R in ROUNDS:
            for kl in klens:
                for _ in range(reps):
                    key, nonce = rng.rbytes(kl), rng.rbytes(nlen)
                    starts = starts32(rng) if mod == M32 else starts64(rng)
                    for st in starts:
                        for ln in LENS:
                            data = rng.rbytes(ln) if rng.random() < 0.7 else bytes(ln)
                            call = rng.choice("pm")
                            yield (f"{op} {R} {hx(key)} {hx(nonce)} {pos}{st};{call}{hx(data)}", f"{name}.start")
                    # from a fresh context (no positioning call at all)
                    for ln in LENS:
                        yield (f"{op} {R} {hx(key)} {hx(nonce)} p{hx(rng.rbytes(ln))}", f"{name}.fresh")
    # random stream: lengths up to 1000, any start
    n = 150 if tier == "quick" else 1500
    for _ in range(n):
        name = rng.choice(list(VARIANTS))
        op, klens, nlen, pos, mod = VARIANTS[name]
        R, kl = rng.choice(ROUNDS), rng.choice(klens)
        st = rng.choice([rng.randrange(mod), mod - 1 - rng.randrange(16), M32 - 1 - rng.randrange(16)])
        ln = rng.choice([rng.randrange(0, 1000), 64 * rng.randrange(1, 12)])
        yield (f"{op} {R} {hx(rng.rbytes(kl))} {hx(rng.rbytes(nlen))} {pos}{st};{rng.choice('pm')}{hx(rng.rbytes(ln))}",
               f"{name}.random")
    # engines through the hook: state layout for every (key length, nonce length), counters preset, blocks
    for which in ("portable", "native"):
        for R in ROUNDS:
            for kl in (16, 32):
                for nl in (8, 12, 16):
                    key, nonce = rng.rbytes(kl), rng.rbytes(nl)
                    yield (f"stream.eng {which} {R} {hx(key)} {hx(nonce)} s;b;h", f"eng.{which}.k{kl}.init")
                    for c in [0, 1, M32 - 1] + CARRY32:
                        yield (f"stream.eng {which} {R} {hx(key)} {hx(nonce)} c{c};s;b;i;s;b", f"eng.{which}.k{kl}.ctr32")
                    for c in (0, M32 - 1, M32, rng.randrange(1, M32) * M32 - 1, M64 - 1, rng.randrange(M64)):
                        yield (f"stream.eng {which} {R} {hx(key)} {hx(nonce)} C{c};s;b;I;s;b;I;s",
                               f"eng.{which}.k{kl}.ctr64")
    # refused arguments
    for name, (op, klens, nlen, pos, mod) in VARIANTS.items():
        nonce = rng.rbytes(nlen)
        if len(klens) == 2:
            for kl in (0, 1, 15, 17, 24, 31, 33, 64):
                yield (f"{op} 20 {hx(rng.rbytes(kl))} {hx(nonce)} p00", "refused.keylen")
        for kl in klens:
            yield (f"{op} 10 {hx(rng.rbytes(kl))} {hx(nonce)} p00", "refused.rounds")
            yield (f"{op} 10 {hx(rng.rbytes(kl))} {hx(nonce)} -", "refused.rounds")
            for (n, ln) in ((0, 1), (1, 0), (63, 64), (65, 64), (64, 64)):
                yield (f"{op} 20 {hx(rng.rbytes(kl))} {hx(nonce)} P{n}:{hx(rng.rbytes(ln))}", "refused.outlen")
    yield (f"stream.drg 10 {hx(rng.rbytes(32))} b4", "refused.rounds")


# ------------------------------------------------------------------------------------------------ C04

def _pos_token(pos, mod, rng, small=False):
    if small:
        return f"{pos}{rng.choice([0, 1, 2, 5])}"
    return f"{pos}{rng.choice([0, 1, 3, M32 - 1, mod - 1, rng.randrange(mod)])}"


def _render(alphabet_item, rng, pos, mod):
    kind, arg = alphabet_item
    if kind in "pmi":
        return f"{kind}{hx(rng.rbytes(arg))}"
    if kind == "seek":
        return _pos_token(pos, mod, rng)
    return kind


def gen_C04(tier, rng):
    quick = tier == "quick"
    alpha = [("p", 1), ("p", 63), ("m", 64), ("m", 65), ("p", 130), ("m", 0), ("seek", 0), ("c", 0), ("x", 0)]
    if not quick:
        alpha += [("m", 1), ("p", 64)]
    for name, (op, klens, nlen, pos, mod) in VARIANTS.items():
        R = 20
        key, nonce = rng.rbytes(klens[-1]), rng.rbytes(nlen)
        head = f"{op} {R} {hx(key)} {hx(nonce)}"
        # exhaustive histories: depth <= 3 (quick) / <= 4 (thorough); `x` only with a non-empty stack
        maxd = 3 if quick else 4
        for d in range(1, maxd + 1):
            for seq in itertools.product(alpha, repeat=d):
                depth, ok = 0, True
                for (k, _) in seq:
                    if k == "c":
                        depth += 1
                    elif k == "x" and depth == 0:
                        ok = False
                        break
                if not ok or seq[-1][0] in ("c", "seek"):
                    continue
                prog = ";".join(_render(a, rng, pos, mod) for a in seq)
                yield (f"{head} {prog}", f"{name}.hist{d}")
        # the same exhaustive enumeration once per remaining (R, key length): R in {8, 12} and the 16-byte key are separate
        # code paths of the constructors (constants "expand 16-byte k", key doubling) and of the round loop
        for R2 in ROUNDS:
            for kl in klens:
                if (R2, kl) == (20, klens[-1]):
                    continue
                head2 = f"{op} {R2} {hx(rng.rbytes(kl))} {hx(rng.rbytes(nlen))}"
                for d in range(1, (2 if quick else 3) + 1):
                    for seq in itertools.product(alpha, repeat=d):
                        depth, ok = 0, True
                        for (k, _) in seq:
                            if k == "c":
                                depth += 1
                            elif k == "x" and depth == 0:
                                ok = False
                                break
                        if not ok or seq[-1][0] in ("c", "seek"):
                            continue
                        prog = ";".join(_render(a, rng, pos, mod) for a in seq)
                        yield (f"{head2} {prog}", f"{name}.hist{d}.R{R2}k{kl}")
        # every phase of the 64-byte block: a first call of off bytes (off = 0..63), then a call that ends one byte before /
        # exactly on / one byte after the block boundary, then a call crossing the next one; and a seek from every offset
        for off in range(64):
            R2, kl = ROUNDS[off % 3], klens[off % len(klens)]
            head2 = f"{op} {R2} {hx(rng.rbytes(kl))} {hx(rng.rbytes(nlen))}"
            for delta in (-1, 0, 1):
                n = 64 - off + delta
                a, b = ("m", "p") if (off + delta) % 2 else ("p", "m")
                yield (f"{head2} {a}{hx(rng.rbytes(off))};{b}{hx(rng.rbytes(n))};{a}{hx(rng.rbytes(70))}", f"{name}.offset{'-1' if delta < 0 else ('+1' if delta else '=')}")
            t = _pos_token(pos, mod, rng)
            yield (f"{head2} m{hx(rng.rbytes(off))};{t};p{hx(bytes(70))};{t};m{hx(bytes(70))}", f"{name}.seek-from-offset")
        # random deeper histories, all R and key lengths
        for _ in range(120 if quick else 1200):
            R, kl = rng.choice(ROUNDS), rng.choice(klens)
            n = rng.randrange(4, 12)
            seq, depth = [], 0
            for _ in range(n):
                k = rng.choice(["p", "m", "p", "m", "i", "seek", "c", "x"])
                if k == "x" and depth == 0:
                    k = "c"
                if k == "c":
                    depth += 1
                ln = rng.choice([0, 1, 2, 31, 32, 33, 62, 63, 64, 65, 66, 127, 128, 129, 191, 192, 193, rng.randrange(300)])
                seq.append(_render((k, ln), rng, pos, mod))
            seq.append("p" + hx(rng.rbytes(rng.choice([1, 64, 65, 100]))))
            yield (f"{op} {R} {hx(rng.rbytes(kl))} {hx(rng.rbytes(nlen))} {';'.join(seq)}", f"{name}.histrand")
        # partition independence: one message, cut at every kind of boundary, against the one-shot call
        for _ in range(6 if quick else 40):
            R, kl = rng.choice(ROUNDS), rng.choice(klens)
            key, nonce = rng.rbytes(kl), rng.rbytes(nlen)
            total = rng.choice([129, 200, 256, 257, 320])
            msg = rng.rbytes(total)
            start = _pos_token(pos, mod, rng)
            yield (f"{op} {R} {hx(key)} {hx(nonce)} {start};p{hx(msg)}", f"{name}.oneshot")
            for _ in range(4 if quick else 8):
                cuts = sorted(rng.choice([0, 1, 63, 64, 65, 127, 128, 129, total, rng.randrange(total + 1)])
                              for _ in range(rng.randrange(1, 5)))
                cuts = [c for c in cuts if c <= total]
                pieces, prev = [], 0
                for c in cuts + [total]:
                    pieces.append(msg[prev:c])
                    prev = c
                prog = ";".join(rng.choice("pm") + hx(pc) for pc in pieces)
                yield (f"{op} {R} {hx(key)} {hx(nonce)} {start};{prog}", f"{name}.partition")
        # seek from every offset class inside a block; a clone continues identically; involution
        for off in (1, 31, 63, 64, 65, 100):
            key, nonce = rng.rbytes(klens[0]), rng.rbytes(nlen)
            t = _pos_token(pos, mod, rng)
            yield (f"{op} 20 {hx(key)} {hx(nonce)} m{hx(rng.rbytes(off))};{t};p{hx(bytes(70))};{t};m{hx(bytes(70))}",
                   f"{name}.seekmid")
            d = rng.rbytes(90)
            yield (f"{op} 12 {hx(key)} {hx(nonce)} p{hx(rng.rbytes(off))};c;p{hx(d)};x;m{hx(d)};p{hx(d)};x;p{hx(d)}",
                   f"{name}.clone")
            yield (f"{op} 8 {hx(key)} {hx(nonce)} m{hx(rng.rbytes(off))};i{hx(rng.rbytes(off + 64))};i{hx(d)};p{hx(d)}",
                   f"{name}.involution")
    # DRG: request sequences; destination buffers pre-filled with 00 / ff / random
    def prior(n, fill):
        return bytes(n) if fill == 0 else (b"\xff" * n if fill == 1 else rng.rbytes(n))

    reqs = [("b", 1), ("b", 63), ("b", 64), ("b", 65), ("b", 130), ("b", 0), ("w", 0), ("q", 0), ("f", 33), ("f", 64),
            ("l", 65), ("l", 7)]

    def rreq(r, fill):
        k, n = r
        if k == "b":
            return f"b{n}"
        if k in "fl":
            return f"{k}{hx(prior(n, fill))}"
        return k
    seed = rng.rbytes(32)

    def drg_exhaustive(R, seed, maxd, fills):
        for fill in fills:
            for d in range(1, maxd + 1):
                for seq in itertools.product(reqs, repeat=d):
                    if fill > 0 and not any(k in "fl" for (k, _) in seq):
                        continue
                    yield (f"stream.drg {R} {hx(seed)} {';'.join(rreq(r, fill) for r in seq)}", f"drg.hist{d}.fill{fill}.R{R}")
    # every request sequence to depth 3 (complete, both tiers) over destination buffers pre-filled with 00 / ff / random for
    # R = 20; thorough: depth 4 over zeroed buffers in addition; depth 2 for R = 8 and R = 12
    yield from drg_exhaustive(20, seed, 3, (0, 1, 2))
    if not quick:
        for line, kind in drg_exhaustive(20, seed, 4, (0,)):
            if line.count(";") == 3:
                yield (line, kind)
    for R in (8, 12):
        yield from drg_exhaustive(R, rng.rbytes(32), 2, (0, 1, 2))
    # u32 / u64 from every offset 0..63 inside the cached block (the word straddles the block boundary for off > 60 / > 56);
    # the offset is reached by fill_slice (any length) and, where `bytes::<N>` is instantiated, by bytes::<off> as well
    for off in range(64):
        R = ROUNDS[off % 3]
        sd = rng.rbytes(32)
        yield (f"stream.drg {R} {hx(sd)} l{hx(prior(off, off % 3))};w;q;b8", "drg.word-at-offset")
        yield (f"stream.drg {R} {hx(sd)} l{hx(prior(off, (off + 1) % 3))};q;w;b8", "drg.word-at-offset")
        if off in DRG_NS:
            yield (f"stream.drg {R} {hx(sd)} b{off};w;w;q;b8", "drg.word-at-offset")
            yield (f"stream.drg {R} {hx(sd)} b{off};q;q;w;b8", "drg.word-at-offset")
    for _ in range(150 if quick else 1500):
        R = rng.choice(ROUNDS)
        fill = rng.choice([0, 0, 1, 2])
        seq = []
        for _ in range(rng.randrange(2, 9)):
            k = rng.choice("bbwqfl")
            n = rng.choice(DRG_NS) if k in "bf" else rng.randrange(0, 200)
            seq.append(rreq((k, n), fill))
        seq.append("b16")
        yield (f"stream.drg {R} {hx(rng.rbytes(32))} {';'.join(seq)}", f"drg.random.fill{fill}")
    # request sizing: the same 256 bytes drawn in different request sizes (answers are compared with the keystream)
    seed = rng.rbytes(32)
    for sizes in ((256,), (64, 64, 64, 64), (1, 63, 64, 128), (65, 127, 64), (3, 4, 8, 1, 48, 192)):
        yield (f"stream.drg 20 {hx(seed)} {';'.join('b%d' % n for n in sizes)}", "drg.sizing")
    yield (f"stream.drg 20 {hx(seed)} w;q;w;b4;q", "drg.words")


# ------------------------------------------------------------------------------------------------ C16 (ChaCha part)

def gen_C16(tier, rng):
    quick = tier == "quick"
    for R in ROUNDS:
        for kl in (16, 32):
            for nl in (8, 12, 16):
                for _ in range(2 if quick else 10):
                    key, nonce = rng.rbytes(kl), rng.rbytes(nl)
                    yield (f"stream.eng2 {R} {hx(key)} {hx(nonce)} s;b;h", f"chacha.eng2.k{kl}.n{nl}.init")
                    c32 = rng.choice([0, 1, M32 - 1, rng.randrange(M32)] + CARRY32)
                    yield (f"stream.eng2 {R} {hx(key)} {hx(nonce)} c{c32};s;b;h;i;s;b;i;b", f"chacha.eng2.k{kl}.ctr32")
                    c64 = rng.choice([M32 - 1, M64 - 1, rng.randrange(M32) * M32 + M32 - 1, rng.randrange(M64)] + CARRY32 + CARRY64)
                    yield (f"stream.eng2 {R} {hx(key)} {hx(nonce)} C{c64};s;b;I;s;b;I;s;b;h", f"chacha.eng2.k{kl}.ctr64")
    # consecutive blocks 1..=20 from arbitrary counters
    for nblk in range(1, 21):
        R, kl, nl = rng.choice(ROUNDS), rng.choice((16, 32)), rng.choice((8, 12, 16))
        c = rng.choice([M32 - 1 - rng.randrange(nblk + 1), rng.randrange(M32)])
        prog = f"c{c};" + ";".join(["b;i"] * nblk)
        yield (f"stream.eng2 {R} {hx(rng.rbytes(kl))} {hx(rng.rbytes(nl))} {prog}", f"chacha.eng2.k{kl}.blocks")
    # special keys / nonces
    for kl in (16, 32):
        for pat in (b"\x00", b"\xff", b"\x80"):
            yield (f"stream.eng2 20 {hx(pat * kl)} {hx(pat * 12)} s;b;h", f"chacha.eng2.k{kl}.pattern")


# ----------------------------------------------------------------------------- C20 (stream part)

def _harness_rounds():
    """the round counts harness/src/ops_stream.rs instantiates for the context ops and the DRG (`with_rounds_ctx!`;
    8/12/20/10 if that macro is not there): everything but 8, 12, 20 must be refused by the constructors' assert"""
    import os
    import re
    src = os.path.join(os.path.dirname(os.path.abspath(__file__)), "..", "..", "harness", "src", "ops_stream.rs")
    try:
        m = re.search(r"macro_rules! with_rounds_ctx(.*?)_ =>", open(src).read(), re.S)
    except OSError:
        m = None
    return tuple(int(x) for x in re.findall(r"(\d+) => \$f", m.group(1))) if m else (8, 12, 20, 10)


KEYLENS_C20 = (0, 1, 15, 16, 17, 24, 31, 32, 33, 64, 1000)


def gen_C20(tier, rng):
    """the refusal matrix of the five context constructors, `process` and `Drg::new`: key lengths one below / above
    16 and 32, zero, huge; every round count the harness instantiates (legal: 8, 12, 20; refused: one below / above
    each, 0, 1, 2^32-1); output buffers of another length; next to each refused value the nearest accepted one.
    Nonce lengths (and the key of the X variants) are array types: they cannot be passed."""
    rounds = _harness_rounds()
    bad_rounds = tuple(r for r in rounds if r not in ROUNDS)
    probe = "m" + "00" * 5
    for var, (op, klens, nl, pos, mod) in VARIANTS.items():
        # key length x legal round count
        if klens != (32,):
            for R in ROUNDS:
                for kl in KEYLENS_C20:
                    kind = "accept.keylen" if kl in klens else "refuse.keylen"
                    yield (f"{op} {R} {hx(rng.rbytes(kl))} {hx(rng.rbytes(nl))} {probe}", f"{var}.{kind}")
        # round count x legal key length; both wrong at once
        for R in rounds:
            for kl in klens:
                kind = "accept.rounds" if R in ROUNDS else "refuse.rounds"
                yield (f"{op} {R} {hx(rng.rbytes(kl))} {hx(rng.rbytes(nl))} {probe}", f"{var}.{kind}")
                yield (f"{op} {R} {hx(rng.rbytes(kl))} {hx(rng.rbytes(nl))} -", f"{var}.{kind}")
        if klens != (32,):
            for R in bad_rounds:
                yield (f"{op} {R} {hx(rng.rbytes(rng.choice([0, 15, 17, 33])))} {hx(rng.rbytes(nl))} {probe}",
                       f"{var}.refuse.rounds+keylen")
        # `process(input, output)` with an output buffer of another length, fresh and mid-block, then one more call
        for n in (0, 1, 63, 64, 65, 200):
            data = rng.rbytes(n)
            R, kl = rng.choice(ROUNDS), rng.choice(klens)
            head = f"{op} {R} {hx(rng.rbytes(kl))} {hx(rng.rbytes(nl))}"
            yield (f"{head} P{n}:{hx(data)};{probe}", f"{var}.accept.outlen")
            for m in sorted({0, n - 1, n + 1, 2 * n, n + 64, 100000}):
                if m < 0 or m == n:
                    continue
                pre = rng.choice(["", "m" + rng.rbytes(7).hex() + ";", "p" + rng.rbytes(64).hex() + ";"])
                yield (f"{head} {pre}P{m}:{hx(data)};{probe}", f"{var}.refuse.outlen")
        # positioning: every counter value is legal (no refusal exists)
        for c in (0, 1, mod - 1):
            R, kl = rng.choice(ROUNDS), rng.choice(klens)
            yield (f"{op} {R} {hx(rng.rbytes(kl))} {hx(rng.rbytes(nl))} {pos}{c};{probe};m{rng.rbytes(70).hex()}",
                   f"{var}.accept.seek")
    for R in rounds:
        kind = "accept.rounds" if R in ROUNDS else "refuse.rounds"
        yield (f"stream.drg {R} {hx(rng.rbytes(32))} b8;w;q", f"drg.{kind}")
        yield (f"stream.drg {R} {hx(rng.rbytes(32))} -", f"drg.{kind}")
