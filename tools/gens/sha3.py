"""Case generators of the sha3 unit (SHA3-224/256/384/512, Keccak-224/256/384/512).

gen_C01: `hash.<alg> <msg>` — every length 0..=4*rate+1 (exhaustive, random content), the padding boundaries
         rate-1 / rate / rate+1 and multiples once more with content that collides with the padding bytes
         (all 0x00, all 0xff, trailing 0x06/0x01/0x80/0x86/0x81), lengths around large multiples of the rate,
         random lengths up to 8 KiB (quick) / 64 KiB (thorough).
gen_C02: `hctx.<alg> <prog>` — exhaustive op histories (depth 3 quick; thorough adds depth 4, complete, for all 8) over
         {update(c), update_mut(c), clone, swap, reset, finalize_reset, finalize-of-clone} with
         c in {0, 1, rate-1, rate, rate+1, 2*rate+3}, every history closed by a final `d`;
         random histories of 5..40 ops.
There is no refusing path in the public API of these contexts (`finalize` consumes, `finalize_reset` resets),
hence no malformed stream.
"""
import itertools

ALGS = [("sha3_224", 144), ("sha3_256", 136), ("sha3_384", 104), ("sha3_512", 72),
        ("keccak224", 144), ("keccak256", 136), ("keccak384", 104), ("keccak512", 72)]


def hx(b):
    return "-" if len(b) == 0 else bytes(b).hex()


def gen_C01(tier, rng):
    for alg, rate in ALGS:
        # every length 0..=4*rate+1
        for n in range(0, 4 * rate + 2):
            if n % rate in (rate - 1, 0, 1) and n > 0:
                kind = "len.boundary"
            else:
                kind = "len.exhaustive"
            yield (f"hash.{alg} {hx(rng.rbytes(n))}", kind)
        # content colliding with the padding bytes at the boundaries
        for k in (0, 1, 2, 3):
            for d in (-2, -1, 0, 1):
                n = k * rate + rate + d
                for fill in (0x00, 0xff):
                    yield (f"hash.{alg} {hx(bytes([fill]) * n)}", "len.boundary.fill")
                for last in (0x06, 0x01, 0x80, 0x86, 0x81, 0x1f):
                    yield (f"hash.{alg} {hx(bytes(n - 1) + bytes([last]))}", "len.boundary.padlike")
        # around large multiples of the rate
        big = 8192 if tier == "quick" else 65536
        for _ in range(2 if tier == "quick" else 6):
            k = rng.randrange(5, big // rate)
            for d in (-1, 0, 1):
                yield (f"hash.{alg} {hx(rng.rbytes(k * rate + d))}", "len.bigmultiple")
        # random
        for _ in range(4 if tier == "quick" else 16):
            yield (f"hash.{alg} {hx(rng.rbytes(rng.randrange(0, big + 1)))}", "len.random")
        # the upper end of the sampled range the property names (64 KiB), once per algorithm in both tiers
        yield (f"hash.{alg} {hx(rng.rbytes(65536))}", "len.64KiB")


def _chunks(rate):
    return [0, 1, rate - 1, rate, rate + 1, 2 * rate + 3]


def _alphabet(rate, rng):
    """symbols as functions producing the op text (fresh random content per use)"""
    syms = []
    for c in _chunks(rate):
        syms.append(("u", c))
        syms.append(("m", c))
    for o in ("c", "x", "r", "F", "d"):
        syms.append((o, None))
    return syms


def _render(seq, rng):
    out = []
    for k, c in seq:
        out.append(k + (hx(rng.rbytes(c)) if c is not None else ""))
    return ";".join(out)


def gen_C02(tier, rng):
    for alg, rate in ALGS:
        syms = _alphabet(rate, rng)
        # exhaustive histories, closed by a finalize of a clone
        for depth in (1, 2, 3):
            for seq in itertools.product(syms, repeat=depth):
                yield (f"hctx.{alg} {_render(list(seq) + [('d', None)], rng)}", f"exh.depth{depth}")
        if tier == "thorough":
            # depth 4 complete (17^4 = 83521 histories) for every one of the 8 sponge algorithms
            for seq in itertools.product(syms, repeat=4):
                yield (f"hctx.{alg} {_render(list(seq) + [('d', None)], rng)}", "exh.depth4")
            # and every sequence of 4 chunk lengths, then finalize_reset, one more chunk and finalize: the second digest
            # checks the state left by finalize_reset
            for lens in itertools.product(_chunks(rate), repeat=4):
                seq = [(rng.choice("um"), c) for c in lens] + [("F", None), ("u", rng.choice(_chunks(rate))), ("d", None)]
                yield (f"hctx.{alg} {_render(seq, rng)}", "exh.depth4.updates")
        # random histories
        for _ in range(40 if tier == "quick" else 300):
            n = rng.randrange(5, 41)
            seq = []
            for _ in range(n):
                r = rng.random()
                if r < 0.55:
                    c = rng.choice(_chunks(rate) + [rng.randrange(0, 3 * rate + 2), rng.randrange(0, 9), rate - 2, 2 * rate])
                    seq.append((rng.choice("um"), c))
                elif r < 0.67:
                    seq.append(("c", None))
                elif r < 0.79:
                    seq.append(("x", None))
                elif r < 0.85:
                    seq.append(("r", None))
                elif r < 0.93:
                    seq.append(("F", None))
                else:
                    seq.append(("d", None))
            seq.append(("d", None))
            yield (f"hctx.{alg} {_render(seq, rng)}", "hist.random")
        # one-piece vs many-piece feeding of one long message (split independence at scale)
        for _ in range(2 if tier == "quick" else 8):
            total = rng.randrange(3 * rate, 2048 if tier == "quick" else 16384)
            msg = rng.rbytes(total)
            pieces, i = [], 0
            while i < total:
                k = rng.choice([0, 1, rate - 1, rate, rate + 1, rng.randrange(0, 3 * rate)])
                pieces.append(msg[i:i + k])
                i += k
            prog = ";".join(rng.choice("um") + hx(p) for p in pieces) + ";d;r;u" + hx(msg) + ";d"
            yield (f"hctx.{alg} {prog}", "hist.split")


# ----------------------------------------------------------------------------- C20 (sha3 part)

OUT_BYTES = {"sha3_224": 28, "sha3_256": 32, "sha3_384": 48, "sha3_512": 64,
             "keccak224": 28, "keccak256": 32, "keccak384": 48, "keccak512": 64}


def gen_C20(tier, rng):
    """refusal matrix: the sponge's absorb-after-finalize / nothing-left-to-squeeze panics are unreachable through the
    `hashing` contexts (every reuse pattern is answered); through the legacy `Digest` wrappers they surface as the
    `computed` assert and the exact-length `result` buffer"""
    from . import _refusal
    for alg, rate in ALGS:
        yield from _refusal.digest_object_rows(alg, OUT_BYTES[alg], rate, rng)
        yield from _refusal.context_reuse_rows(alg, rate, rng)
