"""Case generators of the aead unit (ops: lean/CxVerif/Driver/Aead.lean, harness/src/ops_aead.rs).

gen_C06: AEAD = RFC 8439 §2.8; one-shot = streamed for every partition; decrypt inverts encrypt.
gen_C07: verdict = (tag is the right one): every tag bit, sampled bits of ct/aad/key/nonce, boundary moves,
         swapped lengths, pad confusion, truncation/extension, both interfaces.
gen_C20: refused calls (reuse of the one-shot object, wrong key / tag / output lengths, refused round count).

The generator carries its own small reference (`ref_seal`, written from RFC 8439) only to *construct* valid
(key, nonce, aad, ct, tag) tuples to mutate; the expected answers always come from the Lean Spec.
"""
import struct

LENS = (0, 1, 15, 16, 17, 63, 64, 65)
ROUNDS = (8, 12, 20)
M32 = 0xffffffff


def hx(b):
    return "-" if len(b) == 0 else bytes(b).hex()


# ----------------------------------------------------------------------------- reference (RFC 8439)

def _rotl(x, n):
    return ((x << n) & M32) | (x >> (32 - n))


def _qr(s, a, b, c, d):
    s[a] = (s[a] + s[b]) & M32; s[d] = _rotl(s[d] ^ s[a], 16)
    s[c] = (s[c] + s[d]) & M32; s[b] = _rotl(s[b] ^ s[c], 12)
    s[a] = (s[a] + s[b]) & M32; s[d] = _rotl(s[d] ^ s[a], 8)
    s[c] = (s[c] + s[d]) & M32; s[b] = _rotl(s[b] ^ s[c], 7)


def chacha_block(R, key, nonce, counter):
    if len(key) == 32:
        c, k = b"expand 32-byte k", key
    else:
        c, k = b"expand 16-byte k", key + key
    init = list(struct.unpack("<4I", c)) + list(struct.unpack("<8I", k)) + [counter & M32] + list(struct.unpack("<3I", nonce))
    s = list(init)
    for _ in range(R // 2):
        _qr(s, 0, 4, 8, 12); _qr(s, 1, 5, 9, 13); _qr(s, 2, 6, 10, 14); _qr(s, 3, 7, 11, 15)
        _qr(s, 0, 5, 10, 15); _qr(s, 1, 6, 11, 12); _qr(s, 2, 7, 8, 13); _qr(s, 3, 4, 9, 14)
    return struct.pack("<16I", *[(a + b) & M32 for a, b in zip(s, init)])


def chacha_xor(R, key, nonce, counter, data):
    out = bytearray()
    for i in range(0, len(data), 64):
        ks = chacha_block(R, key, nonce, counter + i // 64)
        out += bytes(a ^ b for a, b in zip(data[i:i + 64], ks))
    return bytes(out)


def poly1305(key, msg):
    r = int.from_bytes(key[:16], "little") & 0x0ffffffc0ffffffc0ffffffc0fffffff
    s = int.from_bytes(key[16:32], "little")
    p = (1 << 130) - 5
    a = 0
    for i in range(0, len(msg), 16):
        a = ((a + int.from_bytes(msg[i:i + 16] + b"\x01", "little")) * r) % p
    return ((a + s) % (1 << 128)).to_bytes(16, "little")


def pad16(x):
    return bytes((16 - len(x) % 16) % 16)


def ref_tag(R, key, nonce, aad, ct):
    otk = chacha_block(R, key, nonce, 0)[:32]
    md = aad + pad16(aad) + ct + pad16(ct) + struct.pack("<Q", len(aad)) + struct.pack("<Q", len(ct))
    return poly1305(otk, md)


def ref_seal(R, key, nonce, aad, pt):
    ct = chacha_xor(R, key, nonce, 1, pt)
    return ct, ref_tag(R, key, nonce, aad, ct)


# ----------------------------------------------------------------------------- RFC vectors

RFC_282 = dict(
    key=bytes(range(0x80, 0xa0)), nonce=bytes.fromhex("070000004041424344454647"),
    aad=bytes.fromhex("50515253c0c1c2c3c4c5c6c7"),
    pt=b"Ladies and Gentlemen of the class of '99: If I could offer you only one tip for the future, sunscreen would be it.",
    tag=bytes.fromhex("1ae10b594f09e26a7e902ecbd0600691"))
RFC_A5 = dict(
    key=bytes.fromhex("1c9240a5eb55d38af333888604f6b5f0473917c1402b80099dca5cbc207075c0"),
    nonce=bytes.fromhex("000000000102030405060708"), aad=bytes.fromhex("f33388860000000000004e91"),
    ct=bytes.fromhex(
        "64a0861575861af460f062c79be643bd5e805cfd345cf389f108670ac76c8cb24c6cfc18755d43eea09ee94e382d26b0bdb7b73c321b"
        "0100d4f03b7f355894cf332f830e710b97ce98c8a84abd0b948114ad176e008d33bd60f982b1ff37c8559797a06ef4f0ef61c186324e"
        "2b3506383606907b6a7c02b0f9f6157b53c867e4b9166c767b804d46a59b5216cde7a4e99040c5a40433225ee282a1b0a06c523eaf45"
        "34d7f83fa1155b0047718cbc546a0d072b04b3564eea1b422273f548271a0bb2316053fa76991955ebd63159434ecebb4e466dae5a10"
        "73a6727627097a1049e617d91d361094fa68f0ff77987130305beaba2eda04df997b714d6c6f2c29a6ad5cb4022b02709b"),
    tag=bytes.fromhex("eead9d67890cbb22392336fea1851f38"))


# ----------------------------------------------------------------------------- partitions

def cut(b, points):
    """pieces of b cut at the (sorted) points"""
    ps = [0] + sorted(points) + [len(b)]
    return [b[ps[i]:ps[i + 1]] for i in range(len(ps) - 1)]


def cuts2(n):
    return [(i,) for i in range(n + 1)]


def cuts3(n):
    return [(i, j) for i in range(n + 1) for j in range(i, n + 1)]


def directed_cuts(n, rng, k, ways):
    """cut positions around 16/64 multiples, the ends, plus random ones"""
    cand = sorted({c for base in range(0, n + 64, 16) for c in (base - 1, base, base + 1) if 0 <= c <= n} | {0, n})
    out = []
    for _ in range(k):
        pts = sorted(rng.choice(cand) if rng.random() < 0.6 else rng.randrange(n + 1) for _ in range(ways - 1))
        out.append(tuple(pts))
    return out


def some_cuts(n, rng, tier, ways):
    """all cuts for short strings, directed sample for long ones (quick: always a sample of the full set)"""
    full = cuts2(n) if ways == 2 else cuts3(n)
    if ways == 2 and n <= 65:
        cs = full
        if tier == "quick" and len(cs) > 12:
            cs = rng.sample(cs, 12)
        return cs
    if ways == 3 and n <= 17:
        cs = full
        if tier == "quick" and len(cs) > 12:
            cs = rng.sample(cs, 12)
        return cs
    return directed_cuts(n, rng, 6 if tier == "quick" else 24, ways)


def rand_cut(b, rng):
    k = rng.choice((0, 0, 1, 2, 3))
    return cut(b, [rng.randrange(len(b) + 1) for _ in range(k)])


def prog_aad(parts, rng, allow_none=True):
    if allow_none and all(len(p) == 0 for p in parts) and rng.random() < 0.5:
        return []                      # no add_data call at all
    return ["a" + hx(p) for p in parts]


def prog_data(parts, letters, rng):
    """letters: 'e'/'m' (or 'd'/'n') choice per piece; 'x' = random"""
    out = []
    for p in parts:
        l = letters if len(letters) == 1 else rng.choice(letters)
        out.append(l + hx(p))
    return out


def inc_line(R, key, nonce, toks):
    return f"aead.inc {R} {hx(key)} {hx(nonce)} " + (";".join(toks) if toks else "_")


# ----------------------------------------------------------------------------- C06

def tuples_C06(tier, rng):
    """(R, key, nonce, aad, pt, kind) over lengths² × key length.  thorough: every (aad class, data class) pair with both key
    lengths; quick: every pair with ONE key length chosen by the parity of the two class indices (so each length class of
    the AAD and of the data meets both key lengths), both key lengths where both classes are in {0, 16}"""
    lens = list(LENS) + [None]
    for ia, la in enumerate(lens):
        for id_, ld in enumerate(lens):
            for kl in (16, 32):
                if tier == "quick" and kl != (16, 32)[(ia + id_) % 2] and not (la in (0, 16) and ld in (0, 16)):
                    continue
                a = rng.randrange(66, 4097) if la is None else la
                d = rng.randrange(66, 4097) if ld is None else ld
                R = 20 if rng.random() < 0.6 else rng.choice(ROUNDS)
                kind = f"k{kl}.a{'R' if la is None else la}.d{'R' if ld is None else ld}"
                yield (R, rng.rbytes(kl), rng.rbytes(12), rng.rbytes(a), rng.rbytes(d), kind)


def gen_C06(tier, rng):
    # RFC 8439 §2.8.2 and A.5 through every interface
    v = RFC_282
    ct, tag = ref_seal(20, v["key"], v["nonce"], v["aad"], v["pt"])
    assert tag == v["tag"]
    w = RFC_A5
    pt_a5 = chacha_xor(20, w["key"], w["nonce"], 1, w["ct"])
    assert ref_tag(20, w["key"], w["nonce"], w["aad"], w["ct"]) == w["tag"]
    for (key, nonce, aad, pt, c, t) in ((v["key"], v["nonce"], v["aad"], v["pt"], ct, tag),
                                        (w["key"], w["nonce"], w["aad"], pt_a5, w["ct"], w["tag"])):
        yield (f"aead.seal 20 {hx(key)} {hx(nonce)} {hx(aad)} {hx(pt)}", "rfc.seal")
        yield (f"aead.open 20 {hx(key)} {hx(nonce)} {hx(aad)} {hx(c)} {hx(t)}", "rfc.open")
        yield (f"aead.one 20 {hx(key)} {hx(nonce)} {hx(aad)} e{hx(pt)}", "rfc.one")
        yield (f"aead.one 20 {hx(key)} {hx(nonce)} {hx(aad)} d{hx(c)}:{hx(t)}", "rfc.one")
        for _ in range(6):
            yield (inc_line(20, key, nonce, prog_aad(rand_cut(aad, rng), rng) + ["E"] + prog_data(rand_cut(pt, rng), "em", rng) + ["F"]), "rfc.inc.enc")
            yield (inc_line(20, key, nonce, prog_aad(rand_cut(aad, rng), rng) + ["D"] + prog_data(rand_cut(c, rng), "dn", rng) + ["V" + hx(t)]), "rfc.inc.dec")

    for (R, key, nonce, aad, pt, kind) in tuples_C06(tier, rng):
        ct, tag = ref_seal(R, key, nonce, aad, pt)
        base = f"{R} {hx(key)} {hx(nonce)}"
        # one-shot, both directions (function-style ops and the one-shot OBJECT op)
        yield (f"aead.one {base} {hx(aad)} e{hx(pt)}", "one.enc." + kind)
        yield (f"aead.one {base} {hx(aad)} d{hx(ct)}:{hx(tag)}", "one.dec." + kind)
        yield (f"aead.seal {base} {hx(aad)} {hx(pt)}", "seal." + kind)
        yield (f"aead.open {base} {hx(aad)} {hx(ct)} {hx(tag)}", "open." + kind)
        yield (f"aead.openbuf {base} {hx(aad)} {hx(ct)} {hx(tag)}", "openbuf." + kind)
        # streamed, unsplit: buffer-to-buffer and in place
        for le, ld in (("e", "d"), ("m", "n")):
            yield (inc_line(R, key, nonce, prog_aad([aad], rng, False) + ["E", le + hx(pt), "F"]), f"inc.whole.{le}." + kind)
            yield (inc_line(R, key, nonce, prog_aad([aad], rng, False) + ["D", ld + hx(ct), "V" + hx(tag)]), f"inc.whole.{ld}." + kind)
        # partitions of the AAD (2- and 3-way), data split at random
        for ways in (2, 3):
            for pts in some_cuts(len(aad), rng, tier, ways):
                # every partition in BOTH directions
                ap = prog_aad(cut(aad, pts), rng, False)
                yield (inc_line(R, key, nonce, ap + ["E"] + prog_data(rand_cut(pt, rng), "em", rng) + ["F"]), f"inc.aad{ways}.enc." + kind)
                yield (inc_line(R, key, nonce, ap + ["D"] + prog_data(rand_cut(ct, rng), "dn", rng) + ["V" + hx(tag)]), f"inc.aad{ways}.dec." + kind)
        # partitions of the data (2- and 3-way): buffer-to-buffer, in place, mixed; AAD split at random
        for ways in (2, 3):
            for pts in some_cuts(len(pt), rng, tier, ways):
                ap = prog_aad(rand_cut(aad, rng), rng)
                mode = rng.choice(("b2b", "inplace", "mixed"))
                le, ld = {"b2b": ("e", "d"), "inplace": ("m", "n"), "mixed": ("em", "dn")}[mode]
                yield (inc_line(R, key, nonce, ap + ["E"] + prog_data(cut(pt, pts), le, rng) + ["F"]), f"inc.data{ways}.enc.{mode}." + kind)
                yield (inc_line(R, key, nonce, ap + ["D"] + prog_data(cut(ct, pts), ld, rng) + ["V" + hx(tag)]), f"inc.data{ways}.dec.{mode}." + kind)

    # random stream: any lengths ≤ 4 KiB, many small pieces
    n = 150 if tier == "quick" else 1500
    for _ in range(n):
        R, kl = rng.choice(ROUNDS), rng.choice((16, 32))
        key, nonce = rng.rbytes(kl), rng.rbytes(12)
        la = rng.choice((0, rng.randrange(0, 40), rng.randrange(0, 300), rng.randrange(0, 4097)))
        ld = rng.choice((0, rng.randrange(0, 200), rng.randrange(0, 1000), rng.randrange(0, 4097)))
        aad, pt = rng.rbytes(la), rng.rbytes(ld)
        ka, kd = rng.randrange(0, 6), rng.randrange(0, 8)
        ap = prog_aad(cut(aad, [rng.randrange(la + 1) for _ in range(ka)]), rng)
        if rng.random() < 0.5:
            dp = prog_data(cut(pt, [rng.randrange(ld + 1) for _ in range(kd)]), "em", rng)
            yield (inc_line(R, key, nonce, ap + ["E"] + dp + (["F"] if rng.random() < 0.9 else [])), "inc.random.enc")
        else:
            ct, tag = ref_seal(R, key, nonce, aad, pt)
            dp = prog_data(cut(ct, [rng.randrange(ld + 1) for _ in range(kd)]), "dn", rng)
            yield (inc_line(R, key, nonce, ap + ["D"] + dp + (["V" + hx(tag)] if rng.random() < 0.9 else [])), "inc.random.dec")


# ----------------------------------------------------------------------------- C07

def flip(b, bit):
    x = bytearray(b)
    x[bit // 8] ^= 1 << (bit % 8)
    return bytes(x)


def both(R, key, nonce, aad, ct, tag, rng, kind, n=None):
    """the same question to the one-shot and to the incremental interface; with a call counter `n` (a one-element list)
    also to the one-shot OBJECT (`aead.one … d<ct>:<tag>`) and to the variant that shows the output buffer whatever the
    verdict (`aead.openbuf`): quick = the two take turns, thorough = both on every tuple"""
    yield (f"aead.open {R} {hx(key)} {hx(nonce)} {hx(aad)} {hx(ct)} {hx(tag)}", "open." + kind)
    toks = prog_aad(rand_cut(aad, rng), rng) + ["D"] + prog_data(rand_cut(ct, rng), "dn", rng) + ["V" + hx(tag)]
    yield (inc_line(R, key, nonce, toks), "inc." + kind)
    if n is not None:
        n[0] += 1
        if n[1] or n[0] % 2 == 0:
            yield (f"aead.one {R} {hx(key)} {hx(nonce)} {hx(aad)} d{hx(ct)}:{hx(tag)}", "one." + kind)
        if n[1] or n[0] % 2 == 1:
            yield (f"aead.openbuf {R} {hx(key)} {hx(nonce)} {hx(aad)} {hx(ct)} {hx(tag)}", "openbuf." + kind)


def sample_bits(nbits, rng, k):
    if nbits == 0:
        return []
    s = {0, nbits - 1, nbits // 2}
    for b in (7, 8, 127, 128, 129, 511, 512, 513):
        if b < nbits:
            s.add(b)
    while len(s) < min(k, nbits):
        s.add(rng.randrange(nbits))
    return sorted(s)


def gen_C07(tier, rng):
    q = tier == "quick"
    n = [0, not q]      # call counter of `both`, all-interfaces flag
    shapes = [(0, 0), (0, 1), (1, 0), (12, 114), (16, 16), (15, 17), (17, 15), (16, 32), (32, 16), (0, 64), (64, 0),
              (63, 65), (13, 200)]
    if not q:
        shapes += [(a, d) for a in LENS for d in LENS if (a, d) not in shapes]
        shapes += [(rng.randrange(66, 2000), rng.randrange(66, 4097)) for _ in range(6)]
    for ix, (la, ld) in enumerate(shapes):
        for kl in (16, 32):
            R = 20 if (ix + kl) % 3 else rng.choice(ROUNDS)
            key, nonce, aad, pt = rng.rbytes(kl), rng.rbytes(12), rng.rbytes(la), rng.rbytes(ld)
            ct, tag = ref_seal(R, key, nonce, aad, pt)
            sh = f"a{la}.d{ld}" if ix < 13 else "grid"
            yield from both(R, key, nonce, aad, ct, tag, rng, "valid." + sh, n)
            # every one of the 128 tag bits (incremental interface: all of them for the first shapes, sampled later)
            for bit in range(128):
                t = flip(tag, bit)
                yield (f"aead.open {R} {hx(key)} {hx(nonce)} {hx(aad)} {hx(ct)} {hx(t)}", "open.tagbit")
                if bit % 8 == ix % 8:
                    yield (f"aead.one {R} {hx(key)} {hx(nonce)} {hx(aad)} d{hx(ct)}:{hx(t)}", "one.tagbit")
                    yield (f"aead.openbuf {R} {hx(key)} {hx(nonce)} {hx(aad)} {hx(ct)} {hx(t)}", "openbuf.tagbit")
                if ix < 4 or not q or bit % 16 == (ix % 16):
                    toks = prog_aad(rand_cut(aad, rng), rng) + ["D"] + prog_data(rand_cut(ct, rng), "dn", rng) + ["V" + hx(t)]
                    yield (inc_line(R, key, nonce, toks), "inc.tagbit")
            # other tags: zero, ones, the tag of other inputs, byte-rotated
            others = [bytes(16), b"\xff" * 16, tag[1:] + tag[:1], ref_tag(R, key, nonce, ct, aad), ref_tag(R, key, nonce, b"", ct),
                      ref_tag(R, key, nonce, aad, b""), poly1305(chacha_block(R, key, nonce, 0)[:32], aad + ct)]
            for t in others:
                if t != tag:
                    yield from both(R, key, nonce, aad, ct, t, rng, "othertag", n)
            k = 6 if q else 24
            for bit in sample_bits(8 * len(ct), rng, k):
                yield from both(R, key, nonce, aad, flip(ct, bit), tag, rng, "ctbit", n)
            for bit in sample_bits(8 * len(aad), rng, k):
                yield from both(R, key, nonce, flip(aad, bit), ct, tag, rng, "aadbit", n)
            for bit in sample_bits(8 * kl, rng, k):
                yield from both(R, flip(key, bit), nonce, aad, ct, tag, rng, "keybit", n)
            for bit in sample_bits(96, rng, k):
                yield from both(R, key, flip(nonce, bit), aad, ct, tag, rng, "noncebit", n)
            # the other key length / round count with the same leading bytes
            yield from both(R, key[:16] if kl == 32 else key + key, nonce, aad, ct, tag, rng, "keylen", n)
            yield from both(8 if R != 8 else 12, key, nonce, aad, ct, tag, rng, "rounds", n)
            # moving bytes across the AAD / ciphertext boundary (same concatenation)
            cat = aad + ct
            for m in sorted({1, 2, 15, 16, 17, len(ct), len(aad)}):
                if 0 < m <= len(ct):
                    yield from both(R, key, nonce, cat[:la + m], cat[la + m:], tag, rng, "boundary.to_aad", n)
                if 0 < m <= len(aad):
                    yield from both(R, key, nonce, cat[:la - m], cat[la - m:], tag, rng, "boundary.to_ct", n)
            # swapped lengths: |aad| and |ct| exchange their roles over the same concatenation
            if la != ld:
                yield from both(R, key, nonce, cat[:ld], cat[ld:], tag, rng, "swaplen", n)
            # exchange aad and ct
            if aad != ct:
                yield from both(R, key, nonce, ct, aad, tag, rng, "exchange", n)
            # truncation / extension
            for m in (1, 15, 16, 17):
                if m <= len(ct):
                    yield from both(R, key, nonce, aad, ct[:-m], tag, rng, "trunc.ct", n)
                    yield from both(R, key, nonce, aad, ct[m:], tag, rng, "trunc.ct.front", n)
                if m <= len(aad):
                    yield from both(R, key, nonce, aad[:-m], ct, tag, rng, "trunc.aad", n)
                yield from both(R, key, nonce, aad, ct + bytes(m), tag, rng, "extend.ct.zeros", n)
                yield from both(R, key, nonce, aad + bytes(m), ct, tag, rng, "extend.aad.zeros", n)
                yield from both(R, key, nonce, aad, ct + rng.rbytes(m), tag, rng, "extend.ct", n)
            # pad confusion: extending by exactly the pad16 zeros gives the same padded string, only the length word differs
            if la % 16:
                yield from both(R, key, nonce, aad + pad16(aad), ct, tag, rng, "padconf.aad", n)
            if ld % 16:
                yield from both(R, key, nonce, aad, ct + pad16(ct), tag, rng, "padconf.ct", n)
            # tag of the wrong length on the one-shot interface (refused)
            for t in (tag[:15], tag + b"\x00", b"", tag[:8]):
                yield (f"aead.open {R} {hx(key)} {hx(nonce)} {hx(aad)} {hx(ct)} {hx(t)}", "open.taglen")

    # pad confusion with zero tails: the same padded strings, only the length words differ
    for _ in range(10 if q else 60):
        R, kl = 20, rng.choice((16, 32))
        key, nonce = rng.rbytes(kl), rng.rbytes(12)
        la, ld = rng.randrange(1, 48), rng.randrange(1, 48)
        za, zd = rng.randrange(0, min(la, 16)), rng.randrange(0, min(ld, 16))
        aad = rng.rbytes(la - za) + bytes(za)
        pt = rng.rbytes(ld)
        ct, _ = ref_seal(R, key, nonce, aad, pt)
        ct = ct[:ld - zd] + bytes(zd)              # a ciphertext with a zero tail
        tag = ref_tag(R, key, nonce, aad, ct)
        yield from both(R, key, nonce, aad, ct, tag, rng, "zerotail.valid", n)
        if za and (la - za + 15) // 16 == (la + 15) // 16:
            yield from both(R, key, nonce, aad[:la - za], ct, tag, rng, "zerotail.aad", n)
        if zd and (ld - zd + 15) // 16 == (ld + 15) // 16:
            yield from both(R, key, nonce, aad, ct[:ld - zd], tag, rng, "zerotail.ct", n)


# ----------------------------------------------------------------------------- C20 (aead part)

def gen_C20(tier, rng):
    q = tier == "quick"
    for rep in range(2 if q else 10):
        kl = (16, 32)[rep % 2]
        R = ROUNDS[rep % 3]
        key, nonce = rng.rbytes(kl), rng.rbytes(12)
        aad, pt = rng.rbytes(rng.randrange(0, 40)), rng.rbytes(rng.randrange(1, 100))
        ct, tag = ref_seal(R, key, nonce, aad, pt)
        base = f"aead.one {R} {hx(key)} {hx(nonce)} {hx(aad)}"
        n = len(pt)
        # valid single calls: no panic
        yield (f"{base} e{hx(pt)}", "one.valid")
        yield (f"{base} d{hx(ct)}:{hx(tag)}", "one.valid")
        yield (f"{base} _", "one.valid")
        # reuse of a finished object is refused, whatever the first call answered
        bad = flip(tag, 5)
        for first in (f"e{hx(pt)}", f"d{hx(ct)}:{hx(tag)}", f"d{hx(ct)}:{hx(bad)}"):
            for second in (f"e{hx(pt)}", f"d{hx(ct)}:{hx(tag)}", "e-", f"d-:{hx(tag)}"):
                yield (f"{base} {first};{second}", "one.reuse")
        # wrong output / tag buffer lengths
        for m in sorted({0, n - 1, n + 1, 2 * n, n + 16}):
            if m != n:
                yield (f"{base} e{hx(pt)}:{m}", "one.outlen")
                yield (f"{base} d{hx(ct)}:{hx(tag)}:{m}", "one.outlen")
        for l in (0, 1, 15, 17, 32):
            yield (f"{base} e{hx(pt)}:{n}:{l}", "one.taglen")
            yield (f"{base} d{hx(ct)}:{hx((tag * 2)[:l])}", "one.taglen")
        # a refused call does not finish the object in the model either: the whole case answers PANIC (one answer per case)
        # wrong key lengths, refused round count
        for k in (0, 1, 15, 17, 24, 31, 33, 64):
            kk = rng.rbytes(k)
            yield (f"aead.seal {R} {hx(kk)} {hx(nonce)} {hx(aad)} {hx(pt)}", "keylen")
            yield (f"aead.open {R} {hx(kk)} {hx(nonce)} {hx(aad)} {hx(ct)} {hx(tag)}", "keylen")
            yield (f"aead.inc {R} {hx(kk)} {hx(nonce)} _", "keylen")
            yield (f"aead.inc {R} {hx(kk)} {hx(nonce)} a{hx(aad)};E;e{hx(pt)};F", "keylen")
        yield (f"aead.seal 10 {hx(key)} {hx(nonce)} {hx(aad)} {hx(pt)}", "rounds")
        yield (f"aead.inc 10 {hx(key)} {hx(nonce)} _", "rounds")
        yield (f"aead.one 10 {hx(key)} {hx(nonce)} {hx(aad)} _", "rounds")
        # incremental: output buffer of another length
        for m in sorted({0, n - 1, n + 1}):
            if m != n:
                yield (f"aead.inc {R} {hx(key)} {hx(nonce)} a{hx(aad)};E;e{hx(pt)}:{m};F", "inc.outlen")
                yield (f"aead.inc {R} {hx(key)} {hx(nonce)} a{hx(aad)};D;d{hx(ct)}:{m};V{hx(tag)}", "inc.outlen")
                yield (f"aead.inc {R} {hx(key)} {hx(nonce)} E;e{hx(pt)};e{hx(pt)}:{m}", "inc.outlen")
        # objects left unfinished, empty calls: no panic
        yield (f"aead.inc {R} {hx(key)} {hx(nonce)} a-;a-;E;e-;m-;F", "inc.empty")
        yield (f"aead.inc {R} {hx(key)} {hx(nonce)} D;d-;n-;V{hx(ref_tag(R, key, nonce, b'', b''))}", "inc.empty")
        yield (f"aead.inc {R} {hx(key)} {hx(nonce)} a{hx(aad)}", "inc.unfinished")
        yield (f"aead.inc {R} {hx(key)} {hx(nonce)} a{hx(aad)};E;e{hx(pt)}", "inc.unfinished")
