"""Case generators of unit `hashlen`: the LENGTH COUNTERS of the Merkle-Damgard hashes at totals no real message
reaches in a test.  Op: `hlen.<alg> <N decimal> <msg hex>` = `new(); verif_set_processed_bytes(N); update(msg);
finalize()` (N a multiple of the block size, chaining state = IV) against `Spec.HashLen.tailDigest alg N msg`.

Directed by the model (Impl/MdEngine.lean `len_be64`, `len_be128`, `len_le64_split`; Impl/Sha2.lean
`processed_bytes : u64 / u128`):
  * the BIT length `8*(N+|m|)` is what is written: totals next to 2^29 (bit length crosses 2^32: the RIPEMD-160 low
    word wraps and the `>> 29` high word becomes 1), 2^32, 2^35, 2^37, 2^56 (top byte of the 64-bit field), the last
    in-domain block 2^61 - B; for the 128-bit fields also 2^61 (bit 64), 2^64 (the byte counter leaves u64), 2^67,
    2^93, 2^120, 2^125 - B; each anchor -B, +0, +B;
  * message lengths {0, 1, B-L-1, B-L, B-1, B, B+1, 2B+3} (L = 8 / 16 bytes of length field): both branches of
    `standard_padding` (length field fits / extra block) and the counter update across a block boundary;
  * bit-length patterns with all bytes distinct (byte order / word order / truncation of the field);
  * random totals of every magnitude.
In-domain (total < 2^61 resp. 2^125 bytes) under kinds `<alg>.<what>`; totals beyond the standard's domain whose
byte counter still fits its type (so that every build profile agrees: `<< 3` drops bits silently, `+=` does not
overflow) under kinds ending in `.wild` (the Spec writes the low 64 / 128 bits of the bit length there)."""

ALGS = {
    # name: (block, length-field bytes, counter bits)
    "sha1": (64, 8, 64), "ripemd160": (64, 8, 64), "sha224": (64, 8, 64), "sha256": (64, 8, 64),
    "sha384": (128, 16, 128), "sha512": (128, 16, 128), "sha512_224": (128, 16, 128), "sha512_256": (128, 16, 128),
}


def hx(b):
    return "-" if len(b) == 0 else bytes(b).hex()


def _lens(B, L):
    return (0, 1, B - L - 1, B - L, B - 1, B, B + 1, 2 * B + 3)


def _case(alg, N, n, rng, what, cbits):
    B, L, _ = ALGS[alg]
    assert N % B == 0 and N >= 0
    total = N + n
    assert total < 2 ** cbits, "the byte counter itself must not overflow (profile dependent)"
    dom = 2 ** (cbits - 3)
    kind = f"{alg}.{what}" if total < dom else f"{alg}.{what}.wild"
    return (f"hlen.{alg} {N} {hx(rng.rbytes(n))}", kind)


def _gen(tier, rng):
    for alg, (B, L, cbits) in ALGS.items():
        dom = 2 ** (cbits - 3)
        anchors = [2 ** 29, 2 ** 32, 2 ** 35, 2 ** 37, 2 ** 56, 2 ** 61 - B]
        if cbits == 128:
            anchors += [2 ** 61, 2 ** 64, 2 ** 67, 2 ** 93, 2 ** 120, 2 ** 125 - B]
        if tier == "thorough":
            anchors += [2 ** k for k in range(7, cbits - 3) if 2 ** k not in anchors and 2 ** k >= 2 * B]
        # boundary anchors x {-B, 0, +B} x message lengths around the padding branches
        for a in anchors:
            for d in (-1, 0, 1):
                N = a + d * B
                for n in _lens(B, L):
                    yield _case(alg, N, n, rng, "boundary", cbits)
        # no preset at all (N = 0): must coincide with the ordinary digest (ties the op to C01's hash.<alg>)
        for n in _lens(B, L):
            yield _case(alg, 0, n, rng, "zero", cbits)
        # bit-length patterns: all bytes of the field distinct / high bits set / alternating
        pats = [0x0102030405060708, 0xf1e2d3c4b5a69788, 0x00000001ffffff00, 0x80000000_00000000 - 8,
                0xffffffff_fffffff8, 0x00000000_fffffff8, 0x00000001_00000000, 0x12345678_9abcdef0]
        if cbits == 128:
            pats += [0x0102030405060708090a0b0c0d0e0f10, 0xf1e2d3c4b5a69788796a5b4c3d2e1f00,
                     0xffffffffffffffff_fffffffffffffff8, 0x00000000ffffffff_ffffffff00000008,
                     0x0000000000000001_0000000000000000, 0x00000001_00000000_00000000_00000000]
        for bits in pats:
            T = bits // 8
            N = T - T % B
            yield _case(alg, N, T % B, rng, "pattern", cbits)
            if T % B + B + 1 <= 2 * B + 3 and N >= B:
                yield _case(alg, N - B, T % B + B, rng, "pattern", cbits)
        # random totals of every magnitude
        cnt = 40 if tier == "quick" else 400
        for _ in range(cnt):
            k = rng.randrange(7, cbits - 3)
            T = rng.getrandbits(k) | (1 << (k - 1))
            N = T - T % B
            n = rng.choice(_lens(B, L) + (rng.randrange(0, 3 * B),))
            if N + n < dom:
                yield _case(alg, N, n, rng, "random", cbits)
        # beyond the standard's domain, byte counter still inside its type: the bit length loses its top bits
        wild = [dom, 2 * dom, 4 * dom, 8 * dom - 4 * B, dom + 2 ** 32, 5 * dom + 2 ** 29 - B]
        for a in wild:
            for d in (-1, 0, 1):
                N = a + d * B
                for n in (0, 1, B - L - 1, B - L, B - 1, B, 2 * B + 3):
                    if N + n >= dom:
                        yield _case(alg, N, n, rng, "beyond", cbits)


def gen_C01(tier, rng):
    yield from _gen(tier, rng)


def gen_C20(tier, rng):
    yield from _gen(tier, rng)
