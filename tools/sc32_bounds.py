#!/usr/bin/env python3
"""sc32_bounds.py — interval analysis and proof-text generator for the 32-bit scalar backend
(ref10 sc_reduce / sc_muladd as modelled in lean/CxVerif/Impl/Scalar32.lean: `reduce_limbs`, `muladd_limbs`, `pack`,
the loads of `reduce_from_wide_bytes` / `muladd`).

    python3 tools/sc32_bounds.py            print the stage-by-stage worst-case intervals (interval arithmetic) and
                                            check every checked i64 operation against [-2^63, 2^63); also checks
                                            the numeric claim behind the final range (|value after T5| < 2^252)
    python3 tools/sc32_bounds.py --emit     additionally (re)write the GENERATED Lean files
        lean/CxVerif/Proofs/Scalar32ReduceB.lean   stage lemmas T1..T8 of the reduction tail, the final-range lemmas,
                                                   `tail_value`, and their composition `reduce_limbs_spec`
        lean/CxVerif/Proofs/Scalar32ReduceC.lean   the loads as radix-2^21 digits (`wlimb_i`, `nlimb11`), the 32 bytes
                                                   of `pack` (`pack_b_j`, `pack_spec`)
        lean/CxVerif/Proofs/Scalar32MuladdA.lean   the 23 checked columns (`col_k`), stages M1..M3 of the sc_muladd
                                                   prefix and the composition `muladd_limbs_spec`
    (hand-written companions: Scalar32ReduceA.lean = single statements, Scalar32Reduce.lean / Scalar32Muladd.lean = bytes
    ↔ limbs and the two top theorems.)

The program text of every stage lemma is cut from the `def` of the model itself (so the lemma's left-hand side is
literally the model's statement sequence); the stage bounds in the lemma statements are the intervals computed here
(inputs rounded up to ±2^k, outputs exact), which makes them the TRUE ones: `omega` re-proves each of them in Lean.
A stage lemma has the continuation form  ∃ outputs, bounds ∧ value relation ∧ ∀ k, (stage; k outputs') = k outputs,
i.e. "no checked operation of the stage fails, whatever follows".  Fold stages are applied by `rw` (higher-order
pattern unification finds `k`); for carry stages the generator passes `k` (= the remaining program text) explicitly,
because the unifier eta-expands the tuple matches `let (s, sn) ← carryR …` to projections.

Stages of the shared reduction tail (`reduce_limbs` = the text from `s11 += s23 * 666643` to the end):
  T1 fold s23..s18 into s6..s16      T2 rounded carries s6..s16 (two interleaved rounds)
  T3 fold s17..s12 into s0..s10      T4 rounded carries s0..s11 -> s12 (two rounds)
  T5 fold s12 into s0..s5            T6 floor carries s0..s11 -> s12 (sequential)
  T7 fold s12 into s0..s5            T8 floor carries s0..s10 -> s11 (sequential)
Stages of the `muladd_limbs` prefix: M1 the 23 checked column sums, M2 rounded carries (even limbs), M3 (odd limbs).
The tail-entry bounds are the union of what `reduce_from_wide_bytes` (digits, top limb < 2^29) and M3 deliver.
"""
import os, re, sys

HERE = os.path.dirname(os.path.abspath(__file__))
IMPL = os.path.join(HERE, "..", "lean", "CxVerif", "Impl", "Scalar32.lean")
OUT_A = os.path.join(HERE, "..", "lean", "CxVerif", "Proofs", "Scalar32ReduceB.lean")
OUT_M = os.path.join(HERE, "..", "lean", "CxVerif", "Proofs", "Scalar32MuladdA.lean")

I64 = (-2**63, 2**63 - 1)
DELTA = 27742317777372353535851937790883648493
L = 2**252 + DELTA
FOLD = [666643, 470296, 654183, -997805, 136657, -683901]
assert sum(c * 2**(21 * i) for i, c in enumerate(FOLD)) == 2**252 - L


# ---------------------------------------------------------------- parsing the model

def parse_body(name):
    """statement list of `def name … := do` in the Impl: tuples
       ('mac'|'msc', dst, src, const, line) / ('carryR'|'carryF', a, b, line) / ('zero', v, line) /
       ('sum', dst, [terms], line) where a term is ('c', var) or ('mul', x, y)"""
    text = open(IMPL).read()
    body = text[text.index("def %s " % name):]
    body = body[body.index(":= do") + 5:]
    stmts = []
    for line in body.splitlines():
        l = line.strip()
        if not l:
            continue
        m = re.match(r"let (s\d+) ← (mac|msc) (s\d+) (s\d+) (\d+)$", l)
        if m:
            assert m.group(1) == m.group(3)
            stmts.append((m.group(2), m.group(1), m.group(4), int(m.group(5)), l))
            continue
        m = re.match(r"let \((s\d+), (s\d+)\) ← (carryR|carryF) (s\d+) (s\d+)$", l)
        if m:
            assert m.group(1) == m.group(4) and m.group(2) == m.group(5)
            stmts.append((m.group(3), m.group(1), m.group(2), l))
            continue
        m = re.match(r"let (s\d+) : Int := 0$", l)
        if m:
            stmts.append(("zero", m.group(1), l))
            continue
        m = re.match(r"let (s\d+) ← sum64o \[(.*)\]$", l)
        if m:
            terms = []
            for t in m.group(2).split(", "):
                mm = re.match(r"some (\w+)$", t)
                if mm:
                    terms.append(("c", mm.group(1)))
                else:
                    mm = re.match(r"mul64 (\w+) (\w+)$", t)
                    terms.append(("mul", mm.group(1), mm.group(2)))
            stmts.append(("sum", m.group(1), terms, l))
            continue
        if l.startswith("pure"):
            break
        raise SystemExit("unparsed statement: " + l)
    return stmts


def kind(st):
    return {"mac": "fold", "msc": "fold", "carryR": "carryR", "carryF": "carryF", "zero": "zero", "sum": "sum"}[st[0]]


def split_stages(stmts):
    """maximal runs of the same kind; `zero` statements are dropped (handled by zeta at composition)"""
    stages = []
    for st in stmts:
        k = kind(st)
        if k == "zero":
            stages.append(("zero", [st]))
            continue
        if stages and stages[-1][0] == k:
            stages[-1][1].append(st)
        else:
            stages.append((k, [st]))
    return stages


def idx(v):
    return int(v[1:])


# ---------------------------------------------------------------- intervals

def iadd(a, b): return (a[0] + b[0], a[1] + b[1])
def isub(a, b): return (a[0] - b[1], a[1] - b[0])
def imulc(a, c): return (min(a[0] * c, a[1] * c), max(a[0] * c, a[1] * c))
def imul(a, b):
    ps = [a[0] * b[0], a[0] * b[1], a[1] * b[0], a[1] * b[1]]
    return (min(ps), max(ps))
def union(a, b): return (min(a[0], b[0]), max(a[1], b[1]))
def inside(a, b): return b[0] <= a[0] and a[1] <= b[1]


def chk(iv, what):
    if not inside(iv, I64):
        raise SystemExit("i64 OVERFLOW possible at %s: %s" % (what, iv))
    return iv


def pow2_cover(iv):
    k = 0
    while not (-2**k <= iv[0] and iv[1] <= 2**k):
        k += 1
    return k


def fmt_iv(iv):
    def f(x):
        if x == 0: return "0"
        s = "-" if x < 0 else ""
        a = abs(x)
        import math
        return "%s2^%.2f" % (s, math.log2(a))
    return "[%s, %s]" % (f(iv[0]), f(iv[1]))


def run_intervals(stmts, env, trace=None):
    """interval execution of a statement list; env: var -> interval; checks every checked op"""
    env = dict(env)
    for st in stmts:
        if st[0] in ("mac", "msc"):
            _, d, s, c, line = st
            p = chk(imulc(env[s], c), line)
            env[d] = chk(iadd(env[d], p) if st[0] == "mac" else isub(env[d], p), line)
        elif st[0] in ("carryR", "carryF"):
            _, a, b, line = st
            if st[0] == "carryR":
                t = chk(iadd(env[a], (2**20, 2**20)), line)
                carry = (t[0] >> 21, t[1] >> 21)
                rem = (-2**20, 2**20 - 1)
            else:
                carry = (env[a][0] >> 21, env[a][1] >> 21)
                rem = (0, 2**21 - 1)
            chk(imulc(carry, 2**21), line)           # carry << 21 does not wrap
            env[b] = chk(iadd(env[b], carry), line)
            env[a] = rem                              # s -= carry << 21: the remainder
        elif st[0] == "zero":
            env[st[1]] = (0, 0)
        elif st[0] == "sum":
            _, d, terms, line = st
            acc = None
            for t in terms:
                v = env[t[1]] if t[0] == "c" else chk(imul(env[t[1]], env[t[2]]), line)
                acc = v if acc is None else chk(iadd(acc, v), line)
            env[d] = acc
        if trace is not None:
            trace.append((st, dict(env)))
    return env


# ---------------------------------------------------------------- Lean text helpers

def lean_int(x):
    """an integer literal as Lean text: ±2^k when it is one, decimal otherwise"""
    if x == 0: return "0"
    a = abs(x)
    if a & (a - 1) == 0 and a >= 1024:
        s = "2^%d" % (a.bit_length() - 1)
    else:
        s = str(a)
    return ("-" + s) if x < 0 else s


def bnd(v, iv):
    return "(%s ≤ %s ∧ %s ≤ %s)" % (lean_int(iv[0]), v, v, lean_int(iv[1]))


def pw(v, e):
    """v * 2^e"""
    return v if e == 0 else "%s * 2^%d" % (v, e)


def gen_fold_stage(name, stmts, inp, doc):
    """fold stage: groups of six mac/msc with one source each"""
    assert len(stmts) % 6 == 0
    groups = [stmts[i:i + 6] for i in range(0, len(stmts), 6)]
    sources, targets = [], []
    for g in groups:
        assert len({st[2] for st in g}) == 1
        assert [st[0] for st in g] == ["mac", "mac", "mac", "msc", "mac", "msc"]
        assert [st[3] for st in g] == [abs(c) for c in FOLD]
        ts = [idx(st[1]) for st in g]
        assert ts == list(range(idx(g[0][2]) - 12, idx(g[0][2]) - 6))
        sources.append(g[0][2])
        for st in g:
            if st[1] not in targets:
                targets.append(st[1])
    targets.sort(key=idx)
    srcs_sorted = sorted(sources, key=idx)
    assert not (set(targets) & set(sources))
    ins = targets + srcs_sorted
    env = {v: inp[v] for v in ins}
    expr = {v: v for v in ins}
    rw = []
    for g in groups:
        s = g[0][2]
        for st in g:
            p = chk(imulc(env[s], st[3]), st[-1])
            env[st[1]] = chk(iadd(env[st[1]], p) if st[0] == "mac" else isub(env[st[1]], p), st[-1])
        rw.append("  rw [fold6_bind _ _ _ _ _ _ _ _ (by omega) (by omega) (by omega) (by omega) (by omega) (by omega) (by omega)]")
        for st in g:
            expr[st[1]] = "%s %s %s * %d" % (expr[st[1]], "+" if st[0] == "mac" else "-", s, st[3])
    outs = {v: env[v] for v in targets}
    base = idx(targets[0])
    ovars = ["o%d" % idx(v) for v in targets]
    assert [idx(v) for v in targets] == list(range(base, base + len(targets)))
    src_e = srcs_sorted[0] if len(srcs_sorted) == 1 else "lin%d %s" % (len(srcs_sorted), " ".join(srcs_sorted))
    if len(srcs_sorted) > 1:
        assert [idx(v) for v in srcs_sorted] == list(range(base + 12, base + 12 + len(srcs_sorted)))
    else:
        assert base == 0 and srcs_sorted == ["s12"]
    val = "lin%d %s = lin%d %s - %d * (%s)" % (len(targets), " ".join(ovars), len(targets), " ".join(targets), DELTA, src_e)
    lins = "lin%d" % len(targets) + (" lin%d" % len(srcs_sorted) if len(srcs_sorted) > 1 else "")
    prog = "\n".join("        " + st[-1] for st in stmts)
    txt = []
    txt.append("/-- %s -/" % doc)
    txt.append("theorem %s (%s : Int)" % (name, " ".join(ins)))
    txt.append("    (hb : %s) :" % " ∧ ".join(bnd(v, (-2**pow2_cover(inp[v]), 2**pow2_cover(inp[v]))) for v in ins))
    txt.append("    ∃ %s : Int, (%s) ∧" % (" ".join(ovars), " ∧ ".join(bnd("o%d" % idx(v), outs[v]) for v in targets)))
    txt.append("      (%s) ∧" % val)
    txt.append("      ∀ {β} (k : %s → Option β),\n        (do\n%s\n        k %s) = k %s := by" % (
        " → ".join(["Int"] * len(targets)), prog, " ".join(targets), " ".join(ovars)))
    txt.append("  refine ⟨%s, ?_, ?_, fun k => ?_⟩" % ", ".join(expr[v] for v in targets))
    txt.append("  · omega")
    txt.append("  · unfold %s; omega" % lins)
    txt.extend(rw)
    txt.append("")
    return "\n".join(txt), outs


def gen_carry_stage(name, stmts, inp, doc):
    """carry stage (carryR or carryF statements)"""
    vars_ = []
    for st in stmts:
        for v in (st[1], st[2]):
            if v not in vars_:
                vars_.append(v)
    vars_.sort(key=idx)
    env = {v: inp[v] for v in vars_}
    expr = {v: v for v in vars_}
    lines, rw = [], []
    n = 0
    for st in stmts:
        n += 1
        _, a, b, line = st
        ea, eb = expr[a], expr[b]
        pa = ea if re.match(r"^\w+$", ea) else "(" + ea + ")"
        pb = eb if re.match(r"^\w+$", eb) else "(" + eb + ")"
        c = "c%d" % n
        if st[0] == "carryR":
            t = chk(iadd(env[a], (2**20, 2**20)), line)
            carry = (t[0] >> 21, t[1] >> 21)
            rem = (-2**20, 2**20 - 1)
            step = "carryR_step"
        else:
            carry = (env[a][0] >> 21, env[a][1] >> 21)
            rem = (0, 2**21 - 1)
            step = "carryF_step"
        chk(imulc(carry, 2**21), line)
        env[b] = chk(iadd(env[b], carry), line)
        env[a] = rem
        lines.append("  obtain ⟨%s, h%s, e%d⟩ := %s %s %s (by omega) (by omega)" % (c, c, n, step, pa, pb))
        lines.append("  have b%s : %s := by omega" % (c, bnd(c, carry)[1:-1]))
        expr[a] = "%s - %s * 2^21" % (ea, c)
        expr[b] = "%s + %s" % (eb, c)
        rw.append("  rw [e%d]; dsimp only" % n)
    rw[-1] = "  rw [e%d]" % n                         # the last rewrite closes the goal by rfl
    outs = {v: env[v] for v in vars_}
    base = idx(vars_[0])
    ovars = ["o%d" % idx(v) for v in vars_]
    assert [idx(v) for v in vars_] == list(range(base, base + len(vars_)))
    val = "lin%d %s = lin%d %s" % (len(vars_), " ".join(ovars), len(vars_), " ".join(vars_))
    prog = "\n".join("        " + st[-1] for st in stmts)
    txt = []
    txt.append("/-- %s -/" % doc)
    txt.append("theorem %s (%s : Int)" % (name, " ".join(vars_)))
    txt.append("    (hb : %s) :" % " ∧ ".join(bnd(v, (-2**pow2_cover(inp[v]), 2**pow2_cover(inp[v]))) for v in vars_))
    txt.append("    ∃ %s : Int, (%s) ∧" % (" ".join(ovars), " ∧ ".join(bnd("o%d" % idx(v), outs[v]) for v in vars_)))
    txt.append("      (%s) ∧" % val)
    txt.append("      ∀ {β} (k : %s → Option β),\n        (do\n%s\n        k %s) = k %s := by" % (
        " → ".join(["Int"] * len(vars_)), prog, " ".join(vars_), " ".join(ovars)))
    txt.extend(lines)
    txt.append("  refine ⟨%s, ?_, ?_, fun k => ?_⟩" % ", ".join(expr[v] for v in vars_))
    txt.append("  · omega")
    txt.append("  · unfold lin%d; omega" % len(vars_))
    txt.extend(rw)
    txt.append("")
    return "\n".join(txt), outs


def rounded(env):
    return {v: (-2**pow2_cover(iv), 2**pow2_cover(iv)) for v, iv in env.items()}


HEADER_A = '''/-
  Proofs.Scalar32ReduceB — GENERATED by tools/sc32_bounds.py --emit (do not edit by hand).
  The eight stages of the reduction tail shared by `reduce_limbs` (ref10 sc_reduce) and `muladd_limbs` (sc_muladd) of
  Impl/Scalar32.lean, each as a lemma in continuation form: for inputs inside the stated intervals
  (i) every checked i64 `+ - *` of the stage succeeds (the stage followed by ANY continuation `k` equals `k` applied
  to the stage's results), (ii) the results lie in the stated intervals (exact interval arithmetic of the tool),
  (iii) the limb sum changes exactly by the stated multiple of δ = L − 2^252 (folds) or not at all (carries).
  The program text of each stage is cut literally from the `def` of the model.
-/
import CxVerif.Proofs.Scalar32ReduceA
namespace Cx.Proofs.Scalar32
open Cx Cx.Impl.Scalar32
set_option maxRecDepth 100000
set_option exponentiation.threshold 600
set_option linter.unusedVariables false

'''


def analyse(verbose=True):
    red = parse_body("reduce_limbs")
    mul = parse_body("muladd_limbs")
    # the tail of muladd_limbs is literally reduce_limbs
    assert [s[-1] for s in mul[-len(red):]] == [s[-1] for s in red], "muladd tail differs from reduce_limbs"
    pre = mul[:-len(red)]
    pre_stages = split_stages(pre)
    assert [k for k, _ in pre_stages] == ["sum", "zero", "carryR"]
    # split the carryR run of the prefix in its two rounds (even limbs, then odd limbs)
    cr = pre_stages[2][1]
    r1 = [s for s in cr if idx(s[1]) % 2 == 0]
    r2 = [s for s in cr if idx(s[1]) % 2 == 1]
    assert cr == r1 + r2
    # inputs of muladd: a_i, b_i, c_i in [0, 2^21), top limbs in [0, 2^25)
    menv = {}
    for p in "abc":
        for i in range(12):
            menv["%s%d" % (p, i)] = (0, 2**21 - 1) if i < 11 else (0, 2**25 - 1)
    # M1 exact, then M2 / M3 with inputs rounded to ±2^k exactly as the stage lemmas state them
    m1 = run_intervals(pre_stages[0][1], menv)
    m1 = {v: m1[v] for v in ["s%d" % i for i in range(23)]}
    m1["s23"] = (0, 0)
    m2 = run_intervals(r1, rounded(m1))
    m3 = dict(m2)
    m3.update(run_intervals(r2, rounded({v: m2[v] for v in ["s%d" % i for i in range(1, 23)]})))
    m_after = m3
    # inputs of reduce: 23 masked limbs and the top one
    renv = {"s%d" % i: ((0, 2**21 - 1) if i < 23 else (0, 2**29 - 1)) for i in range(24)}
    tail_in = {v: union(renv[v], m_after[v]) for v in renv}
    tail_in_r = rounded(tail_in)
    if verbose:
        print("== muladd prefix (inputs a_i, b_i, c_i in [0,2^21), a11, b11, c11 in [0,2^25))")
        print("  M1 out:", " ".join("s%d%s" % (i, fmt_iv(m1["s%d" % i])) for i in range(23)))
        print("  M2 out:", " ".join("s%d%s" % (i, fmt_iv(m2["s%d" % i])) for i in range(24)))
        print("  M3 out:", " ".join("s%d%s" % (i, fmt_iv(m3["s%d" % i])) for i in range(24)))
        print("== tail entry (union of both callers), rounded to ±2^k:")
        print("  ", " ".join("s%d:±2^%d" % (i, pow2_cover(tail_in["s%d" % i])) for i in range(24)))
    return red, pre_stages, r1, r2, menv, tail_in_r


def emit_tail(red, tail_in_r, verbose=True):
    stages = split_stages(red)
    kinds = [k for k, _ in stages]
    assert kinds == ["fold", "carryR", "fold", "zero", "carryR", "fold", "zero", "carryF", "fold", "carryF"], kinds
    docs = {
        "T1": "T1: fold s23..s18 into s6..s16 (36 multiply-accumulates)",
        "T2": "T2: the eleven rounded carries on s6..s16 (two interleaved rounds), top carry into s17",
        "T3": "T3: fold s17..s12 into s0..s10 (36 multiply-accumulates)",
        "T4": "T4: the twelve rounded carries on s0..s11 (two interleaved rounds), top carry into s12",
        "T5": "T5: fold the carry s12 into s0..s5",
        "T6": "T6: the twelve sequential floor carries s0 → … → s11 → s12: limbs in [0, 2^21)",
        "T7": "T7: fold the last carry s12 ∈ {-1, 0} into s0..s5",
        "T8": "T8: the eleven sequential floor carries s0 → … → s11 (s11 keeps bit 252)",
    }
    env = dict(tail_in_r)
    out = []
    n = 0
    report = []
    for k, sts in stages:
        if k == "zero":
            env[sts[0][1]] = (0, 0)
            continue
        n += 1
        name = "T%d" % n
        inp = rounded(env)
        if k == "fold":
            txt, outs = gen_fold_stage(name, sts, inp, docs[name])
        else:
            txt, outs = gen_carry_stage(name, sts, inp, docs[name])
        out.append(txt)
        env.update(outs)
        report.append((name, outs))
        if verbose:
            print("  %s out: %s" % (name, " ".join("%s%s" % (v, fmt_iv(iv)) for v, iv in sorted(outs.items(), key=lambda x: idx(x[0])))))
    global TAIL_SPEC
    TAIL_SPEC = gen_range_lemmas(dict(report)["T4"]) + gen_tail_spec(tail_in_r)
    out.append(TAIL_SPEC)
    return HEADER_A + "\n".join(out) + "\nend Cx.Proofs.Scalar32\n", env


def S21(p, r, base=0):
    return " + ".join(pw("%s%d" % (p, i), 21 * (i - base)) for i in r)


def vs(p, r):
    return ["%s%d" % (p, i) for i in r]


def sp(l):
    return " ".join(l)


# value relations of the eight stages on the variables of the composition (s → a → b → d → e → f → g → h → y)
def tail_value_hyps():
    return [
        "lin11 %s = lin11 %s - %d * (lin6 %s)" % (sp(vs("a", range(6, 17))), sp(vs("s", range(6, 17))), DELTA, sp(vs("s", range(18, 24)))),
        "lin12 %s = lin12 %s s17" % (sp(vs("b", range(6, 18))), sp(vs("a", range(6, 17)))),
        "lin11 %s = lin11 %s %s - %d * (lin6 %s)" % (sp(vs("d", range(0, 11))), sp(vs("s", range(0, 6))), sp(vs("b", range(6, 11))), DELTA, sp(vs("b", range(12, 18)))),
        "lin13 %s = lin13 %s b11 0" % (sp(vs("e", range(0, 13))), sp(vs("d", range(0, 11)))),
        "lin6 %s = lin6 %s - %d * (e12)" % (sp(vs("f", range(0, 6))), sp(vs("e", range(0, 6))), DELTA),
        "lin13 %s = lin13 %s %s 0" % (sp(vs("g", range(0, 13))), sp(vs("f", range(0, 6))), sp(vs("e", range(6, 12)))),
        "lin6 %s = lin6 %s - %d * (g12)" % (sp(vs("h", range(0, 6))), sp(vs("g", range(0, 6))), DELTA),
        "lin12 %s = lin12 %s %s" % (sp(vs("y", range(0, 12))), sp(vs("h", range(0, 6))), sp(vs("g", range(6, 12)))),
    ]


QEXPR = "2^126 * lin6 %s + lin6 %s + e12 + g12" % (sp(vs("s", range(18, 24))), sp(vs("b", range(12, 18))))


def gen_range_lemmas(t4_out):
    D = DELTA
    # the claim of `sum12_bound`, checked here on the exact T4 output intervals
    m = sum(max(abs(t4_out["s%d" % i][0]), abs(t4_out["s%d" % i][1])) * 2**(21 * i) for i in range(12)) \
        + DELTA * max(abs(t4_out["s12"][0]), abs(t4_out["s12"][1]))
    assert m < 2**252, "value after T5 may leave (-2^252, 2^252)"
    E, G, Y = "lin12 " + sp(vs("e", range(12))), "lin12 " + sp(vs("g", range(12))), "lin12 " + sp(vs("y", range(12)))
    hbE = " ∧ ".join(bnd("e%d" % i, t4_out["s%d" % i]) for i in range(13))
    hbG = " ∧ ".join("(0 ≤ g%d ∧ g%d < 2^21)" % (i, i) for i in range(12))
    hbY = " ∧ ".join("(0 ≤ y%d ∧ y%d < 2^21)" % (i, i) for i in range(11))
    hv = tail_value_hyps()
    allv = vs("s", range(24)) + vs("a", range(6, 17)) + vs("b", range(6, 18)) + vs("d", range(11)) + vs("e", range(13)) + vs("f", range(6)) + vs("g", range(13)) + vs("h", range(6)) + vs("y", range(12))
    t = f"""/-! ### the final range: after the rounded carries the value is within ±2^252, one floor-carry round and one fold
    bring it into [0, 2^252 + δ·0) or add L once: the result is in [0, L) -/

/-- the limbs after the rounded carries T4 (odd limbs in [−2^20, 2^20), even limbs still holding a carry < 2^31, a small
    top carry e12): |Σ e_i·2^(21 i) − δ·e12| < 2^252 -/
theorem sum12_bound ({sp(vs('e', range(13)))} : Int) (hbE : {hbE}) :
    -2^252 < {E} - {D} * (e12) ∧ {E} - {D} * (e12) < 2^252 := by unfold lin12; omega

theorem digits12_bound ({sp(vs('g', range(12)))} : Int) (hbG : {hbG}) : 0 ≤ {G} ∧ {G} < 2^252 := by unfold lin12; omega

/-- the heart of ref10's final steps: `V1 ∈ (−2^252, 2^252)` split as `G + g12·2^252` with `G ∈ [0, 2^252)` forces
    `g12 ∈ {{−1, 0}}`, and `Y = G − δ·g12 = V1 − g12·L` is `V1` or `V1 + L`, in `[0, L)` either way -/
theorem range_core (V1 G g12 Y : Int) (hV : -2^252 < V1 ∧ V1 < 2^252) (hG : 0 ≤ G ∧ G < 2^252)
    (h6 : G + g12 * 2^252 = V1) (h7 : Y = G - {D} * (g12)) : 0 ≤ Y ∧ Y < LI := by
  unfold LI; omega

theorem top_digit ({sp(vs('y', range(12)))} : Int) (hbY : {hbY}) (hr : 0 ≤ {Y} ∧ {Y} < LI) : 0 ≤ y11 ∧ y11 < 2^22 := by
  unfold LI lin12 at hr; omega

theorem comb56 ({sp(vs('e', range(13)))} {sp(vs('f', range(6)))} {sp(vs('g', range(13)))} : Int)
    (hv5 : {hv[4]}) (hv6 : {hv[5]}) : {G} + g12 * 2^252 = {E} - {D} * (e12) := by
  unfold lin6 at hv5; unfold lin13 at hv6; unfold lin12; omega

theorem comb78 ({sp(vs('g', range(13)))} {sp(vs('h', range(6)))} {sp(vs('y', range(12)))} : Int)
    (hv7 : {hv[6]}) (hv8 : {hv[7]}) : {Y} = {G} - {D} * (g12) := by
  unfold lin6 at hv7; unfold lin12 at hv8 ⊢; omega

/-- the eight value relations add up: the result differs from the 24-limb input value by a multiple of L -/
theorem tail_value ({sp(allv)} : Int)
""" + "\n".join("    (hv%d : %s)" % (i + 1, h) for i, h in enumerate(hv)) + f""" :
    {Y} = lin24 {sp(vs('s', range(24)))} - LI * ({QEXPR}) := by
  unfold lin11 lin6 at hv1 hv3; unfold lin12 at hv2 hv8; unfold lin13 at hv4 hv6; unfold lin6 at hv5 hv7
  unfold LI lin24 lin12 lin6; omega

/-- keeps a hypothesis out of the sight of `omega` -/
structure Hide (p : Prop) : Prop where
  h : p

"""
    return t


def gen_tail_spec(tail_in_r):
    """composition of T1..T8: `reduce_limbs` on limbs inside the tail-entry bounds"""
    S = ["s%d" % i for i in range(24)]
    V = "lin24 " + sp(S)
    allv = vs("s", range(24)) + vs("a", range(6, 17)) + vs("b", range(6, 18)) + vs("d", range(11)) + vs("e", range(13)) + vs("f", range(6)) + vs("g", range(13)) + vs("h", range(6)) + vs("y", range(12))
    t = []
    t.append("set_option maxHeartbeats 400000 in")
    t.append("/-- **the reduction tail** (`reduce_limbs` = ref10 sc_reduce after the loads = the tail of sc_muladd): for limbs inside")
    t.append("    the entry bounds NO checked i64 operation overflows, the result is fully carried, its value differs from the")
    t.append("    24-limb input value by a multiple of L, and it lies in [0, L) -/")
    t.append("theorem reduce_limbs_spec (%s : Int)" % sp(S))
    t.append("    (hb : %s) :" % " ∧ ".join(bnd(v, tail_in_r[v]) for v in S))
    t.append("    ∃ (t : S12) (q : Int), reduce_limbs %s = some t ∧ Digits12 t ∧" % sp(S))
    t.append("      val12 t = %s - LI * q ∧" % V)
    t.append("      (0 ≤ val12 t ∧ val12 t < LI) := by")
    calls = [
        ("a", range(6, 17), "T1 %s %s" % (sp(vs("s", range(6, 17))), sp(vs("s", range(18, 24))))),
        ("b", range(6, 18), "T2 %s s17" % sp(vs("a", range(6, 17)))),
        ("d", range(0, 11), "T3 %s %s %s" % (sp(vs("s", range(0, 6))), sp(vs("b", range(6, 11))), sp(vs("b", range(12, 18))))),
        ("e", range(0, 13), "T4 %s b11 0" % sp(vs("d", range(0, 11)))),
        ("f", range(0, 6), "T5 %s e12" % sp(vs("e", range(0, 6)))),
        ("g", range(0, 13), "T6 %s %s 0" % (sp(vs("f", range(0, 6))), sp(vs("e", range(6, 12))))),
        ("h", range(0, 6), "T7 %s g12" % sp(vs("g", range(0, 6)))),
        ("y", range(0, 12), "T8 %s %s" % (sp(vs("h", range(0, 6))), sp(vs("g", range(6, 12))))),
    ]
    for n, (p, r, call) in enumerate(calls, 1):
        t.append("  obtain ⟨%s, hb%d, hv%d, hk%d⟩ := %s (by omega)" % (", ".join(vs(p, r)), n, n, n, call))
        t.append("  replace hv%d := Hide.mk hv%d" % (n, n))
    t.append("  have hrange := range_core _ _ _ _ (sum12_bound %s hb4) (digits12_bound %s (by omega))" % (sp(vs("e", range(13))), sp(vs("g", range(12)))))
    t.append("    (comb56 %s %s %s hv5.h hv6.h) (comb78 %s %s %s hv7.h hv8.h)" % (sp(vs("e", range(13))), sp(vs("f", range(6))), sp(vs("g", range(13))), sp(vs("g", range(13))), sp(vs("h", range(6))), sp(vs("y", range(12)))))
    t.append("  have htop := top_digit %s (by omega) hrange" % sp(vs("y", range(12))))
    t.append("  refine ⟨⟨%s⟩, %s, ?_, ?_, ?_, ?_⟩" % (", ".join(vs("y", range(12))), QEXPR))
    t.append("  · unfold reduce_limbs")
    # fold stages: plain `rw` (the continuation is found by higher-order pattern unification); carry stages: the
    # continuation (the rest of the program text) is given explicitly, because the unifier eta-expands tuple matches
    red = parse_body("reduce_limbs")
    stages = [(k, sts) for k, sts in split_stages(red)]
    pos = 0
    n = 0
    final = "pure (⟨%s⟩ : S12)" % ", ".join(vs("s", range(12)))
    for i, (k, sts) in enumerate(stages):
        if k == "zero":
            continue
        n += 1
        if k == "fold":
            t.append("    rw [hk%d]" % n)
        else:
            rest = [st[-1] for kk, ss in stages[i + 1:] for st in ss] + [final]
            vars_ = sorted({v for st in sts for v in (st[1], st[2])}, key=idx)
            body = "\n".join("        " + l for l in rest)
            if n < 8:
                t.append("    refine (hk%d (fun %s => do\n%s)).trans ?_" % (n, sp(vars_), body))
            else:
                t.append("    exact hk%d (fun %s => do\n%s)" % (n, sp(vars_), body))
    t.append("  · unfold Digits12; dsimp only; omega")
    t.append("  · exact tail_value %s hv1.h hv2.h hv3.h hv4.h hv5.h hv6.h hv7.h hv8.h" % sp(allv))
    t.append("  · exact hrange")
    t.append("")
    return "\n".join(t)


HEADER_M = '''/-
  Proofs.Scalar32MuladdA — GENERATED by tools/sc32_bounds.py --emit (do not edit by hand).
  The prefix of `muladd_limbs` (ref10 sc_muladd) of Impl/Scalar32.lean before the shared reduction tail:
    * `col_k`: the k-th checked column sum `sum64o [some c_k, mul64 a_0 b_k, …]` succeeds (every product and every
      partial sum inside i64) and equals the integer column, with its bound
    * `M1`: the 23 columns in continuation form; Σ col_k·2^(21k) = (Σ a_i·2^(21i))·(Σ b_j·2^(21j)) + Σ c_k·2^(21k) (by `ring`)
    * `M2`, `M3`: the two rounds of rounded carries (even limbs, then odd limbs)
    * `muladd_limbs_spec`: composition with `reduce_limbs_spec` (the tail of `muladd_limbs` IS `reduce_limbs`)
  Operand limbs: eleven 21-bit digits and a top digit below 2^25 (any 32-byte string).
-/
import CxVerif.Proofs.Scalar32ReduceB
import Mathlib.Tactic.Ring
namespace Cx.Proofs.Scalar32
open Cx Cx.Impl.Scalar32
open Cx.Impl.Fe32 (mul64)
open Cx.Proofs.Fe32 (some_bind)
set_option maxRecDepth 100000
set_option exponentiation.threshold 600
set_option linter.unusedVariables false
set_option linter.unusedSimpArgs false

'''


def opbnd(p):
    return " ∧ ".join("(0 ≤ %s%d ∧ %s%d < 2^%d)" % (p, i, p, i, 21 if i < 11 else 25) for i in range(12))


def emit_muladd(pre_stages, r1, r2, menv, tail_in_r):
    sums = pre_stages[0][1]
    A, B, C = vs("a", range(12)), vs("b", range(12)), vs("c", range(12))
    out = []
    cols = []
    env = dict(menv)
    for st in sums:
        _, d, terms, line = st
        k = idx(d)
        ex, acc = [], None
        for t in terms:
            if t[0] == "c":
                ex.append(t[1]); v = env[t[1]]
            else:
                ex.append("%s * %s" % (t[1], t[2])); v = chk(imul(env[t[1]], env[t[2]]), line)
            acc = v if acc is None else chk(iadd(acc, v), line)
        cols.append((k, terms, ex, acc, line))
        cvar = [t[1] for t in terms if t[0] == "c"]
        prods = [t for t in terms if t[0] == "mul"]
        lst = ", ".join(("some %s" % t[1]) if t[0] == "c" else "mul64 %s %s" % (t[1], t[2]) for t in terms)
        assert "let %s ← sum64o [%s]" % (d, lst) == line
        total = " + ".join(ex)
        out.append("theorem col%d (%s %s%s : Int) (ha : %s) (hb : %s)%s :" % (
            k, sp(A), sp(B), "".join(" " + c for c in cvar), opbnd("a"), opbnd("b"),
            "".join(" (hc : 0 ≤ %s ∧ %s < 2^%d)" % (c, c, 21 if idx(c) < 11 else 25) for c in cvar)))
        out.append("    sum64o [%s] = some (%s) ∧ (0 ≤ %s ∧ %s ≤ %d) := by" % (lst, total, total, total, acc[1]))
        for t in prods:
            X = 2**21 if idx(t[1]) < 11 else 2**25
            Y = 2**21 if idx(t[2]) < 11 else 2**25
            out.append("  have p_%s_%s := mul_bnd %s %s %d %d (by omega) (by omega)" % (t[1], t[2], t[1], t[2], X - 1, Y - 1))
        out.append("  rw [%s]" % ", ".join("mul64_some %s %s (by omega)" % (t[1], t[2]) for t in prods))
        nn = "by simp only [AllNonneg, and_true]; omega" if len(ex) > 1 else "by simp only [AllNonneg]"
        out.append("  exact ⟨sum64o_eval (%s) [%s] (by omega) (%s) (by simp only [List.foldl]; omega), by omega⟩" % (
            ex[0], ", ".join(ex[1:]), nn))
        out.append("")
    # M1
    ovars = vs("o", range(23))
    prog = "\n".join("        " + c[4] for c in cols)
    out.append("/-- M1: the 23 checked column sums of the schoolbook product plus `c` -/")
    out.append("theorem M1 (%s %s %s : Int) (ha : %s) (hb : %s) (hc : %s) :" % (sp(A), sp(B), sp(C), opbnd("a"), opbnd("b"), opbnd("c")))
    out.append("    ∃ %s : Int, (%s) ∧" % (sp(ovars), " ∧ ".join(bnd("o%d" % c[0], c[3]) for c in cols)))
    out.append("      (lin23 %s = lin12 %s * lin12 %s + lin12 %s) ∧" % (sp(ovars), sp(A), sp(B), sp(C)))
    out.append("      ∀ {β} (k : %s → Option β),\n        (do\n%s\n        k %s) = k %s := by" % (
        " → ".join(["Int"] * 23), prog, sp(vs("s", range(23))), sp(ovars)))
    for c in cols:
        cv = [t[1] for t in c[1] if t[0] == "c"]
        out.append("  have h%d := col%d %s %s%s ha hb%s" % (c[0], c[0], sp(A), sp(B), "".join(" " + x for x in cv), "".join(" (by omega)" for x in cv)))
    out.append("  refine ⟨%s, ?_, ?_, fun k => ?_⟩" % ", ".join(" + ".join(c[2]) for c in cols))
    out.append("  · exact ⟨%s⟩" % ", ".join("h%d.2" % c[0] for c in cols))
    out.append("  · unfold lin23 lin12; ring")
    out.append("  · rw [%s]" % ", ".join("h%d.1, some_bind" % c[0] for c in cols))
    out.append("")
    m1 = {"s%d" % c[0]: c[3] for c in cols}
    m1["s23"] = (0, 0)
    txt2, m2 = gen_carry_stage("M2", r1, rounded(m1), "M2: the twelve rounded carries out of the even limbs s0, s2, …, s22 (s23 enters as 0)")
    env3 = {v: m2[v] for v in vs("s", range(1, 23))}
    txt3, m3 = gen_carry_stage("M3", r2, rounded(env3), "M3: the eleven rounded carries out of the odd limbs s1, s3, …, s21")
    out.append(txt2)
    out.append(txt3)
    # composition
    fin = dict(m2); fin.update(m3)
    for v in fin:
        assert inside(fin[v], tail_in_r[v]), (v, fin[v], tail_in_r[v])
    M, N_, R = vs("m", range(23)), vs("n", range(24)), vs("r", range(1, 23))
    out.append("set_option maxHeartbeats 400000 in")
    out.append("/-- **sc_muladd on limbs**: for operand limbs of ANY three 32-byte strings no checked i64 operation overflows, the")
    out.append("    result is fully carried, lies in [0, L) and is congruent to a·b + c modulo L -/")
    out.append("theorem muladd_limbs_spec (%s %s %s : Int) (ha : %s) (hb : %s) (hc : %s) :" % (sp(A), sp(B), sp(C), opbnd("a"), opbnd("b"), opbnd("c")))
    out.append("    ∃ (t : S12) (q : Int), muladd_limbs %s %s %s = some t ∧ Digits12 t ∧" % (sp(A), sp(B), sp(C)))
    out.append("      val12 t = lin12 %s * lin12 %s + lin12 %s - LI * q ∧ (0 ≤ val12 t ∧ val12 t < LI) := by" % (sp(A), sp(B), sp(C)))
    out.append("  obtain ⟨%s, hb1, hv1, hk1⟩ := M1 %s %s %s ha hb hc" % (", ".join(M), sp(A), sp(B), sp(C)))
    out.append("  replace hv1 := Hide.mk hv1")
    out.append("  obtain ⟨%s, hb2, hv2, hk2⟩ := M2 %s 0 (by omega)" % (", ".join(N_), sp(M)))
    out.append("  replace hv2 := Hide.mk hv2")
    out.append("  obtain ⟨%s, hb3, hv3, hk3⟩ := M3 %s (by omega)" % (", ".join(R), sp(N_[1:23])))
    out.append("  replace hv3 := Hide.mk hv3")
    out.append("  obtain ⟨t, q, ht, hd, hv, hr⟩ := reduce_limbs_spec n0 %s n23 (by omega)" % sp(R))
    out.append("  refine ⟨t, q, ?_, hd, ?_, hr⟩")
    out.append("  · unfold muladd_limbs")
    out.append("    rw [hk1]")
    S = vs("s", range(24))
    out.append("    refine (hk2 (fun %s => do\n%s\n        reduce_limbs %s)).trans ?_" % (sp(S), "\n".join("        " + st[-1] for st in r2), sp(S)))
    out.append("    refine (hk3 (fun %s => reduce_limbs n0 %s n23)).trans ?_" % (sp(S[1:23]), sp(S[1:23])))
    out.append("    exact ht")
    out.append("  · have e1 := hv1.h; have e2 := hv2.h; have e3 := hv3.h")
    out.append("    generalize lin12 %s * lin12 %s + lin12 %s = P at e1 ⊢" % (sp(A), sp(B), sp(C)))
    out.append("    rw [hv]")
    out.append("    unfold lin23 at e1; unfold lin24 at e2 ⊢; unfold lin22 at e3")
    out.append("    omega")
    out.append("")
    return HEADER_M + "\n".join(out) + "\nend Cx.Proofs.Scalar32\n"


OUT_C = os.path.join(HERE, "..", "lean", "CxVerif", "Proofs", "Scalar32ReduceC.lean")

HEADER_C = '''/-
  Proofs.Scalar32ReduceC — GENERATED by tools/sc32_bounds.py --emit (do not edit by hand).
  The 32 output bytes of `pack` (the byte-packing at the end of `reduce_from_wide_bytes` / `muladd` of
  Impl/Scalar32.lean): for fully carried limbs (`Digits12`: eleven 21-bit digits, top digit < 2^22) byte j is
  `⌊value / 2^(8j)⌋ mod 256`, hence `pack t` is the 32-byte little-endian encoding of `val12 t`;
  and the 24 (12) load expressions of `reduce_from_wide_bytes` (`muladd`) as digits of the little-endian integer.
  The byte and load expressions are cut literally from the `def`s of the model.
-/
import CxVerif.Proofs.Scalar32ReduceA
import CxVerif.Proofs.Fe32Bytes
namespace Cx.Proofs.Scalar32
open Cx Cx.Impl.Scalar32
open Cx.Impl.Fe32 (shl64 shr wrap64 u8of u8or)
open Cx.Proofs.Fe32 (u8of_toNat u8or_toNat_add natToLE32_explicit cons_eq)
set_option linter.unusedSimpArgs false

'''


def parse_pack():
    text = open(IMPL).read()
    body = text[text.index("def pack (t : S12)"):]
    body = body[body.index("#v[") + 3:body.index("]")]
    return [e.strip() for e in body.replace("\n", " ").split(",")]


def emit_pack():
    exprs = parse_pack()
    assert len(exprs) == 32
    Y = vs("y", range(12))
    out = []
    for j, e in enumerate(exprs):
        ey = re.sub(r"t\.s(\d+)", r"y\1", e)
        m = re.match(r"u8or \(shr y(\d+) (\d+)\) \(shl64 y(\d+) (\d+)\)$", ey)
        out.append("theorem pack_b%d (%s : Int) (hd : Digits12 ⟨%s⟩) :" % (j, sp(Y), ", ".join(Y)))
        out.append("    %s = UInt8.ofNat ((lin12 %s).toNat / 2^%d %% 256) := by" % (ey, sp(Y), 8 * j))
        out.append("  unfold Digits12 at hd; simp only at hd")
        out.append("  simp only [shr, shl64, wrap64, lin12]")
        if m:
            a, sh, b, k = int(m.group(1)), int(m.group(2)), int(m.group(3)), int(m.group(4))
            assert b == a + 1 and 21 * a + sh == 8 * j and 21 - sh == k and k < 8
            out.append("  apply UInt8.toNat_inj.mp; rw [u8or_toNat_add _ _ %d (by omega) (by omega), UInt8.toNat_ofNat']; omega" % k)
        else:
            m = re.match(r"u8of \(shr y(\d+) (\d+)\)$", ey)
            a, sh = int(m.group(1)), int(m.group(2))
            assert 21 * a + sh == 8 * j and (sh + 8 <= 21 or a == 11)
            out.append("  apply UInt8.toNat_inj.mp; rw [u8of_toNat, UInt8.toNat_ofNat']; omega")
        out.append("")
    chain = "rfl"
    for j in reversed(range(32)):
        chain = "cons_eq (pack_b%d %s hd) (%s)" % (j, sp(Y), chain)
    out.append("/-- fully carried limbs ⟹ `pack` writes the 32-byte little-endian encoding of the value -/")
    out.append("theorem pack_spec (t : S12) (hd : Digits12 t) : (pack t).toList = natToLE 32 (val12 t).toNat := by")
    out.append("  obtain ⟨%s⟩ := t" % ", ".join(Y))
    out.append("  rw [natToLE32_explicit]")
    out.append("  show [%s] = _" % ", ".join(re.sub(r"t\.s(\d+)", r"y\1", e) for e in exprs))
    out.append("  exact %s" % chain)
    out.append("")
    return HEADER_C + "set_option exponentiation.threshold 600\n\n" + emit_limbs() + "\n" + "\n".join(out) + "\nend Cx.Proofs.Scalar32\n"


def parse_loads(defname, prefix, count):
    """the load expressions of `defname`: list of (kind, offset, shift, masked) for limbs prefix0..prefix(count-1)"""
    text = open(IMPL).read()
    body = text[text.index("def %s " % defname):]
    res = []
    for i in range(count):
        m = re.search(r"let %s%d : Int := (.*)$" % (prefix, i), body, re.M)
        e = m.group(1).strip()
        mm = re.match(r"\(load_(\d) \w+ (\d+)\) % 2\^21$", e)
        if mm:
            res.append((int(mm.group(1)), int(mm.group(2)), 0, True)); continue
        mm = re.match(r"\(shr \(load_(\d) \w+ (\d+)\) (\d+)\) % 2\^21$", e)
        if mm:
            res.append((int(mm.group(1)), int(mm.group(2)), int(mm.group(3)), True)); continue
        mm = re.match(r"shr \(load_(\d) \w+ (\d+)\) (\d+)$", e)
        res.append((int(mm.group(1)), int(mm.group(2)), int(mm.group(3)), False))
    return res


def emit_limbs():
    """every load of the model, rewritten as a bit window of N = leNat (bytes), is a radix-2^21 digit of N"""
    out = ["/-! ### the loads are the radix-2^21 digits (`load_3 s o = ⌊N / 256^o⌋ mod 2^24`, `load_4 … mod 2^32`, Scalar32Reduce) -/", ""]
    wide = parse_loads("reduce_from_wide_bytes", "s", 24)
    nar = {p: parse_loads("muladd", p, 12) for p in "abc"}
    assert nar["a"] == nar["b"] == nar["c"] == wide[:11] + [(wide[11][0], wide[11][1], wide[11][2], False)]
    def one(name, i, kind, o, k, masked, bits=0):
        assert 8 * o + k == 21 * i
        w = 24 if kind == 3 else 32
        base = "((N / 256^%d %% 2^%d : Nat) : Int)" % (o, w)
        e = base if k == 0 else "shr %s %d" % (base, k)
        lhs = ("(%s) %% 2^21" % e) if masked else e
        d = "N" if i == 0 else "N / 2^%d" % (21 * i)
        rhs = "((%s %% 2^21 : Nat) : Int)" % d if masked else "((%s : Nat) : Int)" % d
        tac = "omega" if k == 0 else "unfold shr; omega"
        hyp = "" if masked else " (hN : N < 2^%d)" % bits
        out.append("theorem %s%d (N : Nat)%s : %s = %s := by %s" % (name, i, hyp, lhs, rhs, tac))
    for i, (kind, o, k, masked) in enumerate(wide):
        one("wlimb", i, kind, o, k, masked, 512)
    kind, o, k, masked = nar["a"][11]
    one("nlimb", 11, kind, o, k, masked, 256)
    out.append("")
    return "\n".join(out)


def main():
    red, pre_stages, r1, r2, menv, tail_in_r = analyse()
    print("== tail stages (inputs rounded to ±2^k before every stage, outputs exact):")
    txt, env = emit_tail(red, tail_in_r)
    print("all checked i64 operations stay inside [-2^63, 2^63)")
    if "--emit" in sys.argv:
        open(OUT_A, "w").write(txt)
        print("wrote", os.path.normpath(OUT_A))
        open(OUT_C, "w").write(emit_pack())
        print("wrote", os.path.normpath(OUT_C))
        open(OUT_M, "w").write(emit_muladd(pre_stages, r1, r2, menv, tail_in_r))
        print("wrote", os.path.normpath(OUT_M))


if __name__ == "__main__":
    main()
