#!/usr/bin/env python3
"""Self-test of the source-level translators kernel_translate.py / ktx_misc.py / ktx_words.py / ktx_glue_simd.py (audit 3, findings
F2, F3, F4, F6, F7, F8, F9, F10): a translator must translate FAITHFULLY or raise TranslateError (a broken extraction), never drop or
approximate a construct.

    python3 tools/ktx_selftest.py [--no-build] [--checks] [names…]        exit 0 = all good, 1 = something is wrong

 1. NO REGRESSION   every kernel of tools/kernels/*.py is regenerated in-process from the real crate (CX_REPO or /repo): 0 errors and
                    byte-identical to lean/CxVerif/Extracted/*.lean on disk; then `lake build` (skipped with --no-build); with --checks
                    also `run_check.py <P> --tier quick` for C05 C15 C03 C16 C18 C01.
 2. ADVERSARIAL     one textual mutation at a time is applied to a SCRATCH COPY of the Rust sources under the temp directory (never
                    /repo), the kernel modules concerned are translated in-process to STRINGS (nothing is written into lean/), and
                    the result is compared with the translation of the pristine copy.  Each mutation must give
                    `error` (TranslateError -> broken extraction) or `changed` (another generated text); `UNCHANGED(bad)` fails.
                    Some mutations pin the outcome (`error` only, or a text the new output must contain).
 3. HARMLESS        comment / whitespace mutations and an item that is never compiled must leave the output byte-identical.
One line per mutation: `name: error|changed|same|UNCHANGED(bad)|…`.
"""
import importlib
import os
import shutil
import subprocess
import sys
import tempfile
import time

HERE = os.path.dirname(os.path.abspath(__file__))
VERIF = os.path.dirname(HERE)
sys.path.insert(0, HERE)
ORIG_ENV = os.environ.get("CX_REPO")
REAL_REPO = ORIG_ENV or "/repo"

import kernel_translate as KT          # noqa: E402
from kernel_translate import TranslateError   # noqa: E402

CAUGHT = (TranslateError, KeyError, IndexError, ValueError, TypeError, AttributeError, AssertionError)   # as generate_all()

POLY, FE64 = "src/poly1305.rs", "src/curve25519/fe/fe64/mod.rs"
CHREF, CHSSE = "src/chacha/reference.rs", "src/chacha/sse2.rs"
SSE, AVX = "src/hashing/sha2/impl256/sse41.rs", "src/hashing/sha2/impl256/avx.rs"
BAVX = "src/hashing/blake2/avx.rs"
CT, ARGON = "src/constant_time.rs", "src/kdf/argon2.rs"
SHA256, B2REF, SHA3 = "src/hashing/sha2/impl256/reference.rs", "src/hashing/blake2/reference.rs", "src/hashing/sha3.rs"
FE32 = "src/curve25519/fe/fe32/mod.rs"
RIPEMD = "src/hashing/ripemd160.rs"

# (name, file, old, new, kernel modules, expectation)   expectation: None = error|changed, "error", or ("contains", text)
ADVERSARIAL = [
    # ---------------------------------------------------------------- F2: return / control flow dropped
    ("F2_poly_if_stmt_in_block", POLY, "        // h += m\n", "        if h0 > 5 { h0 = 7; }\n        // h += m\n", ["poly1305"], "error"),
    ("F2_fe64_add_early_return", FE64, "        let mut h0 = f0 + g0    ; let c = h0 >> 51; h0 &= MASK;\n        let mut h1 = f1 + g1 + c;",
     "        if f0 == 0 { return Fe([g0, g1, g2, g3, g4]) }\n        let mut h0 = f0 + g0    ; let c = h0 >> 51; h0 &= MASK;\n        let mut h1 = f1 + g1 + c;",
     ["fe64"], "error"),
    ("F2_fe64_add_if_else_stmt", FE64, "        h0 += c * 19;\n        Fe([h0, h1, h2, h3, h4])\n    }\n}\n\nimpl Sub for &Fe",
     "        h0 += c * 19;\n        if c > 0 { h0 = 0; } else { h0 = 1; }\n        Fe([h0, h1, h2, h3, h4])\n    }\n}\n\nimpl Sub for &Fe", ["fe64"], "error"),
    ("F2_poly_finish_return_midway", POLY, "        // compute h + -p\n", "        return;\n        // compute h + -p\n", ["poly1305"], "error"),
    ("F2_poly_finish_second_if_not_filtered", POLY, "        // fully carry h\n", "        if self.leftover > 0 { self.h[0] = 0; }\n        // fully carry h\n", ["poly1305"], "error"),
    ("F2_misc_early_return_in_if_arm", CT, "    fn ct_lt(a: Self, b: Self) -> Choice {\n        Choice((a ^", "    fn ct_lt(a: Self, b: Self) -> Choice {\n        if a == b { return Choice(0); }\n        Choice((a ^", ["ct"], None),
    ("F2_misc_call_without_semicolon_in_stmt_if", CHREF, "        self.state[12] = counter;\n", "        if counter == 0 { unreachable!() }\n        self.state[12] = counter;\n", ["chacha_ref"], None),
    ("F2_simd_if_return_in_sigma0", SSE, "unsafe fn sigma0(w: __m128i) -> __m128i {\n", "unsafe fn sigma0(w: __m128i) -> __m128i {\n    if true { return w; }\n", ["glue_simd"], "error"),
    ("F2_simd_return_in_loop_of_digest_block", SSE, "    while block.len() >= 256 {\n", "    while block.len() >= 256 {\n        if block.len() == 300 { return; }\n", ["glue_simd"], "error"),
    ("F2_words_return_in_runtime_if", B2REF, "pub fn compress_b(h: &mut [u64; 8], t: &mut [u64; 2], buf: &[u8], last: LastBlock) {\n",
     "pub fn compress_b(h: &mut [u64; 8], t: &mut [u64; 2], buf: &[u8], last: LastBlock) {\n    if last == LastBlock::Yes { return; }\n", ["blake2"], "error"),
    # ---------------------------------------------------------------- F3: debug_assert is not assert
    ("F3_ct_assert_eq_to_debug_assert_eq", CT, "    fn ct_eq(self, b: &[u8]) -> Choice {\n        assert_eq!(self.len(), b.len());",
     "    fn ct_eq(self, b: &[u8]) -> Choice {\n        debug_assert_eq!(self.len(), b.len());", ["ct"], ("contains", "debugAssert")),
    ("F3_simd_debug_assert_to_assert", BAVX, "    debug_assert!(h.align_offset(16) == 0);", "    assert!(h.align_offset(16) == 0);", ["glue_simd"], "changed"),
    ("F3_simd_debug_assert_removed_marker_is_text", BAVX, "    debug_assert!(h.align_offset(16) == 0);", "    debug_assert!(h.align_offset(32) == 0);", ["glue_simd"], ("contains", "debugAssert")),
    # ---------------------------------------------------------------- F4: cfg
    ("F4_cfg_on_statement", POLY, "        let mut h4 = self.h[4];\n\n        // h += m\n", "        let mut h4 = self.h[4];\n        #[cfg(debug_assertions)]\n        let h1 = h1 + 1;\n\n        // h += m\n", ["poly1305"], "error"),
    ("F4_cfg_attr_on_statement_misc", CHREF, "        self.state[12] = counter;\n", "        #[cfg_attr(test, allow(unused))]\n        self.state[12] = counter;\n", ["chacha_ref"], "error"),
    ("F4_cfg_on_statement_simd", SSE, "unsafe fn sigma0(w: __m128i) -> __m128i {\n", "unsafe fn sigma0(w: __m128i) -> __m128i {\n    #[cfg(debug_assertions)]\n    let w = _mm_slli_epi32(w, 1);\n", ["glue_simd"], "error"),
    ("F4_compiled_duplicate_placed_first", POLY, "    fn block(&mut self, m: &[u8]) {\n",
     "    #[cfg(cryptoxide_verif)]\n    fn block(&mut self, m: &[u8]) {\n        self.h[0] = 1; self.h[1] = 1; self.h[2] = 1; self.h[3] = 1; self.h[4] = 1;\n    }\n    #[cfg(not(cryptoxide_verif))]\n    fn block(&mut self, m: &[u8]) {\n",
     ["poly1305"], None),
    ("F4_two_live_definitions_ambiguous", POLY, "    fn block(&mut self, m: &[u8]) {\n",
     "    #[cfg(target_feature = \"avx2\")]\n    fn block(&mut self, m: &[u8]) {\n        self.h[0] = 1;\n    }\n    fn block(&mut self, m: &[u8]) {\n", ["poly1305"], "error"),
    ("F4_scope_is_a_bounded_region", FE64, "    #[rustfmt::skip]\n    fn add(self, rhs: &Fe) -> Fe {", "    #[rustfmt::skip]\n    fn add_moved(self, rhs: &Fe) -> Fe {", ["fe64"], "error"),
    # ---------------------------------------------------------------- F6: names resolved by spelling
    ("F6_simd_use_swaps_e0_e1", SSE, "    use super::reference::{e0, e1};", "    use super::reference::{e1 as e0, e0 as e1};", ["glue_simd"], "error"),
    ("F6_simd_use_other_module", AVX, "use super::reference;\n", "use super::sse41 as reference;\n", ["glue_simd"], "error"),
    ("F6_simd_use_from_other_path", SSE, "    use super::reference::{e0, e1};", "    use super::other::{e0, e1};", ["glue_simd"], "error"),
    ("F6_poly_use_renames_read_u32_le", POLY, "use crate::cryptoutil::{read_u32_le, write_u32_le};", "use crate::cryptoutil::{read_u32_be as read_u32_le, write_u32_le};", ["poly1305"], "error"),
    ("F6_poly_use_other_path", POLY, "use crate::cryptoutil::{read_u32_le, write_u32_le};", "use crate::other::{read_u32_le, write_u32_le};", ["poly1305"], "error"),
    ("F6_nested_fn_shadows_callee_base", POLY, "        // h += m\n", "        fn read_u32_le(b: &[u8]) -> u32 { b[0] as u32 }\n        // h += m\n", ["poly1305"], "error"),
    ("F6_nested_fn_not_the_tied_one_misc", ARGON, "/// permutation P\nfn p(", "fn gb(a: &mut u64, b: &mut u64, c: &mut u64, d: &mut u64) {\n    *a = *b;\n}\n\n/// permutation P\nfn p(", ["argon2"], "error"),
    ("F6_nested_fn_in_simd_body", SSE, "unsafe fn sigma0(w: __m128i) -> __m128i {\n", "unsafe fn sigma0(w: __m128i) -> __m128i {\n    unsafe fn _mm_srli_epi32(a: __m128i, _n: i32) -> __m128i { a }\n", ["glue_simd"], "error"),
    ("F6_nested_fn_shadows_primitive_words", SHA3, "    read_u64v_le(&mut s, state);\n", "    fn read_u64v_le(_d: &mut [u64], _s: &[u8]) {}\n    read_u64v_le(&mut s, state);\n", ["keccak"], "error"),
    ("F6_const_generic_callee", ARGON, "        *a = add_and_mul(*a, *b);\n        *d = (*d ^ *a).rotate_right(32);", "        *a = add_and_mul::<7>(*a, *b);\n        *d = (*d ^ *a).rotate_right(32);", ["argon2"], "error"),
    ("F6_loop_fn_step_from_another_loop", CHREF, "            QR!(x3, x4, x9, x14);\n        }\n",
     "            QR!(x3, x4, x9, x14);\n        }\n        for _ in 0..1 {\n            QR!(x0, x4, x8, x12);\n            QR!(x1, x5, x9, x13);\n            QR!(x2, x6, x10, x14);\n            QR!(x3, x7, x11, x15);\n        }\n",
     ["chacha_ref"], ("error_contains", "loop step")),
    # ---------------------------------------------------------------- F7: &mut aliases
    ("F7_misc_let_mut_ref_place", CHREF, "        self.state[12] = counter;\n", "        let p = &mut self.state[12];\n        *p = counter;\n", ["chacha_ref"], "error"),
    ("F7_simd_let_mut_ref", CHSSE, "        align.0[0] = align.0[0].wrapping_add(1);\n        self.d = align.to_m128i();\n    }\n\n    #[inline]\n    pub(crate) fn increment64",
     "        let a2 = &mut align;\n        a2.0[0] = a2.0[0].wrapping_add(1);\n        self.d = align.to_m128i();\n    }\n\n    #[inline]\n    pub(crate) fn increment64", ["glue_simd"], "error"),
    ("F7_base_let_mut_ref", POLY, "        // h += m\n", "        let hp = &mut h0;\n        *hp = 7;\n        // h += m\n", ["poly1305"], "error"),
    ("F7_words_reborrow_word", SHA3, "    read_u64v_le(&mut s, state);\n", "    read_u64v_le(&mut s, state);\n    let r = &mut s[0];\n    *r = 0u64;\n", ["keccak"], "error"),
    # ---------------------------------------------------------------- F8: evaluation order / patterns / hygiene / stale loads
    ("F8_misc_or_pattern", CHREF, "        match key.len() {\n            16 => {", "        match key.len() {\n            16 | 17 => {", ["chacha_ref"], ("contains", "∨")),
    ("F8_simd_short_circuit_fallible_rhs", CHSSE, "            } else if nonce.len() == 8 {", "            } else if nonce.len() == 8 && nonce[0] == 0 {", ["glue_simd"], "error"),
    ("F8_misc_short_circuit_slicing_rhs", CHREF, "        match key.len() {\n            16 => {", "        if key.len() == 3 && read_u32_le(&key[0..4]) == 0 { unreachable!() }\n        match key.len() {\n            16 => {", ["chacha_ref"], "error"),
    ("F8_words_let_captures_macro_free_name", SHA256, "    let mut i = 0;\n    while i != 64 {\n        round!(", "    let w = [0u32; 64];\n    let mut i = 0;\n    while i != 64 {\n        round!(", ["sha256"], ("error_contains", "hygiene")),
    ("F8_words_let_before_macro_def_is_shadowing", SHA256, "    let mut a = state[0];", "    let w = [0u32; 64];\n    let mut a = state[0];", ["sha256"], "changed"),
    ("F8_words_macro_redefined_mid_body", SHA256, "    let mut a = state[0];", "    macro_rules! round {\n        ($a: ident, $b: ident, $c: ident, $d: ident, $e: ident, $f: ident, $g: ident, $h: ident, $i: expr) => {\n            $d = $d.wrapping_add($h);\n        };\n    }\n    let mut a = state[0];", ["sha256"], "error"),
    ("F8_words_load_after_store", SHA3, "    write_u64v_le(state, &s);\n", "    write_u64v_le(state, &s);\n    read_u64v_le(&mut s, state);\n    write_u64v_le(state, &s);\n", ["keccak"], "error"),
    # ---------------------------------------------------------------- F9: integer semantics
    ("F9_misc_signed_shift_wraps", FE32, "(1<<24)", "((1i32 << 31) as i64)", ["fe32"], ("contains", "shl32 (1 : Int) 31")),
    ("F9_misc_signed_division_truncates", FE32, "(1<<24)", "((-7i64) / 2)", ["fe32"], ("contains", "-3 ")),
    ("F9_misc_untyped_shift_out_of_range", ARGON, "(x & 0xffff_ffff)", "(x & (1 << 64))", ["argon2"], "error"),
    ("F9_misc_checked_and_wrapping_mixed", ARGON, "        let xy = (x & 0xffff_ffff) * (y & 0xffff_ffff);", "        let xy = ((x & 0xffff_ffff) * (y & 0xffff_ffff)).wrapping_mul(1);", ["argon2"], "error"),
    ("F9_words_signed_shift_wraps", RIPEMD, "0x5a827999", "((1i32 << 31) as u32)", ["ripemd160"], ("contains", "0x80000000")),
    ("F9_misc_const_div_by_zero", FE32, "(1<<24)", "(1 / 0)", ["fe32"], "error"),
    # ---------------------------------------------------------------- F10: slice upper bound of read_u32_le
    ("F10_rd32_longer_slice", POLY, "h0 += (read_u32_le(&m[0..4])     ) & 0x3ffffff;", "h0 += (read_u32_le(&m[0..5])     ) & 0x3ffffff;", ["poly1305"], "error"),
    ("F10_rd32_shorter_slice", POLY, "read_u32_le(&m[3..7])", "read_u32_le(&m[3..6])", ["poly1305"], "error"),
]

COMMENT = "\n// a harmless comment { with } braces; and fn block(x) text\n/* and a block\n   comment */\n"
# (name, file, old, new, modules): the output must stay byte-identical (comments, whitespace, items that are NOT COMPILED under the
# configuration the translators state: `#[cfg(test)]`, a non-default cargo feature — even when such a duplicate is placed first)
HARMLESS = [
    ("H_poly_comments_whitespace", POLY, "        // h += m\n", "        // h += m   (more words)\n\n\n        /* block */\n", ["poly1305", "poly1305_new"]),
    ("H_poly_uncompiled_duplicate_first", POLY, "    fn block(&mut self, m: &[u8]) {\n",
     "    #[cfg(test)]\n    fn block(&mut self, m: &[u8]) {\n        self.h[0] = 1;\n    }\n    fn block(&mut self, m: &[u8]) {\n", ["poly1305"]),
    ("H_chacha_ref_duplicate_under_non_default_feature", CHREF, "    #[inline]\n    pub(crate) fn set_counter(&mut self, counter: u32) {\n",
     "    #[cfg(feature = \"force-32bits\")]\n    pub(crate) fn set_counter(&mut self, counter: u32) {\n        self.state[13] = counter;\n    }\n    #[cfg(not(feature = \"force-32bits\"))]\n    pub(crate) fn set_counter(&mut self, counter: u32) {\n",
     ["chacha_ref"]),
    ("H_poly_test_module_with_same_fn", POLY, None, "\n#[cfg(test)]\nmod more_tests {\n    fn block(x: u32) -> u32 { x }\n    fn finish() {}\n}\n", ["poly1305"]),
    ("H_fe64_comments", FE64, "impl Sub for &Fe {", "// comment { fn add(\nimpl Sub for &Fe {   // }", ["fe64"]),
    ("H_chacha_ref_comments", CHREF, "        self.state[12] = counter;\n", "        self.state[12]   =   counter ; // set\n", ["chacha_ref"]),
    ("H_ct_comments", CT, None, COMMENT, ["ct"]),
    ("H_argon2_comments", ARGON, "/// permutation P\nfn p(", "/// permutation P (the same)\n\nfn p(", ["argon2"]),
    ("H_sse41_comments", SSE, "unsafe fn sigma0(w: __m128i) -> __m128i {\n", "unsafe fn sigma0(w: __m128i) -> __m128i {\n    // nothing\n\n", ["glue_simd"]),
    ("H_blake2_ref_comments", B2REF, None, COMMENT, ["blake2"]),
    ("H_sha256_ref_comments", SHA256, "    let mut a = state[0];", "    /* a */ let mut a = state[0]; // a", ["sha256"]),
    ("H_keccak_comments", SHA3, "    read_u64v_le(&mut s, state);\n", "    read_u64v_le(&mut s,   state);   // load\n", ["keccak"]),
]


def set_repo(path):
    os.environ["CX_REPO"] = path
    KT.REPO = path
    for modname in ("ktx_glue_simd",):
        m = sys.modules.get(modname)
        if m is not None and hasattr(m, "_SRC_CACHE"):
            m._SRC_CACHE.clear()
    KT._FEATURES.clear()


def run_modules(names):
    """translate the kernels of tools/kernels/<name>.py to strings (as kernel_translate.generate_all does, nothing is written)"""
    out, errors = {}, []
    for name in names:
        mod = importlib.import_module("kernels." + name)
        mod = importlib.reload(mod)                      # fresh Program / memo objects of the spec module
        tr_fn = getattr(mod, "TRANSLATE", KT.translate)
        for i, k in enumerate(mod.KERNELS):
            key = f"{mod.LEAN_FILE}.{getattr(k, 'ns', '')}.{k.lean_name}#{i}"
            try:
                out[key] = tr_fn(k)
            except CAUGHT as e:
                errors.append((key, f"{type(e).__name__}: {e}"))
    return out, errors


def mutate(root, rel, old, new):
    path = os.path.join(root, rel)
    s = open(path).read()
    if old is None:
        s2 = s + new
    else:
        assert s.count(old) >= 1, f"pattern not found in {rel}: {old[:60]!r}"
        s2 = s.replace(old, new, 1)
    assert s2 != s
    open(path, "w").write(s2)
    return s


def unit_checks():
    """constant folding follows rustc (F9): value + type of constant expressions, in ktx_misc (const_eval) and ktx_words (ev)"""
    import ktx_misc as KM
    import ktx_words as KW
    bad = []
    tr = KM.Tr(KM.MK(file="x", fn="x", lean_name="x", params="", ret_type=""), "")
    ERR = "error"
    cases = [("(1i32 << 31)", (-2 ** 31, "i32")), ("1u32 << 31", (2 ** 31, "u32")), ("(0x80u8 << 1)", (0, "u8")), ("-7i64 / 2", (-3, "i64")),
             ("-7i64 % 2", (-1, "i64")), ("7i64 / -2", (-3, "i64")), ("(300 as u8)", (44, "u8")), ("(200 as i8)", (-56, "i8")),
             ("1i32 << 32", ERR), ("200u8 + 100u8", ERR), ("1 / 0", ERR), ("5 % 0", ERR), ("0u32 - 1", ERR), ("1u8 + 1u16", ERR),
             ("1 << 40", (2 ** 40, None)), ("(2 + 3) * 4", (20, None)), ("-(-128i8)", ERR), ("-5i8 >> 1", (-3, "i8"))]
    for text, want in cases:
        try:
            got = tr.const_eval(KM.P2(KM.lex(text)).expr(), None)
        except TranslateError:
            got = ERR
        if got != want:
            bad.append(f"ktx_misc const_eval `{text}` = {got}, expected {want}")
    for n, ty, want in [(2 ** 31, "i32", ERR), (-2 ** 31, "i32", "(-2147483648 : Int)"), (2 ** 32, "u32", ERR), (255, "u8", "(255 : UInt8)")]:
        try:
            got = KM.lit_text(n, ty)
        except TranslateError:
            got = ERR
        if got != want:
            bad.append(f"ktx_misc lit_text({n}, {ty}) = {got}, expected {want}")
    k = KW.WKernel(file="src/lib.rs", fn="x", lean_name="x", params="", ret_type="", result=None)
    ex = KW.Ex(k, KW.Sources(["src/lib.rs"]))
    ex.frames.append(KW.Frame("src/lib.rs"))
    wcases = [("1i32 << 31", (-2 ** 31, "i32")), ("1u32 << 31", (2 ** 31, "u32")), ("0x80u8 << 1", (0, "u8")), ("(0 - 7) / 2", ERR),
              ("-7i64 / 2", (-3, "i64")), ("-7i64 % 2", (-1, "i64")), ("1i32 << 32", ERR), ("200u8 + 100u8", ERR), ("1 / 0", ERR),
              ("(1i32 << 31) as u32", (2 ** 31, "u32")), ("-5i8 >> 1", (-3, "i8"))]
    for text, want in wcases:
        try:
            v = ex.ev(KW.P2(KW.lex(text)).expr())
            got = (v.v, v.ty)
        except TranslateError:
            got = ERR
        if got != want:
            bad.append(f"ktx_words ev `{text}` = {got}, expected {want}")
    # cfg table and bounded lookup
    for pred, want in [("test", False), ("cryptoxide_verif", True), ('feature = "sha2"', True), ('feature = "force-32bits"', False),
                       ('feature = "nonexistent"', None), ('target_arch = "x86_64"', True), ('target_arch = "arm"', False),
                       ('target_feature = "sse2"', True), ('target_feature = "avx2"', None), ("debug_assertions", None),
                       ('all(test, feature = "with-bench")', False), ('any(target_arch = "arm", feature = "force-32bits")', False),
                       ('not(any(any(target_arch = "arm"), feature = "force-32bits"))', True), ('all(target_arch = "x86_64", target_feature = "avx")', None),
                       ('any(target_arch = "x86_64", target_feature = "avx")', True)]:
        got = KT.eval_cfg(pred)
        if got != want:
            bad.append(f"eval_cfg `{pred}` = {got}, expected {want}")
    src = ("impl A { fn f(&self) -> u32 { 1 } }\n#[cfg(test)]\nmod t { fn g() -> u32 { 7 } }\nfn g() -> u32 { 2 }\n"
           "impl B { fn f(&self) -> u32 { 3 } fn h() { fn g() -> u32 { 4 } } }\nfn k() { 5 }\n#[cfg(not(test))] fn k2() {}\nfn k2() {}\n")
    for (fn, scope), want in [(("f", r"impl A"), " 1 "), (("f", r"impl B"), " 3 "), (("g", None), " 2 "), (("g", r"fn h"), " 4 "),
                              (("f", None), ERR), (("g", r"impl A"), ERR), (("k2", None), ERR), (("f", r"impl \w"), ERR)]:
        try:
            got = KT.find_fn(src, fn, scope)[1]
        except TranslateError:
            got = ERR
        if got != want:
            bad.append(f"find_fn({fn!r}, {scope!r}) = {got!r}, expected {want!r}")
    return bad


def main(argv):
    t0 = time.time()
    build = "--no-build" not in argv
    checks = "--checks" in argv
    only = [a for a in argv if not a.startswith("--")]
    bad = []

    # ------------------------------------------------------------------ 1. no regression
    if not only:
        set_repo(REAL_REPO)
        for m in [m for m in sys.modules if m.startswith("kernels.")]:
            del sys.modules[m]
        files, errors, n = KT.generate_all()
        print(f"regenerate: {n} kernels, {len(errors)} errors")
        for e in errors:
            print("  ERROR", e["table"], e["error"][:200])
            bad.append("regenerate:" + e["table"])
        outdir = os.path.join(VERIF, "lean", "CxVerif", "Extracted")
        for lf, content in sorted(files.items()):
            p = os.path.join(outdir, lf + ".lean")
            same = os.path.exists(p) and open(p).read() == content
            if not same:
                print(f"  DIFFERS from disk: Extracted/{lf}.lean")
                bad.append("differs:" + lf)
        print("regenerate: " + ("byte-identical to lean/CxVerif/Extracted" if not bad else "REGRESSION"))
        if build and not bad:
            r = subprocess.run(["lake", "build"], cwd=os.path.join(VERIF, "lean"), stdout=subprocess.PIPE, stderr=subprocess.STDOUT, text=True)
            print("lake build: " + ("ok" if r.returncode == 0 else "FAILED"))
            if r.returncode != 0:
                print("\n".join(r.stdout.splitlines()[-25:]))
                bad.append("lake build")
        if checks and not bad:
            for prop in ["C05", "C15", "C03", "C16", "C18", "C01"]:
                r = subprocess.run([sys.executable, os.path.join(HERE, "run_check.py"), prop, "--tier", "quick"], cwd=VERIF,
                                   stdout=subprocess.PIPE, stderr=subprocess.STDOUT, text=True)
                print(f"run_check {prop}: exit {r.returncode}")
                if r.returncode != 0:
                    print("\n".join(r.stdout.splitlines()[-15:]))
                    bad.append("run_check " + prop)

    if not only:
        set_repo(REAL_REPO)
        ub = unit_checks()
        print(f"unit checks (constant folding, cfg table, bounded lookup): {'ok' if not ub else 'FAILED'}")
        for x in ub:
            print("  " + x)
            bad.append("unit: " + x[:60])

    # ------------------------------------------------------------------ 2. / 3. mutations on a scratch copy
    scratch = tempfile.mkdtemp(prefix="ktx_selftest_")
    try:
        shutil.copytree(os.path.join(REAL_REPO, "src"), os.path.join(scratch, "src"))
        shutil.copy(os.path.join(REAL_REPO, "Cargo.toml"), os.path.join(scratch, "Cargo.toml"))
        assert not os.path.abspath(scratch).startswith(os.path.abspath(REAL_REPO) + os.sep)
        set_repo(scratch)
        base = {}

        def baseline(mods):
            for m in mods:
                if m not in base:
                    o, e = run_modules([m])
                    if e:
                        raise SystemExit(f"baseline translation of kernels/{m}.py fails on the pristine copy: {e[0]}")
                    base[m] = o
            return {k: v for m in mods for k, v in base[m].items()}

        print("--- adversarial mutations (must be error or changed)")
        for name, rel, old, new, mods, expect in ADVERSARIAL:
            if only and name not in only:
                continue
            ref = baseline(mods)
            saved = mutate(scratch, rel, old, new)
            try:
                set_repo(scratch)
                got, errors = run_modules(mods)
            finally:
                open(os.path.join(scratch, rel), "w").write(saved)
            changed = [k for k in ref if k in got and got[k] != ref[k]]
            if errors:
                verdict = "error"
            elif changed:
                verdict = "changed"
            else:
                verdict = "UNCHANGED(bad)"
            ok = verdict != "UNCHANGED(bad)"
            note = ""
            if expect == "error" and verdict != "error":
                ok, note = False, "  (expected a TranslateError)"
            elif expect == "changed" and verdict != "changed":
                ok, note = False, "  (expected another text, not an error)"
            elif isinstance(expect, tuple) and expect[0] == "contains":
                if verdict == "changed" and not any(expect[1] in got[k] for k in changed):
                    ok, note = False, f"  (the changed text does not contain {expect[1]!r})"
            elif isinstance(expect, tuple) and expect[0] == "error_contains":
                if verdict != "error" or not any(expect[1] in e[1] for e in errors):
                    ok, note = False, f"  (expected a TranslateError mentioning {expect[1]!r})"
                else:
                    errors = [e for e in errors if expect[1] in e[1]]
            detail = ""
            if verdict == "error":
                detail = "  [" + errors[0][1][:110] + "]"
            elif verdict == "changed":
                detail = f"  [{len(changed)} definition(s)]"
            print(f"{name}: {verdict}{note}{detail}")
            if not ok:
                bad.append(name)

        print("--- harmless mutations (must be byte-identical)")
        for name, rel, old, new, mods in HARMLESS:
            if only and name not in only:
                continue
            ref = baseline(mods)
            saved = mutate(scratch, rel, old, new)
            try:
                set_repo(scratch)
                got, errors = run_modules(mods)
            finally:
                open(os.path.join(scratch, rel), "w").write(saved)
            if errors:
                verdict = "ERROR(bad)  [" + errors[0][1][:110] + "]"
            elif got != ref:
                verdict = "CHANGED(bad)"
            else:
                verdict = "same"
            print(f"{name}: {verdict}")
            if verdict != "same":
                bad.append(name)
    finally:
        shutil.rmtree(scratch, ignore_errors=True)
        if ORIG_ENV is None:
            os.environ.pop("CX_REPO", None)
        else:
            os.environ["CX_REPO"] = ORIG_ENV
    print(f"--- {len(ADVERSARIAL)} adversarial, {len(HARMLESS)} harmless mutations, {time.time() - t0:.0f} s: " + ("ALL GOOD" if not bad else "FAILED: " + ", ".join(bad)))
    return 1 if bad else 0


if __name__ == "__main__":
    sys.exit(main(sys.argv[1:]))
