#!/usr/bin/env python3
"""Mutation test of the glue tie (tools/ktx_glue.py, Props/C01/GlueTieMd*.lean): apply one textual mutation at a time to a
SCRATCH COPY of the Rust sources (never /repo), regenerate Extracted/ with CX_REPO pointing at the copy, rebuild the
tie and report which theorems stop checking.  Run in a private copy of /verif (it rewrites lean/CxVerif/Extracted and
restores it at the end):   python3 tools/ktx_glue_mutate.py [mutation names…]
Expected: every mutation except `iv_whitespace_comment` (no change of the generated file) and `xiii_tail_copy_range`
(`i - 0`: an equivalent mutant, the tie still holds) breaks the build within seconds."""
import os, re, subprocess, sys, time, json, tempfile
V = os.path.dirname(os.path.dirname(os.path.abspath(__file__)))
RC = os.path.join(tempfile.gettempdir(), "ktx_glue_mutate_repo")
os.makedirs(RC, exist_ok=True)
CU, MOD, E512 = "src/cryptoutil.rs", "src/hashing/sha2/mod.rs", "src/hashing/sha2/eng512.rs"
MUT = {
    "i_padding_boundary": (CU, "if (N - self.buffer_idx) < rem {", "if (N - self.buffer_idx) <= rem {"),
    "ii_block_count_from_input_len": (CU, "let remaining = input.len() - i;", "let remaining = input.len();"),
    "iii_sha512_reserves_8": (MOD, ".standard_padding(16, |input| self_state.blocks(input));", ".standard_padding(8, |input| self_state.blocks(input));"),
    "iv_whitespace_comment": None,
    "v_full_buffer_keeps_idx": (CU, "assert!(self.buffer_idx == N);\n        self.buffer_idx = 0;", "assert!(self.buffer_idx == N);"),
    "vi_input_forgets_i": (CU, "i += buffer_remaining;", ""),
    "vii_len_shift_2": (MOD, "*self.buffer.next::<8>() = (self.processed_bytes << 3).to_be_bytes();", "*self.buffer.next::<8>() = (self.processed_bytes << 2).to_be_bytes();"),
    "viii_struct_field_added": (CU, "    buffer_idx: usize,\n}", "    buffer_idx: usize,\n    extra: usize,\n}"),
    "ix_pad_byte": (CU, "self.next::<1>()[0] = 128;", "self.next::<1>()[0] = 1;"),
    "x_writer_offset": (CU, "offset += SZ;", "offset += 1;"),
    "xi_input256_no_assert": (MOD, "assert!(!self.finished);\n", ""),
    "xii_len_le_bytes": (MOD, "*self.buffer.next::<16>() = (self.processed_bytes << 3).to_be_bytes();", "*self.buffer.next::<16>() = (self.processed_bytes << 3).to_le_bytes();"),
    "xiii_tail_copy_range": (CU, "self.buffer[0..input_remaining].copy_from_slice(&input[i..]);", "self.buffer[0..input_remaining].copy_from_slice(&input[i - 0..]);"),
    "xiv_fill_ge_to_gt": (CU, "if input.len() >= buffer_remaining {", "if input.len() > buffer_remaining {"),
    "xv_out224_shift": (E512, "(self.h[3] >> 32) as u32", "(self.h[3] >> 31) as u32"),
    "xvii_finalize_reset_no_reset": (MOD, "                self.engine.state.$output_fn(&mut out);\n                self.reset();", "                self.engine.state.$output_fn(&mut out);"),
    "xviii_digest_out_len": (MOD, "let mut out = [0; $output_bits / 8];\n                self.engine.finish();\n                self.engine.state.$output_fn(&mut out);\n                out", "let mut out = [0; $output_bits / 4];\n                self.engine.finish();\n                self.engine.state.$output_fn(&mut out);\n                out"),
    "xix_sha384_iv": (MOD, "digest!(512 Sha384, Context384, output_384bits_at, 384, H384);", "digest!(512 Sha384, Context384, output_384bits_at, 384, H512);"),
    "xvi_reader_stride": (CU, "y = y.add(SZ);", "y = y.add(1);"),
}

def sh(cmd, env=None, cwd=None):
    e = dict(os.environ); e.update(env or {})
    p = subprocess.run(cmd, cwd=cwd, env=e, stdout=subprocess.PIPE, stderr=subprocess.STDOUT, text=True)
    return p.returncode, p.stdout

def fresh():
    src = os.environ.get("CX_REPO", "/repo")
    sh(["rsync", "-a", "--delete", src + "/src", src + "/Cargo.toml", RC + "/"])

def run(name):
    fresh()
    m = MUT[name]
    if m is None:
        for f in (CU, MOD):
            p = os.path.join(RC, f); s = open(p).read()
            s = s.replace("let mut i = 0;", "let   mut i   =   0 ;   // a comment\n        /* block\n comment */")
            s = s.replace("fn finish(&mut self) {", "fn finish( &mut self )\n    {\n        // nothing changes here")
            s = "// leading comment\n\n" + s
            open(p, "w").write(s)
    else:
        f, old, new = m
        p = os.path.join(RC, f); s = open(p).read()
        assert s.count(old) >= 1, (name, "pattern not found")
        s = s.replace(old, new)
        open(p, "w").write(s)
    base = open(os.path.join(V, "lean/CxVerif/Extracted/GlueMd.lean")).read()
    rc, out = sh(["python3", "tools/extract_tables.py"], env={"CX_REPO": RC}, cwd=V)
    summary = out.strip().splitlines()[-1]
    gen = open(os.path.join(V, "lean/CxVerif/Extracted/GlueMd.lean")).read()
    t0 = time.time()
    rc, out = sh(["lake", "build", "CxVerif.Props.C01.GlueTieMd", "CxVerif.Props.C01.GlueTieMdSpec"], cwd=V + "/lean")
    dt = time.time() - t0
    errs = sorted(set(re.findall(r"error: (CxVerif/\S+?\.lean):(\d+)", out)))
    sys.path.insert(0, V + "/tools")
    import cxlib
    broken = cxlib.failing_decls(out, ["CxVerif.Props.C01.GlueTieMd", "CxVerif.Props.C01.GlueTieMdSpec"])
    thms = sorted({b["theorem"] or b["file"] for b in broken})
    kerr = [e for e in re.findall(r"'errors': (\[.*?\])", summary)]
    return dict(mutation=name, generated_changed=gen != base, extraction_errors=("TRANSLATION FAILED" in gen), build_ok=rc == 0, seconds=round(dt, 1), failing=thms[:8])

if __name__ == "__main__":
    names = sys.argv[1:] or list(MUT)
    # baseline
    sh(["python3", "tools/extract_tables.py"], cwd=V)
    rc, out = sh(["lake", "build", "CxVerif.Props.C01.GlueTieMd", "CxVerif.Props.C01.GlueTieMdSpec"], cwd=V + "/lean")
    assert rc == 0, out[-2000:]
    res = []
    for n in names:
        # restore baseline generated file before each mutation so `generated_changed` compares with the unmutated output
        sh(["python3", "tools/extract_tables.py"], cwd=V)
        r = run(n); print(json.dumps(r)); res.append(r)
    sh(["python3", "tools/extract_tables.py"], cwd=V)
    rc, out = sh(["lake", "build", "CxVerif.Props.C01.GlueTieMd", "CxVerif.Props.C01.GlueTieMdSpec"], cwd=V + "/lean")
    print("restored baseline build ok:", rc == 0)
