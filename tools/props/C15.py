"""C15 — generated wiring; generators come from tools/gens/*.py (gen_C15) of the units in tools/units.py."""
from props import _auto

LEAN_MODULES = _auto.lean_modules("C15")
VARIANTS = ['default']
RULE = 'field operands {0,1,p-1,p,p+1,2^255-1,2^256-1,random} and expression programs inside the operand discipline; 512-bit reductions {0,L-1,L,L+1,kL,2^512-1,random}; every single-nibble scalar; table multiples; small-order points; non-trivial = non-zero operand; distinct = distinct case lines'
TRUSTED = ["hand-written Lean models (lean/CxVerif/Impl, Spec) tied to the code by the correspondence run and by tables re-extracted from /repo/src"]
ASSUMPTIONS = []
gen = _auto.make_gen("C15")
nontrivial = _auto.default_nontrivial
