"""C12 — generated wiring; generators come from tools/gens/*.py (gen_C12) of the units in tools/units.py."""
from props import _auto

LEAN_MODULES = _auto.lean_modules("C12")
VARIANTS = ['default']
RULE = 'scalars (random, 0, all-ones, every single-bit) x u (random, 0,1,p-1,p,p+1,2^255-1,2^256-1, small-order): every single-bit scalar x each of the 9 named u values by construction (thorough: all 256 bits, quick: every 8th bit), every single-bit scalar x {9, random u} in both tiers, special scalars x all special u, single-bit neighbours of the distinguished u and scalar values; RFC 7748 iteration; non-trivial = non-zero scalar and u; distinct = distinct case lines'
TRUSTED = ["hand-written Lean models (lean/CxVerif/Impl, Spec) tied to the code by the correspondence run and by tables re-extracted from /repo/src"]
ASSUMPTIONS = []
gen = _auto.make_gen("C12")
nontrivial = _auto.default_nontrivial
