"""C20 — valid inputs never panic or vary with build profile; misuse fails loudly.
The workloads of C01–C15 plus the units' gen_C20 (hook-preset counters next to 2^32-1 / 2^64-1, invalid argument
matrix) are run through three harness builds: debug (overflow checks + debug assertions), release with overflow
checks and debug assertions, plain release. All must give identical bytes and identical panic / no-panic verdicts,
equal to what the Lean model answers (PANIC exactly where the API documents a refusal)."""
from props import _auto

LEAN_MODULES = _auto.lean_modules("C20")
VARIANTS = ["default", "relchk", "release"]
RULE = ("unit generators gen_C20 (counters preset next to 2^32-1 and 2^64-1 through hooks, invalid argument shapes per entry point: each "
        "length one below / one above the legal values, zero, very large) plus the C01..C15 workloads thinned per (op, kind) class (every k-th "
        "case within each class, the first always kept; quick: k = REUSE over the quick generators, thorough: k = REUSE_THOROUGH over the "
        "THOROUGH generators), all run through debug / release+checks / plain release builds; non-trivial = any; distinct = distinct case lines")
TRUSTED = ["hand-written Lean models tied to the code by the correspondence run",
           "memory safety of unsafe pointer code and the profile switch itself are observed on the real binaries, not proved"]
PROOF_SCOPE = 'partial by nature: overflow-freedom, counter and refusal theorems are about the models; identical behaviour across debug / release+checks / release binaries, and memory safety of unsafe code (thorough: Miri), are observed'
ASSUMPTIONS = ["Argon2 parameter ranges the crate documents as unchecked are outside the claim"]
nontrivial = _auto.default_nontrivial
# stride per (op, kind) class of the reused workloads
REUSE = {"C01": 8, "C02": 60, "C03": 4, "C04": 4, "C05": 10, "C06": 10, "C07": 12, "C08": 8, "C09": 30, "C10": 8, "C11": 4,
         "C12": 8, "C13": 6, "C14": 8, "C15": 30}
REUSE_THOROUGH = {"C01": 8, "C02": 80, "C03": 2, "C04": 6, "C05": 8, "C06": 5, "C07": 10, "C08": 1, "C09": 40, "C10": 1, "C11": 2,
                  "C12": 4, "C13": 2, "C14": 3, "C15": 20}


def gen(tier, rng):
    yield from _auto.make_gen("C20")(tier, rng)
    for prop, stride in (REUSE if tier == "quick" else REUSE_THOROUGH).items():
        def src(prop=prop):
            for line, kind in _auto.make_gen(prop, also=False)(tier, rng):
                yield (line, f"{prop}/{kind}")
        # every stride-th case WITHIN each (op, kind) class, the first of each class always kept;
        # `.wild` = outside the valid domain: profile dependent by nature
        yield from _auto.thin(src(), stride, keep=lambda line, kind: not kind.endswith(".wild"))


# ---------------------------------------------------------------------------------------------------------------------
# thorough tier: a reduced workload under Miri (support for the "never reading out of bounds" clause; it is an
# observation of the real code under an interpreter that checks every memory access, not a proof)

import concurrent.futures as cf   # noqa: E402
import os                        # noqa: E402
import subprocess                # noqa: E402
import cxlib as cx               # noqa: E402

MIRI_SLOW = ("argon2.", "kdf.scrypt", "kdf.pbkdf2", "ed25519.", "x25519.", "ge.", "long.", "simd.", "hlen.", "fe.prog", "b32.",
             "scalar.slide", "ktie.")


def _miri_env(extra_flags=""):
    return dict(os.environ, CARGO_TARGET_DIR=os.path.join(cx.CACHE, "target-miri"), CARGO_NET_OFFLINE="true",
                RUSTFLAGS=f"--cfg {cx.GUARD} -A unexpected_cfgs",
                MIRIFLAGS=("-Zmiri-disable-isolation " + extra_flags).strip())


def _miri_run(lines, flags):
    p = subprocess.run(["cargo", "+nightly", "miri", "run", "--offline", "-q", "--", "run"], cwd=cx.HARNESS,
                       env=_miri_env(flags), input="".join(l + "\n" for l in lines), capture_output=True, text=True, timeout=3000)
    out = [l for l in p.stdout.split("\n") if l != ""]
    err = ""
    if "Undefined Behavior" in p.stderr or p.returncode != 0:
        i = p.stderr.find("error: Undefined Behavior")
        err = p.stderr[i:i + 700] if i >= 0 else p.stderr[-500:]
    return out, err


def extra_checks(tier, rng, variants, broken, failing):
    if tier != "thorough":
        return {"miri": "not run in the quick tier"}
    # one short case per (op, kind) class, cheap ops only, short lines only
    seen, lines = set(), []
    for line, kind in gen("quick", cx.Rng(20260928)):
        op = line.split(" ")[0]
        if line.startswith(MIRI_SLOW) or len(line) > 700 or kind.endswith(".wild"):
            continue
        key = (op, kind.split("/")[-1].split(".")[0])
        if key in seen:
            continue
        seen.add(key)
        lines.append(line)
        if len(lines) >= 320:
            break
    want = cx.run_exec([cx.harness_bin("default"), "run"], lines)
    shards = [list(range(i, len(lines), cx.NCPU)) for i in range(cx.NCPU)]
    got = [None] * len(lines)
    errors = []
    with cf.ThreadPoolExecutor(max_workers=cx.NCPU) as ex:
        futs = {ex.submit(_miri_run, [lines[i] for i in ix], "-Zmiri-tree-borrows"): ix for ix in shards if ix}
        for f in cf.as_completed(futs):
            ix = futs[f]
            try:
                out, err = f.result()
            except Exception as e:  # noqa
                out, err = [], f"miri did not run: {e}"
            for j, i in enumerate(ix):
                got[i] = out[j] if j < len(out) else None
            if err:
                k = len(out)
                culprit = lines[ix[k]] if k < len(ix) else "?"
                if "miri did not run" in err or "Undefined Behavior" not in err:
                    errors.append({"machinery": err[:300]})
                else:
                    errors.append({"line": culprit, "error": err})
                    failing.append({"line": culprit, "kind": "miri", "answers": {"miri": err[:600]},
                                    "why": "Miri reports undefined behaviour (memory access / uninitialised / alignment) while executing this case"})
    mism = 0
    for i, l in enumerate(lines):
        if got[i] is not None and got[i] != want[i]:
            mism += 1
            failing.append({"line": l, "kind": "miri", "answers": {"native": want[i], "miri": got[i]},
                            "why": "the interpreted execution (Miri) returns different bytes than the native debug build"})
    # information only: the experimental Stacked Borrows model (see DESIGN 14.9: read_*v_* derive a raw pointer from a
    # one-element reference and walk the slice with it: no out-of-bounds access, but outside the tag's range under SB)
    sb_lines = [l for l in lines if l.startswith(("hash.sha256", "hash.sha512", "hctx.sha1"))][:3] or lines[:3]
    sb_out, sb_err = _miri_run(sb_lines, "")
    return {"miri": {"cases": len(lines), "executed": sum(1 for g in got if g is not None), "mismatches": mism,
                     "undefined_behaviour_reports": [e for e in errors if "line" in e][:5],
                     "machinery_problems": [e for e in errors if "machinery" in e][:3],
                     "aliasing_model": "tree borrows (-Zmiri-tree-borrows)",
                     "stacked_borrows_information_only": (sb_err[:300] if sb_err else "clean on the sampled hash cases")}}
