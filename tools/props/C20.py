"""C20 — valid inputs never panic or vary with build profile; misuse fails loudly.
The workloads of C01–C15 plus the units' gen_C20 (hook-preset counters next to 2^32-1 / 2^64-1, invalid argument
matrix) are run through three harness builds: debug (overflow checks + debug assertions), release with overflow
checks and debug assertions, plain release. All must give identical bytes and identical panic / no-panic verdicts,
equal to what the Lean model answers (PANIC exactly where the API documents a refusal)."""
from props import _auto

LEAN_MODULES = _auto.lean_modules("C20")
VARIANTS = ["default", "relchk", "release"]
RULE = ("unit generators gen_C20 (counters preset next to 2^32-1 and 2^64-1 through hooks, invalid argument shapes per entry point: each "
        "length one below / one above the legal values, zero, very large) plus a deterministic sample of the C01..C15 workloads, all run "
        "through debug / release+checks / plain release builds; non-trivial = any; distinct = distinct case lines")
TRUSTED = ["hand-written Lean models tied to the code by the correspondence run",
           "memory safety of unsafe pointer code and the profile switch itself are observed on the real binaries, not proved"]
ASSUMPTIONS = ["Argon2 parameter ranges the crate documents as unchecked are outside the claim"]
nontrivial = _auto.default_nontrivial
REUSE = {"C01": 8, "C02": 60, "C03": 4, "C04": 4, "C05": 10, "C06": 10, "C07": 10, "C08": 8, "C09": 20, "C10": 8, "C11": 4,
         "C12": 8, "C13": 6, "C14": 8, "C15": 30}


def gen(tier, rng):
    yield from _auto.make_gen("C20")(tier, rng)
    for prop, stride in REUSE.items():
        k = stride if tier == "quick" else max(1, stride // 3)
        for i, (line, kind) in enumerate(_auto.make_gen(prop, also=False)("quick", rng)):
            if i % k == 0 and not kind.endswith(".wild"):   # `.wild` = outside the valid domain: profile dependent by nature
                yield (line, f"{prop}/{kind}")
