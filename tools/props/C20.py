"""C20 — generated wiring; generators come from tools/gens/*.py (gen_C20) of the units in tools/units.py."""
from props import _auto

LEAN_MODULES = _auto.lean_modules("C20")
VARIANTS = ['default', 'relchk', 'release']
RULE = 'C01-C15 workloads + hook-preset counters through debug / release+checks / release builds; invalid-argument matrix (each length one below/above, zero, huge); non-trivial = any; distinct = distinct case lines'
TRUSTED = ["hand-written Lean models (lean/CxVerif/Impl, Spec) tied to the code by the correspondence run and by tables re-extracted from /repo/src"]
ASSUMPTIONS = []
gen = _auto.make_gen("C20")
nontrivial = _auto.default_nontrivial
