"""C05 — generated wiring; generators come from tools/gens/*.py (gen_C05) of the units in tools/units.py."""
from props import _auto

LEAN_MODULES = _auto.lean_modules("C05")
VARIANTS = ['default']
RULE = 'key classes (random, all-ones, r in {0,1,2}, s all-ones, unclamped r) x every length 0..=80 x chunkings, RFC 8439 A.3 wrap-around vectors, model-guided messages whose accumulator lands in [p,2^130), random to 4 KiB; non-trivial = non-empty message; distinct = distinct case lines'
TRUSTED = ["hand-written Lean models (lean/CxVerif/Impl, Spec) tied to the code by the correspondence run and by tables re-extracted from /repo/src"]
ASSUMPTIONS = ['message length per call and in total < 2^64 bytes (usize)']
gen = _auto.make_gen("C05")
nontrivial = _auto.default_nontrivial
