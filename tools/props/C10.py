"""C10 — generated wiring; generators come from tools/gens/*.py (gen_C10) of the units in tools/units.py."""
from props import _auto

LEAN_MODULES = _auto.lean_modules("C10")
VARIANTS = ['default']
RULE = 'HKDF L in {0,1,H-1,H,H+1,..,255H,255H+1} x PRK length in {0,1,H-1 (refused), H,H+1,2H,B,B+1}; PBKDF2 x PRF x c x dkLen across block boundaries; scrypt log2N 1..=10 (quick <=6), r 1..=8, p 1..=4, dkLen 1..=130; non-trivial = non-empty inputs; distinct = distinct case lines'
TRUSTED = ["hand-written Lean models (lean/CxVerif/Impl, Spec) tied to the code by the correspondence run and by tables re-extracted from /repo/src"]
ASSUMPTIONS = ["scrypt: log_n <= 32 (`integerify` reads 32 bits; larger N needs >= 3 TiB of memory — see DESIGN 14.2/known findings), 128*r*N < 2^64, password/salt lengths < 2^61; PBKDF2/HKDF: PRF input lengths within the hash's limits"]
gen = _auto.make_gen("C10")
nontrivial = _auto.default_nontrivial
