"""C10 — generated wiring; generators come from tools/gens/*.py (gen_C10) of the units in tools/units.py."""
from props import _auto

LEAN_MODULES = _auto.lean_modules("C10")
VARIANTS = ['default']
RULE = 'HKDF: every named L in {0,1,H-1,H,H+1,2H-1,2H,2H+1,3H,..,254H,254H+1,255H-1,255H,255H+1,256H,256H+1,300H} with a VALID PRK (|PRK| = H) unconditionally, and in addition with PRK lengths {0,1 (refused), B, B+1}; PRK length in {0,1,H-1 (refused), H,H+1,2H} x L; PBKDF2 x PRF x c x dkLen across block boundaries; scrypt: thorough the FULL grid log2N 1..=10 x r 1..=8 x p 1..=4 (320 points) plus log2N 12 and 15, quick every log2N 1..=10 at r=p=1 and on a diagonal, every r, every p, and a seeded sample under a cost budget (60 points); dkLen every value 1..=130 at (r,p)=(1,1) and at (3,2) in both tiers; ScryptParams refusal matrix; non-trivial = non-empty inputs; distinct = distinct case lines'
TRUSTED = ["hand-written Lean models (lean/CxVerif/Impl, Spec) tied to the code by the correspondence run and by tables re-extracted from /repo/src"]
ASSUMPTIONS = ["scrypt: log_n <= 32 (`integerify` reads 32 bits; larger N needs >= 3 TiB of memory — see DESIGN 14.2/known findings), 128*r*N < 2^64, password/salt lengths < 2^61; PBKDF2/HKDF: PRF input lengths within the hash's limits"]
gen = _auto.make_gen("C10")
nontrivial = _auto.default_nontrivial
