"""C11 — generated wiring; generators come from tools/gens/*.py (gen_C11) of the units in tools/units.py."""
from props import _auto

LEAN_MODULES = _auto.lean_modules("C11")
VARIANTS = ['default']
RULE = '(type, version, t 1..=4, p 1..=5, m from 8p incl. non-multiples of 4p and segment length >128, tag 4..=300, empty/long pwd/salt/key/aad); non-trivial = non-empty password; distinct = distinct case lines'
TRUSTED = ["hand-written Lean models (lean/CxVerif/Impl, Spec) tied to the code by the correspondence run and by tables re-extracted from /repo/src"]
ASSUMPTIONS = []
gen = _auto.make_gen("C11")
nontrivial = _auto.default_nontrivial
