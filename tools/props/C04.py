"""C04 — generated wiring; generators come from tools/gens/*.py (gen_C04) of the units in tools/units.py."""
from props import _auto

LEAN_MODULES = _auto.lean_modules("C04")
VARIANTS = ['default']
RULE = 'every history to depth 3 (quick) / 4 (thorough) over {process, process_mut, seek, clone, swap} with lengths straddling 64 for R=20 and the longest key of each of the 5 variants, and to depth 2 (quick) / 3 (thorough) once per remaining (R in {8,12,20}, key length in {16,32}); a first call of every length 0..63 followed by a call ending one byte before / on / one byte after the block boundary; seek from every offset 0..63; random deeper histories, partitions against the one-shot call, involution; DRG: every request sequence over {bytes<N>, fill_bytes, fill_slice, u32, u64} to depth 3 (both tiers, complete) over buffers pre-filled with 00 / ff / random for R=20 (thorough: depth 4 over zeroed buffers), to depth 2 for R=8 and R=12, u32/u64 from every offset 0..63 of the cached block, random request sequences for every R; non-trivial = non-empty data; distinct = distinct case lines'
TRUSTED = ["hand-written Lean models (lean/CxVerif/Impl, Spec) tied to the code by the correspondence run and by tables re-extracted from /repo/src"]
ASSUMPTIONS = ['data lengths < 2^64 per call (usize); `clone` independence is a correspondence obligation as in C02']
gen = _auto.make_gen("C04")
nontrivial = _auto.default_nontrivial
