"""C04 — generated wiring; generators come from tools/gens/*.py (gen_C04) of the units in tools/units.py."""
from props import _auto

LEAN_MODULES = _auto.lean_modules("C04")
VARIANTS = ['default']
RULE = 'histories to depth 4 over {process, process_mut, seek, clone} with lengths straddling 64 in every phase; DRG request sequences over pre-filled buffers; non-trivial = non-empty data; distinct = distinct case lines'
TRUSTED = ["hand-written Lean models (lean/CxVerif/Impl, Spec) tied to the code by the correspondence run and by tables re-extracted from /repo/src"]
ASSUMPTIONS = ['data lengths < 2^64 per call (usize); `clone` independence is a correspondence obligation as in C02']
gen = _auto.make_gen("C04")
nontrivial = _auto.default_nontrivial
