"""C03 — generated wiring; generators come from tools/gens/*.py (gen_C03) of the units in tools/units.py."""
from props import _auto

LEAN_MODULES = _auto.lean_modules("C03")
VARIANTS = ['default']
RULE = 'all (variant, rounds, key length) x start blocks {0,1,2^32-2,2^32-1,random} (seek / counter hooks, incl. 64-bit counters next to 2^32-1 and 2^64-1) x lengths {0,1,63,64,65,127,128,129,300}; engine-level ops on the portable and native engines; non-trivial = non-empty data; distinct = distinct case lines'
TRUSTED = ["hand-written Lean models (lean/CxVerif/Impl, Spec) tied to the code by the correspondence run and by tables re-extracted from /repo/src"]
ASSUMPTIONS = ["X-variants take &[u8; 32] keys by type; 64-bit counters beyond the public API's reach are exercised through the hook verif_set_counter64"]
gen = _auto.make_gen("C03")
nontrivial = _auto.default_nontrivial
