"""C01 — generated wiring; generators come from tools/gens/*.py (gen_C01) of the units in tools/units.py."""
from props import _auto

LEAN_MODULES = _auto.lean_modules("C01")
VARIANTS = ['default']
RULE = 'every length 0..=4*block+1 exhaustively for each fixed variant — 22 fixed variants exist and are exercised as `hash.<alg>` ops: the 16 fixed algorithms (SHA-1, SHA-224/256/384/512, SHA-512/224, SHA-512/256, SHA3-224/256/384/512, Keccak-224/256/384/512, RIPEMD-160) plus the 6 fixed-size BLAKE2 one-shots blake2b_224/256/384/512, blake2s_224/256 (the property text counts 25; src/hashing has no further fixed variant; 20 of the 22 have a one-shot function in hashing/mod.rs, SHA-512/224 and SHA-512/256 are context-only; every one is also answered through Context::new().update(msg).finalize()) —, BLAKE2 outlen x keylen grids (quick: 5 x 4 boundary values, thorough: every outlen 1..=max x every keylen 0..=max) x boundary lengths, messages beyond 4 blocks for every variant incl. the six BLAKE2 one-shots, random long messages up to 8 KiB (quick) / 64 KiB (thorough) and one 64 KiB message per variant in both tiers; non-trivial = message or key not all zero/empty; distinct = distinct case lines'
TRUSTED = ["hand-written Lean models (lean/CxVerif/Impl, Spec) tied to the code by the correspondence run and by tables re-extracted from /repo/src"]
ASSUMPTIONS = ["messages shorter than the standards' own limits: < 2^61 bytes (SHA-1, SHA-224/256, RIPEMD-160), < 2^125 bytes (SHA-384/512/t); SHA-3/Keccak/BLAKE2 < 2^64 bytes (usize) — lengths beyond 64 KiB are exercised only through hook-preset counters (hlen ops) and self-consistency (long.* ops), not byte-for-byte against the Spec", 'the processed-bytes counters are modelled as wrapping (release semantics); the overflow-checked behaviour at the counter limit belongs to C20']
gen = _auto.make_gen("C01")
nontrivial = _auto.default_nontrivial
