"""C01 — generated wiring; generators come from tools/gens/*.py (gen_C01) of the units in tools/units.py."""
from props import _auto

LEAN_MODULES = _auto.lean_modules("C01")
VARIANTS = ['default']
RULE = 'every length 0..=4*block+1 exhaustively for each fixed variant, BLAKE2 outlen x keylen grids x boundary lengths, random long messages; non-trivial = message or key not all zero/empty; distinct = distinct case lines'
TRUSTED = ["hand-written Lean models (lean/CxVerif/Impl, Spec) tied to the code by the correspondence run and by tables re-extracted from /repo/src"]
ASSUMPTIONS = ["messages shorter than the standards' own limits: < 2^61 bytes (SHA-1, SHA-224/256, RIPEMD-160), < 2^125 bytes (SHA-384/512/t); SHA-3/Keccak/BLAKE2 < 2^64 bytes (usize) — lengths beyond 64 KiB are exercised only through hook-preset counters (hlen ops) and self-consistency (long.* ops), not byte-for-byte against the Spec", 'the processed-bytes counters are modelled as wrapping (release semantics); the overflow-checked behaviour at the counter limit belongs to C20']
gen = _auto.make_gen("C01")
nontrivial = _auto.default_nontrivial
