"""C07 — generated wiring; generators come from tools/gens/*.py (gen_C07) of the units in tools/units.py."""
from props import _auto

LEAN_MODULES = _auto.lean_modules("C07")
VARIANTS = ['default']
RULE = 'valid tuples and every tag bit flip, sampled bit flips of ct/aad/key/nonce, boundary moves, length swaps, truncation/extension, pad confusion; every mutated tuple through the one-shot function and the incremental interface, and through the one-shot OBJECT (aead.one) and the output-buffer-revealing call (aead.openbuf) (quick: the two take turns, thorough: both; every 8th tag bit); non-trivial = mutated case; distinct = distinct case lines'
TRUSTED = ["hand-written Lean models (lean/CxVerif/Impl, Spec) tied to the code by the correspondence run and by tables re-extracted from /repo/src"]
PROOF_SCOPE = "complete for the tag clause and the decision logic; the 'any modified input is rejected' clause is true only up to a Poly1305 collision (stated as a theorem, sampled)"
ASSUMPTIONS = ["the clause 'any change of ciphertext, AAD, nonce or key is rejected' holds only up to a Poly1305 collision for the one-time key (inherent to the construction; stated as `modified_input_accepted_iff_collision`, sampled); the tag clause (all 128 bit flips) is proved"]
gen = _auto.make_gen("C07")
nontrivial = _auto.default_nontrivial
