"""C13 — generated wiring; generators come from tools/gens/*.py (gen_C13) of the units in tools/units.py."""
from props import _auto

LEAN_MODULES = _auto.lean_modules("C13")
VARIANTS = ['default']
RULE = 'seeds x message lengths 0..=300 (+larger), lengths straddling SHA-512 blocks after the 32/64-byte prefixes; extended-secret signing, exchange; non-trivial = any; distinct = distinct case lines'
TRUSTED = ["hand-written Lean models (lean/CxVerif/Impl, Spec) tied to the code by the correspondence run and by tables re-extracted from /repo/src"]
ASSUMPTIONS = []
gen = _auto.make_gen("C13")
nontrivial = _auto.default_nontrivial
