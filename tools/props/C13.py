"""C13 — generated wiring; generators come from tools/gens/*.py (gen_C13) of the units in tools/units.py."""
from props import _auto

LEAN_MODULES = _auto.lean_modules("C13")
VARIANTS = ['default']
RULE = 'seeds x every message length 0..=300 for ed25519.sign in both tiers (+ larger: 1000..65536), lengths straddling SHA-512 blocks after the 32/64-byte prefixes; extended-secret signing (quick: every 4th length to 130 and the block edges), exchange; non-trivial = any; distinct = distinct case lines'
TRUSTED = ["hand-written Lean models (lean/CxVerif/Impl, Spec) tied to the code by the correspondence run and by tables re-extracted from /repo/src"]
ASSUMPTIONS = []
gen = _auto.make_gen("C13")
nontrivial = _auto.default_nontrivial
