"""C18 — constant-time predicates and selectors return the ordinary answer."""
from props import _auto as _auto_mods
LEAN_MODULES = _auto_mods.lean_modules("C18")
VARIANTS = ["default"]
RULE = ("all 2^16 byte pairs (thorough; quick: a 4096-pair stratified subset incl. every a==b and |a-b|<=1), all pairs "
        "over the 64-bit boundary set for 8 predicates, u64 zero/nonzero on every single-bit value, its complement and random values, "
        "random 64-bit pairs, byte/word arrays of length 0..=40 (words 0..=12) equal (eq, ne, lt, ge and the slice forms) or "
        "differing in exactly one position (every position; zero/nonzero of arrays and slices with a single non-zero byte at every "
        "position), slices with unequal lengths in both orders for eq and ne (refused), every (choice,array) "
        "combination for swap/set, CtOption over both choices x boundary and random payloads, MacResult/Tag equality; a case is non-trivial when the operands are not both zero; "
        "distinct = distinct case lines")
TRUSTED = ["hand-written model Impl/ConstantTime.lean of src/constant_time.rs (tied by the correspondence run)",
           "i16/i8 intermediates of the byte-array borrow chain are modelled in Int (range theorem borrowStep_i16_range)"]
ASSUMPTIONS = ["[i32;N] helpers are modelled on the u32 bit patterns",
               "only is_true()/is_false() of a Choice are observable; both are compared"]

B64 = [0, 1, 2, 2**31 - 1, 2**31, 2**31 + 1, 2**32 - 1, 2**32, 2**32 + 1, 2**63 - 2, 2**63 - 1, 2**63, 2**63 + 1,
       2**64 - 3, 2**64 - 2, 2**64 - 1]


def gen(tier, rng):
    # u64 predicates over the boundary set squared + random
    for a in B64:
        yield (f"ct.u64.zero {a}", "u64.unary")
        yield (f"ct.u64.nonzero {a}", "u64.unary")
        for b in B64:
            for op in ("eq", "ne", "lt", "gt", "le", "ge"):
                yield (f"ct.u64.{op} {a} {b}", "u64.boundary")
    # zero / nonzero on every single-bit value (a fold that drops a bit or a half shows only there) and on random values
    for bit in range(64):
        for v in (1 << bit, (2**64 - 1) ^ (1 << bit)):
            yield (f"ct.u64.zero {v}", "u64.unary.bit")
            yield (f"ct.u64.nonzero {v}", "u64.unary.bit")
    for _ in range(64 if tier == "quick" else 1000):
        v = rng.getrandbits(rng.choice([64, 64, 32, 16, 8]))
        yield (f"ct.u64.zero {v}", "u64.unary.random")
        yield (f"ct.u64.nonzero {v}", "u64.unary.random")
    n = 300 if tier == "quick" else 4000
    for _ in range(n):
        a = rng.getrandbits(64)
        b = rng.choice([rng.getrandbits(64), a, (a + 1) % 2**64, (a - 1) % 2**64, a ^ (1 << rng.randrange(64))])
        for op in ("eq", "ne", "lt", "gt", "le", "ge"):
            yield (f"ct.u64.{op} {a} {b}", "u64.random")
    # bytes
    for a in range(256):
        yield (f"ct.u8.zero {a}", "u8.unary")
        yield (f"ct.u8.nonzero {a}", "u8.unary")
    for a in range(256):
        for b in range(256):
            if tier == "thorough" or abs(a - b) <= 1 or (a * 7 + b * 13) % 17 == 0:
                yield (f"ct.u8.eq {a} {b}", "u8.pair")
                yield (f"ct.u8.ne {a} {b}", "u8.pair")
    # arrays
    for n in range(0, 41):
        base = rng.rbytes(n)
        zero = bytes(n)
        for arr, k in ((base, "arr8.random"), (zero, "arr8.zero")):
            yield (f"ct.arr8.zero {cxhx(arr)}", k)
            yield (f"ct.arr8.nonzero {cxhx(arr)}", k)
            yield (f"ct.arr8.eq {cxhx(arr)} {cxhx(arr)}", k)
            yield (f"ct.arr8.ne {cxhx(arr)} {cxhx(arr)}", k)
            yield (f"ct.arr8.lt {cxhx(arr)} {cxhx(arr)}", k)
            yield (f"ct.arr8.ge {cxhx(arr)} {cxhx(arr)}", k)
            yield (f"ct.slice8.eq {cxhx(arr)} {cxhx(arr)}", k)
            yield (f"ct.slice8.ne {cxhx(arr)} {cxhx(arr)}", k)
            yield (f"ct.macresult.eq {cxhx(arr)} {cxhx(arr)}", k)
        for pos in range(n):
            for delta in ((1, 255, 128) if tier == "thorough" else (1, 128)):
                oth = bytearray(base)
                oth[pos] = (oth[pos] + delta) % 256
                oth = bytes(oth)
                z1 = bytearray(zero)
                z1[pos] = delta
                yield (f"ct.arr8.zero {cxhx(z1)}", "arr8.onepos")
                yield (f"ct.arr8.nonzero {cxhx(z1)}", "arr8.onepos")
                for op in ("arr8.eq", "arr8.ne", "arr8.lt", "arr8.ge", "slice8.eq", "slice8.ne", "macresult.eq"):
                    yield (f"ct.{op} {cxhx(base)} {cxhx(oth)}", "arr8.onepos")
                    yield (f"ct.{op} {cxhx(oth)} {cxhx(base)}", "arr8.onepos")
        # big-endian order: random pairs sharing a prefix, borrow propagation through 00/ff runs
        if n > 0:
            for _ in range(4 if tier == "quick" else 20):
                k = rng.randrange(n)
                a = bytearray(base)
                b = bytearray(base)
                for j in range(k, n):
                    a[j] = rng.choice([0, 255, rng.randrange(256)])
                    b[j] = rng.choice([0, 255, rng.randrange(256), a[j]])
                yield (f"ct.arr8.lt {cxhx(a)} {cxhx(b)}", "arr8.order")
                yield (f"ct.arr8.ge {cxhx(a)} {cxhx(b)}", "arr8.order")
        # borrow/carry entering a limb that is all ff (or all 00) in both operands, for limb widths 1, 2, 4, 8, 16 aligned
        # from the least-significant end: a multi-byte-limb subtraction that computes `x < y + borrow` wraps exactly here
        for w in (1, 2, 4, 8, 16):
            for i in range(1, n // w):
                lo, hi = n - (i + 1) * w, n - i * w
                for fill in (0xff, 0x00):
                    a = bytearray(base)
                    b = bytearray(base)
                    a[lo:hi] = bytes([fill]) * w
                    b[lo:hi] = bytes([fill]) * w
                    low_b = int.from_bytes(rng.rbytes(n - hi), "big") | 1
                    low_a = low_b - 1 if (i + w) % 2 else rng.randrange(low_b)
                    a[hi:] = low_a.to_bytes(n - hi, "big")
                    b[hi:] = low_b.to_bytes(n - hi, "big")
                    for x, y in ((a, b), (b, a)):
                        yield (f"ct.arr8.lt {cxhx(x)} {cxhx(y)}", "arr8.limbrun")
                        yield (f"ct.arr8.ge {cxhx(x)} {cxhx(y)}", "arr8.limbrun")
        # unequal lengths
        yield (f"ct.slice8.eq {cxhx(base)} {cxhx(base + b'x')}", "slice.lenmismatch")
        yield (f"ct.slice8.eq {cxhx(base + b'x')} {cxhx(base)}", "slice.lenmismatch")
        yield (f"ct.slice8.ne {cxhx(base)} {cxhx(base + b'x')}", "slice.lenmismatch")
        yield (f"ct.slice8.ne {cxhx(base + bytes(1))} {cxhx(base)}", "slice.lenmismatch")
        yield (f"ct.macresult.eq {cxhx(base)} {cxhx(base + bytes(1))}", "macresult.lenmismatch")
        yield (f"ct.macresult.eq {cxhx(base + bytes(1))} {cxhx(base)}", "macresult.lenmismatch")
    # word arrays
    for n in range(0, 13):
        base = rng.rbytes(8 * n)
        zero = bytes(8 * n)
        for op in ("arr64.zero", "arr64.nonzero", "slice64.zero", "slice64.nonzero"):
            yield (f"ct.{op} {cxhx(base)}", "arr64")
            yield (f"ct.{op} {cxhx(zero)}", "arr64")
        for op in ("arr64.eq", "arr64.ne", "slice64.eq", "slice64.ne"):
            yield (f"ct.{op} {cxhx(base)} {cxhx(base)}", "arr64")
        yield (f"ct.slice64.eq {cxhx(base)} {cxhx(base + bytes(8))}", "slice.lenmismatch")
        yield (f"ct.slice64.eq {cxhx(base + rng.rbytes(8))} {cxhx(base)}", "slice.lenmismatch")
        yield (f"ct.slice64.ne {cxhx(base)} {cxhx(base + bytes(8))}", "slice.lenmismatch")
        yield (f"ct.slice64.ne {cxhx(base + rng.rbytes(8))} {cxhx(base)}", "slice.lenmismatch")
        for pos in range(8 * n):
            oth = bytearray(base)
            oth[pos] ^= 1 << rng.randrange(8)
            z1 = bytearray(zero)
            z1[pos] = 1 << rng.randrange(8)
            for op in ("arr64.zero", "arr64.nonzero", "slice64.zero", "slice64.nonzero"):
                yield (f"ct.{op} {cxhx(z1)}", "arr64.onepos")
            for op in ("arr64.eq", "arr64.ne", "slice64.eq", "slice64.ne"):
                yield (f"ct.{op} {cxhx(base)} {cxhx(oth)}", "arr64.onepos")
    # tags
    for _ in range(8):
        t = rng.rbytes(16)
        yield (f"ct.tag.eq {cxhx(t)} {cxhx(t)}", "tag")
        yield (f"ct.tag.ne {cxhx(t)} {cxhx(t)}", "tag")
        for bit in range(128):
            o = bytearray(t)
            o[bit // 8] ^= 1 << (bit % 8)
            yield (f"ct.tag.eq {cxhx(t)} {cxhx(o)}", "tag.bitflip")
            yield (f"ct.tag.ne {cxhx(t)} {cxhx(o)}", "tag.bitflip")
    # cancellation patterns: differences that vanish under a XOR-, ADD- or word-fold of the operands
    def cancel_pairs(base, word):
        n = len(base)
        out = []
        for i in range(n):
            for j in range(i + 1, n):
                if tier == "quick" and not ((j - i) % word == 0 or j - i == 1 or (i * 31 + j * 17) % 11 == 0):
                    continue
                d = 1 << rng.randrange(8)
                o = bytearray(base); o[i] ^= d; o[j] ^= d                      # XOR of all bytes unchanged
                out.append(bytes(o))
                o = bytearray(base); e = rng.randrange(1, 256)
                o[i] = (o[i] + e) % 256; o[j] = (o[j] - e) % 256               # sum of all bytes unchanged
                out.append(bytes(o))
        if n >= 2:
            o = bytearray(base); o[0], o[n - 1] = o[n - 1], o[0]
            out.append(bytes(o))                                               # permutation
            out.append(bytes(base[::-1]))
            out.append(bytes(b ^ 0xff for b in base))                          # every byte differs
            out.append(bytes(b ^ 0x80 for b in base))
        return [o for o in out if o != base]
    for _ in range(2 if tier == "quick" else 6):
        t = rng.rbytes(16)
        for o in cancel_pairs(t, 8):
            yield (f"ct.tag.eq {cxhx(t)} {cxhx(o)}", "tag.cancel")
            yield (f"ct.tag.ne {cxhx(t)} {cxhx(o)}", "tag.cancel")
            yield (f"ct.macresult.eq {cxhx(t)} {cxhx(o)}", "macresult.cancel")
    for n in (2, 3, 4, 8, 9, 16, 17, 32, 40):
        base = rng.rbytes(n)
        for o in cancel_pairs(base, 8):
            for op in ("arr8.eq", "arr8.ne", "slice8.eq", "macresult.eq", "arr8.lt", "arr8.ge"):
                yield (f"ct.{op} {cxhx(base)} {cxhx(o)}", "arr8.cancel")
    for n in (2, 3, 4, 8):
        base = rng.rbytes(8 * n)
        for o in cancel_pairs(base, 8):
            for op in ("arr64.eq", "arr64.ne", "slice64.eq"):
                yield (f"ct.{op} {cxhx(base)} {cxhx(o)}", "arr64.cancel")
    # choices
    for a in (0, 1):
        yield (f"ct.choice.not {a}", "choice")
        yield (f"ct.choice.bool {a}", "choice")
        for v in (0, 1, 2**63, 2**64 - 1, rng.getrandbits(64), rng.getrandbits(64), rng.getrandbits(32), 1 << rng.randrange(64)):
            yield (f"ct.option {a} {v}", "choice.option")
        for b in (0, 1):
            for op in ("and", "or", "xor"):
                yield (f"ct.choice.{op} {a} {b}", "choice")
    # masked swap / set
    for n in range(0, 11):
        for c in (0, 1):
            for _ in range(3):
                x, y = rng.rbytes(8 * n), rng.rbytes(8 * n)
                yield (f"ct.swap64 {c} {cxhx(x)} {cxhx(y)}", "swapset")
                yield (f"ct.set64 {c} {cxhx(x)} {cxhx(y)}", "swapset")
                x, y = rng.rbytes(4 * n), rng.rbytes(4 * n)
                yield (f"ct.swap32 {c} {cxhx(x)} {cxhx(y)}", "swapset")
                yield (f"ct.set32 {c} {cxhx(x)} {cxhx(y)}", "swapset")


def cxhx(b):
    return "-" if len(b) == 0 else bytes(b).hex()


def nontrivial(line, kind, row):
    toks = line.split(" ")[1:]
    return any(t.strip("0-") for t in toks)
