"""C09 — generated wiring; generators come from tools/gens/*.py (gen_C09) of the units in tools/units.py."""
from props import _auto

LEAN_MODULES = _auto.lean_modules("C09")
VARIANTS = ['default']
RULE = 'all MAC/legacy digest types x histories to depth 4 (quick) / 6 (thorough) over {input, result, raw_result, reset, clone} incl. repeated results and block-multiple messages; non-trivial = history contains data; distinct = distinct case lines'
TRUSTED = ["hand-written Lean models (lean/CxVerif/Impl, Spec) tied to the code by the correspondence run and by tables re-extracted from /repo/src"]
ASSUMPTIONS = ['length guards of the underlying hash/MAC as in C01/C05; `clone` independence is a correspondence obligation']
gen = _auto.make_gen("C09")
nontrivial = _auto.default_nontrivial
