"""C09 — generated wiring; generators come from tools/gens/*.py (gen_C09) of the units in tools/units.py."""
from props import _auto

LEAN_MODULES = _auto.lean_modules("C09")
VARIANTS = ['default']
RULE = 'all 21 MAC/legacy digest types: EVERY history to depth 4 over {input, result, raw_result, reset} for every HMAC type (objects are not Clone) and over {input, result, raw_result, reset, clone, swap} for every legacy digest type and the keyed BLAKE2 MACs (thorough: depth 5 without the clone letters for one type per engine family), directed repeated-result / block-multiple histories, re-keying transitions, random histories to depth 4 (quick) / 6 (thorough); non-trivial = history contains data; distinct = distinct case lines'
TRUSTED = ["hand-written Lean models (lean/CxVerif/Impl, Spec) tied to the code by the correspondence run and by tables re-extracted from /repo/src"]
ASSUMPTIONS = ['length guards of the underlying hash/MAC as in C01/C05; `clone` independence is a correspondence obligation']
gen = _auto.make_gen("C09")
nontrivial = _auto.default_nontrivial
