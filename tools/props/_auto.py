"""Builds the per-property module contents from tools/units.py."""
import importlib
import os
import sys

sys.path.insert(0, os.path.dirname(os.path.dirname(os.path.abspath(__file__))))
from units import UNITS  # noqa: E402


def lean_modules(prop):
    mods = []
    for u in UNITS.values():
        mods += u.get("props", {}).get(prop, [])
    return mods


def gens(prop):
    fs = []
    for name, u in UNITS.items():
        g = u.get("gens")
        if not g:
            continue
        mod = importlib.import_module("gens." + g)
        f = getattr(mod, "gen_" + prop, None)
        if f:
            fs.append((name, f))
    return fs


def make_gen(prop, only=None):
    def gen(tier, rng):
        for name, f in gens(prop):
            if only and name not in only:
                continue
            for line, kind in f(tier, rng):
                yield (line, f"{name}:{kind}")
    return gen


def default_nontrivial(line, kind, row):
    toks = line.split(" ")[1:]
    return any(t.strip("0-,;_") for t in toks)
