"""Builds the per-property module contents from tools/units.py."""
import importlib
import os
import sys

sys.path.insert(0, os.path.dirname(os.path.dirname(os.path.abspath(__file__))))
from units import UNITS  # noqa: E402


# properties whose theorems rest on another property's model: the translator-tie theorems of the foundation are
# obligations of the dependent property too (a changed limb kernel invalidates the composition)
DEP_MODULES = {
    "C03": ["CxVerif.Props.C16.KernelTieChaCha"],
    "C04": ["CxVerif.Props.C03.KernelTie", "CxVerif.Props.C16.KernelTieChaCha"],
    "C06": ["CxVerif.Props.C05.KernelTie", "CxVerif.Props.C05.KernelTieNew", "CxVerif.Props.C03.KernelTie", "CxVerif.Props.C16.KernelTieChaCha"],
    "C07": ["CxVerif.Props.C05.KernelTie", "CxVerif.Props.C05.KernelTieNew", "CxVerif.Props.C03.KernelTie", "CxVerif.Props.C16.KernelTieChaCha"],
    # C20's overflow-freedom clause rests on the no-overflow obligations of the arithmetic units and on the refusal
    # behaviour proved with the functional theorems: those modules are obligations of C20 too
    "C20": ["CxVerif.Props.C05.Poly1305", "CxVerif.Props.C05.KernelTie", "CxVerif.Props.C15.Fe64", "CxVerif.Props.C15.KernelTieFe64",
            "CxVerif.Props.C15.Scalar64", "CxVerif.Props.C15.KernelTieScalar64", "CxVerif.Props.C03.KernelTie",
            "CxVerif.Props.C04.GlueTieStream", "CxVerif.Props.C01.GlueTieMd", "CxVerif.Props.C10.Kdf", "CxVerif.Props.C11.Argon2Full"],
    "C09": ["CxVerif.Props.C05.KernelTie", "CxVerif.Props.C05.KernelTieNew", "CxVerif.Props.C01.KernelTieSha256", "CxVerif.Props.C01.KernelTieSha512",
            "CxVerif.Props.C01.KernelTieKeccak", "CxVerif.Props.C01.KernelTieBlake2"],
    "C10": ["CxVerif.Props.C01.KernelTieSha256", "CxVerif.Props.C01.KernelTieSha512", "CxVerif.Props.C01.KernelTieSha1"],
    "C11": ["CxVerif.Props.C01.KernelTieBlake2"],
    "C12": ["CxVerif.Props.C15.KernelTieFe64"],
    "C13": ["CxVerif.Props.C15.KernelTieFe64", "CxVerif.Props.C15.KernelTieScalar64", "CxVerif.Props.C01.KernelTieSha512"],
    "C14": ["CxVerif.Props.C15.KernelTieFe64", "CxVerif.Props.C15.KernelTieScalar64", "CxVerif.Props.C01.KernelTieSha512"],
    "C17": ["CxVerif.Props.C15.KernelTieFe64", "CxVerif.Props.C15.KernelTieScalar64"],
}


def lean_modules(prop):
    mods = []
    for u in UNITS.values():
        mods += u.get("props", {}).get(prop, [])
    for m in DEP_MODULES.get(prop, []):
        if m not in mods:
            mods.append(m)
    return mods


def gens(prop):
    fs = []
    for name, u in UNITS.items():
        g = u.get("gens")
        if not g:
            continue
        mod = importlib.import_module("gens." + g)
        f = getattr(mod, "gen_" + prop, None)
        if f:
            fs.append((name, f))
    return fs


# neighbouring properties whose workloads also exercise this property's code: a deterministic sample (every k-th case
# WITHIN each (op, kind) class of their quick generators, the first of each class always kept — see `thin`) is appended,
# so that a change manifesting only through the neighbour's usage pattern (chunking, reset-before-result, …) is seen by
# this check too
ALSO = {
    "C01": {"C02": 50}, "C02": {"C01": 10}, "C03": {"C04": 4}, "C04": {"C03": 4},
    "C05": {"C09": 20}, "C06": {"C07": 10, "C05": 4, "C03": 3}, "C07": {"C06": 10, "C05": 6, "C03": 6},
    "C08": {"C09": 4}, "C09": {"C08": 3, "C05": 10}, "C10": {"C09": 20, "C08": 5},
    "C12": {"C15": 20}, "C13": {"C14": 5, "C15": 30}, "C14": {"C13": 3, "C15": 30}, "C15": {"C12": 10, "C13": 5, "C14": 5},
}


def thin(cases, k, keep=None):
    """every k-th case WITHIN each (op, kind) class, always keeping the first of each class.  (A global `i % k` stride
    aliases with generators that cycle through their kinds: whole kinds and whole ops disappeared from the reused
    workloads.)  `keep(line, kind)` = False drops a case before it is counted."""
    seen = {}
    for line, kind in cases:
        if keep is not None and not keep(line, kind):
            continue
        key = (line.split(" ", 1)[0], kind)
        n = seen.get(key, 0)
        seen[key] = n + 1
        if n % k == 0:
            yield (line, kind)


def make_gen(prop, only=None, also=True):
    def gen(tier, rng):
        for name, f in gens(prop):
            if only and name not in only:
                continue
            for line, kind in f(tier, rng):
                yield (line, f"{name}:{kind}")
        if also:
            for other, k in ALSO.get(prop, {}).items():
                def neighbour():
                    for name, f in gens(other):
                        for line, kind in f("quick", rng):
                            yield (line, f"{other}/{name}:{kind}")
                yield from thin(neighbour(), k)
    return gen


def default_nontrivial(line, kind, row):
    toks = line.split(" ")[1:]
    return any(t.strip("0-,;_") for t in toks)
