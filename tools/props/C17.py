"""C17 — generated wiring; generators come from tools/gens/*.py (gen_C17) of the units in tools/units.py."""
from props import _auto

LEAN_MODULES = _auto.lean_modules("C17")
VARIANTS = ['default', 'force32']
RULE = 'the C12-C15 workloads run through the default and the force-32bits harness binaries, compared with each other and with the Spec; non-trivial = any; distinct = distinct case lines'
TRUSTED = ["hand-written Lean models (lean/CxVerif/Impl, Spec) tied to the code by the correspondence run and by tables re-extracted from /repo/src"]
ASSUMPTIONS = []
gen = _auto.make_gen("C17")
nontrivial = _auto.default_nontrivial
