"""C17 — the 32-bit and 64-bit curve backends are observationally equivalent.
The C12–C15 workloads run through the default and the force-32bits harness binaries; both must answer what the
Spec answers (hence the same as each other). That the feature build compiles is part of the property."""
from props import _auto

LEAN_MODULES = _auto.lean_modules("C17")
VARIANTS = ["default", "force32"]
BUILD_FAILURE_IS_VIOLATION = {"force32": True}
RULE = ("unit generators gen_C17 plus the C12, C13, C14, C15 workloads of the same tier (ops that exist in both backends; thorough: every "
        "case; quick: every 2nd / 2nd / 2nd / 3rd case WITHIN each (op, kind) class, the first of each class always kept), run through the default and "
        "the force-32bits builds and compared byte for byte with each other and with the Spec; non-trivial = any; distinct = distinct case lines")
TRUSTED = ["hand-written Lean models tied to the code by the correspondence run",
           "field, scalar, group, ladder and protocol layers of the 32-bit backend are proved equal to the Spec (Props/C17/B32, Sc32, Group32) and "
           "translated from the source under the force-32bits cfg table and tied (KernelTieB32, GlueTieRest, GlueTieCurve32); both builds are also run"]
PROOF_SCOPE = 'partial by nature: field and scalar layers of both backends are proved equivalent (incl. ref10 sc_reduce/sc_muladd); the group/protocol layers on the 32-bit backend are compared by running both builds; which backend a target selects is a build matter'
ASSUMPTIONS = []
nontrivial = _auto.default_nontrivial
# ops that only exist for the 64-bit backend (hooks on 56-bit-limb internals) are skipped for force32
ONLY64 = ("scalar.add ", "scalar.mul ", "scalar64.", "fe64.", "ktie.")
L = 2 ** 252 + 27742317777372353535851937790883648493


def in_domain(line):
    """crate-private `muladd` (reached through a hook) is only ever called with a reduced addend; outside that domain the
    two backends legitimately differ (one conditional subtraction vs full reduction) and nothing public can observe it"""
    if line.startswith("scalar.muladd "):
        c = line.split(" ")[3]
        return int.from_bytes(bytes.fromhex(c), "little") < L
    return True


def gen(tier, rng):
    yield from _auto.make_gen("C17")(tier, rng)
    for prop, k in (("C12", 2), ("C13", 2), ("C14", 2), ("C15", 3)):
        def src(prop=prop):
            for line, kind in _auto.make_gen(prop, also=False)(tier, rng):
                yield (line, f"{prop}/{kind}")
        # quick: every k-th case WITHIN each (op, kind) class of the ops both backends have (the first of each class is always
        # kept, so no op and no kind of the C12-C15 workloads is lost); thorough: all of them
        yield from _auto.thin(src(), k if tier == "quick" else 1,
                              keep=lambda line, kind: not line.startswith(ONLY64) and in_domain(line))
