"""C19 — secret values never influence which instructions execute.

Dynamic part: the optimised (`release`) harness binary executes each operation between two markers under an
instruction tracer (tools/pctrace.py: valgrind lackey; tools/pctrace.c: ptrace single-step cross-check in the
thorough tier); for fixed public inputs the sequence of instruction addresses must be identical for every secret.
A deliberately variable-time control (ed25519 verify on two different public inputs) must differ — tracer sensitivity.
Lean part: theorems about leakage-instrumented models (Props/C19*.lean) — the trace of the modelled constant-time
building blocks is a function of public data only."""
import concurrent.futures as cf
import os
import subprocess
import sys

from props import _auto
sys.path.insert(0, os.path.dirname(os.path.dirname(os.path.abspath(__file__))))
import cxlib as cx  # noqa: E402
import pctrace  # noqa: E402

LEAN_MODULES = _auto.lean_modules("C19")
VARIANTS = ["release"]
RULE = ("for each traced operation: public inputs and all lengths fixed, secrets in {random x2, all-zero, all-ones, single low bit, single high "
        "bit, bit 1, bit 3, half-zero words} (thorough: + 4 random, a middle bit); operations: x25519.dh for u in {9, random, 0, 1, p-1, a small-order u of "
        "order 8} (thorough: + p, p+1, 2^255-1, 2^256-1), x25519.base, ed25519 keypair / sign / sign_ext, Poly1305 (tags, final reduction on explicit states), "
        "HMAC-SHA256/512/SHA1/SHA3-256/BLAKE2b and keyed BLAKE2b (BLAKE2s: thorough) with key lengths below / at / above the block size, ChaCha20 and Salsa20 with "
        "32- and 16-byte keys, ChaCha8, ChaCha12, XChaCha20, XSalsa20 (thorough: every variant x rounds x key length, ChaChaOriginal), AEAD decrypt "
        "(ChaCha20-Poly1305: rejecting tags with the first mismatch at every one of the 16 positions plus all-zero / all-ones tags under one key; accepting "
        "(key, tag) pairs over the key classes for 32- and 16-byte keys; thorough: rejecting key classes, several lengths); comparisons (MacResult ==, Tag ==): "
        "equal operands and a first mismatch at EVERY position for n <= 32 in both tiers (thorough: also n = 64); the PC-sequence hash of every member must equal "
        "that of the first; non-trivial = a pair of distinct secrets on the same public input; distinct = distinct (operation, public input, secret) triples")
TRUSTED = ["valgrind 3.19 lackey instruction trace (= the instructions the optimised binary executes; cross-checked against a ptrace single-step "
           "trace in the thorough tier)", "rustc -O code generation is observed, not proved: the Lean leakage theorems speak about the models"]
PROOF_SCOPE = 'partial by nature: the Lean leakage theorems speak about instrumented models (see the theorem list for which code they cover); the property itself — the instruction trace of the optimised binary — is observed with an instruction tracer on every listed operation'
ASSUMPTIONS = ["lengths, public keys, nonces, messages are public; keys, scalars, seeds, tags, plaintexts are secret",
               "memory-address traces (loads/stores) are also hashed and reported as information (mem_trace_equal) but are not part of the property"]


def gen(tier, rng):
    return iter(())


def nontrivial(line, kind, row):
    return True


def secrets(rng, n, tier):
    s = [rng.rbytes(n), rng.rbytes(n), bytes(n), b"\xff" * n, b"\x01" + bytes(n - 1), bytes(n - 1) + b"\x80",
         b"\x02" + bytes(n - 1), b"\x08" + bytes(n - 1), (bytes(8) + rng.rbytes(8)) * (n // 16) + bytes(n % 16)]
    if tier == "thorough":
        s += [rng.rbytes(n) for _ in range(4)] + [bytes(n // 2) + b"\x10" + bytes(n - n // 2 - 1)]
    return s


EXPECT_OUT = {}   # group label -> the (public) output every member must print; filled by plan()


def plan(tier, rng):
    """list of (group_label, [ (args list) ... ]) — all members of a group must have identical traces"""
    H = cx.hx
    groups = []
    EXPECT_OUT.clear()
    u9 = bytes([9]) + bytes(31)
    P = 2**255 - 19
    le = lambda v: (v % 2**256).to_bytes(32, "little")   # noqa: E731
    small8 = 325606250916557431795983626356110631294008115727848805560023387167927233504   # u of a point of order 8
    us = [("9", u9), ("random", rng.rbytes(32)), ("0", le(0)), ("1", le(1)), ("p-1", le(P - 1)), ("small-order-8", le(small8))]
    if tier == "thorough":
        us += [("p", le(P)), ("p+1", le(P + 1)), ("2^255-1", le(2**255 - 1)), ("2^256-1", b"\xff" * 32),
               ("small-order-8b", le(39382357235489614581723060781553021112529911719440698176882885853963445705823))]
    for name, u in us:
        groups.append((f"x25519.dh u={name}", [["x25519.dh", H(u), H(s)] for s in secrets(rng, 32, tier)]))
    groups.append(("x25519.base", [["x25519.base", H(s)] for s in secrets(rng, 32, tier)]))
    groups.append(("ed25519.keypair", [["ed25519.keypair", H(s)] for s in secrets(rng, 32, tier)]))
    for mlen in ([0, 100] if tier == "quick" else [0, 1, 63, 64, 100, 200]):
        m = rng.rbytes(mlen)
        groups.append((f"ed25519.sign len={mlen}", [["ed25519.sign", H(m), H(s)] for s in secrets(rng, 32, tier)]))
    m = rng.rbytes(40)
    groups.append(("ed25519.sign_ext", [["ed25519.sign_ext", H(m), H(s)] for s in secrets(rng, 64, tier)]))
    for mlen in ([0, 15, 16, 64] if tier == "quick" else [0, 1, 15, 16, 17, 32, 64, 100, 256]):
        m = rng.rbytes(mlen)
        groups.append((f"poly1305.tag len={mlen}", [["poly1305.tag", H(m), H(s)] for s in secrets(rng, 32, tier)]))
    # final reduction of Poly1305 on explicit accumulator states: below p, exactly p-1 / p / p+1, top of the range, carries
    M = (1 << 26) - 1
    states = [[0] * 5, [M - 5, M, M, M, M], [M - 4, M, M, M, M], [M - 3, M, M, M, M], [M, M, M, M, M], [M, M + 60, M, M, M],
              [rng.getrandbits(26) for _ in range(5)], [rng.getrandbits(26) for _ in range(5)], [5, 0, 0, 0, 0], [M, M, M, M, 0]]
    pad = [rng.getrandbits(32) for _ in range(4)]
    groups.append(("poly1305.finish_state", [["poly1305.finish_state", "1,2,3,4,5", ",".join(map(str, pad)), ",".join(map(str, h))]
                                             for h in states]))
    # tags on messages that drive the accumulator to the top of its range (public message all-ones, small r)
    for mlen in (16, 32):
        groups.append((f"poly1305.tag ff*{mlen}", [["poly1305.tag", "ff" * mlen, H(k)] for k in
                                                  [bytes([r]) + bytes(31) for r in (1, 2, 3, 4)] + [rng.rbytes(32), b"\xff" * 32]]))
    for (alg, klens) in (("hmac.sha256", [32, 64, 65] if tier == "quick" else [0, 1, 32, 63, 64, 65, 130]),
                         ("hmac.sha512", [64] if tier == "quick" else [32, 128, 129])):
        for kl in klens:
            m = rng.rbytes(50)
            ss = [s for s in secrets(rng, max(kl, 1), tier)] if kl else [b""]
            ss = [s[:kl] for s in ss]
            if kl:
                groups.append((f"{alg} keylen={kl}", [[alg, H(m), H(s)] for s in ss]))
    more = [("hmac.sha1", [20, 65] if tier == "quick" else [1, 20, 63, 64, 65, 130]),
            ("hmac.sha3_256", [32, 137] if tier == "quick" else [1, 32, 135, 136, 137, 300]),
            ("hmac.blake2b", [64, 129] if tier == "quick" else [1, 64, 127, 128, 129, 300]),
            ("blake2b.mac", [64] if tier == "quick" else [1, 32, 63, 64])]
    if tier == "thorough":
        more.append(("blake2s.mac", [1, 16, 32]))
    for (alg, klens) in more:
        for kl in klens:
            m = rng.rbytes(50 if tier == "quick" else rng.choice([0, 50, 200]))
            ss = [s[:kl] for s in secrets(rng, kl, tier)]
            groups.append((f"{alg} keylen={kl}", [[alg, H(m), H(s)] for s in ss]))
    # stream ciphers beyond ChaCha20 / Salsa20 with a 32-byte key: reduced rounds, 16-byte keys ("expand 16-byte k"), the
    # extended-nonce variants (HChaCha / HSalsa key derivation runs on the secret key)
    NL = {"chacha": 12, "xchacha": 24, "chachaorig": 8, "salsa": 8, "xsalsa": 24}
    if tier == "quick":
        combos = [("chacha", 8, 32), ("chacha", 12, 16), ("chacha", 20, 16), ("salsa", 20, 16), ("xchacha", 20, 32), ("xsalsa", 20, 32)]
        dls = [100]
    else:
        combos = [(v, R, kl) for v in NL for R in (8, 12, 20) for kl in ((32,) if v[0] == "x" else (16, 32))
                  if not (v in ("chacha", "salsa") and R == 20 and kl == 32)]
        dls = [1, 64, 100, 300]
    for ci, (v, R, kl) in enumerate(combos):
        for dl in (dls if tier == "quick" else [dls[ci % len(dls)], dls[(ci + 1) % len(dls)]]):
            nonce = rng.rbytes(NL[v])
            members = [["stream.enc", v, str(R), H(nonce), str(dl), H(k), H(rng.rbytes(dl))] for k in secrets(rng, kl, tier)]
            groups.append((f"stream.enc {v}{R} keylen={kl} len={dl}", members))
    # AEAD decrypt: the verdict is public, everything before it is not.  (a) one key, REJECTING tags whose first mismatch
    # with the right tag sits at every position (later bytes random), all-zero and all-ones tags; (b) ACCEPTING (key, tag)
    # pairs over the key classes, 32- and 16-byte keys; thorough: (c) rejecting pairs over the key classes, more lengths
    from gens import aead as _A
    shapes = [(13, 70)] if tier == "quick" else [(13, 70), (0, 0), (16, 64), (1, 65)]
    for (la, ld) in shapes:
        nonce, aad, ct = rng.rbytes(12), rng.rbytes(la), rng.rbytes(ld)
        pub = ["aead.decrypt", H(nonce), H(aad), H(ct)]
        K = rng.rbytes(32)
        T = _A.ref_tag(20, K, nonce, aad, ct)
        members = []
        for p in range(16):
            o = bytearray(T)
            o[p] ^= 1 << rng.randrange(8)
            for q in range(p + 1, 16):
                o[q] = rng.randrange(256) if rng.random() < 0.5 else o[q]
            members.append(pub + [H(K), H(bytes(o))])
        members += [pub + [H(K), H(t)] for t in (bytes(16), b"\xff" * 16) if t != T]
        groups.append((f"aead.decrypt reject first-mismatch-position aad={la} ct={ld}", members))
        EXPECT_OUT[groups[-1][0]] = "false"
        for kl in (32, 16):
            groups.append((f"aead.decrypt accept keylen={kl} aad={la} ct={ld}",
                           [pub + [H(k), H(_A.ref_tag(20, k, nonce, aad, ct))] for k in secrets(rng, kl, tier)]))
            EXPECT_OUT[groups[-1][0]] = "true"
            if tier == "thorough":
                wrong = rng.rbytes(16)
                groups.append((f"aead.decrypt reject keylen={kl} aad={la} ct={ld}",
                               [pub + [H(k), H(wrong)] for k in secrets(rng, kl, tier)]))
                EXPECT_OUT[groups[-1][0]] = "false"
    for (op, nl) in (("chacha20.enc", 12), ("salsa20.enc", 8)):
        for dl in ([100] if tier == "quick" else [1, 64, 100, 300]):
            nonce = rng.rbytes(nl)
            members = []
            for k in secrets(rng, 32, tier):
                members.append([op, H(nonce), str(dl), H(k), H(rng.rbytes(dl))])
            groups.append((f"{op} len={dl}", members))
    # comparisons: equal, and first mismatch at each position
    for (op, n) in (("macresult.eq", 32), ("tag.eq", 16), ("macresult.eq", 64 if tier == "thorough" else 20)):
        ref = rng.rbytes(n)
        poss = range(n) if (tier == "thorough" or n <= 32) else sorted(set([0, 1, n // 2, n - 2, n - 1]))
        members = [[op, H(ref), H(ref)]]
        for p in poss:
            o = bytearray(ref)
            o[p] ^= 1 << rng.randrange(8)
            for q in range(p + 1, n):      # later bytes random: the FIRST mismatch is at p
                o[q] = rng.randrange(256) if rng.random() < 0.5 else o[q]
            members.append([op, H(ref), H(bytes(o))])
        groups.append((f"{op} n={n}", members))
    return groups


def extra_checks(tier, rng, variants, broken, failing):
    binp = cx.harness_bin("release")
    groups = plan(tier, rng)
    jobs = [(gi, mi, args) for gi, (_, ms) in enumerate(groups) for mi, args in enumerate(ms)]
    # tracer-sensitivity control: two honest signatures, different messages -> traces must differ
    ctrl = []
    for i in range(2):
        seed = rng.rbytes(32)
        msg = rng.rbytes(20)
        o = subprocess.run([binp, "trace", "ed25519.keypair", cx.hx(seed)], capture_output=True, text=True).stdout.strip()
        kp = bytes.fromhex(o)
        sig = subprocess.run([binp, "trace", "ed25519.sign", cx.hx(msg), cx.hx(seed)], capture_output=True, text=True).stdout.strip()
        ctrl.append(["control.verify", cx.hx(msg), kp[32:].hex(), sig])
    results = {}
    with cf.ProcessPoolExecutor(max_workers=cx.NCPU) as ex:
        futs = {ex.submit(pctrace.trace, binp, args): (gi, mi) for gi, mi, args in jobs}
        cfut = [ex.submit(pctrace.trace, binp, a) for a in ctrl]
        for f in cf.as_completed(futs):
            results[futs[f]] = f.result()
        cres = [f.result() for f in cfut]
    evaluations = len(jobs) + len(ctrl)
    nontriv = 0
    samples = []
    mem_equal = True
    for gi, (label, ms) in enumerate(groups):
        r0 = results[(gi, 0)]
        if "error" in r0:
            broken.append({"kind": "tracer", "theorem": None, "file": label, "message": r0["error"]})
            continue
        want_out = EXPECT_OUT.get(label)
        if want_out is not None:
            for mi in range(len(ms)):
                if "error" not in results[(gi, mi)] and results[(gi, mi)].get("out") != want_out:
                    broken.append({"kind": "tracer", "theorem": None, "file": label,
                                   "message": f"plan defect: member {mi} answers {results[(gi, mi)].get('out')!r}, the group is built to answer {want_out!r}"})
        for mi in range(1, len(ms)):
            r = results[(gi, mi)]
            nontriv += 1
            if "error" in r:
                broken.append({"kind": "tracer", "theorem": None, "file": label, "message": r["error"]})
            elif r["pc_hash"] != r0["pc_hash"] or r["steps"] != r0["steps"]:
                div = pctrace.first_divergence(binp, ms[0], ms[mi])
                failing.append({"line": "trace " + " ".join(ms[mi]), "kind": "trace:" + label,
                                "answers": {"reference": "trace " + " ".join(ms[0]), "steps": [r0["steps"], r["steps"]],
                                            "pc_hash": [r0["pc_hash"], r["pc_hash"]], "first_divergence": div},
                                "why": f"instruction trace differs from the one of the reference secret ({label}); first divergence {div}"})
            elif r["mem_hash"] != r0["mem_hash"]:
                mem_equal = False
        samples.append({"group": label, "members": len(ms), "steps": r0["steps"], "pc_hash": r0["pc_hash"], "example": ms[0][:2]})
    sens = ("error" not in cres[0] and "error" not in cres[1] and cres[0]["pc_hash"] != cres[1]["pc_hash"]
            and cres[0]["out"] == "true" and cres[1]["out"] == "true")
    if not sens:
        broken.append({"kind": "tracer", "theorem": None, "file": "control.verify",
                       "message": f"sensitivity control failed: {cres}"})
    xcheck = None
    if tier == "thorough":
        # ptrace single-step cross-check of one short operation: same number of steps as the valgrind trace
        pt = os.path.join(cx.CACHE, "bin", "pctrace")
        os.makedirs(os.path.dirname(pt), exist_ok=True)
        subprocess.run(["gcc", "-O2", "-o", pt, os.path.join(cx.VERIF, "tools", "pctrace.c")], check=False)
        args = ["tag.eq", "00" * 16, "00" * 15 + "01"]
        b, e = pctrace.marker_offsets(binp)
        o = subprocess.run([pt, hex(b)[2:], hex(e)[2:], "--", binp, "trace"] + args, capture_output=True, text=True).stdout
        v = pctrace.trace(binp, args)
        import re
        m = re.search(r"steps=(\d+)", o)
        xcheck = {"ptrace_steps": int(m.group(1)) if m else None, "valgrind_steps": v.get("steps")}
        if not m or abs(int(m.group(1)) - v.get("steps", -1)) > 1:
            broken.append({"kind": "tracer", "theorem": None, "file": "ptrace-crosscheck", "message": str(xcheck)})
    return {"evaluations": evaluations, "distinct_nontrivial": nontriv, "samples": samples[:12],
            "traces": evaluations, "trace_groups": len(groups), "sensitivity_control_differs": sens,
            "mem_trace_equal": mem_equal, "ptrace_crosscheck": xcheck,
            "traces_validated_against_impl": evaluations}
