"""C19 — generated wiring; generators come from tools/gens/*.py (gen_C19) of the units in tools/units.py."""
from props import _auto

LEAN_MODULES = _auto.lean_modules("C19")
VARIANTS = ['default']
RULE = 'secrets {random, 0, all-ones, single-bit} with public inputs fixed, every first-mismatch position for comparisons; instruction-address traces between two markers must be identical; non-trivial = pair of distinct secrets; distinct = distinct (op, secret) pairs'
TRUSTED = ["hand-written Lean models (lean/CxVerif/Impl, Spec) tied to the code by the correspondence run and by tables re-extracted from /repo/src"]
ASSUMPTIONS = []
gen = _auto.make_gen("C19")
nontrivial = _auto.default_nontrivial
