"""C06 — generated wiring; generators come from tools/gens/*.py (gen_C06) of the units in tools/units.py."""
from props import _auto

LEAN_MODULES = _auto.lean_modules("C06")
VARIANTS = ['default']
RULE = 'lengths {0,1,15,16,17,63,64,65,random} squared x key length x partitions of AAD/data across add_data/encrypt/encrypt_mut/decrypt/decrypt_mut; non-trivial = non-empty aad or data; distinct = distinct case lines'
TRUSTED = ["hand-written Lean models (lean/CxVerif/Impl, Spec) tied to the code by the correspondence run and by tables re-extracted from /repo/src"]
ASSUMPTIONS = []
gen = _auto.make_gen("C06")
nontrivial = _auto.default_nontrivial
