"""C06 — generated wiring; generators come from tools/gens/*.py (gen_C06) of the units in tools/units.py."""
from props import _auto

LEAN_MODULES = _auto.lean_modules("C06")
VARIANTS = ['default']
RULE = 'lengths {0,1,15,16,17,63,64,65,random} squared (every (aad class, data class) pair: thorough with both key lengths, quick with one key length fixed by the parity of the class indices and both for classes in {0,16}) x partitions of AAD/data across add_data/encrypt/encrypt_mut/decrypt/decrypt_mut, every partition in BOTH directions, one-shot functions and the one-shot object (aead.one) in both directions; non-trivial = non-empty aad or data; distinct = distinct case lines'
TRUSTED = ["hand-written Lean models (lean/CxVerif/Impl, Spec) tied to the code by the correspondence run and by tables re-extracted from /repo/src"]
ASSUMPTIONS = ['AAD and data lengths < 2^64; the Spec extends RFC 8439 beyond its 2^38-64 byte plaintext limit by letting the 32-bit block counter wrap as the code does — the RFC itself is silent there and the crate does not enforce the limit (observation, DESIGN 12)']
gen = _auto.make_gen("C06")
nontrivial = _auto.default_nontrivial
