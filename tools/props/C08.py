"""C08 — generated wiring; generators come from tools/gens/*.py (gen_C08) of the units in tools/units.py."""
from props import _auto

LEAN_MODULES = _auto.lean_modules("C08")
VARIANTS = ['default']
RULE = 'all digests x key lengths {0,1,B-1,B,B+1,>2B,random} x message lengths and chunkings; non-trivial = non-empty key or message; distinct = distinct case lines'
TRUSTED = ["hand-written Lean models (lean/CxVerif/Impl, Spec) tied to the code by the correspondence run and by tables re-extracted from /repo/src"]
ASSUMPTIONS = []
gen = _auto.make_gen("C08")
nontrivial = _auto.default_nontrivial
