"""C08 — generated wiring; generators come from tools/gens/*.py (gen_C08) of the units in tools/units.py."""
from props import _auto

LEAN_MODULES = _auto.lean_modules("C08")
VARIANTS = ['default']
RULE = 'all digests x key lengths {0,1,B-1,B,B+1,>2B,random} x message lengths and chunkings; non-trivial = non-empty key or message; distinct = distinct case lines'
TRUSTED = ["hand-written Lean models (lean/CxVerif/Impl, Spec) tied to the code by the correspondence run and by tables re-extracted from /repo/src"]
ASSUMPTIONS = ['HMAC is proved generically over the digest-object contract and instantiated for the 16 macro-generated wrappers (SHA-1, SHA-2 x6, SHA-3 x4, Keccak x4, RIPEMD-160); and for the legacy BLAKE2b/BLAKE2s wrappers at every output length (`hmac_blake2b/s`, also HKDF and PBKDF2: `hkdf_blake2b/s`, `pbkdf2_hmac_blake2b/s`)', 'the digest handed to Hmac::new must be fresh (as every constructor returns it); message length guards of the underlying hash as in C01']
gen = _auto.make_gen("C08")
nontrivial = _auto.default_nontrivial
