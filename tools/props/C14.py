"""C14 — generated wiring; generators come from tools/gens/*.py (gen_C14) of the units in tools/units.py."""
from props import _auto

LEAN_MODULES = _auto.lean_modules("C14")
VARIANTS = ['default']
RULE = 'honest pairs; all 512 signature bit flips per sampled signature; message/key flips; S+kL; small-order / non-canonical / non-point A and R (R not a point with an otherwise honest signature, both sign bits, also with S=0 and a small-order A); random triples; non-trivial = any; distinct = distinct case lines'
TRUSTED = ["hand-written Lean models (lean/CxVerif/Impl, Spec) tied to the code by the correspondence run and by tables re-extracted from /repo/src"]
ASSUMPTIONS = []
gen = _auto.make_gen("C14")
nontrivial = _auto.default_nontrivial
