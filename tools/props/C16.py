"""C16 — vectorised and portable code paths compute identical results.
The hash / MAC / cipher / KDF workloads of the other properties are run through harness binaries built with
-C target-feature in {baseline, +sse4.1, +avx, +avx2} in the dev profile plus +avx2 in the release profile (the host CPU has
all of them) and through the portable-vs-native ChaCha engine ops; every binary must answer exactly what the Lean model/Spec
answers."""
import itertools
from props import _auto

LEAN_MODULES = _auto.lean_modules("C16")
VARIANTS = ["default", "sse41", "avx", "avx2", "avx2rel"]
RULE = ("unit generators gen_C16 (block counts 1..=20 per call, arbitrary chaining states, every input offset 0..=31, keyed/unkeyed "
        "BLAKE2, portable vs native ChaCha engine for every key/nonce length, hook-preset BLAKE2 counters) plus the C01/C02/C03/C04/C05/"
        "C06/C07/C08/C09/C10/C11 workloads, thinned per (op, kind) class: every k-th case WITHIN each class, the first of each class "
        "always kept (quick: k = REUSE over the quick generators; thorough: k = REUSE_THOROUGH over the THOROUGH generators), all run "
        "through five builds: {baseline, +sse4.1, +avx, +avx2} in the dev profile and +avx2 in the release profile; the stream-cipher "
        "CONTEXT ops run the native engine of each build, the portable ChaCha engine is reached through the stream.eng/eng2 hook ops "
        "only; non-trivial = non-empty data; distinct = distinct case lines")
TRUSTED = ["hand-written Lean models (lean/CxVerif/Impl, Spec) tied to the code by the correspondence run",
           "which machine instructions a target-feature build selects is observed on the real binaries, not proved"]
PROOF_SCOPE = 'partial by nature: the lane models / translated intrinsic code are proved equal to the portable reference for every input; that a `-C target-feature` build executes those instructions, and that aligned loads do not fault, is observed on five harness builds'
ASSUMPTIONS = ["host CPU supports sse4.1, avx, avx2 (checked at run time via `cxharness features`)"]
nontrivial = _auto.default_nontrivial
# stride per (op, kind) class of the reused workloads
REUSE = {"C01": 6, "C02": 40, "C03": 3, "C04": 3, "C05": 10, "C06": 10, "C07": 12, "C08": 6, "C09": 30, "C10": 6, "C11": 4}
REUSE_THOROUGH = {"C01": 4, "C02": 30, "C03": 1, "C04": 2, "C05": 4, "C06": 2, "C07": 4, "C08": 1, "C09": 15, "C10": 1, "C11": 2}


def reused(table, tier, rng, keep=None):
    """the workloads of the listed properties from the generators of this tier, thinned per (op, kind) class"""
    for prop, stride in table.items():
        def src(prop=prop):
            for line, kind in _auto.make_gen(prop, also=False)(tier, rng):
                yield (line, f"{prop}/{kind}")
        yield from _auto.thin(src(), stride, keep)


def gen(tier, rng):
    yield from _auto.make_gen("C16")(tier, rng)
    # counters preset through hooks (sign / lane boundaries of the SIMD counter handling)
    try:
        from gens import blake2 as _b2
        for line, kind in _b2.gen_C20_counter(tier, rng):
            yield (line, "blake2:" + kind)
    except ImportError:
        pass
    # `.wild` = operands outside the valid domain (hook-fed limb kernels beyond their bounds): the answer depends on the overflow
    # checks of the build PROFILE by nature, and C16 now mixes dev and release builds
    yield from reused(REUSE if tier == "quick" else REUSE_THOROUGH, tier, rng, keep=lambda line, kind: not kind.endswith(".wild"))
