"""C16 — vectorised and portable code paths compute identical results.
The hash / MAC / cipher / KDF workloads of the other properties are run through harness binaries built with
-C target-feature in {baseline, +sse4.1, +avx, +avx2} (the host CPU has all of them) and through the
portable-vs-native ChaCha engine ops; every binary must answer exactly what the Lean model/Spec answers."""
import itertools
from props import _auto

LEAN_MODULES = _auto.lean_modules("C16")
VARIANTS = ["default", "sse41", "avx", "avx2"]
RULE = ("unit generators gen_C16 (block counts 1..=20 per call, arbitrary chaining states, every input offset 0..=31, keyed/unkeyed "
        "BLAKE2, portable vs native ChaCha engine for every key/nonce length) plus a deterministic sample of the C01/C02/C03/C04/"
        "C05/C06/C08/C10/C11 workloads, all run through the four feature builds; non-trivial = non-empty data; distinct = distinct case lines")
TRUSTED = ["hand-written Lean models (lean/CxVerif/Impl, Spec) tied to the code by the correspondence run",
           "which machine instructions a target-feature build selects is observed on the real binaries, not proved"]
PROOF_SCOPE = 'partial by nature: the lane models / translated intrinsic code are proved equal to the portable reference for every input; that a `-C target-feature` build executes those instructions, and that aligned loads do not fault, is observed on four harness builds'
ASSUMPTIONS = ["host CPU supports sse4.1, avx, avx2 (checked at run time via `cxharness features`)"]
nontrivial = _auto.default_nontrivial
REUSE = {"C01": 6, "C02": 40, "C03": 3, "C04": 3, "C05": 10, "C06": 10, "C08": 6, "C10": 6, "C11": 4}


def gen(tier, rng):
    yield from _auto.make_gen("C16")(tier, rng)
    # counters preset through hooks (sign / lane boundaries of the SIMD counter handling)
    try:
        from gens import blake2 as _b2
        for line, kind in _b2.gen_C20_counter(tier, rng):
            yield (line, "blake2:" + kind)
    except ImportError:
        pass
    for prop, stride in REUSE.items():
        k = stride if tier == "quick" else max(1, stride // 3)
        for i, (line, kind) in enumerate(_auto.make_gen(prop, also=False)("quick", rng)):
            if i % k == 0:
                yield (line, f"{prop}/{kind}")
