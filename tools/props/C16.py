"""C16 — generated wiring; generators come from tools/gens/*.py (gen_C16) of the units in tools/units.py."""
from props import _auto

LEAN_MODULES = _auto.lean_modules("C16")
VARIANTS = ['default', 'sse41', 'avx', 'avx2']
RULE = 'the hash/cipher workloads run through harness binaries built for {baseline, +sse4.1, +avx, +avx2} and the portable-vs-native ChaCha engine ops; block counts 1..=20, every input offset 0..=31; non-trivial = non-empty data; distinct = distinct case lines'
TRUSTED = ["hand-written Lean models (lean/CxVerif/Impl, Spec) tied to the code by the correspondence run and by tables re-extracted from /repo/src"]
ASSUMPTIONS = []
gen = _auto.make_gen("C16")
nontrivial = _auto.default_nontrivial
