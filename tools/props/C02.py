"""C02 — generated wiring; generators come from tools/gens/*.py (gen_C02) of the units in tools/units.py."""
from props import _auto

LEAN_MODULES = _auto.lean_modules("C02")
VARIANTS = ['default']
RULE = 'exhaustive op sequences to depth 3 (quick) / 4 (thorough, complete for the SHA-2, SHA-3/Keccak (all 8), SHA-1 and RIPEMD-160 contexts: 17 symbols, 17^4 histories each) over {update, update_mut, clone-and-fork, swap, reset, finalize_reset, finalize} with chunk lengths {0,1,B-1,B,B+1,2B+3} for BOTH update and update_mut; BLAKE2: 22 symbols (update and update_mut x all 6 chunk lengths, fork, swap, reset, reset_with_key with the empty / a 1-byte / a maximal key, finalize_reset, finalize_reset_with_key with a 1-byte and a maximal key, finalize) — every sequence to depth 3 through all three APIs (ContextDyn, Context<8*outlen>, const-generic Context<224|256|384|512>), depth 4 (thorough) complete with the three APIs taking turns (one API per sequence) —, re-keying transitions between all key classes, plus random histories of 5-40 ops; non-trivial = history contains data; distinct = distinct case lines'
TRUSTED = ["hand-written Lean models (lean/CxVerif/Impl, Spec) tied to the code by the correspondence run and by tables re-extracted from /repo/src"]
ASSUMPTIONS = ['same length guards as C01 at every finalisation of a history', '`clone` is the identity on immutable model values: independence of the two Rust copies is a correspondence obligation (ops c/x), not a theorem; the structs are plain arrays and integers (field lists re-derived from source by the glue translators)']
gen = _auto.make_gen("C02")
nontrivial = _auto.default_nontrivial
