"""C02 — generated wiring; generators come from tools/gens/*.py (gen_C02) of the units in tools/units.py."""
from props import _auto

LEAN_MODULES = _auto.lean_modules("C02")
VARIANTS = ['default']
RULE = 'exhaustive op sequences to depth 3 (quick) / 4 (thorough) over {update, update_mut, clone-and-fork, reset, reset_with_key, finalize_reset, finalize} with chunk lengths {0,1,B-1,B,B+1,2B+3}, plus random histories of 5-40 ops; non-trivial = history contains data; distinct = distinct case lines'
TRUSTED = ["hand-written Lean models (lean/CxVerif/Impl, Spec) tied to the code by the correspondence run and by tables re-extracted from /repo/src"]
ASSUMPTIONS = ['same length guards as C01 at every finalisation of a history', '`clone` is the identity on immutable model values: independence of the two Rust copies is a correspondence obligation (ops c/x), not a theorem; the structs are plain arrays and integers (field lists re-derived from source by the glue translators)']
gen = _auto.make_gen("C02")
nontrivial = _auto.default_nontrivial
