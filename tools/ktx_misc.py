#!/usr/bin/env python3
"""ktx_misc — source-level translator for the *word-oriented* and *signed-limb* kernels of /repo/src that the
Nat backends of tools/kernel_translate.py do not cover: constant_time.rs formulas, ChaCha/Salsa cores (incl. the
`macro_rules!` quarter rounds and the SSE2 row macros), Argon2 `G`/`P`/index arithmetic, the 32-bit curve backend.

Used by kernel spec modules tools/kernels/<x>.py through `TRANSLATE = ktx_misc.translate` (see
kernel_translate.generate_all()).  It reuses the lexer / parser of kernel_translate.py and extends the parser
(`P2`: macro invocations, `else if`, `match`, `for <pattern> in`, `unsafe {}`, struct literals, `while`-free).

What the translation is (and what it refuses):
  * a Rust function body (or the body of a `macro_rules!` arm: kind="macro") is executed *symbolically*, statement by
    statement, and emitted as a Lean `let` chain; Rust variables keep their names (Lean `let` shadowing mirrors Rust
    re-assignment; a fresh name `x_1` is chosen whenever shadowing would capture an older value still alive);
  * machine words `u8/u16/u32/u64` are `UInt8/…/UInt64`: `wrapping_add/sub/mul` = `+ - *`, `wrapping_neg` = `0 - x`,
    `^ | & !` = `^^^ ||| &&& ~~~`, `<< >>` by a *literal* count below the width = `<<< >>>`, `rotate_left(k)` /
    `rotate_right(k)` = the rotation helper named in the kernel spec, `as` = `.toUIntN`.  CHECKED `+ - *` on words is
    only accepted when the kernel spec lists it in `checked_ok` (it is then rendered as the wrapping operation and the
    absence of overflow is a separate theorem of the unit, named in the spec's doc) — otherwise TranslateError;
  * signed types `i8/i16/i32/i64` are `Int` (mode="int"): `+ - *` mathematical or (monadic kernels) checked binds
    `← add64 a b` in the evaluation order of the Rust expression (a left-to-right sum of effect-free terms may be rendered
    `← sum64 [..]`); `>>` = floor division by `2^k`; `<<`, `as iN` narrowing = two's-complement wrap, written out;
    `x & (2^k-1)` = `% 2^k`; `(x | y) as u8` = OR of the low bytes;
  * mode="nat": unsigned words as `Nat` for `& | ^ >>` only (e.g. `Poly1305::new`); mode="natopt" (monadic): unsigned
    integers as `Nat`, every checked `+ - * / %` a bind (`add32`, `subU`, `remU`, …), narrowing casts `% 2^w`
    (e.g. Argon2 `index_alpha`);
  * `if c {..} [else {..}]` statements duplicate the continuation (`if c then <then; rest> else <else; rest>`),
    `assert!/assert_eq!` guard the continuation (`if c then … else <panic>`); `debug_assert!/debug_assert_eq!` are the same guard
    written through the marker `debugAssert (c)` (lean/CxVerif/Util/DebugAssert.lean: the meaning under a DEBUG build; the generated
    text differs from that of `assert!`, release builds are not modelled); `match <e> { lit => …, p | q => …, _ => … }` is an `if`
    chain (an or-pattern is the disjunction of its alternatives; guards and range patterns are refused); `unreachable!()` /
    `panic!()` are the panic value of the kernel; `return e;` (its own AST node) ends the FUNCTION: the continuation of an early
    return is the function's result, not the rest of the enclosing blocks (refused in macro kernels, `select`ed bodies and loop
    bodies rendered as lambdas / step functions); a block in statement position executes its trailing expression for its effect;
  * `a && b` / `a || b` are rendered `∧ ∨` / `&& ||` with BOTH operands evaluated: accepted only if the right operand cannot fail
    (no checked operation, slicing or panic in it);
  * constant-bound `for i in a..b` loops are unrolled with `i` substituted; `for _ in 0..n` over a state is emitted
    through the loop combinator named by the spec (`loop_fn`), `for i in 0..N` over one buffer as
    `(List.finRange N).foldl <step>` where <step> is the kernel translated from the same loop body (`iloops`) — in both cases it is
    CHECKED that <step> is a kernel of the same spec module whose `select` returns exactly this loop's body (check_step_kernel);
    `for <pat> in <iter>` over `.iter()/.zip()/.rev()/.iter_mut()` becomes `List.foldl` / `List.zipWith` (`Tr.for_iter`;
    zips are only accepted between lists of the same length symbol, learnt from the types or an `assert_eq!` on `.len()`);
  * `X[a..b]` with constant bounds is guarded once per straight-line run by `b ≤ X.length` (else the panic value) unless the
    length is known from an enclosing `X.len() == n` test; `Vector` indexing leaves the bound to Lean (a possible
    out-of-bounds index makes the GENERATED file fail to build);
  * positional `macro_rules!` macros (single arm, `$x:ident|expr|literal` parameters) are either expanded in place or
    called as the separately translated function `<macro>_src` (the parameters the body assigns are returned as a tuple
    and re-bound at the call site) — chosen per kernel by `macro_fns`.
  * constant expressions are folded with rustc's meaning (`const_eval`: suffix types, `<<` wraps to the width with sign, `/ %`
    truncate toward zero, overflow / zero divisor / shift count >= width are refused, typed results are range-checked);
  * CHECKED `+ - *` on words rendered wrapping are accounted per source occurrence: `checked_ok` may be a dict operator -> number of
    occurrences (exact match demanded); with the legacy string form a kernel that uses BOTH the checked and the `wrapping_*` form of
    one operator is refused.  mode="int" without `monadic` renders `+ - *` as the mathematical Int operations WITHOUT any overflow
    gate: the absence of overflow is then entirely a theorem of the unit (the spec's doc names it);
  * refused: `#[cfg]`/`#[cfg_attr]` on statements, nested `fn` items unless a sibling kernel translates that very item, `let x = &mut
    <place>` / `p = &mut <place>`, generic arguments in types, a call path with generic arguments (`T::<20>::f`) unless the spec
    declares exactly that path, renaming imports of a name the kernel mentions, a macro defined twice in the file, an in-place macro
    expansion whose body mentions a local variable of the call site (hygiene).
Anything else raises TranslateError -> reported as a broken extraction; code is never silently skipped (statements a
kernel deliberately leaves to another kernel must be named by the spec's `stmt_filter`).
NOT checked: trait dispatch (which `impl` a method call reaches is the spec's `methods` table), and that a callee named in `calls`
is the item the call resolves to when it is a module-level function of another file.
"""
import os
import re

import kernel_translate as KT
from kernel_translate import TranslateError, P, lex, find_fn, show, strip_comments, INT_TYPES

LEAN_KEYWORDS = {"at", "from", "end", "open", "show", "have", "fun", "then", "else", "if", "do", "let", "in", "with",
                 "match", "by", "where", "def", "instance", "structure", "class", "local", "section", "namespace",
                 "variable", "universe", "import", "prefix", "infix", "notation", "macro", "syntax", "deriving", "mutual",
                 "theorem", "example", "abbrev", "axiom", "private", "protected", "return", "for", "unless", "try", "catch",
                 "finally", "Type", "Prop", "Sort", "using", "this", "nomatch", "suffices", "calc", "obtain", "set_option", "attribute"}
WORD = {"u8": "UInt8", "u16": "UInt16", "u32": "UInt32", "u64": "UInt64"}
SIGNED = {"i8": 8, "i16": 16, "i32": 32, "i64": 64}


def REPO():
    return os.environ.get("CX_REPO", KT.REPO)


# ------------------------------------------------------------------------------------------------ source access

def read_src(relpath):
    return open(os.path.join(REPO(), relpath)).read()


BSTR = re.compile(r'b"((?:[^"\\]|\\.)*)"')


def protect_bytestrings(text):
    """b"…" literals -> identifiers __bstr<N>; returns (text, table)"""
    table = []

    def rep(m):
        table.append(m.group(1))
        return f" __bstr{len(table) - 1} "
    return BSTR.sub(rep, text), table


def find_macro(src, name):
    """single-arm `macro_rules! name { (params) => { body }; }` -> ([(param, fragment)], body text)"""
    text = strip_comments(src)
    groups = KT.scan_braces(text)
    ms = [m for m in re.finditer(r"macro_rules!\s+" + re.escape(name) + r"\s*\{", text) if KT.compiled_at(text, m.start(), groups) is not False]
    if not ms:
        raise TranslateError(f"macro {name} not found")
    if len(ms) > 1:
        # textual scoping: which definition an invocation sees depends on their order; not modelled
        raise TranslateError(f"macro {name} is defined {len(ms)} times in the file")
    m = ms[0]
    i = m.end()
    depth, j = 1, i
    while j < len(text) and depth:
        depth += {"{": 1, "}": -1}.get(text[j], 0)
        j += 1
    arm = text[i:j - 1]
    pm = re.match(r"\s*\(([^)]*)\)\s*=>\s*\{", arm)
    if not pm:
        raise TranslateError(f"macro {name}: unsupported matcher")
    params = []
    for p in [x.strip() for x in pm.group(1).split(",") if x.strip()]:
        q = re.fullmatch(r"\$(\w+)\s*:\s*(ident|expr|literal|tt|ty)", p)
        if not q:
            raise TranslateError(f"macro {name}: unsupported parameter {p!r}")
        params.append((q.group(1), q.group(2)))
    k = pm.end()
    depth, j2 = 1, k
    while j2 < len(arm) and depth:
        depth += {"{": 1, "}": -1}.get(arm[j2], 0)
        j2 += 1
    body = arm[k:j2 - 1]
    rest = arm[j2:].strip().rstrip(";").strip()
    if rest:
        raise TranslateError(f"macro {name}: more than one arm")
    return params, body


def macro_subst(body, params, args):
    if len(params) != len(args):
        raise TranslateError("macro arity")
    out = body
    # longest names first so that $ab is not clobbered by $a
    for (pn, frag), a in sorted(zip(params, args), key=lambda t: -len(t[0][0])):
        a = a.strip()
        rep = a if re.fullmatch(r"[\w.]+(\[[\w ]+\])?|\d+", a) else f"({a})"
        out = re.sub(r"\$" + re.escape(pn) + r"\b", rep.replace("\\", "\\\\"), out)
    if "$" in out:
        raise TranslateError("macro: unsubstituted metavariable")
    return out


def untok(toks):
    parts = []
    for t in toks:
        if t[0] == "int":
            parts.append(str(t[1]) + (t[2] or ""))
        else:
            parts.append(str(t[1]))
    s = " ".join(parts)
    s = re.sub(r"\s*\.\s*", ".", s)
    s = re.sub(r"\s*::\s*", "::", s)
    return s


# ------------------------------------------------------------------------------------------------ parser

class P2(P):
    """parser of kernel_translate.P + macro invocations, `else if`, `match`, `for pat in`, `unsafe {}`, struct literals"""

    def __init__(self, toks):
        super().__init__(toks)
        self.nostruct = 0

    def expr_nostruct(self):
        self.nostruct += 1
        try:
            return self.expr()
        finally:
            self.nostruct -= 1

    def ty(self):
        if self.at("*"):                       # raw pointer type `*const T` / `*mut T`
            self.eat(); self.eat()
            return ("ptr", self.ty())
        if self.at("("):                       # tuple type
            self.eat(); items = []
            while not self.at(")"):
                items.append(self.ty())
                if self.at(","):
                    self.eat()
            self.eat(")")
            return ("tuplety", items)
        t = super().ty()
        if self.at("<"):                       # generic arguments: not part of the returned type; recorded in self.dropped_generics
            d, start = 0, self.i
            while True:
                x = self.eat()[1]
                d += (x == "<") - (x == ">")
                if x == ">>":
                    d -= 2
                if d <= 0:
                    break
            self.dropped_generics.append((t, untok(self.t[start:self.i])))
        return t

    def macro_args(self):
        close = {"(": ")", "[": "]", "{": "}"}[self.eat()[1]]
        args, cur, depth = [], [], 0
        while True:
            t = self.eat()
            if t[0] == "eof":
                raise TranslateError("unterminated macro invocation")
            if t[0] == "op" and t[1] in "([{":
                depth += 1
            elif t[0] == "op" and t[1] in ")]}":
                if depth == 0:
                    if t[1] != close:
                        raise TranslateError("macro delimiter mismatch")
                    break
                depth -= 1
            if t[0] == "op" and t[1] == "," and depth == 0:
                args.append(cur); cur = []
            else:
                cur.append(t)
        if cur:
            args.append(cur)
        return args

    def block_in_braces(self):
        self.eat("{")
        saved, self.nostruct = self.nostruct, 0
        b = self.block()
        self.nostruct = saved
        self.eat("}")
        return b

    def stmt(self):
        if self.atid("for"):
            self.eat()
            pat = self.pattern()
            self.eat("in")
            it = self.expr_nostruct()
            body = self.block_in_braces()
            return ("for", pat, it, body)
        if self.atid("while") or self.atid("loop"):
            raise TranslateError("while/loop is outside the translated subset")
        if self.atid("let"):
            return self.let_stmt()             # ("let", pat, ty, init[, "refmut"])
        if self.atid("return"):
            return self.return_stmt()          # ("return", e | None)
        e = self.expr()
        if self.at("=", "+=", "-=", "*=", "&=", "|=", "^=", "<<=", ">>="):
            op = self.eat()[1]; i0 = self.i; rhs = self.expr()
            node = self.assign_node(e, op, rhs, i0)
            if not self.at("}"):
                self.eat(";")
            return node
        if self.at(";"):
            self.eat(); return ("expr", e)
        return ("ret", e)               # trailing expression

    def pattern(self):
        if self.atid("_"):
            self.eat(); return ("var", "_")
        if self.atid("ref"):
            self.eat()
        if self.at("&"):
            self.eat()
            return self.pattern()
        return super().pattern()

    def unary(self):
        if self.at("&&"):                      # `&&x` lexed as one token
            self.eat(); return self.unary()
        if self.at("*"):
            self.eat(); return ("deref", self.unary())
        return super().unary()

    def cast(self):
        e = self.unary()
        while self.atid("as"):
            self.eat(); e = ("cast", e, self.ty())
        return e

    def atom(self):
        p = self.peek()
        if self.atid("unsafe"):
            self.eat()
            return ("blockexpr", self.block_in_braces())
        if self.at("{"):
            return ("blockexpr", self.block_in_braces())
        if self.atid("if"):
            self.eat(); c = self.expr_nostruct(); a = self.block_in_braces()
            b = None
            if self.atid("else"):
                self.eat()
                if self.atid("if"):
                    b = [("ret", self.atom())]
                else:
                    b = self.block_in_braces()
            return ("if", c, a, b)
        if self.atid("match"):
            self.eat(); scrut = self.expr_nostruct(); self.eat("{")
            arms = []
            while not self.at("}"):
                if self.atid("_") and not (self.peek(1)[0] == "op" and self.peek(1)[1] == "|"):
                    self.eat(); pat = None
                else:
                    # a PATTERN: alternatives `p | q` are an or-pattern (never the bitwise-or of two values); each alternative
                    # is parsed at the precedence just above `|`
                    alts = [self.match_alt()]
                    while self.at("|"):
                        self.eat(); alts.append(self.match_alt())
                    pat = alts[0] if len(alts) == 1 else ("orpat", alts)
                if self.atid("if"):
                    raise TranslateError("match guards are outside the translated subset")
                self.eat("="); self.eat(">")
                if self.at("{"):
                    body = self.block_in_braces()
                else:
                    saved, self.nostruct = self.nostruct, 0
                    body = [("ret", self.expr())]
                    self.nostruct = saved
                if self.at(","):
                    self.eat()
                arms.append((pat, body))
            self.eat("}")
            return ("match", scrut, arms)
        if p[0] == "id" and p[1] not in ("as",):
            self.eat(); name = p[1]
            full = name
            while self.at("::"):
                self.eat()
                if self.at("<"):                # turbofish: kept in the FULL path (3rd component of the node), not in the name
                    d, start = 0, self.i
                    while True:
                        x = self.eat()[1]; d += (x == "<") - (x == ">")
                        if d == 0:
                            break
                    full += "::" + untok(self.t[start:self.i]).replace(" ", "")
                    continue
                seg = self.eat()[1]
                name += "::" + seg
                full += "::" + seg
            if self.at("!") and self.peek(1)[0] == "op" and self.peek(1)[1] in "([{" and self.peek(1)[1] != "":
                self.eat()
                return ("macro", name, self.macro_args())
            if self.at("{") and not self.nostruct and (name == "Self" or name[:1].isupper()):
                self.eat(); fields = []
                while not self.at("}"):
                    fname = self.eat()[1]
                    if self.at(":"):
                        self.eat(); fields.append((fname, self.expr()))
                    else:
                        fields.append((fname, ("path", fname)))
                    if self.at(","):
                        self.eat()
                self.eat("}")
                return ("struct", name, fields)
            if full != name:
                return ("path", name, full)     # e.g. ("path", "ChaChaState::init", "ChaChaState::<20>::init")
            return ("path", name)
        return super().atom()

    def match_alt(self):
        if self.atid("_"):
            raise TranslateError("`_` inside an or-pattern")
        self.nostruct += 1
        try:
            e = self.expr(self.BIN.index(["|"]) + 1)
        finally:
            self.nostruct -= 1
        if self.at("..", "..="):
            raise TranslateError("range patterns are outside the translated subset")
        return e

    def block(self):
        stmts = super().block()
        # an expression statement of block form (`if … {}` / `match` / `for` / unsafe{}) needs no `;`: P returns ("ret", e) for it
        out = []
        for i, s in enumerate(stmts):
            if s[0] == "ret" and i != len(stmts) - 1:
                if s[1][0] in ("if", "match", "blockexpr", "macro"):
                    out.append(("expr", s[1]))
                else:
                    raise TranslateError("value expression in statement position")
            else:
                out.append(s)
        return out


# The `=>` of match arms: the base lexer yields "=" then ">" — handled in P2.atom above.


# ------------------------------------------------------------------------------------------------ kernel spec

class MK:
    """spec of one kernel for ktx_misc.translate

    file, fn, scope      where the Rust function is (kind="fn") / macro name (kind="macro")
    lean_name, params, ret_type, doc
    env          rust place text -> (lean text, rust type)           e.g. "self": ("x", "u64"), "self.state[3]": ("w.x3","u32")
                 a python list as lean text = an array tracked element-wise: "self.state": ([...16 texts...], "u32")
                 type ("list", elem, lensym) = a Lean `List` value (slice / array of symbolic length)
    consts       rust const / generic name -> (lean text, type)
    calls        rust free-fn / assoc-fn name -> (template, result type, [arg types])
    methods      (receiver type, method) -> (template, result type, [arg types])   (receiver is {0})
    ctors        tuple-struct constructor name -> (template, result type, [arg types])
    fields       (aggregate type, field) -> (template, type)
    stores       rust place text -> output slot (collected in tr.outputs; "_x" = ignored write, must be justified in doc)
    result       function (tr, st, retvalue or None) -> Lean text of the result
    panic        Lean text of the panic value (`none`, `.error "PANIC"`); None = the kernel cannot panic
    wrap_ok      function text -> text wrapping a normal result (`some`, `.ok`) when panic is set
    mode         "word" | "int"
    monadic      True: emitted as a `do` block; checked ops become binds (int mode)
    checked_ok   set of operators among "+-*" whose CHECKED word form may be rendered as the wrapping op
    rot          {width: (rotl helper, rotr helper)} e.g. {32: ("rotl32", None)}
    macro_fns    macro name -> lean function (call form); other macros are expanded in place
    loop_fn      for `for _ in 0..n {}` over state: (lean combinator, lean step fn, pack(list of texts)->text, state places)
    select       optional python function stmts -> stmts
    stmt_filter  optional predicate (index, stmt) -> keep?
    place_names  rust place text -> lean let-name
    self_type    type `Self` stands for
    """

    def __init__(self, **kw):
        self.kind = kw.get("kind", "fn")
        self.file = kw["file"]; self.fn = kw["fn"]; self.scope = kw.get("scope")
        self.lean_name = kw["lean_name"]; self.params = kw["params"]; self.ret_type = kw["ret_type"]
        self.doc = kw.get("doc", "")
        self.env = dict(kw.get("env", {}))
        c = kw.get("consts", {})
        self.consts_fn = c if callable(c) else None          # a function: evaluated at translation time (values read from the source)
        self.consts = {} if callable(c) else dict(c)
        self.calls = dict(kw.get("calls", {})); self.methods = dict(kw.get("methods", {}))
        self.ctors = dict(kw.get("ctors", {})); self.fields = dict(kw.get("fields", {}))
        self.stores = dict(kw.get("stores", {}))
        self.result = kw.get("result")
        self.panic = kw.get("panic"); self.wrap_ok = kw.get("wrap_ok", lambda t: t)
        self.mode = kw.get("mode", "word"); self.monadic = kw.get("monadic", False)
        co = kw.get("checked_ok", "")
        # str (legacy): every checked occurrence of the listed operators is accepted; dict op -> n: EXACTLY n source occurrences
        self.checked_counts = dict(co) if isinstance(co, dict) else None
        self.checked_ok = set(co)
        self.rot = dict(kw.get("rot", {}))
        self.macro_fns = dict(kw.get("macro_fns", {}))
        self.mut_calls = dict(kw.get("mut_calls", {}))
        self.loop_fn = kw.get("loop_fn")
        self.select = kw.get("select"); self.stmt_filter = kw.get("stmt_filter")
        self.place_names = dict(kw.get("place_names", {}))
        self.self_type = kw.get("self_type")
        self.int_ops = dict(kw.get("int_ops", {}))
        self.bits_types = dict(kw.get("bits_types", {}))     # e.g. {"i32": "u32"}: a signed type used for its bit pattern only
        self.macro_outs = kw.get("macro_outs")               # kind="macro": how to pack the assigned parameters
        self.attrs = kw.get("attrs", "")
        self.bstr = dict(kw.get("bstr", {}))                 # byte-string literal text -> (lean text, type)
        self.cond_style = kw.get("cond_style", "prop")
        self.stmt_calls = dict(kw.get("stmt_calls", {}))     # call statements with effects on buffers: name -> python handler(tr, e, st, out, ind)
        self.macro_pat = kw.get("macro_pat", ("(", ")"))
        self.inline_pure = kw.get("inline_pure", False)      # monadic kernels: pure values are inlined at their uses instead of `let`-bound
        self.iloops = list(kw.get("iloops", []))             # step functions of the `for i in 0..N` loops, in source order
        self.tr_class = kw.get("tr_class")                   # optional subclass of Tr / IntTr (extra expression forms of one source file)
        self.macro_lit_ok = dict(kw.get("macro_lit_ok", {})) # macro (call form) -> predicate on the argument texts (literal side conditions)
        self.let_hooks = dict(kw.get("let_hooks", {}))       # `let x = f(..)` with an aggregate result: fn path -> handler(tr, name, init, st, out, ind)
        self.stmt_methods = dict(kw.get("stmt_methods", {})) # `recv.m(..);` with an effect: method name -> handler(tr, e, st, out, ind)


# ------------------------------------------------------------------------------------------------ values / state

class V:
    __slots__ = ("t", "ty", "at")

    def __init__(self, t, ty, at=False):
        self.t, self.ty, self.at = t, ty, at

    def p(self):
        return self.t if self.at else f"({self.t})"

    def __repr__(self):
        return f"V({self.t!r},{self.ty!r})"


IDENT = re.compile(r"[A-Za-z_][A-Za-z0-9_']*")


class St:
    """symbolic state: rust place text -> V | [V, …] (array tracked element-wise)"""

    def __init__(self, vars=None, outputs=None, scopes=None, leneq=None):
        self.vars = vars if vars is not None else {}
        self.outputs = outputs if outputs is not None else {}
        self.scopes = scopes if scopes is not None else [set()]
        self.leneq = leneq if leneq is not None else {}     # length symbol -> representative (learnt from assert_eq! on .len())
        self.lenlb = {}                                      # lean text of a list -> known lower bound of its length

    def copy(self):
        c = St({k: (list(v) if isinstance(v, list) else v) for k, v in self.vars.items()}, dict(self.outputs),
               [set(s) for s in self.scopes], dict(self.leneq))
        c.lenlb = dict(self.lenlb)
        return c

    def lenrep(self, sym):
        while sym in self.leneq:
            sym = self.leneq[sym]
        return sym

    def live_texts(self, exclude=()):
        for k, v in self.vars.items():
            if k in exclude:
                continue
            if isinstance(v, list):
                for x in v:
                    if x is not None:
                        yield x.t
            elif v is not None and v.t is not None:
                yield v.t
        for v in self.outputs.values():
            yield v


def lit_text(n, ty, mode_int=False):
    if ty in WORD:
        if n >= 2 ** INT_TYPES[ty]:
            raise TranslateError(f"literal {n} out of range of {ty}")
        return f"({n} : {WORD[ty]})"
    if ty in SIGNED:
        if not -2 ** (SIGNED[ty] - 1) <= n < 2 ** (SIGNED[ty] - 1):
            raise TranslateError(f"literal / constant {n} out of range of {ty}")
        return f"({n} : Int)" if n >= 0 else f"(-{-n} : Int)"
    if ty in ("usize", "nat"):
        return str(n)
    raise TranslateError(f"literal of unknown type {ty}")


# ------------------------------------------------------------------------------------------------ translator

class Tr:
    def __init__(self, k: MK, src: str, bstr_table=None):
        self.k = k
        self.src = src
        self.extra_used = set()    # lean identifiers bound by enclosing lambdas + global names the templates mention
        for d in (k.calls, k.methods, k.ctors, k.fields):
            for v in d.values():
                if isinstance(v[0], str):
                    self.extra_used |= set(IDENT.findall(v[0]))
        for v in k.rot.values():
            for x in v:
                if x:
                    self.extra_used |= set(IDENT.findall(x))
        for v in k.macro_fns.values():
            self.extra_used |= set(IDENT.findall(v))
        for v in k.mut_calls.values():
            self.extra_used |= set(IDENT.findall(v[0]))
        if k.loop_fn:
            self.extra_used |= set(IDENT.findall(k.loop_fn[0] + " " + k.loop_fn[1]))
        self.extra_used |= {"some", "none", "pure", "List", "Int", "Nat", "UInt8", "UInt16", "UInt32", "UInt64", "p"} - {"p"}
        self.counter = {}
        self.outputs_decl = {}
        self.bstr_table = bstr_table or []
        self.tmpn = 0
        self.n_checked = 0
        self.checked_sites = {}     # operator -> set of source occurrences (id of the right operand's AST node) rendered wrapping
        self.wrapping_ops = set()   # operators whose `wrapping_*` method form occurs on words in this kernel
        self.no_return = 0          # > 0 while translating a loop body rendered as a lambda / step function (`return` refused there)
        self.fn_k = None            # the continuation that ends the FUNCTION (target of `return`)
        self.all_stmts = None       # the statements of the whole function body (before select / stmt_filter)
        self.iloop_ids = {}

    # ---------- naming
    def lean_name(self, place):
        if place in self.k.place_names:
            return self.k.place_names[place]
        n = re.sub(r"[^A-Za-z0-9_]", "_", place.split(".")[-1]).strip("_") or "v"
        if not re.match(r"[A-Za-z_]", n):
            n = "v" + n
        if n in LEAN_KEYWORDS:
            n += "_"
        return n

    def fresh_for(self, place, st, replacing=None):
        """lean let-name for (re)binding `place`: the rust name itself unless shadowing it would capture a live older value"""
        base = self.lean_name(place)
        name, i = base, 0
        while self.captures(name, st, replacing if replacing is not None else place):
            i += 1
            name = f"{base}_{i}"
        return name

    def captures(self, name, st, exclude_place):
        pat = re.compile(r"(?<![\w.'])" + re.escape(name) + r"(?![\w'])")
        for k, v in st.vars.items():
            vs = v if isinstance(v, list) else [v]
            for x in vs:
                if x is None or x.t is None or x.ty == "#const":
                    continue
                if k == exclude_place and not isinstance(v, list):
                    continue
                if pat.search(x.t):
                    return True
        for t in st.outputs.values():
            if pat.search(t):
                return True
        # env / const texts not overridden by the state are alive too
        for key, (t, _) in self.k.env.items():
            if key in st.vars or key == exclude_place:
                continue
            for x in (t if isinstance(t, list) else [t]):
                if pat.search(x):
                    return True
        for t, _ in self.k.consts.values():
            if isinstance(t, str) and pat.search(t):
                return True
        return name in self.extra_used

    # ---------- types
    def norm_ty(self, ty):
        if isinstance(ty, tuple) and ty and ty[0] == "arr":
            n = ty[2]
            ln = None
            if n is not None:
                try:
                    ln = self.const_int(n, None)
                except TranslateError:
                    ln = show(n) if n[0] in ("path",) else None
            return ("list", self.norm_ty(ty[1]), ln)
        if ty == "Self" and self.k.self_type:
            return self.k.self_type
        if isinstance(ty, str) and ty in self.k.bits_types:
            return self.k.bits_types[ty]
        return ty

    def is_word(self, ty):
        return isinstance(ty, str) and ty in WORD

    def is_int(self, ty):
        return isinstance(ty, str) and ty in SIGNED

    # ---------- compile-time integers (loop bounds, unrolled indices)
    @staticmethod
    def wrap_int(v, ty):
        """two's-complement value of `v` in the integer type `ty` (what `as ty` / `<<` in that type leave)"""
        b = INT_TYPES[ty]
        if ty in SIGNED:
            return (v + 2 ** (b - 1)) % 2 ** b - 2 ** (b - 1)
        return v % 2 ** b

    @staticmethod
    def in_range(v, ty):
        b = INT_TYPES[ty]
        return -2 ** (b - 1) <= v < 2 ** (b - 1) if ty in SIGNED else 0 <= v < 2 ** b

    def const_int(self, e, st):
        return self.const_eval(e, st)[0]

    def const_eval(self, e, st):
        """(value, integer type | None) of a constant expression, with the meaning rustc gives it: literals keep their suffix type,
        `+ - *` that leave the type are rejected (rustc: `this arithmetic operation will overflow`), `/ %` truncate toward zero and
        reject a zero divisor, `<<` wraps to the width of the LEFT operand's type (sign included), a shift count >= width is rejected,
        `as T` wraps.  Untyped values (unsuffixed literals, loop counters) are exact integers; they are range-checked when they
        are given a type (lit_text)."""
        k = e[0]
        if k == "lit":
            if e[2] is not None:
                if e[2] not in INT_TYPES:
                    raise TranslateError(f"literal suffix {e[2]}")
                if not self.in_range(e[1], e[2]):
                    raise TranslateError(f"literal {e[1]} out of range of {e[2]}")
            return e[1], e[2]
        if k == "paren":
            return self.const_eval(e[1], st)
        if k == "neg":
            v, ty = self.const_eval(e[1], st)
            if ty is not None and (ty not in SIGNED or not self.in_range(-v, ty)):
                raise TranslateError(f"constant negation overflows / is unsigned ({ty})")
            return -v, ty
        if k == "path":
            if st is not None and e[1] in st.vars and isinstance(st.vars[e[1]], V) and st.vars[e[1]].ty == "#const":
                return st.vars[e[1]].t, None
            base = e[1].split("::")[-1]
            if base in self.k.consts and isinstance(self.k.consts[base][0], int):
                cty = self.k.consts[base][1]
                return self.k.consts[base][0], (cty if isinstance(cty, str) and cty in INT_TYPES and cty != "usize" else None)
            raise TranslateError(f"not a compile-time integer: {e[1]}")
        if k == "bin" and e[1] in ("+", "-", "*", "/", "%", "<<", ">>"):
            (a, ta), (b, tb) = self.const_eval(e[2], st), self.const_eval(e[3], st)
            op = e[1]
            if op in ("<<", ">>"):
                if b < 0 or (ta is not None and b >= INT_TYPES[ta]):
                    raise TranslateError(f"constant shift count {b} out of range (rustc rejects it)")
                if op == ">>":
                    return a >> b, ta
                return (self.wrap_int(a << b, ta) if ta is not None else a << b), ta
            if ta is not None and tb is not None and ta != tb:
                raise TranslateError(f"constant expression mixes {ta} and {tb}")
            ty = ta or tb
            if op in ("/", "%"):
                if b == 0:
                    raise TranslateError("constant division by zero (rustc rejects it)")
                q = abs(a) // abs(b) * (1 if (a < 0) == (b < 0) else -1)          # Rust: truncation toward zero
                v = q if op == "/" else a - q * b
            else:
                v = {"+": a + b, "-": a - b, "*": a * b}[op]
            if ty is not None and not self.in_range(v, ty):
                raise TranslateError(f"constant arithmetic overflows {ty} (rustc rejects it)")
            return v, ty
        if k == "cast":
            v, _ = self.const_eval(e[1], st)
            to = e[2]
            if not (isinstance(to, str) and to in INT_TYPES):
                raise TranslateError("constant cast to a non-integer type")
            return self.wrap_int(v, to), (None if to == "usize" else to)
        raise TranslateError("not a compile-time integer expression")

    def is_const_int(self, e, st):
        try:
            self.const_int(e, st)
            return True
        except TranslateError:
            return False

    # ---------- places
    def place_key(self, e, st):
        """canonical text of a place expression with constant indices evaluated"""
        k = e[0]
        if k == "path":
            return e[1]
        if k == "paren":
            return self.place_key(e[1], st)
        if k == "deref":
            return self.place_key(e[1], st)
        if k == "field":
            return self.place_key(e[1], st) + "." + e[2]
        if k == "index":
            if e[2][0] == "range":
                raise TranslateError("range place")
            return self.place_key(e[1], st) + "[" + str(self.const_int(e[2], st)) + "]"
        raise TranslateError(f"not a place: {e[0]}")

    def lookup_place(self, e, st):
        """V for a place expression, or None"""
        try:
            key = self.place_key(e, st)
        except TranslateError:
            return None
        if key in st.vars:
            v = st.vars[key]
            if v is None:
                raise TranslateError(f"use of uninitialised {key}")
            return v
        if key in self.k.env:
            t, ty = self.k.env[key]
            if isinstance(t, list):
                return [V(x, ty, True) for x in t]
            return V(t, self.norm_ty(ty), bool(re.fullmatch(r"[\w.']+", t)))
        # element of a tracked array
        if e[0] == "index":
            try:
                base = self.place_key(e[1], st)
                ix = self.const_int(e[2], st)
            except TranslateError:
                return None
            arr = st.vars.get(base)
            if arr is None and base in self.k.env and isinstance(self.k.env[base][0], list):
                arr = [V(x, self.k.env[base][1], True) for x in self.k.env[base][0]]
            if isinstance(arr, list):
                if not 0 <= ix < len(arr):
                    raise TranslateError(f"index {ix} out of bounds of {base}")
                if arr[ix] is None:
                    raise TranslateError(f"use of uninitialised {base}[{ix}]")
                return arr[ix]
        return None

    # ---------- expressions
    def ex(self, e, st, want=None, out=None, ind=""):
        k = e[0]
        if k == "lit":
            ty = e[2] or want
            if ty is None:
                raise TranslateError(f"cannot type literal {e[1]}")
            ty = self.norm_ty(ty)
            return V(lit_text(e[1], ty), ty, True)
        if k == "paren":
            return self.ex(e[1], st, want, out, ind)
        if k == "deref":
            return self.ex(e[1], st, want, out, ind)
        if k == "blockexpr":
            if len(e[1]) == 1 and e[1][0][0] == "ret":
                return self.ex(e[1][0][1], st, want, out, ind)
            raise TranslateError("block expression with statements in value position")
        if k in ("path", "field", "index"):
            if k == "path" and len(e) > 2:
                raise TranslateError(f"path with generic arguments `{e[2]}` used as a value")
            if k == "path":
                base = e[1].split("::")[-1]
                if e[1] in st.vars and isinstance(st.vars[e[1]], V) and st.vars[e[1]].ty == "#const":
                    n = st.vars[e[1]].t
                    if want is None:
                        raise TranslateError(f"cannot type the compile-time integer {e[1]}")
                    ty = self.norm_ty(want)
                    return V(lit_text(n, ty), ty, True)
                if e[1].startswith("__bstr"):
                    s = self.bstr_table[int(e[1][6:])]
                    if s not in self.k.bstr:
                        raise TranslateError(f"byte string {s!r} not declared by the kernel spec")
                    t, ty = self.k.bstr[s]
                    return V(t, ty, True)
            v = self.lookup_place(e, st)
            if v is not None:
                if isinstance(v, list):
                    raise TranslateError(f"array {show(e) if e[0]=='path' else '?'} used as a value")
                return v
            if k == "path":
                base = e[1].split("::")[-1]
                if base in self.k.consts:
                    t, ty = self.k.consts[base]
                    if isinstance(t, int):
                        ty = self.norm_ty(ty or want)
                        return V(lit_text(t, ty), ty, True)
                    return V(t, self.norm_ty(ty), bool(re.fullmatch(r"[\w.']+", t)))
                raise TranslateError(f"unknown identifier {e[1]}")
            if k == "field":
                r = self.ex(e[1], st, None, out, ind)
                key = (r.ty if isinstance(r.ty, str) else r.ty[0], e[2])
                if key in self.k.fields:
                    tmpl, ty = self.k.fields[key]
                    return V(tmpl.format(r.p()), self.norm_ty(ty), "{0}." in tmpl and r.at)
                raise TranslateError(f"unknown field {key}")
            if k == "index":
                return self.index_expr(e, st, want, out, ind)
        if k == "cast" and self.k.mode == "int":
            inner_e = e[1]
            while inner_e[0] == "paren":
                inner_e = inner_e[1]
            to_ = self.norm_ty(e[2])
            if inner_e[0] == "bin" and inner_e[1] == "|" and ("cast|", to_) in self.k.int_ops:
                # `(x | y) as u8` on signed x, y: the low byte of the OR is the OR of the low bytes (two's complement)
                a = self.ex(inner_e[2], st, None, out, ind); b = self.ex(inner_e[3], st, None, out, ind)
                if not (self.is_int(a.ty) and a.ty == b.ty):
                    raise TranslateError("`|` of non-signed / mixed operands under a cast")
                return V(self.k.int_ops[("cast|", to_)].format(a.p(), b.p()), to_)
        if k == "cast":
            to = self.norm_ty(e[2])
            if isinstance(to, tuple) and to[0] == "ptr":
                raise TranslateError("pointer cast")
            inner = self.ex(e[1], st, to if e[1][0] == "lit" and e[1][2] is None else None, out, ind)
            return self.cast(inner, to)
        if k == "bin":
            if self.k.mode == "natopt" and want is not None and self.is_word(self.norm_ty(want)) and self.is_const_int(e, st):
                n = self.const_int(e, st)             # constant expression (literals / integer consts): evaluated by rustc, cannot panic at run time
                if not 0 <= n < 2 ** INT_TYPES[self.norm_ty(want)]:
                    raise TranslateError("constant expression out of range")
                return V(str(n), self.norm_ty(want), True)
            if self.k.mode == "int" and self.is_const_int(e, st) and want is not None and self.lit_only(e):
                ty = self.norm_ty(want)
                n = self.const_int(e, st)
                return V(lit_text(n, ty) if n >= 0 else f"(-{-n} : Int)", ty, True)
            return self.binop(e[1], e[2], e[3], st, want, out, ind, hint=self.take_hint(e))
        if k == "not":
            v = self.ex(e[1], st, want, out, ind)
            if v.ty == "bool":
                return V(f"!{v.p()}", "bool")
            if self.is_word(v.ty):
                return V(f"~~~{v.p()}", v.ty)
            raise TranslateError(f"`!` on {v.ty}")
        if k == "neg":
            if e[1][0] == "lit":
                ty = self.norm_ty(e[1][2] or want)
                if not self.is_int(ty):
                    raise TranslateError("negative literal of non-signed type")
                return V(f"(-{e[1][1]} : Int)", ty, True)
            v = self.ex(e[1], st, want, out, ind)
            if self.is_int(v.ty):
                return self.int_arith("neg", v, None, v.ty, st, out, ind, self.take_hint(e))
            raise TranslateError(f"unary minus on {v.ty}")
        if k == "call":
            return self.call(e, st, want, out, ind)
        if k == "method":
            return self.method(e, st, want, out, ind)
        if k == "tuple":
            vs = [self.ex(x, st, None, out, ind) for x in e[1]]
            return V("(" + ", ".join(v.t for v in vs) + ")", ("tuple", [v.ty for v in vs]), True)
        if k == "if":
            return self.if_value(e, st, want, out, ind)
        if k == "struct":
            raise TranslateError("struct literal in value position (use the kernel's result function)")
        raise TranslateError(f"unsupported expression {k}")

    _hint = None

    def take_hint(self, e):
        if self._hint is not None and self._hint[0] is e:
            h = self._hint[1]
            self._hint = None
            return h
        return None

    def lit_only(self, e):
        if e[0] == "lit":
            return e[2] is None
        if e[0] == "paren":
            return self.lit_only(e[1])
        if e[0] == "bin":
            return self.lit_only(e[2]) and self.lit_only(e[3])
        return False

    def index_expr(self, e, st, want, out, ind):
        if e[2][0] != "range":
            base = self.ex(e[1], st, None, out, ind)
            if isinstance(base.ty, tuple) and base.ty[0] == "vec":
                # `Vector` element: Lean demands a proof of `idx < n` (get_elem_tactic) -- a possible out-of-bounds panic of the Rust
                # indexing makes the GENERATED file fail to build, i.e. a broken extraction, never a silent default
                ix = self.ex(e[2], st, "usize", out, ind)
                if ix.ty not in ("usize", "nat"):
                    raise TranslateError("vector index type")
                return V(f"{base.p()}[{ix.t}]", base.ty[1])
        if e[2][0] == "range" and e[2][1] is not None and e[2][2] is not None:
            base = self.ex(e[1], st, None, out, ind)
            if isinstance(base.ty, tuple) and base.ty[0] == "list":
                lo, hi = self.const_int(e[2][1], st), self.const_int(e[2][2], st)
                if not 0 <= lo <= hi:
                    raise TranslateError("slice bounds")
                # the bounds check (hi <= length) is emitted / discharged by slice_needs
                return V(f"({base.p()}.drop {lo}).take {hi - lo}", ("list", base.ty[1], hi - lo))
        raise TranslateError(f"unsupported indexing {e[1][0]}[{e[2][0]}]")

    def if_value(self, e, st, want, out, ind):
        c = self.cond(e[1], st, out, ind)
        def val(blk):
            if blk is None or len(blk) != 1 or blk[0][0] != "ret":
                raise TranslateError("if-expression branch with statements")
            return self.ex(blk[0][1], st, want, out, ind)
        a = val(e[2]); b = val(e[3])
        if a.ty != b.ty:
            raise TranslateError(f"if-expression branches of types {a.ty} / {b.ty}")
        return V(f"if {c} then {a.t} else {b.t}", a.ty)

    # ---------- conditions (Prop-valued, decidable)
    def cond(self, e, st, out, ind):
        k = e[0]
        if k == "paren":
            return "(" + self.cond(e[1], st, out, ind) + ")"
        if k == "bin" and e[1] in ("==", "!=", "<", "<=", ">", ">="):
            l, r = self.operands(e[2], e[3], st, None, out, ind)
            sym = {"==": "=", "!=": "≠", "<": "<", "<=": "≤", ">": ">", ">=": "≥"}[e[1]]
            return f"{l.p()} {sym} {r.p()}"
        if k == "bin" and e[1] in ("&&", "||"):
            lc = self.cond(e[2], st, out, ind)
            n0 = len(out) if out is not None else 0
            rc = self.cond(e[3], st, out, ind)
            self.pure_right_operand(e, out, n0)
            return f"({lc}) {'∧' if e[1] == '&&' else '∨'} ({rc})"
        if k == "not":
            return f"¬ ({self.cond(e[1], st, out, ind)})"
        v = self.ex(e, st, "bool", out, ind)
        if v.ty != "bool":
            raise TranslateError(f"condition of type {v.ty}")
        return f"{v.p()} = true" if self.k.cond_style == "prop" else v.t

    def pure_right_operand(self, e, out, n0):
        """`a && b` / `a || b` evaluate `b` only when `a` does not decide: rendered as ∧ / ∨ (both sides evaluated) this is faithful
        only if evaluating `b` can neither fail nor emit a statement"""
        if (out is not None and len(out) != n0) or self.has_slice_or_diverge(e[3]):
            raise TranslateError(f"right operand of `{e[1]}` can fail (checked operation / slicing / panic): short-circuit evaluation is not modelled")

    def operands(self, l, r, st, want, out, ind):
        if l[0] == "lit" and l[2] is None and not (r[0] == "lit" and r[2] is None):
            rv = self.ex(r, st, want, out, ind)
            lv = self.ex(l, st, rv.ty, out, ind)
        else:
            lv = self.ex(l, st, want, out, ind)
            rv = self.ex(r, st, lv.ty, out, ind)
        if lv.ty != rv.ty:
            raise TranslateError(f"operand types {lv.ty} / {rv.ty}")
        return lv, rv

    # ---------- operators
    def binop(self, op, l, r, st, want, out, ind, hint=None):
        if self.k.bits_types and op not in ("^", "|", "&", "==", "!="):
            raise TranslateError(f"operator {op} in a kernel that models a signed type by its bit pattern")
        if op in ("<<", ">>"):
            lv = self.ex(l, st, want, out, ind)
            if self.is_word(lv.ty):
                n = self.const_int(r, st)              # only literal counts: Rust panics/masks on count >= width, Lean reduces it mod width
                if not 0 <= n < INT_TYPES[lv.ty]:
                    raise TranslateError(f"shift count {n} not below the width of {lv.ty}")
                return V(f"{lv.p()} {'<<<' if op == '<<' else '>>>'} {n}", lv.ty)
            if self.is_int(lv.ty):
                n = self.const_int(r, st)
                if not 0 <= n < SIGNED[lv.ty]:
                    raise TranslateError(f"shift count {n} not below the width of {lv.ty}")
                return self.int_shift(op, lv, n, st, out, ind)
            raise TranslateError(f"shift on {lv.ty}")
        if op in ("==", "!=", "<", "<=", ">", ">="):
            lv, rv = self.operands(l, r, st, None, out, ind)
            if op == "==":
                return V(f"{lv.p()} == {rv.p()}", "bool")
            if op == "!=":
                return V(f"{lv.p()} != {rv.p()}", "bool")
            return V(f"decide ({lv.p()} {op.replace('<=', '≤').replace('>=', '≥')} {rv.p()})", "bool")
        if op in ("&&", "||"):
            lv = self.ex(l, st, "bool", out, ind)
            n0 = len(out) if out is not None else 0
            rv = self.ex(r, st, "bool", out, ind)
            self.pure_right_operand(("bin", op, l, r), out, n0)
            return V(f"{lv.p()} {op} {rv.p()}", "bool")
        if op == "+" and self.k.mode == "int" and self.k.monadic:
            terms = self.flatten_add(("bin", op, l, r))
            pure_terms = False
            if len(terms) >= 3:
                # only when evaluating the terms has no effect of its own (no checked operation inside a term): otherwise the
                # Rust order (term, add, term, add, …) is kept by the binary path below
                probe, vs, ty = [], [], want
                saved_tmpn, saved_hint = self.tmpn, self._hint
                try:
                    for t_ in terms:
                        v_ = self.ex(t_, st, ty, probe, ind)
                        ty = v_.ty
                        vs.append(v_)
                    pure_terms = not probe and all(v_.ty == ty for v_ in vs) and self.is_int(ty)
                except TranslateError:
                    pure_terms = False
                self.tmpn, self._hint = saved_tmpn, saved_hint
            if pure_terms:
                fn = self.k.int_ops.get(("sum", SIGNED[ty]))
                if fn is not None:
                    # `a + b + c + …`: left to right, every partial sum checked (that IS the definition of the helper)
                    name = hint or self.tmp_name(st)
                    self._last_hinted = hint
                    self.emit_let(out, ind, name, f"{fn} [" + ", ".join(v_.t for v_ in vs) + "]", bind=True)
                    return V(name, ty, True)
        lv, rv = self.operands(l, r, st, want, out, ind)
        ty = lv.ty
        if self.is_word(ty):
            if op in "^|&":
                sym = {"^": "^^^", "|": "|||", "&": "&&&"}[op]
                return V(f"{lv.p()} {sym} {rv.p()}", ty)
            if op in "+-*":
                if op not in self.k.checked_ok:
                    raise TranslateError(f"checked `{op}` on {ty} (not declared overflow-free by the kernel spec)")
                self.n_checked += 1
                self.checked_sites.setdefault(op, set()).add(id(r))
                return V(f"{lv.p()} {op} {rv.p()}", ty)
            raise TranslateError(f"operator {op} on {ty}")
        if self.is_int(ty):
            if op in "+-*":
                return self.int_arith(op, lv, rv, ty, st, out, ind, hint)
            if op == "&":
                if self.is_const_int(l, st) and not self.is_const_int(r, st):
                    return self.int_and(rv, lv, l, st)
                return self.int_and(lv, rv, r, st)
            raise TranslateError(f"operator {op} on {ty}")
        if ty in ("usize", "nat"):
            if op in "+*":
                return V(f"{lv.p()} {op} {rv.p()}", ty)      # Nat: no wrap (index arithmetic; the kernel spec's doc states the range)
            if op in "/%" and r[0] == "lit" and r[1] > 0:
                return V(f"{lv.p()} {op} {rv.p()}", ty)
            if op == "-" and "-" in self.k.checked_ok:
                self.n_checked += 1
                return V(f"{lv.p()} - {rv.p()}", ty)      # Nat truncated subtraction: the spec's doc states why b <= a
            raise TranslateError(f"operator {op} on usize")
        key = (ty if isinstance(ty, str) else ty[0], {"&": "bitand", "|": "bitor", "^": "bitxor", "+": "add", "-": "sub", "*": "mul"}.get(op))
        if key in self.k.methods:
            tmpl, rty, _ = self.k.methods[key]
            return V(tmpl.format(lv.p(), rv.p()), rty)
        raise TranslateError(f"operator {op} on {ty}")

    def flatten_add(self, e):
        if e[0] == "bin" and e[1] == "+":
            return self.flatten_add(e[2]) + [e[3]]
        return [e]

    # int backend hooks (overridden by IntTr)
    def int_arith(self, op, a, b, ty, st, out, ind, hint=None):
        raise TranslateError("signed arithmetic needs mode='int'")

    def int_shift(self, op, a, n, st, out, ind):
        raise TranslateError("signed shift needs mode='int'")

    def int_and(self, a, b, rexpr, st):
        raise TranslateError("signed & needs mode='int'")

    def cast(self, v, to):
        ty = v.ty
        if ty == to:
            return v
        if self.is_word(ty) and self.is_word(to):
            return V(f"{v.p()}.to{WORD[to]}", to, v.at)
        if ty == "bool" and self.is_word(to):
            return V(f"{v.p()}.to{WORD[to]}", to)
        raise TranslateError(f"cast {ty} -> {to}")

    # ---------- calls
    def call_args(self, args, argtys, st, out, ind):
        vs = []
        for a, aty in zip(args, list(argtys) + [None] * len(args)):
            if a[0] == "index" and a[2][0] == "range":          # &m[i..j]  ->  base, lo, hi (constant bounds)
                base = self.ex(a[1], st, None, out, ind)
                lo = self.const_int(a[2][1], st) if a[2][1] else 0
                hi = self.const_int(a[2][2], st) if a[2][2] else None
                vs.append(("slice", base, lo, hi))
            else:
                vs.append(self.ex(a, st, aty, out, ind))
        return vs

    def fmt(self, tmpl, vs):
        if callable(tmpl):
            return tmpl(self, vs)
        flat = []
        for v in vs:
            if isinstance(v, tuple):
                flat += [v[1].p(), str(v[2]), "" if v[3] is None else str(v[3])]
            else:
                flat.append(v.p())
        return tmpl.format(*flat)

    def call(self, e, st, want, out, ind):
        fpath = show(e[1]) if e[1][0] in ("path",) else None
        if fpath is None:
            raise TranslateError("call of a non-path")
        fname = fpath.split("::")[-1]
        if len(e[1]) > 2:
            # `Type::<20>::f(..)`: the generic arguments select the callee; the spec must name the call by its FULL path
            if e[1][2] not in self.k.calls:
                raise TranslateError(f"call of `{e[1][2]}`: a path with generic arguments must be declared by the kernel spec under exactly that path")
            tmpl, rty, argtys = self.k.calls[e[1][2]]
            vs = self.call_args(e[2], argtys, st, out, ind)
            return V(self.fmt(tmpl, vs), rty)
        if fname in self.k.ctors and (fpath == fname or fpath.startswith("Self")):
            tmpl, rty, argtys = self.k.ctors[fname]
            vs = self.call_args(e[2], argtys, st, out, ind)
            for v, aty in zip(vs, argtys):
                if aty is not None and v.ty != aty:
                    raise TranslateError(f"constructor {fname}: argument of type {v.ty}, expected {aty}")
            return V(self.fmt(tmpl, vs), rty, isinstance(tmpl, str) and tmpl.startswith("⟨"))
        if fpath in self.k.calls or fname in self.k.calls:
            tmpl, rty, argtys = self.k.calls.get(fpath) or self.k.calls[fname]
            vs = self.call_args(e[2], argtys, st, out, ind)
            for v, aty in zip(vs, argtys):
                if aty is not None and not isinstance(v, tuple) and v.ty != aty:
                    raise TranslateError(f"call {fname}: argument of type {v.ty}, expected {aty}")
            return V(self.fmt(tmpl, vs), rty)
        # `Self::m(a, …)` / `T::m(a, …)`: dispatch on the type of the first argument like a method
        if "::" in fpath and e[2]:
            first = self.ex(e[2][0], st, None, out, ind)
            key = (first.ty if isinstance(first.ty, str) else first.ty[0], fname)
            if key in self.k.methods:
                tmpl, rty, argtys = self.k.methods[key]
                vs = [first] + self.call_args(e[2][1:], argtys, st, out, ind)
                return V(self.fmt(tmpl, vs), rty)
        raise TranslateError(f"unknown function {fpath}")

    def method(self, e, st, want, out, ind):
        recv, name, args = e[1], e[2], e[3]
        # iterator-free value methods
        rv = self.ex(recv, st, want if name.startswith("wrapping_") or name.startswith("rotate_") else None, out, ind)
        ty = rv.ty
        tkey = ty if isinstance(ty, str) else ty[0]
        if (tkey, name) in self.k.methods:
            tmpl, rty, argtys = self.k.methods[(tkey, name)]
            vs = [rv] + self.call_args(args, argtys, st, out, ind)
            return V(self.fmt(tmpl, vs), rty)
        if self.is_word(ty):
            if name in ("wrapping_add", "wrapping_sub", "wrapping_mul"):
                a = self.ex(args[0], st, ty, out, ind)
                if a.ty != ty:
                    raise TranslateError(f"{name}: operand types {ty} / {a.ty}")
                sym = {"wrapping_add": "+", "wrapping_sub": "-", "wrapping_mul": "*"}[name]
                self.wrapping_ops.add(sym)
                return V(f"{rv.p()} {sym} {a.p()}", ty)
            if name == "wrapping_neg":
                return V(f"{lit_text(0, ty)} - {rv.p()}", ty)
            if name in ("rotate_left", "rotate_right"):
                n = self.const_int(args[0], st)
                w = INT_TYPES[ty]
                if not 0 <= n < w:
                    raise TranslateError("rotation count not below the width")
                helper = self.k.rot.get(w, (None, None))[0 if name == "rotate_left" else 1]
                if helper is None:
                    raise TranslateError(f"{name} on {ty}: no helper declared by the kernel spec")
                return V(helper.format(rv.p(), n), ty)
        if isinstance(ty, tuple) and ty[0] == "list" and name == "len":
            return V(f"{rv.p()}.length", "usize")
        if name == "clone":
            return rv
        raise TranslateError(f"method {name} on {ty}")

    # ---------- statements (continuation style)
    def emit_let(self, out, ind, name, text, bind=False):
        out.append(f"{ind}let {name} {'←' if bind else ':='} {text}")

    def bind(self, place, v, st, out, ind, declare=False):
        """(re)bind a scalar place to value v through a Lean `let`"""
        if self.k.monadic and v.at and v.t is not None and getattr(self, "_last_hinted", None) == v.t:
            # the value was just produced by the hinted bind `let <name> ← …` (name chosen by fresh_for for this very place)
            self._last_hinted = None
            st.vars[place] = V(v.t, v.ty, True)
            if declare:
                st.scopes[-1].add(place)
            return
        if self.k.inline_pure and isinstance(v.ty, str):
            # no `let`: the (pure) value itself stands for the variable (only binds are emitted; see Proofs/BindWalk.lean: a `let`
            # at the root of a long bind chain makes the kernel re-compare the whole chain)
            st.vars[place] = V(v.t, v.ty, v.at)
            if declare:
                st.scopes[-1].add(place)
            return
        name = self.fresh_for(place, st)
        self.emit_let(out, ind, name, v.t)
        st.lenlb.pop(name, None)
        if v.t in st.lenlb:
            st.lenlb[name] = st.lenlb[v.t]
        st.vars[place] = V(name, v.ty, True)
        if declare:
            st.scopes[-1].add(place)

    def assign_place(self, lhs, v, st, out, ind):
        try:
            key = self.place_key(lhs, st)
        except TranslateError:
            key = None
        if key in self.k.stores:
            slot = self.k.stores[key]
            if slot.startswith("_"):
                return
        if lhs[0] in ("index",) or (lhs[0] == "deref" and lhs[1][0] == "index"):
            ie = lhs if lhs[0] == "index" else lhs[1]
            try:
                bv = self.ex(ie[1], st, None, out, ind)
            except TranslateError:
                bv = None
            if bv is not None and isinstance(bv.ty, tuple) and bv.ty[0] == "vec":
                ix = self.ex(ie[2], st, "usize", out, ind)
                if v.ty != bv.ty[1]:
                    raise TranslateError("vector store: element type")
                bkey = self.place_key(ie[1], st)
                self.bind(bkey, V(f"{bv.p()}.set ({ix.t}) {v.p()}", bv.ty), st, out, ind)
                return
        # element of tracked array
        if lhs[0] in ("index",) or (lhs[0] == "deref" and lhs[1][0] == "index"):
            ie = lhs if lhs[0] == "index" else lhs[1]
            base = self.place_key(ie[1], st)
            ix = self.const_int(ie[2], st)
            arr = st.vars.get(base)
            if arr is None and base in self.k.env and isinstance(self.k.env[base][0], list):
                arr = [V(x, self.norm_ty(self.k.env[base][1]), True) for x in self.k.env[base][0]]
            if isinstance(arr, list):
                if not 0 <= ix < len(arr):
                    raise TranslateError(f"store index {ix} out of bounds of {base}")
                ety = next((x.ty for x in arr if x is not None), v.ty)
                if v.ty != ety:
                    raise TranslateError(f"store of {v.ty} into array of {ety}")
                if not v.at:
                    name = self.fresh_for(key, st, replacing="\0")
                    self.emit_let(out, ind, name, v.t)
                    v = V(name, v.ty, True)
                arr = list(arr)
                arr[ix] = v
                st.vars[base] = arr
                return
        if key is None:
            raise TranslateError("assignment to an unsupported place")
        if key in st.vars or key in self.k.env:
            old = st.vars.get(key)
            if old is None and key in self.k.env:
                oty = self.norm_ty(self.k.env[key][1])
            elif old is None:
                oty = getattr(self, "decl_ty", {}).get(key)
            else:
                oty = old.ty if isinstance(old, V) else None
            if oty is not None and oty != v.ty:
                raise TranslateError(f"assignment of {v.ty} to {key} : {oty}")
            self.bind(key, v, st, out, ind)
            return
        raise TranslateError(f"assignment to unknown place {key}")

    def set_hint(self, e, lhs, st):
        """monadic kernels: the bind of the outermost checked operation of `lhs = e` is named like the variable itself"""
        self._hint = None
        if not self.k.monadic:
            return
        while e[0] == "paren":
            e = e[1]
        if e[0] not in ("bin", "neg"):
            return
        try:
            key = self.place_key(lhs, st) if isinstance(lhs, tuple) else lhs
        except TranslateError:
            return
        if "[" in key:
            return
        self._hint = (e, self.fresh_for(key, st))

    def seq(self, stmts, i, st, out, ind, k):
        """translate stmts[i:], then continue with k(st, out, ind, retvalue)"""
        if i == len(stmts):
            return k(st, out, ind, None)
        need = self.slice_needs(stmts, i, st)
        if need:
            # slicing panics when the end is beyond the length: ONE guard for the straight-line run (which panic fires first is
            # not observable: every panic is the same value)
            conds = []
            for t, n in sorted(need.items()):
                tt = t if re.fullmatch(r"[\w.]+", t) else "(" + t + ")"
                conds.append(f"{n} ≤ {tt}.length")
                st.lenlb[t] = n
            out.append(f"{ind}if {' ∧ '.join(conds)} then")
            self.seq(stmts, i, st, out, ind + "  ", k)
            out.append(f"{ind}else {self.panic_text()}")
            return
        s = stmts[i]
        rest = lambda st2, out2, ind2, _r=None: self.seq(stmts, i + 1, st2, out2, ind2, k)
        kind = s[0]
        if kind == "let":
            return self.do_let(s, st, out, ind, rest)
        if kind == "assign":
            lhs, op, rhs = s[1], s[2], s[3]
            if len(s) > 4:
                raise TranslateError("`p = &mut <place>` creates a mutable alias: writes through it would be lost (not translated)")
            if op == "=" and rhs[0] == "array":
                key = self.place_key(lhs, st)
                old = st.vars.get(key)
                if old is None and key in self.k.env and isinstance(self.k.env[key][0], list):
                    old = [V(x, self.norm_ty(self.k.env[key][1]), True) for x in self.k.env[key][0]]
                if not isinstance(old, list) or len(old) != len(rhs[1]):
                    raise TranslateError(f"array assignment to {key}")
                ety = next((x.ty for x in old if x is not None), None)
                vs = [self.ex(x, st, ety, out, ind) for x in rhs[1]]
                if any(v.ty != ety for v in vs):
                    raise TranslateError("array assignment: element type")
                st.vars[key] = [self.atomize(v, f"{key}_{j}", st, out, ind) for j, v in enumerate(vs)]
                return rest(st, out, ind)
            if op == "=":
                cur_ty = None
                try:
                    cv = self.lookup_place(lhs, st)
                    cur_ty = cv.ty if isinstance(cv, V) else None
                except TranslateError:
                    try:
                        cur_ty = self.decl_ty.get(self.place_key(lhs, st))
                    except TranslateError:
                        cur_ty = None
                if cur_ty is None and lhs[0] == "index":
                    try:
                        cur_ty = self.ex(lhs, st, None, [], ind).ty
                    except TranslateError:
                        cur_ty = None
                self.set_hint(rhs, lhs, st)
                v = self.ex(rhs, st, cur_ty, out, ind)
                self._hint = None
            else:
                be = ("bin", op[:-1], lhs, rhs)
                self.set_hint(be, lhs, st)
                v = self.ex(be, st, None, out, ind)
                self._hint = None
            self.assign_place(lhs, v, st, out, ind)
            return rest(st, out, ind)
        if kind == "ret":
            if i != len(stmts) - 1:
                raise TranslateError("value expression before the end of a block")
            e = s[1]
            if e[0] in ("if", "match", "blockexpr", "macro") and self.is_stmt_like(e):
                return self.do_expr_stmt(e, st, out, ind, k, tail=True)
            return k(st, out, ind, e)
        if kind == "return":
            # `return e;` leaves the FUNCTION: the continuation is the end of the function, not the rest of the enclosing blocks
            if self.fn_k is None or self.no_return:
                raise TranslateError("`return` inside a loop body / macro body that is rendered as a separate function")
            if i != len(stmts) - 1:
                raise TranslateError("statements after `return` (unreachable code)")
            return self.fn_k(st, out, ind, s[1])
        if kind == "fnitem":
            raise TranslateError(f"nested `fn {s[1]}` inside a block of the translated body")
        if kind == "expr":
            return self.do_expr_stmt(s[1], st, out, ind, rest, tail=False)
        if kind == "for":
            return self.do_for(s, st, out, ind, rest)
        raise TranslateError(f"unsupported statement {kind}")

    def is_stmt_like(self, e):
        """an `if`/`match`/block in tail position whose branches are statement blocks (not a single value expression)"""
        if e[0] == "macro":
            return True
        if e[0] == "blockexpr":
            return True
        if e[0] == "if":
            return True
        if e[0] == "match":
            return True
        return False

    decl_ty = None

    def do_let(self, s, st, out, ind, rest):
        pat, ty, init = s[1], s[2], s[3]
        ty = self.norm_ty(ty) if ty is not None else None
        if pat[0] == "tuple":
            if len(s) > 4:
                raise TranslateError("`let (..) = (&mut <place>, ..)` creates mutable aliases (not translated)")
            return self.do_let_tuple(pat, ty, init, st, out, ind, rest)
        if len(s) > 4:
            raise TranslateError("`let x = &mut <place>` creates a mutable alias: writes through it would be lost (not translated)")
        name = pat[1]
        if len(st.scopes) > 1 and name in st.vars and name not in st.scopes[-1]:
            raise TranslateError(f"`let {name}` in a nested block shadows an outer binding (not supported)")
        if init is None:
            st.vars[name] = None
            self.decl_ty[name] = ty
            st.scopes[-1].add(name)
            return rest(st, out, ind)
        # arrays: `[0u32; 16]`, `[a, b, c]`, copy of a tracked array
        if init[0] == "repeat":
            n = None
            try:
                n = self.const_int(init[2], st)
            except TranslateError:
                pass
            ety = ty[1] if isinstance(ty, tuple) and ty[0] == "list" else None
            if n is None and ety is None and init[1][0] == "lit" and init[1][2] is None:
                # `[0; N]` whose element type is fixed by the first element-wise write: a list of the symbolic length N, contents
                # only readable after a loop has overwritten every element (for_iter checks the length symbol)
                st.vars[name] = V(None, ("list", None, show(init[2])), False)
                st.scopes[-1].add(name)
                return rest(st, out, ind)
            ev = self.ex(init[1], st, ety, out, ind)
            if n is not None:
                st.vars[name] = [V(ev.t, ev.ty, ev.at) for _ in range(n)]
            else:
                lensym = show(init[2])
                st.vars[name] = V(f"List.replicate {lensym} {ev.p()}", ("list", ev.ty, lensym))
                st.vars[name].at = False
                self.zero_lists = getattr(self, "zero_lists", set()) | {name}
            st.scopes[-1].add(name)
            return rest(st, out, ind)
        if init[0] == "array":
            ety = ty[1] if isinstance(ty, tuple) and ty[0] == "list" else None
            if ety is None:
                for x in init[1]:              # element type = type of the first element that has one
                    try:
                        ety = self.ex(x, st, None, [], ind).ty
                        break
                    except TranslateError:
                        continue
            vs = [self.ex(x, st, ety, out, ind) for x in init[1]]
            if any(v.ty != ety for v in vs):
                raise TranslateError("array literal with elements of different types")
            st.vars[name] = [self.atomize(v, f"{name}_{j}", st, out, ind) for j, v in enumerate(vs)]
            st.scopes[-1].add(name)
            return rest(st, out, ind)
        if init[0] in ("if", "match") and (self.has_slice_or_diverge(init) or not self.value_branches(init) or self.k.monadic):
            # (monadic kernels: a branch may contain checked operations, which must stay inside their branch)
            return self.let_branching(("var", name), ty, init, st, out, ind, rest)
        if init[0] in ("path", "field", "index", "deref", "paren"):
            pv = None
            try:
                pv = self.lookup_place(init, st)
            except TranslateError:
                pv = None
            if isinstance(pv, list):
                st.vars[name] = list(pv)
                st.scopes[-1].add(name)
                return rest(st, out, ind)
        if init[0] == "call" and init[1][0] == "path" and init[1][1] in self.k.let_hooks:
            self.k.let_hooks[init[1][1]](self, name, init, st, out, ind)
            st.scopes[-1].add(name)
            return rest(st, out, ind)
        if init[0] == "method" and init[2] == "clone":
            pv = self.lookup_place(init[1], st)
            if isinstance(pv, list):
                st.vars[name] = list(pv)
                st.scopes[-1].add(name)
                return rest(st, out, ind)
        self.set_hint(init, name, st)
        v = self.ex(init, st, ty, out, ind)
        self._hint = None
        if ty is not None and isinstance(ty, str) and v.ty != ty:
            raise TranslateError(f"let {name}: {ty} = value of type {v.ty}")
        self.bind(name, v, st, out, ind, declare=True)
        return rest(st, out, ind)

    def let_branching(self, pat, ty, init, st, out, ind, rest):
        """`let pat = if c {..; v1} else {..; v2};` / `match`: the continuation is duplicated into the branches"""
        def arm(blk, st_arm, out2, ind2):
            if blk and blk[-1][0] in ("ret", "expr") and blk[-1][1][0] == "macro" and blk[-1][1][1] in ("unreachable", "panic"):
                out2.append(f"{ind2}{self.panic_text()}")
                return
            if not blk or blk[-1][0] != "ret":
                raise TranslateError("branch of a let without a value")
            st_arm.scopes.append(set())

            def after(st3, out3, ind3, r=None):
                val = blk[-1][1]
                declared = st3.scopes.pop()
                stmt = ("let", pat, None, val)
                # evaluate the value inside the branch scope, then drop the branch's locals
                def k2(st4, out4, ind4, _r=None):
                    for n in declared:
                        if not (pat[0] == "var" and n == pat[1]):
                            st4.vars.pop(n, None)
                    return rest(st4, out4, ind4)
                return self.seq([("let", pat, ty, val)], 0, st3, out3, ind3, k2)
            return self.seq(blk[:-1], 0, st_arm, out2, ind2, after)
        if init[0] == "if":
            c = self.cond(init[1], st, out, ind)
            out.append(f"{ind}if {c} then")
            st_then = st.copy(); self.learn_len(init[1], st_then, out, ind)
            arm(init[2], st_then, out, ind + "  ")
            out.append(f"{ind}else")
            if init[3] is None:
                raise TranslateError("let = if without else")
            arm(init[3], st.copy(), out, ind + "  ")
            return
        scrut, arms = init[1], init[2]
        sv = self.ex(scrut, st, None, out, ind)
        first = True
        for idx, (p_, body) in enumerate(arms):
            if p_ is None:
                if idx != len(arms) - 1 or first:
                    raise TranslateError("match arms")
                out.append(f"{ind}else")
                arm(body, st.copy(), out, ind + "  ")
                return
            out.append(f"{ind}{'if' if first else 'else if'} {self.pat_cond(sv, p_, st, out, ind)} then")
            st_arm = st.copy()
            if p_[0] != "orpat":
                self.learn_len(("bin", "==", scrut, p_), st_arm, out, ind)
            arm(body, st_arm, out, ind + "  ")
            first = False
        raise TranslateError("match without a `_` arm")

    def value_branches(self, e):
        if e[0] == "if":
            return all(b is not None and len(b) == 1 and b[0][0] == "ret" and (b[0][1][0] not in ("if", "match") or self.value_branches(b[0][1])) for b in (e[2], e[3]))
        return False

    def atomize(self, v, hint, st, out, ind):
        if v.at:
            return v
        name = self.fresh_for(hint, st, replacing="\0")
        self.emit_let(out, ind, name, v.t)
        return V(name, v.ty, True)

    def do_let_tuple(self, pat, ty, init, st, out, ind, rest):
        flat = pat[1]
        while len(flat) == 1 and flat[0][0] == "tuple":
            flat = flat[0][1]
        if init[0] in ("path", "field", "index", "deref"):
            pv = self.lookup_place(init, st)
            if isinstance(pv, list):
                if len(pv) != len(flat):
                    raise TranslateError("destructuring arity")
                for p_, v in zip(flat, pv):
                    if p_[0] != "var":
                        raise TranslateError("nested destructuring")
                    st.vars[p_[1]] = v
                    st.scopes[-1].add(p_[1])
                return rest(st, out, ind)
            if isinstance(pv, V) and isinstance(pv.ty, str) and pv.ty in getattr(self.k, "structs", {}):
                pass
        if init[0] == "tuple" and len(init[1]) == len(flat):
            for p_, x in zip(flat, init[1]):
                if x[0] == "lit" and x[2] is None:
                    # untyped integer literal: a compile-time integer, typed at each use
                    st.vars[p_[1]] = V(x[1], "#const", True)
                    st.scopes[-1].add(p_[1])
                    continue
                v = self.ex(x, st, None, out, ind)
                self.bind(p_[1], v, st, out, ind, declare=True)
            return rest(st, out, ind)
        if init[0] in ("if", "match") and (self.has_slice_or_diverge(init) or not self.value_branches(init)):
            return self.let_branching(pat, ty, init, st, out, ind, rest)
        if init[0] == "if" and self.value_branches(init):
            # `let (a, b) = if c { (x, y) } else { (u, v) };` -> component-wise
            def comp(e, j):
                if e[0] == "if":
                    return ("if", e[1], [("ret", comp(e[2][0][1], j))], [("ret", comp(e[3][0][1], j))])
                if e[0] == "paren":
                    return comp(e[1], j)
                if e[0] != "tuple" or len(e[1]) != len(flat):
                    raise TranslateError("tuple-valued if: branch is not a tuple")
                return e[1][j]
            for j, p_ in enumerate(flat):
                v = self.ex(comp(init, j), st, None, out, ind)
                self.bind(p_[1], v, st, out, ind, declare=True)
            return rest(st, out, ind)
        if init[0] == "method" and init[2] == "overflowing_add" and len(flat) == 2 and len(init[3]) == 1:
            x = self.ex(init[1], st, None, out, ind)
            if not self.is_word(x.ty):
                raise TranslateError("overflowing_add on a non-word")
            y = self.ex(init[3][0], st, x.ty, out, ind)
            w = INT_TYPES[x.ty]
            ov = V(f"decide (2 ^ {w} ≤ {x.p()}.toNat + {y.p()}.toNat)", "bool")
            sm = V(f"{x.p()} + {y.p()}", x.ty)
            # both components read the OLD operands: compute the flag first, then the sum (neither let may capture the other)
            self.bind(flat[1][1], ov, st, out, ind, declare=True)
            self.bind(flat[0][1], sm, st, out, ind, declare=True)
            return rest(st, out, ind)
        v = self.ex(init, st, None, out, ind)
        if isinstance(v.ty, tuple) and v.ty[0] == "tuple" and len(v.ty[1]) == len(flat):
            names = []
            for p_, ety in zip(flat, v.ty[1]):
                n = self.fresh_for(p_[1], st)
                names.append(n)
            out.append(f"{ind}match {v.t} with")
            out.append(f"{ind}| ({', '.join(names)}) =>")
            for p_, n, ety in zip(flat, names, v.ty[1]):
                st.vars[p_[1]] = V(n, ety, True)
                st.scopes[-1].add(p_[1])
            return rest(st, out, ind)
        raise TranslateError(f"unsupported destructuring of {init[0]}")

    # ---------- expression statements: if / match / macros / asserts / mutating calls
    def panic_text(self):
        if self.k.panic is None:
            raise TranslateError("panic path in a kernel declared panic-free")
        return self.k.panic

    def do_block(self, blk, st, out, ind, k):
        st.scopes.append(set())

        def after(st2, out2, ind2, r=None):
            declared = st2.scopes.pop()
            for n in declared:
                st2.vars.pop(n, None)
            return k(st2, out2, ind2, r)
        return self.seq(blk, 0, st, out, ind, after)

    @staticmethod
    def stmt_block(blk, tail):
        """a block in STATEMENT position has no value: its trailing expression (no `;`) is an expression statement — it is executed
        for its effect (or refused by do_expr_stmt), never dropped"""
        if not tail and blk and blk[-1][0] == "ret":
            return list(blk[:-1]) + [("expr", blk[-1][1])]
        return blk

    def do_expr_stmt(self, e, st, out, ind, k, tail):
        kind = e[0]
        if kind == "blockexpr":
            return self.do_block(self.stmt_block(e[1], tail), st, out, ind, k)
        if kind == "if":
            c = self.cond(e[1], st, out, ind)
            out.append(f"{ind}if {c} then")
            st_then = st.copy()
            self.learn_len(e[1], st_then, out, ind)
            self.do_block(self.stmt_block(e[2], tail), st_then, out, ind + "  ", k)
            out.append(f"{ind}else")
            self.do_block(self.stmt_block(e[3], tail) if e[3] is not None else [], st.copy(), out, ind + "  ", k)
            return
        if kind == "match":
            if not tail:
                e = ("match", e[1], [(p_, self.stmt_block(b_, tail)) for p_, b_ in e[2]])
            return self.do_match(e, st, out, ind, k)
        if kind == "macro":
            return self.do_macro(e, st, out, ind, k)
        if kind == "call":
            return self.do_call_stmt(e, st, out, ind, k)
        if kind == "method":
            return self.do_method_stmt(e, st, out, ind, k)
        raise TranslateError(f"unsupported expression statement {kind}")

    def learn_len(self, c, st, out, ind):
        """`X.len() == n` holds in this branch: record the length of X"""
        while c[0] == "paren":
            c = c[1]
        if c[0] == "bin" and c[1] == "==" and c[2][0] == "method" and c[2][2] == "len" and self.is_const_int(c[3], st):
            try:
                v = self.ex(c[2][1], st, None, out, ind)
            except TranslateError:
                return
            st.lenlb[v.t] = max(st.lenlb.get(v.t, 0), self.const_int(c[3], st))

    def slice_needs(self, stmts, i, st):
        """constant slice bounds `X[a..b]` used by the straight-line statements from i on: lean text of X -> max b not yet known to fit"""
        need = {}

        def walk(e):
            if isinstance(e, tuple):
                if e and e[0] in ("if", "match"):
                    if self.has_slice_or_diverge(e):
                        if not (isinstance(cur[0], tuple) and cur[0][0] == "let" and cur[0][3] is e):
                            raise TranslateError("conditional slicing inside a value expression")
                    return
                if len(e) == 3 and e[0] == "index" and isinstance(e[2], tuple) and e[2] and e[2][0] == "range":
                    try:
                        base = self.ex(e[1], st, None, [], "")
                        hi = self.const_int(e[2][2], st) if e[2][2] else None
                    except TranslateError:
                        base, hi = None, None
                    if base is not None and hi is not None and isinstance(base.ty, tuple) and base.ty[0] == "list":
                        if isinstance(base.ty[2], int):
                            if hi > base.ty[2]:
                                raise TranslateError(f"slice end {hi} beyond the static length {base.ty[2]}")
                        elif hi > st.lenlb.get(base.t, 0):
                            need[base.t] = max(need.get(base.t, 0), hi)
                for x in e:
                    walk(x)
            elif isinstance(e, list):
                for x in e:
                    walk(x)
        cur = [None]
        for s in stmts[i:]:
            if s[0] in ("for",) or (s[0] in ("expr", "ret") and s[1][0] in ("if", "match", "blockexpr", "macro")):
                break
            if s[0] == "let" and s[3] is not None and s[3][0] in ("if", "match") and self.has_slice_or_diverge(s[3]):
                break                      # statement-level branching (see do_let)
            cur[0] = s
            walk(s)
        return need

    def has_slice_or_diverge(self, e):
        if isinstance(e, tuple):
            if len(e) == 3 and e[0] == "index" and isinstance(e[2], tuple) and e[2] and e[2][0] == "range":
                return True
            if e and e[0] == "macro" and e[1] in ("unreachable", "panic", "assert", "assert_eq"):
                return True
            return any(self.has_slice_or_diverge(x) for x in e)
        if isinstance(e, list):
            return any(self.has_slice_or_diverge(x) for x in e)
        return False

    def do_match(self, e, st, out, ind, k):
        scrut, arms = e[1], e[2]
        sv = self.ex(scrut, st, None, out, ind)
        first = True
        for idx, (pat, body) in enumerate(arms):
            last = idx == len(arms) - 1
            if pat is None:
                if not last:
                    raise TranslateError("`_` arm is not last")
                if first:
                    return self.do_block(body, st, out, ind, k)
                out.append(f"{ind}else")
                self.do_block(body, st.copy(), out, ind + "  ", k)
                return
            out.append(f"{ind}{'if' if first else 'else if'} {self.pat_cond(sv, pat, st, out, ind)} then")
            st_arm = st.copy()
            if pat[0] != "orpat":
                self.learn_len(("bin", "==", scrut, pat), st_arm, out, ind)
            self.do_block(body, st_arm, out, ind + "  ", k)
            first = False
        raise TranslateError("match without a `_` arm")

    def pat_cond(self, sv, pat, st, out, ind):
        """the test of one match arm: `scrutinee = p`, or for an or-pattern `p | q` the disjunction of the alternatives"""
        alts = pat[1] if pat[0] == "orpat" else [pat]
        pvs = [self.ex(a, st, sv.ty, out, ind) for a in alts]
        return " ∨ ".join(f"{sv.p()} = {pv.p()}" for pv in pvs)

    def do_macro(self, e, st, out, ind, k):
        name, args = e[1], e[2]
        if name in ("unreachable", "panic", "unimplemented", "todo"):
            out.append(f"{ind}{self.panic_text()}")
            return
        if name in ("assert", "assert_eq", "debug_assert", "debug_assert_eq"):
            if name.endswith("_eq"):
                a = P2(args[0] + [("eof", None, None)][:0]).expr(); b = P2(args[1]).expr()
                c = self.cond(("bin", "==", a, b), st, out, ind)
            else:
                c = self.cond(P2(args[0]).expr(), st, out, ind)
            if name.startswith("debug_"):
                # checked only when `debug_assertions` is on: rendered through the marker `debugAssert` (Util/DebugAssert.lean: the same
                # guard, i.e. the meaning under a debug build) so that `assert!` <-> `debug_assert!` is a change of the generated text
                c = f"debugAssert ({c})" if self.k.cond_style == "prop" else f"debugAssertB ({c})"
            out.append(f"{ind}if {c} then")
            st_ok = st.copy()
            if name.endswith("_eq") and all(x[0] == "method" and x[2] == "len" for x in (a, b)):
                la = self.ex(a[1], st, None, out, ind).ty; lb = self.ex(b[1], st, None, out, ind).ty
                ra, rb = st_ok.lenrep(la[2]), st_ok.lenrep(lb[2])
                if ra != rb:
                    st_ok.leneq[ra] = rb
            k(st_ok, out, ind + "  ", None)
            out.append(f"{ind}else {self.panic_text()}")
            return
        params, body = find_macro(self.src, name)
        argtexts = [untok(a) for a in args]
        if name in self.k.macro_fns:
            return self.macro_call(name, params, body, args, st, out, ind, k)
        self.macro_hygiene(name, params, body, st)
        text = macro_subst(body, params, argtexts)
        text, tbl = protect_bytestrings(text)
        mp = P2(lex(text)); mp.fnitems = True
        stmts = mp.block()
        return self.do_block(stmts, st, out, ind, k)

    _free_cache = None

    def macro_hygiene(self, name, params, body, st):
        """the macro is expanded at the call site textually; in Rust an identifier written in the macro BODY never refers to a local
        variable of the caller (hygiene).  Refuse an expansion in which such an identifier would be captured by a caller's local."""
        if self._free_cache is None:
            self._free_cache = {}
        if name not in self._free_cache:
            text = macro_subst(body, params, [f"__mp{j}" for j in range(len(params))])
            stmts = P2(lex(protect_bytestrings(text)[0])).block()
            bound, free = set(), set()

            def pat_names(p_):
                if p_[0] == "var":
                    bound.add(p_[1])
                elif p_[0] == "tuple":
                    for q in p_[1]:
                        pat_names(q)

            def walk(x, head=False):
                if isinstance(x, tuple):
                    if x and x[0] == "let":
                        walk(x[3]); pat_names(x[1]); return
                    if x and x[0] == "for" and isinstance(x[1], tuple):
                        pat_names(x[1])
                    if x and x[0] == "path":
                        if "::" not in x[1] and not x[1].startswith("__mp") and x[1] not in bound and not head:
                            free.add(x[1])
                        return
                    if x and x[0] == "call":
                        walk(x[1], head=True)
                        for a in x[2]:
                            walk(a)
                        return
                    if x and x[0] == "macro":
                        for a in x[2]:
                            free.update(t[1] for t in a if t[0] == "id" and not t[1].startswith("__mp") and t[1] not in bound)
                        return
                    for y in x[1:]:
                        walk(y)
                elif isinstance(x, list):
                    for y in x:
                        walk(y)
            walk(stmts)
            self._free_cache[name] = free
        for n in sorted(self._free_cache[name]):
            if n in st.vars:
                raise TranslateError(f"macro {name}!: its body mentions `{n}`, which is a local variable at this call site — macro hygiene: "
                                     "the body cannot see the caller's locals, textual expansion would capture it")

    def macro_assigned(self, name, _seen=()):
        """indices of the parameters a macro body assigns (directly or through nested macro calls)"""
        if name in _seen:
            raise TranslateError("recursive macro")
        params, body = find_macro(self.src, name)
        pn = [p for p, _ in params]
        text = macro_subst(body, params, [f"__mp{j}" for j in range(len(pn))])
        stmts = P2(lex(text)).block()
        assigned = set()

        def walk(ss):
            for s in ss:
                if s[0] == "assign":
                    t = s[1]
                    while t[0] in ("paren", "deref"):
                        t = t[1]
                    if t[0] == "path" and t[1].startswith("__mp"):
                        assigned.add(int(t[1][4:]))
                    else:
                        raise TranslateError(f"macro {name} assigns a non-parameter place")
                elif s[0] in ("expr", "ret") and s[1][0] == "macro":
                    inner = s[1]
                    ia = self.macro_assigned(inner[1], _seen + (name,))
                    for j in ia:
                        a = inner[2][j]
                        if len(a) == 1 and a[0][0] == "id" and a[0][1].startswith("__mp"):
                            assigned.add(int(a[0][1][4:]))
                        else:
                            raise TranslateError(f"macro {name}: nested macro assigns a non-parameter place")
                elif s[0] == "let":
                    pass
                else:
                    raise TranslateError(f"macro {name}: unsupported statement {s[0]} for the call form")
        walk(stmts)
        return sorted(assigned)

    def macro_call(self, name, params, body, args, st, out, ind, k):
        fn = self.k.macro_fns[name]
        assigned = self.macro_assigned(name)
        vals = []
        for (pn, frag), a in zip(params, args):
            e = P2(a).expr()
            if frag == "literal":
                vals.append(str(self.const_int(e, st)))
            else:
                vals.append(self.ex(e, st, None, out, ind).p())
        if name in self.k.macro_lit_ok and not self.k.macro_lit_ok[name](vals):
            raise TranslateError(f"macro {name}: literal argument outside the range its translation assumes")
        places = [P2(args[j]).expr() for j in assigned]
        keys = [self.place_key(p, st) for p in places]
        if len(set(keys)) != len(keys):
            raise TranslateError(f"macro {name}: the same place passed twice as an assigned parameter")
        tys = []
        for p in places:
            tys.append(self.ex(p, st, None, out, ind).ty)
        # all new names are bound simultaneously by the pattern
        names = []
        for key in keys:
            names.append(self.fresh_for(key, st))
        open_, close = self.k.macro_pat
        out.append(f"{ind}match {fn} {' '.join(vals)} with")
        out.append(f"{ind}| {open_}{', '.join(names)}{close} =>")
        for key, n, ty in zip(keys, names, tys):
            st.vars[key] = V(n, ty, True)
        return k(st, out, ind, None)

    def do_call_stmt(self, e, st, out, ind, k):
        fpath = show(e[1]) if e[1][0] == "path" else None
        fname = fpath.split("::")[-1] if fpath else None
        if fname in self.k.stmt_calls:
            self.k.stmt_calls[fname](self, e, st, out, ind)
            return k(st, out, ind, None)
        if fname in self.k.mut_calls:
            # f(&mut a, b, …) / f(a, b) with `a: &mut T`: the spec names which arguments are written
            fn, outs, pat = self.k.mut_calls[fname]
            vals = [self.ex(a, st, None, out, ind) for a in e[2]]
            keys = [self.place_key(e[2][j], st) for j in outs]
            if len(set(keys)) != len(keys):
                raise TranslateError(f"{fname}: the same place passed twice as a `&mut` argument")
            names = [self.fresh_for(key, st) for key in keys]
            app = fn.format(*[v.t for v in vals]) if "{" in fn else f"{fn} {' '.join(v.p() for v in vals)}"
            out.append(f"{ind}match {app} with")
            out.append(f"{ind}| {pat[0]}{', '.join(names)}{pat[1]} =>")
            for key, n, j in zip(keys, names, outs):
                st.vars[key] = V(n, vals[j].ty, True)
            return k(st, out, ind, None)
        raise TranslateError(f"call statement {fpath}")

    def do_method_stmt(self, e, st, out, ind, k):
        if e[2] in self.k.stmt_methods:
            self.k.stmt_methods[e[2]](self, e, st, out, ind)
            return k(st, out, ind, None)
        raise TranslateError(f"method call statement .{e[2]}()")

    # ---------- loops
    def assigned_in(self, stmts, st):
        """places assigned in a statement list (declared outside it)"""
        acc, local = [], set()

        def walk(ss):
            for s in ss:
                if s[0] == "let":
                    pats = [s[1]]
                    while pats:
                        p_ = pats.pop()
                        if p_[0] == "var":
                            local.add(p_[1])
                        else:
                            pats += p_[1]
                elif s[0] == "assign":
                    try:
                        key = self.place_key(s[1], st)
                    except TranslateError:
                        t = s[1]
                        while t[0] in ("paren", "deref"):
                            t = t[1]
                        if t[0] != "index":
                            raise
                        key = self.place_key(t[1], st)
                    if key not in local and key not in acc:
                        acc.append(key)
                elif s[0] in ("expr", "ret") and s[1][0] == "macro" and s[1][1] not in ("assert", "assert_eq", "unreachable", "panic"):
                    for j in self.macro_assigned(s[1][1]):
                        key = self.place_key(P2(s[1][2][j]).expr(), st)
                        if key not in local and key not in acc:
                            acc.append(key)
                elif s[0] in ("expr", "ret") and s[1][0] == "if":
                    walk(s[1][2]); walk(s[1][3] or [])
                elif s[0] in ("expr", "ret") and s[1][0] == "call" and s[1][1][0] == "path" and s[1][1][1].split("::")[-1] in self.k.mut_calls:
                    fn, outs, pat = self.k.mut_calls[s[1][1][1].split("::")[-1]]
                    for j in outs:
                        key = self.place_key(s[1][2][j], st)
                        if key not in local and key not in acc:
                            acc.append(key)
                elif s[0] == "for":
                    walk(s[3])
                elif s[0] in ("expr", "ret"):
                    pass
                else:
                    raise TranslateError(f"loop analysis: statement {s[0]}")
        walk(stmts)
        return acc

    def do_for(self, s, st, out, ind, rest):
        pat, it, body = s[1], s[2], s[3]
        # (1) range loops
        if it[0] == "range":
            lo_e, hi_e = it[1], it[2]
            if len(it) > 3 and it[3] == "..=":
                raise TranslateError("inclusive range loop")
            unroll = self.is_const_int(lo_e, st) and self.is_const_int(hi_e, st) and not (self.k.loop_fn and pat == ("var", "_")) and not self.k.iloops
            if unroll:
                lo, hi = self.const_int(lo_e, st), self.const_int(hi_e, st)
                if hi - lo > 4096:
                    raise TranslateError("loop too long to unroll")
                if pat[0] != "var":
                    raise TranslateError("range loop pattern")

                def iteration(j):
                    def run(st2, out2, ind2, _r=None):
                        if j == hi:
                            st2.vars.pop(pat[1], None)
                            return rest(st2, out2, ind2)
                        if pat[1] != "_":
                            st2.vars[pat[1]] = V(j, "#const", True)
                        return self.do_block(body, st2, out2, ind2, iteration(j + 1))
                    return run
                return iteration(lo)(st, out, ind)
            if self.k.iloops:
                # `for i in 0..N { body }` rendered as `(List.finRange N).foldl STEP state`; STEP is the kernel translated from this body
                if id(s) not in self.iloop_ids:          # the same loop may be met again in a duplicated continuation
                    self.iloop_ids[id(s)] = len(self.iloop_ids)
                n_ = self.iloop_ids[id(s)]
                step = self.k.iloops[n_] if n_ < len(self.k.iloops) else None
                if step is None:
                    raise TranslateError("more indexed loops than declared step functions")
                if not (lo_e[0] == "lit" and lo_e[1] == 0) or pat[0] != "var":
                    raise TranslateError("indexed loop must be `for i in 0..N`")
                n = self.const_int(hi_e, st)
                self.check_step_kernel(step, s)
                state = self.assigned_in(body, st)
                if len(state) != 1:
                    raise TranslateError("indexed loop with a state of more than one place")
                cur = self.ex(self.parse_place(state[0]), st, None, out, ind)
                self.bind(state[0], V(f"(List.finRange {n}).foldl {step} {cur.p()}", cur.ty), st, out, ind)
                return rest(st, out, ind)
            if self.k.loop_fn and pat == ("var", "_"):
                if not (lo_e[0] == "lit" and lo_e[1] == 0):
                    raise TranslateError("counted loop must start at 0")
                comb, step, pack, unpack_pat = self.k.loop_fn
                self.check_step_kernel(step, s)
                state = self.assigned_in(body, st)
                cnt = self.ex(hi_e, st, "usize", out, ind)
                cur = [self.ex(self.parse_place(p), st, None, out, ind) for p in state]
                names = [self.fresh_for(p, st) for p in state]
                out.append(f"{ind}match {comb} {step} {cnt.p()} {pack([c.t for c in cur], state)} with")
                out.append(f"{ind}| {unpack_pat(names, state)} =>")
                for p, n, c in zip(state, names, cur):
                    st.vars[p] = V(n, c.ty, True)
                return rest(st, out, ind)
            raise TranslateError("range loop with non-constant bounds")
        return self.for_iter(pat, it, body, st, out, ind, rest)

    def check_step_kernel(self, step, loop):
        """the loop is rendered `<combinator> <step> …` without its body: sound only if <step> IS the definition generated from this
        very body.  Demanded: a kernel of the same spec module named <step>, same file / fn / kind, whose `select` applied to the
        statements of this function returns (the statements before the loop, when the loop is at top level, followed by) exactly
        the statements of this loop body."""
        body = loop[3]
        sib = next((x for x in KT.sibling_kernels(self.k) if getattr(x, "lean_name", None) == step.split(".")[-1]), None)
        if sib is None:
            raise TranslateError(f"loop step `{step}`: no kernel of this spec module generates it (the loop body would be untranslated)")
        if (sib.file, sib.fn, getattr(sib, "kind", "fn")) != (self.k.file, self.k.fn, self.k.kind) or getattr(sib, "select", None) is None:
            raise TranslateError(f"loop step `{step}` is not translated from the body of this loop (other file / fn, or no `select`)")
        sel = sib.select(list(self.all_stmts))
        top = next((j for j, x in enumerate(self.all_stmts) if x is loop), None)
        ok = len(sel) >= len(body) and sel[len(sel) - len(body):] == body
        if ok and top is not None and len(sel) > len(body):
            ok = sel[:len(sel) - len(body)] == [x for x in self.all_stmts[:top]]
        elif ok and len(sel) > len(body):
            ok = False
        if not ok:
            raise TranslateError(f"loop step `{step}` is generated from other statements than the body of this loop")

    def parse_place(self, text):
        return P2(lex(text)).expr()

    # iterator loops ------------------------------------------------------------------------------
    def iter_desc(self, it, st, out, ind):
        """describe an iterator expression: ('list', V, mutable_place|None) | ('zip', d1, d2) with .rev() folded into the list text"""
        if it[0] == "method":
            recv, name, args = it[1], it[2], it[3]
            if name in ("iter", "iter_mut") and not args:
                v = self.ex(recv, st, None, out, ind)
                if not (isinstance(v.ty, tuple) and v.ty[0] == "list"):
                    raise TranslateError(f".{name}() on {v.ty}")
                if v.t is None and name == "iter":
                    raise TranslateError("read of an array before it is written")
                place = self.place_key(recv, st) if name == "iter_mut" else None
                return ("list", v, place)
            if name == "rev" and not args:
                d = self.iter_desc(recv, st, out, ind)
                if d[0] != "list" or d[2] is not None:
                    raise TranslateError(".rev() of a non-list / mutable iterator")
                return ("list", V(f"{d[1].p()}.reverse", d[1].ty), None)
            if name == "zip" and len(args) == 1:
                return ("zip", self.iter_desc(recv, st, out, ind), self.iter_desc(args[0], st, out, ind))
        raise TranslateError("unsupported iterator expression")

    def for_iter(self, pat, it, body, st, out, ind, rest):
        d = self.iter_desc(it, st, out, ind)
        leaves, pats = [], []

        def flat(d, p):
            if d[0] == "zip":
                if p[0] != "tuple" or len(p[1]) != 2:
                    raise TranslateError("zip pattern")
                flat(d[1], p[1][0]); flat(d[2], p[1][1])
            else:
                if p[0] != "var":
                    raise TranslateError("iterator pattern")
                leaves.append(d); pats.append(p[1])
        flat(d, pat)
        muts = [j for j, l in enumerate(leaves) if l[2] is not None]
        lens = {st.lenrep(l[1].ty[2]) for l in leaves}
        assigned = self.assigned_in(body, st)
        if muts:
            # element-wise update of ONE list: `for (xo, (xa, xb)) in tmp.iter_mut().zip(a.iter().zip(b.iter())) { *xo = f(xa, xb) }`
            if len(muts) != 1 or assigned != [pats[muts[0]]]:
                raise TranslateError("iter_mut loop must assign exactly its own element")
            if len(lens) != 1 or None in lens:
                raise TranslateError("zip of lists whose lengths are not the same symbol (truncation semantics not modelled)")
            j = muts[0]
            tgt = leaves[j]
            if len(body) != 1 or body[0][0] not in ("assign",):
                raise TranslateError("iter_mut loop body must be one assignment")
            a = body[0]
            uses_self = a[2] != "="
            srcs = [(p, l) for idx, (p, l) in enumerate(zip(pats, leaves)) if idx != j]
            if self.mentions(a[3], pats[j]):
                uses_self = True
            args = ([(pats[j], tgt)] if uses_self else []) + srcs
            st2 = st.copy()
            lam_names = []
            for p, l in args:
                n = self.fresh_for(p, st2)
                st2.vars[p] = V(n, l[1].ty[1], True)
                lam_names.append(n)
            tmp = []
            if a[2] == "=":
                val = self.ex(a[3], st2, tgt[1].ty[1], tmp, ind)
                if not (a[1][0] == "deref" and a[1][1] == ("path", pats[j])) and a[1] != ("path", pats[j]):
                    raise TranslateError("iter_mut loop assigns something else than its element")
            else:
                val = self.binop(a[2][:-1], ("path", pats[j]), a[3], st2, None, tmp, ind)
            if tmp:
                raise TranslateError("iter_mut loop body needs statements")
            if tgt[1].ty[1] is None and not uses_self:
                tgt = ("list", V(None, ("list", val.ty, tgt[1].ty[2])), tgt[2])
            if val.ty != tgt[1].ty[1]:
                raise TranslateError("iter_mut loop: element type mismatch")
            if len(args) == 1:
                text = f"List.map (fun {lam_names[0]} => {val.t}) {args[0][1][1].p()}"
            elif len(args) == 2:
                text = f"List.zipWith (fun {' '.join(lam_names)} => {val.t}) {args[0][1][1].p()} {args[1][1][1].p()}"
            else:
                raise TranslateError("zip of more than two lists read by the body")
            if not uses_self:
                # the old elements are not read: only the LENGTH of the target matters; it is the same symbol
                pass
            self.bind(tgt[2], V(text, tgt[1].ty), st, out, ind)
            return rest(st, out, ind)
        # fold: the body updates outer scalars from the elements
        if not assigned:
            raise TranslateError("iterator loop without effect")
        if len(leaves) > 1 and (len(lens) != 1):
            raise TranslateError("zip of lists of different length symbols")
        if len(leaves) == 1:
            ltext = leaves[0][1].p()
            elem_names = None
        elif len(leaves) == 2:
            ltext = f"({leaves[0][1].p()}.zip {leaves[1][1].p()})"
        else:
            raise TranslateError("fold over more than two zipped lists")
        if len(assigned) != 1:
            raise TranslateError("fold with more than one accumulator")
        acc = assigned[0]
        accv = self.ex(self.parse_place(acc), st, None, out, ind)
        st2 = st.copy()
        st2.scopes.append(set())
        accn = self.fresh_for(acc, st2)
        st2.vars[acc] = V(accn, accv.ty, True)
        if len(leaves) == 1:
            en = self.fresh_for(pats[0], st2)
            st2.vars[pats[0]] = V(en, leaves[0][1].ty[1], True)
        else:
            en = "p"
            while self.captures(en, st2, "\0"):
                en += "'"
            st2.vars[pats[0]] = V(f"{en}.1", leaves[0][1].ty[1], True)
            st2.vars[pats[1]] = V(f"{en}.2", leaves[1][1].ty[1], True)
            self.extra_used.add(en)
        inner = []
        res = {}

        def fin(st3, out3, ind3, _r=None):
            out3.append(f"{ind3}{st3.vars[acc].t}")
        self.no_return += 1
        try:
            self.seq(body, 0, st2, inner, ind + "    ", fin)
        finally:
            self.no_return -= 1
        if len(inner) == 2 and inner[0].lstrip().startswith(f"let ") and inner[1].strip() == inner[0].split(":=")[0].replace("let", "").strip():
            lam_body = inner[0].split(":=", 1)[1].strip()
            text = f"{ltext}.foldl (fun {accn} {en} => {lam_body}) {accv.p()}"
        else:
            text = f"{ltext}.foldl (fun {accn} {en} =>\n" + "\n".join(inner) + f") {accv.p()}"
        self.bind(acc, V(text, accv.ty), st, out, ind)
        return rest(st, out, ind)

    def mentions(self, e, name):
        if isinstance(e, tuple):
            if e[0] == "path" and e[1] == name:
                return True
            return any(self.mentions(x, name) for x in e[1:])
        if isinstance(e, list):
            return any(self.mentions(x, name) for x in e)
        return False


class NatTr(Tr):
    """mode="nat": unsigned words as `Nat` for the operators that cannot leave the range of their type (`& | ^ >>`, widening
    casts); everything else is refused (the Nat backends of kernel_translate.py cover arithmetic)"""

    def ex(self, e, st, want=None, out=None, ind=""):
        if e[0] == "lit":
            ty = self.norm_ty(e[2] or want)
            if ty is None:
                raise TranslateError(f"cannot type literal {e[1]}")
            if self.is_word(ty):
                if e[1] >= 2 ** INT_TYPES[ty]:
                    raise TranslateError("literal out of range")
                return V(hex(e[1]) if e[1] > 9 else str(e[1]), ty, True)
        return super().ex(e, st, want, out, ind)

    def binop(self, op, l, r, st, want, out, ind, hint=None):
        if op in ("&", "|", "^"):
            lv, rv = self.operands(l, r, st, want, out, ind)
            if not self.is_word(lv.ty):
                raise TranslateError(f"operator {op} on {lv.ty}")
            sym = {"^": "^^^", "|": "|||", "&": "&&&"}[op]
            return V(f"{lv.p()} {sym} {rv.p()}", lv.ty)
        if op == ">>":
            lv = self.ex(l, st, want, out, ind)
            n = self.const_int(r, st)
            if not self.is_word(lv.ty) or not 0 <= n < INT_TYPES[lv.ty]:
                raise TranslateError("shift")
            return V(f"{lv.p()} >>> {n}", lv.ty)
        raise TranslateError(f"operator {op} is outside the nat mode of ktx_misc")

    def cast(self, v, to):
        if self.is_word(v.ty) and self.is_word(to) and INT_TYPES[to] >= INT_TYPES[v.ty]:
            return V(v.t, to, v.at)
        raise TranslateError(f"cast {v.ty} -> {to} in nat mode")

    def method(self, e, st, want, out, ind):
        raise TranslateError(f"method {e[2]} in nat mode")


class NatOptTr(Tr):
    """mode="natopt" (monadic): unsigned integers as `Nat`, every checked `+ - * / %` a bind in the Option monad
    (`int_ops[(op, width)]`: e.g. add32 / mul64 / subU / remU), `>>` = `>>>`, widening casts the identity, narrowing `% 2 ^ w`"""

    def ex(self, e, st, want=None, out=None, ind=""):
        if e[0] == "lit":
            ty = self.norm_ty(e[2] or want)
            if ty is None:
                raise TranslateError(f"cannot type literal {e[1]}")
            if self.is_word(ty) or ty == "usize":
                if e[1] >= 2 ** INT_TYPES[ty]:
                    raise TranslateError("literal out of range")
                return V(str(e[1]), ty, True)
        return super().ex(e, st, want, out, ind)

    def tmp_name(self, st):
        while True:
            self.tmpn += 1
            n = f"t{self.tmpn}"
            if not self.captures(n, st, "\0"):
                self.extra_used.add(n)
                return n

    def binop(self, op, l, r, st, want, out, ind, hint=None):
        if op in ("+", "-", "*", "/", "%"):
            lv, rv = self.operands(l, r, st, want, out, ind)
            if not self.is_word(lv.ty):
                raise TranslateError(f"operator {op} on {lv.ty}")
            fn = self.k.int_ops.get((op, INT_TYPES[lv.ty]))
            if fn is None:
                raise TranslateError(f"no checked `{op}` of width {INT_TYPES[lv.ty]} declared")
            name = hint or self.tmp_name(st)
            self._last_hinted = hint
            self.emit_let(out, ind, name, f"{fn} {lv.p()} {rv.p()}", bind=True)
            return V(name, lv.ty, True)
        if op == ">>":
            lv = self.ex(l, st, want, out, ind)
            n = self.const_int(r, st)
            if not self.is_word(lv.ty) or not 0 <= n < INT_TYPES[lv.ty]:
                raise TranslateError("shift")
            return V(f"{lv.p()} >>> {n}", lv.ty)
        if op in ("==", "!=", "<", "<=", ">", ">=", "&&", "||"):
            return super().binop(op, l, r, st, want, out, ind, hint)
        raise TranslateError(f"operator {op} is outside the natopt mode of ktx_misc")

    def cast(self, v, to):
        if self.is_word(v.ty) and self.is_word(to):
            if INT_TYPES[to] >= INT_TYPES[v.ty]:
                return V(v.t, to, v.at)
            return V(f"{v.p()} % 2 ^ {INT_TYPES[to]}", to)
        raise TranslateError(f"cast {v.ty} -> {to} in natopt mode")

    def method(self, e, st, want, out, ind):
        raise TranslateError(f"method {e[2]} in natopt mode")


class IntTr(Tr):
    """signed limbs as `Int`; see module docstring"""

    def int_arith(self, op, a, b, ty, st, out, ind, hint=None):
        w = SIGNED[ty]
        ops = self.k.int_ops
        if self.k.monadic:
            fn = ops.get((op, w))
            if fn is None:
                raise TranslateError(f"no checked `{op}` of width {w} declared")
            name = hint or self.tmp_name(st)
            self._last_hinted = hint
            self.emit_let(out, ind, name, f"{fn} {a.p()}" + (f" {b.p()}" if b is not None else ""), bind=True)
            return V(name, ty, True)
        if op == "neg":
            return V(f"-{a.p()}", ty)
        return V(f"{a.p()} {op} {b.p()}", ty)

    def tmp_name(self, st):
        while True:
            self.tmpn += 1
            n = f"t{self.tmpn}"
            if not self.captures(n, st, "\0"):
                self.extra_used.add(n)
                return n

    def int_shift(self, op, a, n, st, out, ind):
        w = SIGNED[a.ty]
        if op == ">>":
            t = self.k.int_ops.get((">>", w), "{0} / 2 ^ {1}")
            return V(t.format(a.p(), n), a.ty)
        t = self.k.int_ops.get(("<<", w))
        if t is None:
            t = "(({0} * 2 ^ {1} + 2 ^ %d) %% 2 ^ %d - 2 ^ %d)" % (w - 1, w, w - 1)
        return V(t.format(a.p(), n), a.ty)

    def int_and(self, a, b, rexpr, st):
        # `x & (2^k - 1)` = Euclidean remainder (also for negative two's-complement values)
        n = self.const_int(rexpr, st)
        if n <= 0 or (n & (n + 1)) != 0:
            raise TranslateError("signed & with a mask that is not 2^k-1")
        kbits = n.bit_length()
        t = self.k.int_ops.get(("&mask", SIGNED[a.ty]), "{0} % 2 ^ {1}")
        return V(t.format(a.p(), kbits, n), a.ty)

    def cast(self, v, to):
        ty = v.ty
        if ty == to:
            return v
        key = ("cast", ty, to)
        if key in self.k.int_ops:
            return V(self.k.int_ops[key].format(v.p()), to)
        if self.is_word(ty) and self.is_int(to):
            if INT_TYPES[ty] < SIGNED[to]:
                return V(f"({v.p()}.toNat : Int)", to, True)
            raise TranslateError(f"cast {ty} -> {to} may wrap")
        if self.is_int(ty) and self.is_int(to):
            if SIGNED[to] >= SIGNED[ty]:
                return V(v.t, to, v.at)
            w = SIGNED[to]
            return V(f"({v.p()} + 2 ^ {w - 1}) % 2 ^ {w} - 2 ^ {w - 1}", to)
        if self.is_int(ty) and self.is_word(to):
            w = INT_TYPES[to]
            return V(f"{WORD[to]}.ofNat ({v.p()} % 2 ^ {w}).toNat", to)
        return super().cast(v, to)


# ------------------------------------------------------------------------------------------------ entry point

def default_result(tr, st, ret, out, ind):
    if ret is None:
        raise TranslateError("kernel has no trailing expression and no result function")
    return tr.ex(ret, st, None, out, ind).t


def translate(k: MK):
    src = read_src(k.file)
    if k.consts_fn is not None:
        k.consts = dict(k.consts_fn())
    if k.kind == "macro":
        params, body = find_macro(src, k.fn)
        body = macro_subst(body, params, [p for p, _ in params])
    else:
        _, body = find_fn(src, k.fn, k.scope)
    body, btab = protect_bytestrings(body)
    toks = lex(body)
    KT.refuse_renaming_uses(strip_comments(src), KT.body_idents(toks) | {c.split("::")[-1] for c in list(k.calls) + list(k.mut_calls) + list(k.stmt_calls)},
                            f"{k.file}: {k.kind} {k.fn}")
    parser = P2(toks)
    parser.fnitems = True
    stmts = parser.block()
    if parser.peek()[0] != "eof":
        raise TranslateError(f"unparsed tokens after the body of {k.fn}: {parser.peek()[1]!r}")
    if parser.dropped_generics:
        raise TranslateError(f"generic arguments in a type (`{parser.dropped_generics[0][0]}{parser.dropped_generics[0][1]}`) are not translated")
    for s in stmts:
        if s[0] == "fnitem":
            # accepted only if a kernel of this spec translates that very item (the callee a call in this body really reaches)
            KT.check_nested_fn(k, s[1], s[2], src, lambda text: lex(protect_bytestrings(text)[0]))
    stmts = [s for s in stmts if s[0] != "fnitem"]
    all_stmts = list(stmts)
    if k.select:
        stmts = k.select(stmts)
    if k.stmt_filter:
        stmts = [s for i, s in enumerate(stmts) if k.stmt_filter(i, s)]
    tr = (k.tr_class or (IntTr if k.mode == "int" else NatTr if k.mode == "nat" else NatOptTr if k.mode == "natopt" else Tr))(k, src, btab)
    tr.decl_ty = {}
    tr.all_stmts = all_stmts
    st = St()
    for key, (val, ty) in k.env.items():
        if isinstance(val, list):
            st.vars[key] = [V(x, tr.norm_ty(ty), True) for x in val]
    out = []
    ind = "  "

    def fin(st2, out2, ind2, ret):
        if k.result is not None:
            text = k.result(tr, st2, ret, out2, ind2)
        else:
            text = default_result(tr, st2, ret, out2, ind2)
        if k.monadic and not text.lstrip().startswith(("pure", "none", "some", ".ok", ".error", "return")) and not getattr(k, "raw_result", False):
            text = f"pure {text}" if re.fullmatch(r"[\w.']+|[⟨(\[#].*[⟩)\]]", text) else f"pure ({text})"
        out2.append(f"{ind2}{text}")
    if k.kind == "fn" and not k.select:
        tr.fn_k = fin                     # `return e;` anywhere in the body ends the function with the value e
    tr.seq(stmts, 0, st, out, ind, fin)
    # checked word arithmetic rendered as the wrapping operator: accounted per source occurrence
    if k.checked_counts is not None:
        got = {op: len(v) for op, v in tr.checked_sites.items()}
        if got != {op: n for op, n in k.checked_counts.items() if n}:
            raise TranslateError(f"checked word operations {got} differ from the occurrences the kernel spec declares overflow-free {k.checked_counts}")
    else:
        both = sorted(op for op in tr.checked_sites if op in tr.wrapping_ops)
        if both:
            raise TranslateError(f"the kernel uses both the checked and the wrapping form of `{both[0]}` on words and the spec's `checked_ok` does not "
                                 "say which occurrences are overflow-free (give a dict operator -> number of occurrences)")
    note = f" [{tr.n_checked} checked word op(s) rendered wrapping: overflow-freedom is a separate theorem]" if tr.n_checked else ""
    return (f"{k.attrs}/-- {k.doc} — GENERATED from `{'macro ' if k.kind == 'macro' else 'fn '}{k.fn}` in {k.file}{note} -/\n"
            f"def {k.lean_name} {k.params} : {k.ret_type} :={' do' if k.monadic else ''}\n"
            + "\n".join(out) + "\n")
