#!/usr/bin/env python3
"""spec_oracles.py — is the Lean `Spec` the real-world standard?

DESIGN.md section 3 names the Spec transcriptions (lean/CxVerif/Spec/*.lean, written from memory of the standards) as
part of the trusted base.  This tool reduces that trust: it takes case lines from the existing generators
(tools/gens/*.py), lets the compiled driver answer them (`cxdrv spec`; `cxdrv impl` where the Spec answers `?`), and
compares every answer with an INDEPENDENT implementation available in the sandbox:

  hashlib          SHA-1, SHA-2 (incl. SHA-512/224, /256), SHA-3, RIPEMD-160, BLAKE2b/s (keyed, every digest size),
                   hmac, hashlib.pbkdf2_hmac, hashlib.scrypt
  openssl          (OpenSSL 3.0 CLI) ChaCha20, Poly1305, HKDF, X25519, Ed25519 (public key, sign, verify)
  python-ref       small reference functions written here from the public definitions, independent of the Lean text:
                   Keccak-f[1600] sponge (pad 0x01 / 0x06), ChaCha (8/12/20 rounds, 128/256-bit key), HChaCha,
                   Salsa20/HSalsa20/XSalsa20, Poly1305, X25519, Ed25519 / Edwards25519, Argon2, HKDF/PBKDF2 over any
                   PRF, GF(2^255-19) and Z/L arithmetic on Python integers.  `selftest()` anchors every one of them to
                   a library (keccak pad 0x06 = hashlib.sha3, chacha = openssl, salsa20/8 = hashlib.scrypt, ...) or to a
                   published vector before it is used as an oracle.
  published-vector values printed in the standards (RFC 8439 2.x, RFC 7748 5.2/6.1, RFC 8032 7.1, RFC 7914 11/12,
                   RFC 5869 A.1-A.3, RFC 9106 5, RFC 7693 App. A/B, FIPS 180/202 "abc"/"" digests, Bernstein's Salsa20
                   specification section 9, draft-irtf-cfrg-xchacha 2.2.1, NaCl HSalsa20) as case lines with the
                   expected answer.

Usage:   python3 tools/spec_oracles.py [family ...] [--tier quick|thorough] [--json out.json] [--seed N]
Import:  run(families=None, tier="quick") -> {"families": {name: {...}}, "ok": bool, ...};  FAMILIES_BY_PROPERTY.
Exit 0 = no mismatch, 1 = mismatch, 2 = the oracles themselves failed their self-test.

What is mirrored and what is independent: an answer line contains bookkeeping of the line protocol (which op of a
history emits, where the API refuses) and VALUES (digests, tags, keystream, points).  The bookkeeping is replayed here
as the driver documents it; every VALUE comes from the independent implementation.
"""
import argparse
import concurrent.futures as cf
import hashlib
import hmac as pyhmac
import json
import multiprocessing
import os
import re
import shutil
import subprocess
import sys
import tempfile
import time

HERE = os.path.dirname(os.path.abspath(__file__))
sys.path.insert(0, HERE)
import cxlib  # noqa: E402


class Skip(Exception):
    """this line cannot be judged by the oracle (reason = message)"""


def unhex(s):
    return b"" if s in ("-", "") else bytes.fromhex(s)


def hx(b):
    return "-" if len(b) == 0 else bytes(b).hex()


def le(b):
    return int.from_bytes(b, "little")


def xor(a, b):
    return bytes(x ^ y for x, y in zip(a, b))


M32 = 0xffffffff
M64 = 0xffffffffffffffff

# =============================================================================== python-ref: Keccak (FIPS 202 / Keccak team)


def _rol64(a, n):
    n %= 64
    return ((a << n) | (a >> (64 - n))) & M64 if n else a


def keccak_f1600(lanes):
    """Keccak-f[1600] on lanes[x][y] (Keccak team compact formulation: LFSR round constants, (x,y) walk for rho/pi)"""
    R = 1
    for _ in range(24):
        C = [lanes[x][0] ^ lanes[x][1] ^ lanes[x][2] ^ lanes[x][3] ^ lanes[x][4] for x in range(5)]
        D = [C[(x + 4) % 5] ^ _rol64(C[(x + 1) % 5], 1) for x in range(5)]
        lanes = [[lanes[x][y] ^ D[x] for y in range(5)] for x in range(5)]
        x, y = 1, 0
        cur = lanes[x][y]
        for t in range(24):
            x, y = y, (2 * x + 3 * y) % 5
            cur, lanes[x][y] = lanes[x][y], _rol64(cur, (t + 1) * (t + 2) // 2)
        for y in range(5):
            T = [lanes[x][y] for x in range(5)]
            for x in range(5):
                lanes[x][y] = T[x] ^ ((~T[(x + 1) % 5]) & T[(x + 2) % 5] & M64)
        for j in range(7):
            R = ((R << 1) ^ ((R >> 7) * 0x71)) % 256
            if R & 2:
                lanes[0][0] ^= 1 << ((1 << j) - 1)
    return lanes


def keccak_sponge(rate, suffix, msg, outlen):
    """sponge with capacity 1600-8*rate, multi-rate padding: `suffix` (domain bits + first pad bit) ... 0x80"""
    st = bytearray(200)

    def permute():
        lanes = [[le(st[8 * (x + 5 * y):8 * (x + 5 * y) + 8]) for y in range(5)] for x in range(5)]
        lanes = keccak_f1600(lanes)
        for x in range(5):
            for y in range(5):
                st[8 * (x + 5 * y):8 * (x + 5 * y) + 8] = lanes[x][y].to_bytes(8, "little")
    off = 0
    while len(msg) - off >= rate:
        for i in range(rate):
            st[i] ^= msg[off + i]
        permute()
        off += rate
    tail = msg[off:]
    for i, b in enumerate(tail):
        st[i] ^= b
    st[len(tail)] ^= suffix
    st[rate - 1] ^= 0x80
    permute()
    assert outlen <= rate
    return bytes(st[:outlen])


def keccak_ref(bits, msg, suffix=0x01):
    return keccak_sponge(200 - bits // 4, suffix, msg, bits // 8)


class KeccakObj:
    """hashlib-like object over keccak_ref (update / copy / digest)"""

    def __init__(self, bits, data=b""):
        self.bits, self.data = bits, bytearray(data)
        self.digest_size, self.block_size = bits // 8, 200 - bits // 4

    def update(self, b):
        self.data += b

    def copy(self):
        return KeccakObj(self.bits, self.data)

    def digest(self):
        return keccak_ref(self.bits, bytes(self.data))


# =============================================================================== python-ref: ChaCha / Salsa20

def _rol32(v, n):
    return ((v << n) | (v >> (32 - n))) & M32


def _words(b):
    return [le(b[i:i + 4]) for i in range(0, len(b), 4)]


def _ser(ws):
    return b"".join(w.to_bytes(4, "little") for w in ws)


def _chacha_qr(s, a, b, c, d):
    s[a] = (s[a] + s[b]) & M32; s[d] = _rol32(s[d] ^ s[a], 16)
    s[c] = (s[c] + s[d]) & M32; s[b] = _rol32(s[b] ^ s[c], 12)
    s[a] = (s[a] + s[b]) & M32; s[d] = _rol32(s[d] ^ s[a], 8)
    s[c] = (s[c] + s[d]) & M32; s[b] = _rol32(s[b] ^ s[c], 7)


def chacha_rounds(state, R):
    s = list(state)
    for _ in range(R // 2):
        _chacha_qr(s, 0, 4, 8, 12); _chacha_qr(s, 1, 5, 9, 13); _chacha_qr(s, 2, 6, 10, 14); _chacha_qr(s, 3, 7, 11, 15)
        _chacha_qr(s, 0, 5, 10, 15); _chacha_qr(s, 1, 6, 11, 12); _chacha_qr(s, 2, 7, 8, 13); _chacha_qr(s, 3, 4, 9, 14)
    return s


def _consts_key(key):
    if len(key) == 32:
        return _words(b"expand 32-byte k"), _words(key)
    if len(key) == 16:
        return _words(b"expand 16-byte k"), _words(key + key)
    raise ValueError("key length")


def chacha_state(key, last4):
    c, k = _consts_key(key)
    return c + k + list(last4)


def chacha_block_of_state(st, R):
    z = chacha_rounds(st, R)
    return _ser([(a + b) & M32 for a, b in zip(z, st)])


def chacha_h_of_state(st, R):
    z = chacha_rounds(st, R)
    return _ser(z[0:4] + z[12:16])


def chacha_ietf_block(R, key, nonce12, ctr):
    return chacha_block_of_state(chacha_state(key, [ctr & M32] + _words(nonce12)), R)


def chacha_orig_block(R, key, nonce8, ctr):
    return chacha_block_of_state(chacha_state(key, [ctr & M32, (ctr >> 32) & M32] + _words(nonce8)), R)


def hchacha(R, key, nonce16):
    return chacha_h_of_state(chacha_state(key, _words(nonce16)), R)


def xchacha_block(R, key, nonce24, ctr):
    return chacha_ietf_block(R, hchacha(R, key, nonce24[:16]), b"\0" * 4 + nonce24[16:], ctr)


def _salsa_qr(y0, y1, y2, y3):
    z1 = y1 ^ _rol32((y0 + y3) & M32, 7)
    z2 = y2 ^ _rol32((z1 + y0) & M32, 9)
    z3 = y3 ^ _rol32((z2 + z1) & M32, 13)
    z0 = y0 ^ _rol32((z3 + z2) & M32, 18)
    return z0, z1, z2, z3


def salsa_doubleround(x):
    """Bernstein, Salsa20 specification sections 4-6: doubleround = rowround o columnround"""
    y = list(x)
    y[0], y[4], y[8], y[12] = _salsa_qr(x[0], x[4], x[8], x[12])
    y[5], y[9], y[13], y[1] = _salsa_qr(x[5], x[9], x[13], x[1])
    y[10], y[14], y[2], y[6] = _salsa_qr(x[10], x[14], x[2], x[6])
    y[15], y[3], y[7], y[11] = _salsa_qr(x[15], x[3], x[7], x[11])
    z = list(y)
    z[0], z[1], z[2], z[3] = _salsa_qr(y[0], y[1], y[2], y[3])
    z[5], z[6], z[7], z[4] = _salsa_qr(y[5], y[6], y[7], y[4])
    z[10], z[11], z[8], z[9] = _salsa_qr(y[10], y[11], y[8], y[9])
    z[15], z[12], z[13], z[14] = _salsa_qr(y[15], y[12], y[13], y[14])
    return z


def salsa_core(x, R):
    """Salsa20 hash function (section 8) with R rounds on 16 words: x + doubleround^(R/2)(x)"""
    z = list(x)
    for _ in range(R // 2):
        z = salsa_doubleround(z)
    return [(a + b) & M32 for a, b in zip(z, x)]


def salsa_expand(key, n16):
    """section 9: (c0, k0, c1, n, c2, k1, c3)"""
    c, k = _consts_key(key)
    n = _words(n16)
    return [c[0]] + k[0:4] + [c[1]] + n + [c[2]] + k[4:8] + [c[3]]


def salsa_block(R, key, nonce8, ctr):
    return _ser(salsa_core(salsa_expand(key, nonce8 + (ctr & M64).to_bytes(8, "little")), R))


def hsalsa(R, key, nonce16):
    z = salsa_expand(key, nonce16)
    for _ in range(R // 2):
        z = salsa_doubleround(z)
    return _ser([z[0], z[5], z[10], z[15], z[6], z[7], z[8], z[9]])


def xsalsa_block(R, key, nonce24, ctr):
    return salsa_block(R, hsalsa(R, key, nonce24[:16]), nonce24[16:], ctr)


def keystream_from(blockfn, pos, n):
    """bytes [pos, pos+n) of the stream whose i-th 64-byte block is blockfn(i)"""
    if n == 0:
        return b""
    first, last = pos // 64, (pos + n - 1) // 64
    ks = b"".join(blockfn(i) for i in range(first, last + 1))
    return ks[pos % 64: pos % 64 + n]


# =============================================================================== python-ref: Poly1305 (RFC 8439 2.5)

def poly1305_ref(key, msg):
    r = le(key[:16]) & 0x0ffffffc0ffffffc0ffffffc0fffffff
    s = le(key[16:32])
    p = (1 << 130) - 5
    acc = 0
    for i in range(0, len(msg), 16):
        acc = ((acc + le(msg[i:i + 16] + b"\x01")) * r) % p
    return ((acc + s) & ((1 << 128) - 1)).to_bytes(16, "little")


# =============================================================================== python-ref: X25519 (RFC 7748 5)

P25519 = 2 ** 255 - 19


def x25519_ref(k, u):
    kk = bytearray(k)
    kk[0] &= 248; kk[31] &= 127; kk[31] |= 64
    kn = le(kk)
    x1 = (le(u) & ((1 << 255) - 1)) % P25519
    p = P25519
    x2, z2, x3, z3, swap = 1, 0, x1, 1, 0
    for t in range(254, -1, -1):
        kt = (kn >> t) & 1
        swap ^= kt
        if swap:
            x2, x3, z2, z3 = x3, x2, z3, z2
        swap = kt
        A = (x2 + z2) % p; AA = A * A % p; B = (x2 - z2) % p; BB = B * B % p; E = (AA - BB) % p
        C = (x3 + z3) % p; D = (x3 - z3) % p; DA = D * A % p; CB = C * B % p
        x3 = (DA + CB) ** 2 % p; z3 = x1 * (DA - CB) ** 2 % p
        x2 = AA * BB % p; z2 = E * (AA + 121665 * E) % p
    if swap:
        x2, x3, z2, z3 = x3, x2, z3, z2
    return (x2 * pow(z2, p - 2, p) % p).to_bytes(32, "little")


# =============================================================================== python-ref: Ed25519 (RFC 8032 5.1 / 6)

ED_D = (-121665 * pow(121666, P25519 - 2, P25519)) % P25519
ED_L = 2 ** 252 + 27742317777372353535851937790883648493
ED_SQRTM1 = pow(2, (P25519 - 1) // 4, P25519)


def ed_recover_x(y, sign, lenient=False):
    """RFC 8032 5.1.3 steps 2-4; `lenient`: y already reduced by the caller, x = 0 with sign bit accepted"""
    p = P25519
    x2 = (y * y - 1) * pow(ED_D * y * y + 1, p - 2, p) % p
    if x2 == 0:
        if sign and not lenient:
            return None
        return 0
    x = pow(x2, (p + 3) // 8, p)
    if (x * x - x2) % p != 0:
        x = x * ED_SQRTM1 % p
    if (x * x - x2) % p != 0:
        return None
    if (x & 1) != sign:
        x = p - x
    return x


def ed_decode(s, lenient=False):
    """32 bytes -> extended point or None.  strict = RFC 8032 5.1.3 (y >= p and x=0/sign=1 rejected);
    lenient = the decoding documented for the crate (ref10): y reduced mod p, x = 0 accepted with either sign"""
    if len(s) != 32:
        return None
    n = le(s)
    sign, y = n >> 255, n & ((1 << 255) - 1)
    if y >= P25519:
        if not lenient:
            return None
        y %= P25519
    x = ed_recover_x(y, sign, lenient)
    if x is None:
        return None
    return (x, y, 1, x * y % P25519)


def ed_is_canonical(s):
    return ed_decode(s, lenient=False) is not None


def ed_add(P, Q):
    p = P25519
    A = (P[1] - P[0]) * (Q[1] - Q[0]) % p; B = (P[1] + P[0]) * (Q[1] + Q[0]) % p
    C = 2 * P[3] * Q[3] * ED_D % p; D = 2 * P[2] * Q[2] % p
    E, F, G, H = B - A, D - C, D + C, B + A
    return (E * F % p, G * H % p, F * G % p, E * H % p)


def ed_neg(P):
    return ((-P[0]) % P25519, P[1], P[2], (-P[3]) % P25519)


ED_ZERO = (0, 1, 1, 0)


def ed_mul(s, P):
    Q = ED_ZERO
    while s > 0:
        if s & 1:
            Q = ed_add(Q, P)
        P = ed_add(P, P)
        s >>= 1
    return Q


def ed_encode(P):
    zi = pow(P[2], P25519 - 2, P25519)
    x, y = P[0] * zi % P25519, P[1] * zi % P25519
    return (y | ((x & 1) << 255)).to_bytes(32, "little")


def ed_eq(P, Q):
    return (P[0] * Q[2] - Q[0] * P[2]) % P25519 == 0 and (P[1] * Q[2] - Q[1] * P[2]) % P25519 == 0


_gy = 4 * pow(5, P25519 - 2, P25519) % P25519
_gx = ed_recover_x(_gy, 0)
ED_B = (_gx, _gy, 1, _gx * _gy % P25519)


def ed_clamp(h32):
    a = bytearray(h32)
    a[0] &= 248; a[31] &= 127; a[31] |= 64
    return bytes(a)


def ed_secret_expand(seed):
    h = hashlib.sha512(seed).digest()
    return le(ed_clamp(h[:32])), h[32:]


def ed_public(seed):
    a, _ = ed_secret_expand(seed)
    return ed_encode(ed_mul(a, ED_B))


def ed_sign_with(a, prefix, A, msg):
    r = le(hashlib.sha512(prefix + msg).digest()) % ED_L
    Rs = ed_encode(ed_mul(r, ED_B))
    k = le(hashlib.sha512(Rs + A + msg).digest()) % ED_L
    return Rs + ((r + k * a) % ED_L).to_bytes(32, "little")


def ed_sign(seed, msg):
    a, prefix = ed_secret_expand(seed)
    return ed_sign_with(a, prefix, ed_encode(ed_mul(a, ED_B)), msg)


def ed_verify_rfc(msg, A, sig, cofactored=False):
    """RFC 8032 5.1.7 to the letter (strict decoding of A and R; S < L)"""
    if len(sig) != 64:
        return False
    Ap, Rp = ed_decode(A), ed_decode(sig[:32])
    S = le(sig[32:])
    if Ap is None or Rp is None or S >= ED_L:
        return False
    k = le(hashlib.sha512(sig[:32] + A + msg).digest()) % ED_L
    lhs, rhs = ed_mul(S, ED_B), ed_add(Rp, ed_mul(k, Ap))
    if cofactored:
        lhs, rhs = ed_mul(8, lhs), ed_mul(8, rhs)
    return ed_eq(lhs, rhs)


def ed_verify_ref10(msg, A, sig):
    """the cofactorless byte comparison of ref10-style implementations with lenient decoding of A:
    encode([S]B - [k]A) == R-bytes, S < L"""
    if len(sig) != 64:
        return False
    Ap = ed_decode(A, lenient=True)
    S = le(sig[32:])
    if Ap is None or S >= ED_L:
        return False
    k = le(hashlib.sha512(sig[:32] + A + msg).digest()) % ED_L
    return ed_encode(ed_add(ed_mul(S, ED_B), ed_neg(ed_mul(k, Ap)))) == sig[:32]


# =============================================================================== python-ref: HMAC / HKDF / PBKDF2 over any function

def hmac_ref(H, B, key, msg):
    """RFC 2104 over a plain function H with block size B"""
    if len(key) > B:
        key = H(key)
    key = key + b"\0" * (B - len(key))
    return H(bytes(k ^ 0x5c for k in key) + H(bytes(k ^ 0x36 for k in key) + msg))


def hkdf_expand_ref(prf, hashlen, prk, info, L):
    t, okm, i = b"", b"", 1
    while len(okm) < L:
        t = prf(prk, t + info + bytes([i]))
        okm += t
        i += 1
    return okm[:L]


def pbkdf2_ref(prf, hlen, pwd, salt, c, dklen):
    out = b""
    i = 1
    while len(out) < dklen:
        u = prf(pwd, salt + i.to_bytes(4, "big"))
        t = int.from_bytes(u, "big")
        for _ in range(c - 1):
            u = prf(pwd, u)
            t ^= int.from_bytes(u, "big")
        out += t.to_bytes(hlen, "big")
        i += 1
    return out[:dklen]


def scrypt_ref(pwd, salt, N, r, p, dklen):
    """RFC 7914 over salsa_core(…, 8) — used by selftest() only, to anchor the Salsa core to hashlib.scrypt"""
    def prf(k, m):
        return pyhmac.new(k, m, hashlib.sha256).digest()

    def blockmix(B):
        X = B[-64:]
        Y = []
        for i in range(2 * r):
            X = _ser(salsa_core(_words(xor(X, B[64 * i:64 * i + 64])), 8))
            Y.append(X)
        return b"".join(Y[0::2]) + b"".join(Y[1::2])

    def romix(B):
        V = []
        X = B
        for _ in range(N):
            V.append(X)
            X = blockmix(X)
        for _ in range(N):
            j = le(X[-64:]) % N
            X = blockmix(xor(X, V[j]))
        return X
    B = pbkdf2_ref(prf, 32, pwd, salt, 1, p * 128 * r)
    B = b"".join(romix(B[128 * r * i:128 * r * (i + 1)]) for i in range(p))
    return pbkdf2_ref(prf, 32, pwd, B, 1, dklen)


# =============================================================================== python-ref: Argon2 (RFC 9106 3)

def _b2b(data, n):
    return hashlib.blake2b(data, digest_size=n).digest()


def argon2_hprime(T, A):
    """variable-length hash H' (RFC 9106 3.3)"""
    pre = T.to_bytes(4, "little")
    if T <= 64:
        return _b2b(pre + A, T)
    r = (T + 31) // 32 - 2
    V = _b2b(pre + A, 64)
    out = V[:32]
    for _ in range(r - 1):
        V = _b2b(V, 64)
        out += V[:32]
    return out + _b2b(V, T - 32 * r)


def _gb(v, a, b, c, d):
    va, vb, vc, vd = v[a], v[b], v[c], v[d]
    va = (va + vb + 2 * (va & M32) * (vb & M32)) & M64
    vd ^= va; vd = ((vd >> 32) | (vd << 32)) & M64
    vc = (vc + vd + 2 * (vc & M32) * (vd & M32)) & M64
    vb ^= vc; vb = ((vb >> 24) | (vb << 40)) & M64
    va = (va + vb + 2 * (va & M32) * (vb & M32)) & M64
    vd ^= va; vd = ((vd >> 16) | (vd << 48)) & M64
    vc = (vc + vd + 2 * (vc & M32) * (vd & M32)) & M64
    vb ^= vc; vb = ((vb >> 63) | (vb << 1)) & M64
    v[a], v[b], v[c], v[d] = va, vb, vc, vd


def _argon2_P(v, idx):
    """permutation P (3.6) on the 16 words v[idx[0..15]]"""
    w = [v[i] for i in idx]
    _gb(w, 0, 4, 8, 12); _gb(w, 1, 5, 9, 13); _gb(w, 2, 6, 10, 14); _gb(w, 3, 7, 11, 15)
    _gb(w, 0, 5, 10, 15); _gb(w, 1, 6, 11, 12); _gb(w, 2, 7, 8, 13); _gb(w, 3, 4, 9, 14)
    for i, k in enumerate(idx):
        v[k] = w[i]


def argon2_G(X, Y):
    """compression function G (3.5) on two 128-word blocks"""
    R = [a ^ b for a, b in zip(X, Y)]
    Z = list(R)
    for i in range(8):                                   # rows: 16 consecutive words
        _argon2_P(Z, list(range(16 * i, 16 * i + 16)))
    for j in range(8):                                   # columns: words 2j, 2j+1 of every row
        _argon2_P(Z, [16 * i + 2 * j + k for i in range(8) for k in (0, 1)])
    return [a ^ b for a, b in zip(Z, R)]


def argon2_ref(y, v, t, m, p, T, pwd, salt, key, aad):
    """Argon2 (y: 0 = d, 1 = i, 2 = id; v: 0x10 / 0x13), RFC 9106 3.2-3.4"""
    def L(x):
        return x.to_bytes(4, "little")
    H0 = _b2b(L(p) + L(T) + L(m) + L(t) + L(v) + L(y) + L(len(pwd)) + pwd + L(len(salt)) + salt
              + L(len(key)) + key + L(len(aad)) + aad, 64)
    mp = 4 * p * (m // (4 * p))
    q = mp // p
    seg = q // 4

    def toblock(b):
        return [le(b[8 * i:8 * i + 8]) for i in range(128)]
    B = [[None] * q for _ in range(p)]
    for i in range(p):
        B[i][0] = toblock(argon2_hprime(1024, H0 + L(0) + L(i)))
        B[i][1] = toblock(argon2_hprime(1024, H0 + L(1) + L(i)))
    zero = [0] * 128
    for r in range(t):
        for s in range(4):
            for l in range(p):
                indep = (y == 1) or (y == 2 and r == 0 and s < 2)
                addr = None
                ctr = 0
                start = 2 if (r == 0 and s == 0) else 0
                for i in range(start, seg):
                    j = s * seg + i
                    prev = B[l][(j - 1) % q]
                    if indep:
                        if addr is None or i % 128 == 0:
                            ctr = i // 128 + 1
                            Zb = [r, l, s, mp, t, y, ctr] + [0] * 121
                            addr = argon2_G(zero, argon2_G(zero, Zb))
                        J = addr[i % 128]
                    else:
                        J = prev[0]
                    J1, J2 = J & M32, J >> 32
                    lr = l if (r == 0 and s == 0) else J2 % p
                    if r == 0:
                        W = s * seg + i - 1 if lr == l else s * seg - (1 if i == 0 else 0)
                        st = 0
                    else:
                        W = q - seg + i - 1 if lr == l else q - seg - (1 if i == 0 else 0)
                        st = ((s + 1) * seg) % q
                    x = (J1 * J1) >> 32
                    z = W - 1 - ((W * x) >> 32)
                    ref = B[lr][(st + z) % q]
                    new = argon2_G(prev, ref)
                    if r > 0 and v == 0x13:
                        new = [a ^ b for a, b in zip(new, B[l][j])]
                    B[l][j] = new
    C = B[0][q - 1]
    for l in range(1, p):
        C = [a ^ b for a, b in zip(C, B[l][q - 1])]
    return argon2_hprime(T, b"".join(w.to_bytes(8, "little") for w in C))


# =============================================================================== OpenSSL 3 CLI

OPENSSL = shutil.which("openssl")
_TMP = None


def _tmpdir():
    global _TMP
    if _TMP is None or not os.path.isdir(_TMP) or not _TMP.endswith(str(os.getpid())):
        _TMP = tempfile.mkdtemp(prefix="specor-", suffix="-" + str(os.getpid()))
    return _TMP


def _cleanup_tmp():
    import glob
    for d in glob.glob(os.path.join(tempfile.gettempdir(), "specor-*")):
        shutil.rmtree(d, ignore_errors=True)


def ossl(args, inp=b""):
    p = subprocess.run([OPENSSL] + args, input=inp, stdout=subprocess.PIPE, stderr=subprocess.PIPE)
    return p.returncode, p.stdout, p.stderr


def _tmpfile(name, data):
    path = os.path.join(_tmpdir(), name)
    with open(path, "wb") as f:
        f.write(data)
    return path


def ossl_chacha20(key32, iv16, data):
    rc, out, err = ossl(["enc", "-chacha20", "-K", key32.hex(), "-iv", iv16.hex()], data)
    if rc != 0 or len(out) != len(data):
        raise Skip("openssl enc -chacha20 failed")
    return out


def ossl_chacha_keystream(key32, tail12_fn, ctr_bytes, pos, n):
    """keystream bytes [pos, pos+n): counter (little-endian, `ctr_bytes` wide) followed by the nonce"""
    if n == 0:
        return b""
    blk, off = pos // 64, pos % 64
    iv = (blk % (1 << (8 * ctr_bytes))).to_bytes(ctr_bytes, "little") + tail12_fn
    return ossl_chacha20(key32, iv, b"\0" * (off + n))[off:]


def ossl_poly1305(key, msg):
    rc, out, err = ossl(["mac", "-binary", "-macopt", "hexkey:" + key.hex(), "POLY1305"], msg)
    if rc != 0 or len(out) != 16:
        raise Skip("openssl mac POLY1305 failed")
    return out


OSSL_DIGEST = {"sha1": "SHA1", "sha224": "SHA224", "sha256": "SHA256", "sha384": "SHA384", "sha512": "SHA512",
               "sha512_224": "SHA512-224", "sha512_256": "SHA512-256", "sha3_224": "SHA3-224", "sha3_256": "SHA3-256",
               "sha3_384": "SHA3-384", "sha3_512": "SHA3-512", "ripemd160": "RIPEMD160", "blake2b_64": "BLAKE2B-512",
               "blake2s_32": "BLAKE2S-256"}


def ossl_hkdf(digest, mode, key, salt, info, L):
    args = ["kdf", "-binary", "-keylen", str(L), "-kdfopt", "digest:" + OSSL_DIGEST[digest], "-kdfopt", "mode:" + mode,
            "-kdfopt", "hexkey:" + key.hex()]
    if mode != "EXPAND_ONLY":
        args += ["-kdfopt", "hexsalt:" + salt.hex()]
    if mode != "EXTRACT_ONLY":
        args += ["-kdfopt", "hexinfo:" + info.hex()]
    rc, out, err = ossl(args + ["HKDF"])
    if rc != 0 or len(out) != L:
        raise Skip("openssl kdf HKDF failed: " + err.decode(errors="replace")[:80].strip())
    return out


DER = {"x_priv": "302e020100300506032b656e04220420", "x_pub": "302a300506032b656e032100",
       "ed_priv": "302e020100300506032b657004220420", "ed_pub": "302a300506032b6570032100"}


def ossl_x25519(k, u):
    """None when OpenSSL refuses (all-zero shared secret)"""
    a = _tmpfile("xk.der", bytes.fromhex(DER["x_priv"]) + k)
    b = _tmpfile("xu.der", bytes.fromhex(DER["x_pub"]) + u)
    rc, out, err = ossl(["pkeyutl", "-derive", "-keyform", "DER", "-inkey", a, "-peerform", "DER", "-peerkey", b])
    return out if len(out) == 32 else None


def ossl_pub(kind, priv):
    a = _tmpfile("pk.der", bytes.fromhex(DER[kind + "_priv"]) + priv)
    rc, out, err = ossl(["pkey", "-inform", "DER", "-in", a, "-pubout", "-outform", "DER"])
    pre = bytes.fromhex(DER[kind + "_pub"])
    if rc != 0 or not out.startswith(pre) or len(out) != len(pre) + 32:
        raise Skip("openssl pkey -pubout failed")
    return out[len(pre):]


def ossl_ed_sign(seed, msg):
    if len(msg) == 0:
        return None          # the CLI cannot sign the empty message ("Could not allocate 0 bytes")
    a = _tmpfile("es.der", bytes.fromhex(DER["ed_priv"]) + seed)
    m = _tmpfile("em.bin", msg)
    rc, out, err = ossl(["pkeyutl", "-sign", "-rawin", "-keyform", "DER", "-inkey", a, "-in", m])
    if rc != 0 or len(out) != 64:
        raise Skip("openssl pkeyutl -sign failed")
    return out


def ossl_ed_verify(msg, pk, sig):
    """True / False; None when the CLI cannot take the case (empty message, key it refuses to load)"""
    if len(msg) == 0:
        return None
    a = _tmpfile("ev.der", bytes.fromhex(DER["ed_pub"]) + pk)
    m = _tmpfile("evm.bin", msg)
    s = _tmpfile("evs.bin", sig)
    rc, out, err = ossl(["pkeyutl", "-verify", "-rawin", "-pubin", "-keyform", "DER", "-inkey", a, "-in", m, "-sigfile", s])
    text = (out + err).decode(errors="replace")
    if "Signature Verified Successfully" in text:
        return True
    if "Signature Verification Failure" in text:
        return False
    return None


# =============================================================================== self-test: anchor every reference function

def selftest():
    """returns the list of failed anchors (empty = all reference functions agree with a library / published vector)"""
    bad = []

    def chk(name, got, want):
        if got != want:
            bad.append(name)
    rnd = cxlib.Rng(7)
    # Keccak sponge: with the SHA-3 suffix 0x06 it must be hashlib's SHA-3; then the pre-NIST pad 0x01 differs in that byte only
    for bits in (224, 256, 384, 512):
        for n in (0, 1, 71, 72, 73, 103, 104, 135, 136, 137, 143, 144, 145, 300):
            m = rnd.rbytes(n)
            chk(f"keccak-sponge-{bits}-{n}", keccak_ref(bits, m, 0x06), hashlib.new(f"sha3_{bits}", m).digest())
    chk("keccak256-empty", keccak_ref(256, b"").hex(), "c5d2460186f7233c927e7db2dcc703c0e500b653ca82273b7bfad8045d85a470")
    # ChaCha20 / Poly1305 / X25519 / Ed25519 against OpenSSL
    if OPENSSL:
        for n, pos in ((1, 0), (64, 0), (65, 63), (200, 130)):
            k, nn = rnd.rbytes(32), rnd.rbytes(12)
            chk("chacha20-ietf-openssl", keystream_from(lambda i: chacha_ietf_block(20, k, nn, i), pos, n),
                ossl_chacha_keystream(k, nn, 4, pos, n))
            n8 = rnd.rbytes(8)
            chk("chacha20-orig-openssl", keystream_from(lambda i: chacha_orig_block(20, k, n8, i), pos + (1 << 38), n),
                ossl_chacha_keystream(k, n8, 8, pos + (1 << 38), n))
        for n in (0, 1, 15, 16, 17, 64, 100):
            k, m = rnd.rbytes(32), rnd.rbytes(n)
            chk("poly1305-openssl", poly1305_ref(k, m), ossl_poly1305(k, m))
        k = bytes([255] * 16 + [0] * 16)
        chk("poly1305-openssl-wrap", poly1305_ref(k, b"\xff" * 48), ossl_poly1305(k, b"\xff" * 48))
        for _ in range(4):
            k, u = rnd.rbytes(32), rnd.rbytes(32)
            chk("x25519-openssl", x25519_ref(k, u), ossl_x25519(k, u))
            chk("x25519-base-openssl", x25519_ref(k, b"\x09" + b"\0" * 31), ossl_pub("x", k))
            seed, m = rnd.rbytes(32), rnd.rbytes(rnd.randrange(1, 100))
            chk("ed25519-pub-openssl", ed_public(seed), ossl_pub("ed", seed))
            sig = ed_sign(seed, m)
            chk("ed25519-sign-openssl", sig, ossl_ed_sign(seed, m))
            chk("ed25519-verify-openssl", ossl_ed_verify(m, ed_public(seed), sig), True)
            chk("ed25519-verify-ref", ed_verify_rfc(m, ed_public(seed), sig) and ed_verify_ref10(m, ed_public(seed), sig), True)
            bad_sig = sig[:40] + bytes([sig[40] ^ 1]) + sig[41:]
            chk("ed25519-verify-bad", ed_verify_rfc(m, ed_public(seed), bad_sig) or ed_verify_ref10(m, ed_public(seed), bad_sig), False)
    else:
        bad.append("openssl-missing")
    # Salsa20: the core through scrypt = hashlib.scrypt; the expansion through Bernstein's section 9 examples
    for (N, r, p) in ((16, 1, 1), (8, 3, 2), (4, 8, 1)):
        pw, sa = rnd.rbytes(7), rnd.rbytes(5)
        chk("salsa20/8-via-scrypt", scrypt_ref(pw, sa, N, r, p, 40), hashlib.scrypt(pw, salt=sa, n=N, r=r, p=p, dklen=40))
    k32 = bytes(range(1, 17)) + bytes(range(201, 217))
    chk("salsa20-expansion-k32", list(_ser(salsa_core(salsa_expand(k32, bytes(range(101, 117))), 20))), SALSA_SPEC_K32)
    chk("salsa20-expansion-k16", list(_ser(salsa_core(salsa_expand(bytes(range(1, 17)), bytes(range(101, 117))), 20))), SALSA_SPEC_K16)
    # HSalsa20 (NaCl tests core1/core2), HChaCha20 (draft-irtf-cfrg-xchacha 2.2.1)
    shared = bytes.fromhex("4a5d9d5ba4ce2de1728e3bf480350f25e07e21c947d19e3376f09b3c1e161742")
    first = hsalsa(20, shared, b"\0" * 16)
    chk("hsalsa20-nacl-core1", first.hex(), "1b27556473e985d462cd51197a9a46c76009549eac6474f206c4ee0844f68389")
    chk("hsalsa20-nacl-core2", hsalsa(20, first, bytes.fromhex("69696ee955b62b73cd62bda875fc73d6")).hex(),
        "dc908dda0b9344a953629b733820778880f3ceb421bb61b91cbd4c3e66256ce4")
    chk("hchacha20-draft", hchacha(20, bytes(range(32)), bytes.fromhex("000000090000004a0000000031415927")).hex(),
        "82413b4227b27bfed30e42508a877d73a0f9e4d58a74a853c12ec41326d3ecdc")
    # Argon2: RFC 9106 section 5
    for y, want in ((0, RFC9106["d"]), (1, RFC9106["i"]), (2, RFC9106["id"])):
        chk(f"argon2-rfc9106-{y}", argon2_ref(y, 0x13, 3, 32, 4, 32, b"\x01" * 32, b"\x02" * 16, b"\x03" * 8, b"\x04" * 12).hex(), want)
    # generic HMAC / HKDF / PBKDF2 against the library
    for alg, B in (("sha256", 64), ("sha3_256", 136), ("sha512", 128)):
        for kl in (0, 1, B, B + 1):
            k, m = rnd.rbytes(kl), rnd.rbytes(33)
            chk("hmac-ref", hmac_ref(lambda d: hashlib.new(alg, d).digest(), B, k, m), pyhmac.new(k, m, alg).digest())
    pw, sa = rnd.rbytes(9), rnd.rbytes(9)
    chk("pbkdf2-ref", pbkdf2_ref(lambda k, m: pyhmac.new(k, m, "sha1").digest(), 20, pw, sa, 3, 45),
        hashlib.pbkdf2_hmac("sha1", pw, sa, 3, 45))
    return bad + selftest_md()


SALSA_SPEC_K32 = [69, 37, 68, 39, 41, 15, 107, 193, 255, 139, 122, 6, 170, 233, 217, 98, 89, 144, 182, 106, 21, 51, 200, 65,
                  239, 49, 222, 34, 215, 114, 40, 126, 104, 197, 7, 225, 197, 153, 31, 2, 102, 78, 76, 176, 84, 245, 246, 184,
                  177, 160, 133, 130, 6, 72, 149, 119, 192, 195, 132, 236, 234, 103, 246, 74]
SALSA_SPEC_K16 = [39, 173, 46, 248, 30, 200, 82, 17, 48, 67, 254, 239, 37, 18, 13, 247, 241, 200, 61, 144, 10, 55, 50, 185,
                  6, 47, 246, 253, 143, 86, 187, 225, 134, 85, 110, 246, 161, 163, 43, 235, 231, 94, 171, 51, 145, 214, 112, 29,
                  14, 232, 5, 16, 151, 140, 183, 141, 171, 9, 122, 181, 104, 182, 177, 193]
RFC9106 = {"d": "512b391b6f1162975371d30919734294f868e3be3984f3c1a13a4db9fabe4acb",
           "i": "c814d9d1dc7f37aa13f0d77f2494bda1c8de6b016dd388d29952a4c4672b6ce8",
           "id": "0d640df58d78766c08c037a34a8b53c9d01ef0452d75b65eb52520e96b01e659"}


# =============================================================================== python-ref: Merkle-Damgaard hashes with a preset length
#
# Only for the `hlen.*` ops (the crate's byte counter preset to N, chaining value = IV): no library can start a hash
# "in the middle", so SHA-1 / SHA-2 / RIPEMD-160 are written out here — SHA-2 constants from their FIPS 180-4
# definitions (fractional parts of square / cube roots of primes, SHA-512/t IV generation function 5.3.6) — and
# anchored by selftest_md(): with N = 0 each must be hashlib's digest.

def _primes(n):
    ps, c = [], 2
    while len(ps) < n:
        if all(c % q for q in ps):
            ps.append(c)
        c += 1
    return ps


def _iroot(n, k):
    lo, hi = 0, 1 << (n.bit_length() // k + 1)
    while lo < hi:
        mid = (lo + hi + 1) // 2
        if mid ** k <= n:
            lo = mid
        else:
            hi = mid - 1
    return lo


def _frac_root(p, k, bits):
    """first `bits` bits of the fractional part of the k-th root of p"""
    return _iroot(p << (k * bits), k) & ((1 << bits) - 1)


_P80 = _primes(80)
SHA256_K = [_frac_root(p, 3, 32) for p in _P80[:64]]
SHA512_K = [_frac_root(p, 3, 64) for p in _P80]
SHA256_H = [_frac_root(p, 2, 32) for p in _P80[:8]]
SHA224_H = [_frac_root(p, 2, 64) & M32 for p in _P80[8:16]]
SHA512_H = [_frac_root(p, 2, 64) for p in _P80[:8]]
SHA384_H = [_frac_root(p, 2, 64) for p in _P80[8:16]]


def _ror(x, n, w):
    return ((x >> n) | (x << (w - n))) & ((1 << w) - 1)


def _sha2_compress(h, block, w, K):
    mask = (1 << w) - 1
    nb = w // 8
    if w == 32:
        rs = (2, 13, 22, 6, 11, 25, 7, 18, 3, 17, 19, 10)
    else:
        rs = (28, 34, 39, 14, 18, 41, 1, 8, 7, 19, 61, 6)
    W = [int.from_bytes(block[nb * i:nb * i + nb], "big") for i in range(16)]
    for t in range(16, len(K)):
        s0 = _ror(W[t - 15], rs[6], w) ^ _ror(W[t - 15], rs[7], w) ^ (W[t - 15] >> rs[8])
        s1 = _ror(W[t - 2], rs[9], w) ^ _ror(W[t - 2], rs[10], w) ^ (W[t - 2] >> rs[11])
        W.append((s1 + W[t - 7] + s0 + W[t - 16]) & mask)
    a, b, c, d, e, f, g, hh = h
    for t in range(len(K)):
        S1 = _ror(e, rs[3], w) ^ _ror(e, rs[4], w) ^ _ror(e, rs[5], w)
        ch = (e & f) ^ (~e & mask & g)
        T1 = (hh + S1 + ch + K[t] + W[t]) & mask
        S0 = _ror(a, rs[0], w) ^ _ror(a, rs[1], w) ^ _ror(a, rs[2], w)
        maj = (a & b) ^ (a & c) ^ (b & c)
        T2 = (S0 + maj) & mask
        a, b, c, d, e, f, g, hh = (T1 + T2) & mask, a, b, c, (d + T1) & mask, e, f, g
    return [(x + y) & mask for x, y in zip(h, (a, b, c, d, e, f, g, hh))]


def _sha1_compress(h, block):
    W = [int.from_bytes(block[4 * i:4 * i + 4], "big") for i in range(16)]
    for t in range(16, 80):
        W.append(_rol32(W[t - 3] ^ W[t - 8] ^ W[t - 14] ^ W[t - 16], 1))
    a, b, c, d, e = h
    for t in range(80):
        if t < 20:
            f, k = (b & c) | (~b & M32 & d), 0x5a827999
        elif t < 40:
            f, k = b ^ c ^ d, 0x6ed9eba1
        elif t < 60:
            f, k = (b & c) | (b & d) | (c & d), 0x8f1bbcdc
        else:
            f, k = b ^ c ^ d, 0xca62c1d6
        a, b, c, d, e = (_rol32(a, 5) + f + e + k + W[t]) & M32, a, _rol32(b, 30), c, d
    return [(x + y) & M32 for x, y in zip(h, (a, b, c, d, e))]


_RMD_R = [list(range(16)), [7, 4, 13, 1, 10, 6, 15, 3, 12, 0, 9, 5, 2, 14, 11, 8], [3, 10, 14, 4, 9, 15, 8, 1, 2, 7, 0, 6, 13, 11, 5, 12],
          [1, 9, 11, 10, 0, 8, 12, 4, 13, 3, 7, 15, 14, 5, 6, 2], [4, 0, 5, 9, 7, 12, 2, 10, 14, 1, 3, 8, 11, 6, 15, 13]]
_RMD_RP = [[5, 14, 7, 0, 9, 2, 11, 4, 13, 6, 15, 8, 1, 10, 3, 12], [6, 11, 3, 7, 0, 13, 5, 10, 14, 15, 8, 12, 4, 9, 1, 2],
           [15, 5, 1, 3, 7, 14, 6, 9, 11, 8, 12, 2, 10, 0, 4, 13], [8, 6, 4, 1, 3, 11, 15, 0, 5, 12, 2, 13, 9, 7, 10, 14],
           [12, 15, 10, 4, 1, 5, 8, 7, 6, 2, 13, 14, 0, 3, 9, 11]]
_RMD_S = [[11, 14, 15, 12, 5, 8, 7, 9, 11, 13, 14, 15, 6, 7, 9, 8], [7, 6, 8, 13, 11, 9, 7, 15, 7, 12, 15, 9, 11, 7, 13, 12],
          [11, 13, 6, 7, 14, 9, 13, 15, 14, 8, 13, 6, 5, 12, 7, 5], [11, 12, 14, 15, 14, 15, 9, 8, 9, 14, 5, 6, 8, 6, 5, 12],
          [9, 15, 5, 11, 6, 8, 13, 12, 5, 12, 13, 14, 11, 8, 5, 6]]
_RMD_SP = [[8, 9, 9, 11, 13, 15, 15, 5, 7, 7, 8, 11, 14, 14, 12, 6], [9, 13, 15, 7, 12, 8, 9, 11, 7, 7, 12, 7, 6, 15, 13, 11],
           [9, 7, 15, 11, 8, 6, 6, 14, 12, 13, 5, 14, 13, 13, 7, 5], [15, 5, 8, 11, 14, 14, 6, 14, 6, 9, 12, 9, 12, 5, 15, 8],
           [8, 5, 12, 9, 12, 5, 14, 6, 8, 13, 6, 5, 15, 13, 11, 11]]
_RMD_K = [0, 0x5a827999, 0x6ed9eba1, 0x8f1bbcdc, 0xa953fd4e]
_RMD_KP = [0x50a28be6, 0x5c4dd124, 0x6d703ef3, 0x7a6d76e9, 0]


def _rmd_f(j, x, y, z):
    if j == 0:
        return x ^ y ^ z
    if j == 1:
        return (x & y) | (~x & M32 & z)
    if j == 2:
        return (x | (~y & M32)) ^ z
    if j == 3:
        return (x & z) | (y & ~z & M32)
    return x ^ (y | (~z & M32))


def _rmd_compress(h, block):
    X = [le(block[4 * i:4 * i + 4]) for i in range(16)]
    a, b, c, d, e = h
    ap, bp, cp, dp, ep = h
    for rnd in range(5):
        for i in range(16):
            t = (_rol32((a + _rmd_f(rnd, b, c, d) + X[_RMD_R[rnd][i]] + _RMD_K[rnd]) & M32, _RMD_S[rnd][i]) + e) & M32
            a, e, d, c, b = e, d, _rol32(c, 10), b, t
            t = (_rol32((ap + _rmd_f(4 - rnd, bp, cp, dp) + X[_RMD_RP[rnd][i]] + _RMD_KP[rnd]) & M32, _RMD_SP[rnd][i]) + ep) & M32
            ap, ep, dp, cp, bp = ep, dp, _rol32(cp, 10), bp, t
    t = (h[1] + c + dp) & M32
    return [t, (h[2] + d + ep) & M32, (h[3] + e + ap) & M32, (h[4] + a + bp) & M32, (h[0] + b + cp) & M32]


def _sha512t_iv(t):
    """FIPS 180-4 5.3.6: SHA-512 with H(0) xor a5a5..., applied to the string "SHA-512/t" """
    h = [x ^ 0xa5a5a5a5a5a5a5a5 for x in SHA512_H]
    m = b"SHA-512/" + str(t).encode()
    blk = m + b"\x80" + b"\0" * (128 - len(m) - 1 - 16) + (8 * len(m)).to_bytes(16, "big")
    return _sha2_compress(h, blk, 64, SHA512_K)


MD_ALGS = {  # name: (block, length-field bytes, length byte order, IV, compress, word bytes, word order, output bytes)
    "sha1": (64, 8, "big", [0x67452301, 0xefcdab89, 0x98badcfe, 0x10325476, 0xc3d2e1f0], _sha1_compress, 4, "big", 20),
    "ripemd160": (64, 8, "little", [0x67452301, 0xefcdab89, 0x98badcfe, 0x10325476, 0xc3d2e1f0], _rmd_compress, 4, "little", 20),
    "sha256": (64, 8, "big", SHA256_H, lambda h, b: _sha2_compress(h, b, 32, SHA256_K), 4, "big", 32),
    "sha224": (64, 8, "big", SHA224_H, lambda h, b: _sha2_compress(h, b, 32, SHA256_K), 4, "big", 28),
    "sha512": (128, 16, "big", SHA512_H, lambda h, b: _sha2_compress(h, b, 64, SHA512_K), 8, "big", 64),
    "sha384": (128, 16, "big", SHA384_H, lambda h, b: _sha2_compress(h, b, 64, SHA512_K), 8, "big", 48),
    "sha512_224": (128, 16, "big", _sha512t_iv(224), lambda h, b: _sha2_compress(h, b, 64, SHA512_K), 8, "big", 28),
    "sha512_256": (128, 16, "big", _sha512t_iv(256), lambda h, b: _sha2_compress(h, b, 64, SHA512_K), 8, "big", 32),
}


def md_tail(alg, N, msg):
    """digest of the chain IV -> blocks of  msg | 0x80 | 0.. | len(8*(N+|msg|))  (the message is N + |msg| bytes long)"""
    B, Lb, order, iv, compress, wb, worder, out = MD_ALGS[alg]
    total_bits = 8 * (N + len(msg))
    if total_bits >= 1 << (8 * Lb):
        raise Skip("total length outside the standard's domain (bit length >= 2^64 / 2^128)")
    z = (B - (len(msg) + 1 + Lb) % B) % B
    data = msg + b"\x80" + b"\0" * z + total_bits.to_bytes(Lb, order)
    h = list(iv)
    for i in range(0, len(data), B):
        h = compress(h, data[i:i + B])
    return b"".join(x.to_bytes(wb, worder) for x in h)[:out]


def selftest_md():
    bad = []
    rnd = cxlib.Rng(11)
    for alg in MD_ALGS:
        B = MD_ALGS[alg][0]
        for n in (0, 1, B - MD_ALGS[alg][1] - 1, B - MD_ALGS[alg][1], B - 1, B, B + 1, 3 * B + 5):
            m = rnd.rbytes(n)
            if md_tail(alg, 0, m) != hashlib.new(alg, m).digest():
                bad.append(f"md-{alg}-{n}")
        # a preset of N = B after one block of zeros whose compression is undone is not available; instead: the
        # tail of a two-block message from the chaining value after block 1 is covered by N = 0 above (same code path)
    return bad


def ev_hlen(op, a):
    alg = op.split(".", 1)[1]
    N, msg = int(a[0]), unhex(a[1])
    B = MD_ALGS[alg][0]
    if N % B != 0:
        raise Skip("type-level refusal (bad-args)")
    return [("python-ref(anchored on hashlib at N=0)", md_tail(alg, N, msg).hex())]


# =============================================================================== evaluators: one per op, `args -> [(oracle label, expected answer)]`
#
# An evaluator returns every independent answer it can compute for the line; each must equal the driver's answer.
# `Skip(reason)` = the line cannot be judged (counted per reason).  `NOTES` collects documented deviations.

HASHLIB_ALGS = ["sha1", "sha224", "sha256", "sha384", "sha512", "sha512_224", "sha512_256", "ripemd160",
                "sha3_224", "sha3_256", "sha3_384", "sha3_512"]
KECCAK_ALGS = {"keccak224": 224, "keccak256": 256, "keccak384": 384, "keccak512": 512}
BLOCK = {"sha1": 64, "sha224": 64, "sha256": 64, "sha384": 128, "sha512": 128, "sha512_224": 128, "sha512_256": 128,
         "sha3_224": 144, "sha3_256": 136, "sha3_384": 104, "sha3_512": 72, "keccak224": 144, "keccak256": 136,
         "keccak384": 104, "keccak512": 72, "ripemd160": 64}
OUTLEN = {"sha1": 20, "sha224": 28, "sha256": 32, "sha384": 48, "sha512": 64, "sha512_224": 28, "sha512_256": 32,
          "sha3_224": 28, "sha3_256": 32, "sha3_384": 48, "sha3_512": 64, "keccak224": 28, "keccak256": 32,
          "keccak384": 48, "keccak512": 64, "ripemd160": 20}


def new_hash(alg):
    if alg in KECCAK_ALGS:
        return KeccakObj(KECCAK_ALGS[alg])
    return hashlib.new(alg)


def hash_label(alg):
    return "python-ref" if alg in KECCAK_ALGS else "hashlib"


def digest_fn(name):
    """plain function, (outlen, block) of a <digest> token of the mackdf unit; None = no such function"""
    if name in BLOCK:
        return (lambda d: _hash_once(name, d)), OUTLEN[name], BLOCK[name], hash_label(name)
    m = re.fullmatch(r"blake2([bs])_(\d+)", name)
    if m:
        n, mx = int(m.group(2)), (64 if m.group(1) == "b" else 32)
        if not 1 <= n <= mx:
            return None
        ctor = hashlib.blake2b if m.group(1) == "b" else hashlib.blake2s
        return (lambda d: ctor(d, digest_size=n).digest()), n, (128 if m.group(1) == "b" else 64), "hashlib"
    raise Skip("unknown digest token")


def _hash_once(alg, data):
    h = new_hash(alg)
    h.update(data)
    return h.digest()


def ev_hash_plain(op, a):
    alg = op.split(".", 1)[1]
    d = _hash_once(alg, unhex(a[0])).hex()
    two = alg not in ("sha512_224", "sha512_256")
    return [(hash_label(alg), f"{d},{d}" if two else d)]


def ev_hctx_plain(op, a):
    """context history on native library objects: update / copy() / fresh object / digest()"""
    alg = op.split(".", 1)[1]
    cur, stack, outs = new_hash(alg), [], []
    toks = [] if a[0] == "-" else a[0].split(";")
    for t in toks:
        c, rest = t[:1], t[1:]
        if c in ("u", "m"):
            cur.update(unhex(rest))
        elif t == "c":
            stack.append(cur.copy())
        elif t == "x":
            if stack:
                cur, stack[-1] = stack[-1], cur
        elif t == "r":
            cur = new_hash(alg)
        elif t == "F":
            outs.append(cur.digest().hex())
            cur = new_hash(alg)
        elif t == "d":
            outs.append(cur.copy().digest().hex())
        else:
            raise Skip("unknown program token")
    return [(hash_label(alg), ",".join(outs) if outs else "-")]


# ------------------------------------------------------------------------------- BLAKE2 (hashlib)

def _b2(variant):
    return (hashlib.blake2b, 64) if variant == "blake2b" else (hashlib.blake2s, 32)


def b2_new(variant, outlen, key):
    """hashlib object; None where hashlib refuses the parameters (ValueError: digest size / key length out of range)"""
    ctor, _ = _b2(variant)
    try:
        return ctor(digest_size=outlen, key=key)
    except (ValueError, OverflowError):
        return None


def b2_hash(variant, outlen, key, msg):
    h = b2_new(variant, outlen, key)
    if h is None:
        return None
    h.update(msg)
    return h.digest()


def ev_blake2_oneshot(op, a):
    kind, variant = op.split(".")
    if kind == "finat":
        outlen, buflen, key, msg = int(a[0]), int(a[1]), unhex(a[2]), unhex(a[3])
        if buflen != outlen:
            raise Skip("API refusal (buffer length), not a statement of RFC 7693")
    else:
        outlen, key, msg = int(a[0]), unhex(a[1]), unhex(a[2])
    if kind == "hashbits":
        bits = outlen
        if bits == 0:
            return [("hashlib", "PANIC")]
        outlen = (bits + 7) // 8
    d = b2_hash(variant, outlen, key, msg)
    if d is None:
        return [("hashlib", "PANIC")]
    return [("hashlib", f"{d.hex()},{d.hex()}" if kind == "hash" else d.hex())]


def ev_blake2_fixed(op, a):
    m = re.fullmatch(r"hash\.(blake2[bs])_(\d+)", op)
    d = b2_hash(m.group(1), int(m.group(2)) // 8, b"", unhex(a[0])).hex()
    return [("hashlib", f"{d},{d}")]


def ev_blake2_hctx(op, a):
    kind, variant = op.split(".")
    outlen, key, prog = int(a[0]), unhex(a[1]), a[2]
    _, mx = _b2(variant)
    if kind == "hctxstd" and not (outlen in (28, 32) or (mx == 64 and outlen in (48, 64))):
        return [("hashlib", "bad-op")]
    if "T" in prog:
        raise Skip("counter preset hook (verif_set_counter): no library API")
    cur = b2_new(variant, outlen, key)
    if cur is None:
        return [("hashlib", "PANIC")]
    stack, outs = [], []
    for t in prog.split(";"):
        c, rest = t[:1], t[1:]
        if c in ("u", "m"):
            cur.update(unhex(rest))
        elif t == "c":
            stack.append(cur.copy())
        elif t == "x":
            if stack:
                cur, stack[-1] = stack[-1], cur
        elif t == "r":
            cur = b2_new(variant, outlen, b"")          # documented: reset() drops the key
        elif c == "k":
            cur = b2_new(variant, outlen, unhex(rest))
            if cur is None:
                return [("hashlib", "PANIC")]
        elif t == "F":
            outs.append(cur.digest().hex())
            cur = b2_new(variant, outlen, b"")
        elif c == "G":
            outs.append(cur.digest().hex())
            cur = b2_new(variant, outlen, unhex(rest))
            if cur is None:
                return [("hashlib", "PANIC")]
        elif t == "d":
            outs.append(cur.copy().digest().hex())
        else:
            raise Skip("unknown program token")
    return [("hashlib", ",".join(outs) if outs else "-")]


def ev_dig_blake(op, a):
    variant = "blake2b" if op.endswith("blake2b") else "blake2s"
    d = b2_hash(variant, int(a[0]), unhex(a[1]), unhex(a[2]))
    return [("hashlib", "PANIC" if d is None else d.hex())]


# ------------------------------------------------------------------------------- MAC / digest object histories (C08, C09)

def run_hist(prog, f, outlen, sizes, rekey=None, allow_clone=True):
    """the abstract object of the line protocol (Driver/MacKdf.lean): `f` = the MAC / digest under the retained key;
    input after a result, a second result and a result into a buffer of another length are refused"""
    cur = {"f": f, "data": b"", "fin": False}
    stack, outs = [], []
    toks = [] if prog == "-" else prog.split(";")
    for t in toks:
        c, rest = t[:1], t[1:]
        if c == "i":
            if cur["fin"]:
                return ",".join(outs + ["PANIC"])
            cur = dict(cur, data=cur["data"] + unhex(rest))
        elif t == "R" or c == "W":
            n = outlen if (t == "R" or rest == "") else int(rest)
            if cur["fin"] or n != outlen:
                return ",".join(outs + ["PANIC"])
            outs.append(hx(cur["f"](cur["data"])))
            cur = dict(cur, fin=True)
        elif t == "r":
            cur = dict(cur, data=b"", fin=False)
        elif c == "k" and rekey is not None:
            g = rekey(unhex(rest))
            if g is None:
                return ",".join(outs + ["PANIC"])
            cur = {"f": g, "data": b"", "fin": False}
        elif t == "c" and allow_clone:
            stack.append(cur)
        elif t == "x" and allow_clone:
            if stack:
                cur, stack[-1] = stack[-1], cur
        elif t == "o":
            outs.append("/".join(str(s) for s in sizes))
        else:
            raise Skip("program token outside the op's alphabet")
    return ",".join(outs) if outs else "-"


def _b2_rekey(variant, n):
    _, mx = _b2(variant)

    def rekey(key):
        if len(key) > mx:
            return None
        return lambda m: b2_hash(variant, n, key, m)
    return rekey


def ev_dig_obj(op, a):
    name, prog = a
    df = digest_fn(name)
    if df is None:
        return [("hashlib", "PANIC")]
    H, ol, B, label = df
    m = re.fullmatch(r"blake2([bs])_(\d+)", name)
    rekey = _b2_rekey("blake2" + m.group(1), ol) if m else None
    return [(label, run_hist(prog, H, ol, [ol, 8 * ol, B], rekey))]


def hmac_lib(name, key, msg):
    """HMAC through Python's hmac module where it supports the digest, else RFC 2104 over the plain function"""
    if name in HASHLIB_ALGS:
        return pyhmac.new(key, msg, name).digest(), "hmac"
    H, ol, B, label = digest_fn(name)
    return hmac_ref(H, B, key, msg), ("python-ref" if label == "python-ref" else "python-ref(RFC 2104 over hashlib)")


def ev_mac_hmac(op, a):
    name, key, prog = a[0], unhex(a[1]), a[2]
    df = digest_fn(name)
    if df is None:
        return [("hmac", "PANIC")]
    _, ol, _, _ = df
    label = hmac_lib(name, b"", b"")[1]
    return [(label, run_hist(prog, lambda m: hmac_lib(name, key, m)[0], ol, [ol], None, allow_clone=False))]


def ev_mac_blake(op, a):
    variant = "blake2b" if op.endswith("blake2b") else "blake2s"
    n, key, prog = int(a[0]), unhex(a[1]), a[2]
    _, mx = _b2(variant)
    if not 1 <= n <= mx or len(key) > mx:
        return [("hashlib", "PANIC")]
    rk = _b2_rekey(variant, n)
    return [("hashlib", run_hist(prog, rk(key), n, [n], rk))]


# ------------------------------------------------------------------------------- KDFs (C10)

def ev_hkdf_extract(op, a):
    name, salt, ikm, prklen = a[0], unhex(a[1]), unhex(a[2]), int(a[3])
    df = digest_fn(name)
    if df is None:
        return [("hmac", "PANIC")]
    if prklen != df[1]:
        raise Skip("API refusal (PRK buffer length), not a statement of RFC 5869")
    prk, label = hmac_lib(name, salt, ikm)
    res = [(label, prk.hex())]
    if name in OSSL_DIGEST and OPENSSL:
        res.append(("openssl", ossl_hkdf(name, "EXTRACT_ONLY", ikm, salt, b"", prklen).hex()))
    return res


def ev_hkdf_expand(op, a):
    name, prk, info, L = a[0], unhex(a[1]), unhex(a[2]), int(a[3])
    df = digest_fn(name)
    if df is None:
        return [("hmac", "PANIC")]
    ol = df[1]
    if len(prk) < ol:
        # outside the domain RFC 5869 2.3 defines ("PRK  a pseudorandom key of at least HashLen octets"; the crate documents the
        # same for `hkdf_expand`): the Spec must have no value there.  (The libraries — OpenSSL's HKDF, an HMAC loop — do not
        # check the PRK length and would answer with bytes: they are not asked.)
        return [("python-ref(RFC 5869 2.3: PRK of at least HashLen octets)", "PANIC")]
    if L > 255 * ol:
        return [("python-ref(RFC 5869 2.3: L <= 255*HashLen)", "PANIC")]
    label = hmac_lib(name, b"", b"")[1]
    res = [(label, hx(hkdf_expand_ref(lambda k, m: hmac_lib(name, k, m)[0], ol, prk, info, L)))]
    if name in OSSL_DIGEST and OPENSSL and L > 0:
        res.append(("openssl", ossl_hkdf(name, "EXPAND_ONLY", prk, b"", info, L).hex()))
    return res


PBKDF2_LIB = {n: n for n in HASHLIB_ALGS}
PBKDF2_LIB.update({"blake2b_64": "blake2b", "blake2s_32": "blake2s"})


def ev_pbkdf2(op, a):
    prf, pwd, salt, c, dklen = a[0], unhex(a[1]), unhex(a[2]), int(a[3]), int(a[4])
    m = re.fullmatch(r"blake2([bs])mac_(\d+)", prf)
    if m:
        variant, n = "blake2" + m.group(1), int(m.group(2))
        _, mx = _b2(variant)
        if not 1 <= n <= mx or len(pwd) > mx:
            return [("hashlib", "PANIC")]
        f, hlen, label = (lambda k, d: b2_hash(variant, n, k, d)), n, "python-ref(RFC 8018 5.2 over hashlib)"
    else:
        df = digest_fn(prf)
        if df is None:
            return [("hashlib", "PANIC")]
        hlen = df[1]
        f, label = (lambda k, d: hmac_lib(prf, k, d)[0]), "python-ref(RFC 8018 5.2 over hmac)"
    if c == 0:
        return [("python-ref(RFC 8018 5.2: c positive)", "PANIC")]
    if dklen > (2 ** 32 - 1) * hlen:
        return [("python-ref(RFC 8018 5.2 step 1)", "PANIC")]
    if dklen == 0:
        return [(label, "-")]
    if c * ((dklen + hlen - 1) // hlen) > 400000:
        raise Skip("too many PRF calls for the Python oracle")
    res = []
    if not m and prf in PBKDF2_LIB:
        res.append(("hashlib", hashlib.pbkdf2_hmac(PBKDF2_LIB[prf], pwd, salt, c, dklen).hex()))
    if not res or c * ((dklen + hlen - 1) // hlen) <= 5000:
        res.append((label, pbkdf2_ref(f, hlen, pwd, salt, c, dklen).hex()))
    return res


def scrypt_rfc_valid(N, r, p, dklen):
    """RFC 7914 section 2 / 6 parameter constraints"""
    return (N > 1 and N & (N - 1) == 0 and r > 0 and N.bit_length() <= 128 * r // 8 and 0 < p <= ((2 ** 32 - 1) * 32) // (128 * r)
            and 0 < dklen <= (2 ** 32 - 1) * 32)


def _within_usize(logn, r, p):
    return 128 * r * 2 ** logn < 2 ** 64 and 128 * r * p < 2 ** 64 and logn < 64


def ev_scrypt(op, a):
    pwd, salt, logn, r, p, dklen = unhex(a[0]), unhex(a[1]), int(a[2]), int(a[3]), int(a[4]), int(a[5])
    if not _within_usize(logn, r, p) or not (r > 0 and scrypt_rfc_valid(2 ** logn, r, p, dklen)):
        return [("python-ref(RFC 7914 2: parameter constraints)", "PANIC")]
    mem = 128 * r * (2 ** logn + p + 2) + (1 << 20)
    if mem > (1 << 30):
        raise Skip("scrypt working set too large for the oracle")
    try:
        d = hashlib.scrypt(pwd, salt=salt, n=2 ** logn, r=r, p=p, maxmem=mem, dklen=dklen)
    except (ValueError, MemoryError) as e:
        raise Skip("hashlib.scrypt refuses: " + str(e)[:60])
    return [("hashlib", d.hex())]


def ev_scrypt_params(op, a):
    logn, r, p = int(a[0]), int(a[1]), int(a[2])
    ok = _within_usize(logn, r, p) and r > 0 and scrypt_rfc_valid(2 ** logn, r, p, 1)
    return [("python-ref(RFC 7914 2: parameter constraints)", "ok" if ok else "PANIC")]


# ------------------------------------------------------------------------------- stream ciphers (C03, C04)

STREAM = {  # op -> (nonce length, fixed 32-byte key, has seek, has set_counter64, counter width in blocks)
    "stream.chacha": (12, False, True, False, 32), "stream.chachaorig": (8, False, False, True, 64),
    "stream.xchacha": (24, True, True, False, 32), "stream.salsa": (8, False, False, True, 64),
    "stream.xsalsa": (24, True, False, True, 64)}


def stream_blockfns(op, R, key, nonce):
    """[(label, keystream(pos, n))] — python-ref always; OpenSSL where its ChaCha20 applies (20 rounds, 256-bit key)"""
    if op == "stream.chacha":
        ref = lambda i: chacha_ietf_block(R, key, nonce, i % 2 ** 32)
    elif op == "stream.chachaorig":
        ref = lambda i: chacha_orig_block(R, key, nonce, i % 2 ** 64)
    elif op == "stream.xchacha":
        sub = hchacha(R, key, nonce[:16])
        n12 = b"\0" * 4 + nonce[16:]
        ref = lambda i: chacha_ietf_block(R, sub, n12, i % 2 ** 32)
    elif op == "stream.salsa":
        ref = lambda i: salsa_block(R, key, nonce, i % 2 ** 64)
    else:
        sub = hsalsa(R, key, nonce[:16])
        ref = lambda i: salsa_block(R, sub, nonce[16:], i % 2 ** 64)
    fns = [("python-ref", lambda pos, n: keystream_from(ref, pos, n))]
    if OPENSSL and R == 20 and len(key) == 32 and op in ("stream.chacha", "stream.chachaorig", "stream.xchacha"):
        if op == "stream.chacha":
            k, tail, w, lab = key, nonce, 4, "openssl"
        elif op == "stream.chachaorig":
            k, tail, w, lab = key, nonce, 8, "openssl"
        else:
            k, tail, w, lab = hchacha(20, key, nonce[:16]), b"\0" * 4 + nonce[16:], 4, "openssl(chacha20)+python-ref(hchacha20)"

        def via_openssl(pos, n, k=k, tail=tail, w=w):
            if n == 0:
                return b""
            first, last = pos // 64, (pos + n - 1) // 64
            if first // 2 ** (8 * w) != last // 2 ** (8 * w):
                raise Skip("openssl: range crosses the counter wrap")
            return ossl_chacha_keystream(k, tail, w, pos, n)
        fns.append((lab, via_openssl))
    return fns


def ev_stream_ctx(op, a):
    R, key, nonce, prog = int(a[0]), unhex(a[1]), unhex(a[2]), a[3]
    nlen, fixed, has_seek, has_set64, _ = STREAM[op]
    if len(nonce) != nlen or (fixed and len(key) != 32):
        raise Skip("type-level refusal (bad-args)")
    if len(key) not in (16, 32) or R not in (8, 12, 20):
        return [("python-ref(domain: key 16/32 bytes, 8/12/20 rounds)", "PANIC")]
    res = []
    for label, ks in stream_blockfns(op, R, key, nonce):
        try:
            res.append((label, _run_stream_prog(prog, ks, has_seek, has_set64)))
        except Skip:
            if label == "python-ref":
                raise
    return res


def _run_stream_prog(prog, ks, has_seek, has_set64):
    pos, stack, outs = 0, [], []
    toks = [] if prog == "-" else prog.split(";")
    for t in toks:
        c, rest = t[:1], t[1:]
        if c in ("p", "m"):
            d = unhex(rest)
            outs.append(hx(xor(d, ks(pos, len(d)))))
            pos += len(d)
        elif c == "i":
            d = unhex(rest)
            k = ks(pos, len(d))
            outs.append(hx(xor(xor(d, k), k)))
            pos += len(d)
        elif c == "P":
            n, h = rest.split(":")
            d = unhex(h)
            if len(d) != int(n):
                return "PANIC"
            outs.append(hx(xor(d, ks(pos, len(d)))))
            pos += len(d)
        elif c == "s":
            if not has_seek:
                raise Skip("type-level refusal (bad-args)")
            pos = 64 * int(rest)
        elif c == "S":
            if not has_set64:
                raise Skip("type-level refusal (bad-args)")
            pos = 64 * int(rest)
        elif t == "c":
            stack.append(pos)
        elif t == "x":
            if not stack:
                raise Skip("type-level refusal (bad-args)")
            pos, stack[-1] = stack[-1], pos
        else:
            raise Skip("unknown program token")
    return ",".join(outs) if outs else "_"


def _eng_layout(key, nonce):
    if len(nonce) == 16:
        return chacha_state(key, _words(nonce))
    if len(nonce) == 12:
        return chacha_state(key, [0] + _words(nonce))
    return chacha_state(key, [0, 0] + _words(nonce))


def _run_eng(R, key, nonce, prog):
    st = _eng_layout(key, nonce)
    outs = []
    for t in ([] if prog == "-" else prog.split(";")):
        c, rest = t[:1], t[1:]
        if t == "i":
            st[12] = (st[12] + 1) & M32
        elif t == "I":
            v = (st[12] | (st[13] << 32)) + 1
            st[12], st[13] = v & M32, (v >> 32) & M32
        elif t == "s":
            outs.append(_ser(st).hex())
        elif t == "b":
            outs.append(chacha_block_of_state(st, R).hex())
        elif t == "h":
            outs.append(chacha_h_of_state(st, R).hex())
        elif c == "c":
            st[12] = int(rest) & M32
        elif c == "C":
            v = int(rest)
            st[12], st[13] = v & M32, (v >> 32) & M32
        else:
            raise Skip("unknown program token")
    return ",".join(outs) if outs else "_"


def ev_stream_eng(op, a):
    if op == "stream.eng":
        a = a[1:]
    R, key, nonce, prog = int(a[0]), unhex(a[1]), unhex(a[2]), a[3]
    if len(key) not in (16, 32) or len(nonce) not in (8, 12, 16):
        raise Skip("outside the engine's domain (Spec answers ?)")
    r = _run_eng(R, key, nonce, prog)
    return [("python-ref", r if op == "stream.eng" else f"{r}|{r}")]


def ev_stream_drg(op, a):
    R, seed, prog = int(a[0]), unhex(a[1]), a[2]
    if len(seed) != 32:
        raise Skip("type-level refusal (bad-args)")
    if R not in (8, 12, 20):
        return [("python-ref(domain: 8/12/20 rounds)", "PANIC")]
    fns = stream_blockfns("stream.chacha", R, seed, b"\0" * 12)
    res = []
    for label, ks in fns:
        pos, outs = 0, []
        try:
            for t in ([] if prog == "-" else prog.split(";")):
                c, rest = t[:1], t[1:]
                if c == "b":
                    n = int(rest); outs.append(hx(ks(pos, n))); pos += n
                elif c in ("f", "l"):
                    n = len(unhex(rest)); outs.append(hx(ks(pos, n))); pos += n
                elif t == "w":
                    outs.append(str(int.from_bytes(ks(pos, 4), "big"))); pos += 4
                elif t == "q":
                    outs.append(str(int.from_bytes(ks(pos, 8), "big"))); pos += 8
                else:
                    raise Skip("unknown program token")
        except Skip:
            if label == "python-ref":
                raise
            continue
        res.append((label, ",".join(outs) if outs else "_"))
    return res


# ------------------------------------------------------------------------------- Poly1305 (C05, C09)

def poly_oracles(key, msg):
    res = [("python-ref", poly1305_ref(key, msg).hex())]
    if OPENSSL:
        res.append(("openssl", ossl_poly1305(key, msg).hex()))
    return res


def ev_poly_mac(op, a):
    key, msg = unhex(a[0]), unhex(a[2])
    if len(key) != 32:
        raise Skip("type-level refusal (bad-args)")
    return poly_oracles(key, msg)


def ev_poly_hist(op, a):
    key, prog = unhex(a[0]), a[1]
    if len(key) != 32:
        raise Skip("type-level refusal (bad-args)")
    res = []
    for which in (0, 1):
        if which == 1 and not OPENSSL:
            break
        mac = (lambda m: poly1305_ref(key, m)) if which == 0 else (lambda m: ossl_poly1305(key, m))
        cur, stack, outs, panic = (b"", False), [], [], False
        for t in ([] if prog == "-" else prog.split(";")):
            c, rest = t[:1], t[1:]
            if c == "i":
                if cur[1]:
                    panic = True
                    break
                cur = (cur[0] + unhex(rest), False)
            elif t == "R" or c == "W":
                n = 16 if (t == "R" or rest == "") else int(rest)
                if n < 16:
                    panic = True
                    break
                outs.append(mac(cur[0]).hex())
                cur = (cur[0], True)
            elif t == "r":
                cur = (b"", False)
            elif t == "c":
                stack.append(cur)
            elif t == "x":
                if stack:
                    cur, stack[-1] = stack[-1], cur
            else:
                raise Skip("unknown program token")
        toks = outs + (["PANIC"] if panic else [])
        res.append(("python-ref" if which == 0 else "openssl", ",".join(toks) if toks else "-"))
    return res


# ------------------------------------------------------------------------------- ChaCha20-Poly1305 (C06, C07), RFC 8439 2.8

def _pad16(x):
    return b"\0" * ((16 - len(x) % 16) % 16)


class AeadOracle:
    """RFC 8439 2.8 composed here from a ChaCha keystream and a Poly1305; `lib` = the OpenSSL primitives (R = 20, 256-bit
    key) or the python-ref ones"""

    def __init__(self, R, key, nonce, lib):
        fns = dict(stream_blockfns("stream.chacha", R, key, nonce))
        if lib == "openssl":
            if "openssl" not in fns:
                raise Skip("no OpenSSL primitive for this round count / key size")
            self.ks, self.mac = fns["openssl"], ossl_poly1305
            self.label = "openssl(chacha20,poly1305)+python-ref(RFC 8439 2.8 framing)"
        else:
            self.ks, self.mac, self.label = fns["python-ref"], poly1305_ref, "python-ref"
        self.polykey = self.ks(0, 32)

    def cipher(self, data):
        return xor(data, self.ks(64, len(data)))

    def tag(self, aad, ct):
        md = aad + _pad16(aad) + ct + _pad16(ct) + len(aad).to_bytes(8, "little") + len(ct).to_bytes(8, "little")
        return self.mac(self.polykey, md)


def _aead_each(R, key, nonce, body):
    """guard of the driver, then `body(oracle)` for both primitive sets"""
    if len(nonce) != 12:
        raise Skip("type-level refusal (bad-args)")
    if len(key) not in (16, 32) or R not in (8, 12, 20):
        return [("python-ref(domain: key 16/32 bytes, 8/12/20 rounds)", "PANIC")]
    res = []
    for lib in ("python-ref", "openssl"):
        try:
            o = AeadOracle(R, key, nonce, lib)
            res.append((o.label, body(o)))
        except Skip:
            if lib == "python-ref":
                raise
    return res


def ev_aead_seal(op, a):
    R, key, nonce, aad, pt = int(a[0]), unhex(a[1]), unhex(a[2]), unhex(a[3]), unhex(a[4])

    def body(o):
        ct = o.cipher(pt)
        return f"{hx(ct)},{o.tag(aad, ct).hex()}"
    return _aead_each(R, key, nonce, body)


def ev_aead_open(op, a):
    R, key, nonce, aad, ct, tag = int(a[0]), unhex(a[1]), unhex(a[2]), unhex(a[3]), unhex(a[4]), unhex(a[5])

    def body(o):
        if len(tag) != 16:
            return "PANIC"
        return f"{hx(o.cipher(ct))},true" if o.tag(aad, ct) == tag else "false"
    return _aead_each(R, key, nonce, body)


def ev_aead_inc(op, a):
    R, key, nonce, prog = int(a[0]), unhex(a[1]), unhex(a[2]), a[3]
    toks = [] if prog == "_" else prog.split(";")
    # typing / refusals of the incremental API, call by call (Driver/Aead.lean absStep)
    phase, aad, pieces, emits = "aad", b"", [], []
    early = None
    for t in toks:
        c, rest = t[:1], t[1:]
        if c == "a":
            if phase != "aad":
                early = "bad-prog"; break
            aad += unhex(rest)
        elif t in ("E", "D"):
            if phase != "aad":
                early = "bad-prog"; break
            phase = "enc" if t == "E" else "dec"
        elif c in ("e", "m", "d", "n"):
            want = "enc" if c in ("e", "m") else "dec"
            parts = rest.split(":")
            d = unhex(parts[0])
            if phase != want:
                early = "bad-prog"; break
            if len(parts) == 2 and int(parts[1]) != len(d):
                early = "PANIC"; break
            pieces.append(d); emits.append(None)
        elif t == "F":
            if phase != "enc":
                early = "bad-prog"; break
            phase = "done"; emits.append(b"")
        elif c == "V":
            tg = unhex(rest)
            if phase != "dec":
                early = "bad-prog"; break
            if len(tg) != 16:
                early = "bad-args"; break
            phase = "done"; emits.append(tg)
        else:
            raise Skip("unknown program token")
    if early in ("bad-prog", "bad-args"):
        if len(nonce) != 12:
            raise Skip("type-level refusal (bad-args)")
        raise Skip("history rejected by the type checker (bad-prog)")
    was_dec = "D" in toks

    def body(o):
        if early:
            return early
        inp = b"".join(pieces)
        out = o.cipher(inp)
        tag = o.tag(aad, inp if was_dec else out)
        res, off, k = [], 0, 0
        for e in emits:
            if e is None:
                res.append(hx(out[off:off + len(pieces[k])])); off += len(pieces[k]); k += 1
            elif was_dec:
                res.append("true" if e == tag else "false")
            else:
                res.append(tag.hex())
        return ",".join(res) if res else "_"
    return _aead_each(R, key, nonce, body)


def ev_aead_one(op, a):
    R, key, nonce, aad, prog = int(a[0]), unhex(a[1]), unhex(a[2]), unhex(a[3]), a[4]
    toks = [] if prog == "_" else prog.split(";")

    def body(o):
        fin, res = False, []
        for t in toks:
            c, parts = t[:1], t[1:].split(":")
            if c == "e":
                pt = unhex(parts[0])
                n = int(parts[1]) if len(parts) > 1 else len(pt)
                l = int(parts[2]) if len(parts) > 2 else 16
                if len(pt) != n or fin or l != 16:
                    return "PANIC"
                ct = o.cipher(pt)
                res += [hx(ct), o.tag(aad, ct).hex()]
            elif c == "d":
                ct, tg = unhex(parts[0]), unhex(parts[1])
                n = int(parts[2]) if len(parts) > 2 else len(ct)
                if len(tg) != 16 or len(ct) != n or fin:
                    return "PANIC"
                res += [hx(o.cipher(ct)), "true"] if o.tag(aad, ct) == tg else ["false"]
            else:
                raise Skip("unknown program token")
            fin = True
        return ",".join(res) if res else "_"
    return _aead_each(R, key, nonce, body)


# ------------------------------------------------------------------------------- X25519 (C12)

NOTES = {}


def note(key):
    NOTES[key] = NOTES.get(key, 0) + 1


def _arg(a, n):
    b = unhex(a)
    if len(b) != n:
        raise Skip("type-level refusal (bad-args)")
    return b


BASE9 = b"\x09" + b"\0" * 31


def _x_both(k, u, twice=True):
    r = x25519_ref(k, u).hex()
    res = [("python-ref", f"{r},{r}" if twice else r)]
    if OPENSSL:
        o = ossl_x25519(k, u)
        if o is None:
            note("x25519: OpenSSL refuses the all-zero shared secret (low-order point); python-ref only")
        else:
            res.append(("openssl", f"{o.hex()},{o.hex()}" if twice else o.hex()))
    return res


def ev_x_dh(op, a):
    return _x_both(_arg(a[0], 32), _arg(a[1], 32))


def ev_x_base(op, a):
    k = _arg(a[0], 32)
    res = _x_both(k, BASE9)
    if OPENSSL:
        pk = ossl_pub("x", k).hex()
        res.append(("openssl(pkey -pubout)", f"{pk},{pk}"))
    return res


def ev_x_iter(op, a):
    cnt, k, u = int(a[0]), _arg(a[1], 32), _arg(a[2], 32)
    if cnt > 20000:
        raise Skip("iteration count too large for the Python oracle")
    use_ossl = OPENSSL and cnt <= 30
    k2, u2, ok = k, u, use_ossl
    for _ in range(cnt):
        k, u = x25519_ref(k, u), k
        if ok:
            r = ossl_x25519(k2, u2)
            if r is None:
                ok = False
            else:
                k2, u2 = r, k2
    res = [("python-ref", k.hex())]
    if use_ossl and ok:
        res.append(("openssl", k2.hex()))
    return res


def ev_x_sym(op, a):
    ka, kb = _arg(a[0], 32), _arg(a[1], 32)
    r = x25519_ref(ka, x25519_ref(kb, BASE9)).hex()
    res = [("python-ref", f"{r},{r}")]
    if OPENSSL:
        o = ossl_x25519(ka, ossl_pub("x", kb))
        if o is not None:
            res.append(("openssl", f"{o.hex()},{o.hex()}"))
    return res


def ev_x_tryfrom(op, a):
    raise Skip("API conversion rule (length = 32), no standard involved")


# ------------------------------------------------------------------------------- Ed25519 (C13, C14)

def ev_ed_keypair(op, a):
    seed = _arg(a[0], 32)
    pk = ed_public(seed)
    res = [("python-ref", f"{(seed + pk).hex()},{pk.hex()}")]
    if OPENSSL:
        o = ossl_pub("ed", seed)
        res.append(("openssl", f"{(seed + o).hex()},{o.hex()}"))
    return res


def ev_ed_sign(op, a):
    seed, msg = _arg(a[0], 32), unhex(a[1])
    res = [("python-ref", ed_sign(seed, msg).hex())]
    if OPENSSL:
        o = ossl_ed_sign(seed, msg)
        if o is None:
            note("ed25519: the OpenSSL CLI cannot sign/verify the empty message; python-ref only")
        else:
            res.append(("openssl", o.hex()))
    return res


def ev_ed_sign_kp(op, a):
    kp, msg = _arg(a[0], 64), unhex(a[1])
    s, prefix = ed_secret_expand(kp[:32])
    return [("python-ref", ed_sign_with(s, prefix, kp[32:], msg).hex())]


def ev_ed_sign_ext(op, a):
    ext, msg = _arg(a[0], 64), unhex(a[1])
    s = le(ext[:32])
    if s >= 2 ** 255:
        raise Skip("scalar >= 2^255: outside the documented range of the fixed-window / sliding-window routines (Spec answers ?)")
    return [("python-ref", ed_sign_with(s, ext[32:], ed_encode(ed_mul(s, ED_B)), msg).hex())]


def ev_ed_ext_public(op, a):
    ext = _arg(a[0], 64)
    if le(ext[:32]) >= 2 ** 255:
        raise Skip("scalar >= 2^255: outside the documented range of the fixed-window / sliding-window routines (Spec answers ?)")
    return [("python-ref", ed_encode(ed_mul(le(ext[:32]), ED_B)).hex())]


def ev_ed_verify(op, a):
    """Three independent judgements.  (1) python-ref of RFC 8032 5.1.7 to the letter, cofactorless and cofactored: the
    RFC lets an implementation use either, so on canonically encoded input  cofactorless => answer => cofactored  must
    hold.  (2) the ref10-style byte comparison with lenient decoding (what the Spec documents).  (3) OpenSSL's verdict,
    except for the all-zero public key, which the crate documents it refuses (OpenSSL accepts it as a point of order 4)."""
    msg, pk, sig = unhex(a[0]), _arg(a[1], 32), _arg(a[2], 64)
    res = []
    zero_pk = pk == b"\0" * 32
    canon = ed_is_canonical(pk) and ed_is_canonical(sig[:32])
    if zero_pk:
        note("ed25519.verify: all-zero public key refused by the crate by documentation (RFC 8032 / OpenSSL treat it as a point of order 4)")
        res.append(("documented refusal of the all-zero public key", "false"))
        return res
    if canon:
        strict, cof = ed_verify_rfc(msg, pk, sig), ed_verify_rfc(msg, pk, sig, cofactored=True)
        if strict == cof:
            res.append(("python-ref(RFC 8032 5.1.7)", "true" if strict else "false"))
        else:
            note("ed25519.verify: cofactored and cofactorless RFC 8032 checks differ (mixed-order input); RFC allows either")
    else:
        note("ed25519.verify: non-canonical A or R (RFC 8032 5.1.3 rejects; the Spec documents ref10's lenient decoding)")
    res.append(("python-ref(ref10 cofactorless, lenient decoding)", "true" if ed_verify_ref10(msg, pk, sig) else "false"))
    if OPENSSL:
        o = ossl_ed_verify(msg, pk, sig)
        if o is None:
            note("ed25519: the OpenSSL CLI cannot sign/verify the empty message; python-ref only")
        else:
            res.append(("openssl", "true" if o else "false"))
    return res


def ev_ed_exchange(op, a):
    pk, seed = _arg(a[0], 32), _arg(a[1], 32)
    y = (le(pk) & ((1 << 255) - 1)) % P25519
    u = (1 + y) * pow((1 - y) % P25519, P25519 - 2, P25519) % P25519
    k = ed_clamp(hashlib.sha512(seed).digest()[:32])
    r = x25519_ref(k, u.to_bytes(32, "little"))
    res = [("python-ref", r.hex())]
    if OPENSSL:
        o = ossl_x25519(k, u.to_bytes(32, "little"))
        if o is not None:
            res.append(("openssl(x25519)+python-ref(birational map)", o.hex()))
    return res


def ev_ed_check(op, a):
    seed, msg, pk, sig = _arg(a[0], 32), unhex(a[1]), _arg(a[2], 32), _arg(a[3], 64)
    ok = ed_public(seed) == pk and ed_sign(seed, msg) == sig and ed_verify_rfc(msg, pk, sig)
    return [("python-ref", "true" if ok else "false")]


# ------------------------------------------------------------------------------- Edwards group, field, scalars (C15)

def _pt(s):
    """decoded point / None, with the documented lenient decoding; notes non-canonical encodings"""
    b = _arg(s, 32)
    P = ed_decode(b, lenient=True)
    if P is not None and not ed_is_canonical(b):
        note("ge.*: non-canonical point encoding accepted (RFC 8032 5.1.3 rejects; Spec documents ref10's lenient decoding)")
    return P


def ev_ge(op, a):
    L = "python-ref"
    if op == "ge.decode":
        P = _pt(a[0])
        return [(L, "none" if P is None else "some:" + ed_encode(P).hex())]
    if op == "ge.roundtrip":
        P = _pt(a[0])
        if P is None:
            return [(L, "none")]
        e = ed_encode(P)
        Q = ed_decode(e, lenient=True)
        return [(L, e.hex() + "," + ("none" if Q is None else ed_encode(Q).hex()))]
    if op == "ge.base_mul":
        n = le(_arg(a[0], 32))
        if n >= 2 ** 255:
            raise Skip("scalar >= 2^255: outside the documented range of the fixed-window / sliding-window routines (Spec answers ?)")
        return [(L, ed_encode(ed_mul(n, ED_B)).hex())]
    if op == "ge.double_mul":
        sa, sb = le(_arg(a[0], 32)), le(_arg(a[2], 32))
        if sa >= 2 ** 255 or sb >= 2 ** 255:
            raise Skip("scalar >= 2^255: outside the documented range of the fixed-window / sliding-window routines (Spec answers ?)")
        P = _pt(a[1])
        if P is None:
            return [(L, "none")]
        return [(L, ed_encode(ed_add(ed_mul(sa, P), ed_mul(sb, ED_B))).hex())]
    if op in ("ge.add", "ge.sub"):
        P, Q = _pt(a[0]), _pt(a[1])
        if P is None or Q is None:
            return [(L, "none")]
        return [(L, ed_encode(ed_add(P, Q if op == "ge.add" else ed_neg(Q))).hex())]
    if op == "ge.double":
        P = _pt(a[0])
        if P is None:
            return [(L, "none")]
        d = ed_encode(ed_add(P, P)).hex()
        return [(L, f"{d},{d}")]
    if op == "ge.negate":
        P = _pt(a[0])
        return [(L, "none" if P is None else ed_encode(ed_neg(P)).hex())]
    raise Skip("unknown ge op")


def ev_fe_prog(op, a):
    p = P25519
    consts = {"0": 0, "1": 1, "s": ED_SQRTM1, "d": ED_D, "2": 2 * ED_D % p}
    st, outs = [], []
    for t in a[0].split(";"):
        c, rest = t[:1], t[1:]
        try:
            if c == "b":
                b = unhex(rest)
                if len(b) != 32:
                    raise Skip("malformed program")
                st.append((le(b) & ((1 << 255) - 1)) % p)
            elif c == "c":
                st.append(consts[rest])
            elif t in ("+", "-", "*"):
                y = st.pop(); x = st.pop()
                st.append((x + y) % p if t == "+" else (x - y) % p if t == "-" else x * y % p)
            elif t == "~":
                st.append((-st.pop()) % p)
            elif t == "s":
                st.append(st.pop() ** 2 % p)
            elif c == "r":
                st.append(pow(st.pop(), 2 ** int(rest), p))
            elif t == "q":
                st.append(2 * st.pop() ** 2 % p)
            elif t == "i":
                st.append(pow(st.pop(), p - 2, p))
            elif t == "w":
                st.append(pow(st.pop(), (p - 5) // 8, p))
            elif t == "d":
                st.append(st[-1])
            elif t == "x":
                st[-1], st[-2] = st[-2], st[-1]
            elif t == "p":
                st.pop()
            elif c == "o":
                st.append(st[-1 - int(rest)])
            elif t == "t":
                outs.append(st[-1].to_bytes(32, "little").hex())
            elif t == "z":
                outs.append("true" if st[-1] != 0 else "false")
            elif t == "n":
                outs.append("true" if st[-1] & 1 else "false")
            elif t == "=":
                outs.append("true" if st[-1] == st[-2] else "false")
            else:
                raise Skip("malformed program")
        except (IndexError, KeyError):
            raise Skip("malformed program")
    return [("python-ref", ",".join(outs) if outs else "-")]


def ev_scalar(op, a):
    L, lab = ED_L, "python-ref"

    def enc(n):
        return n.to_bytes(32, "little").hex()
    name = op.split(".", 1)[1]
    if name == "const":
        return [(lab, enc({"zero": 0, "one": 1}[a[0]]))]
    if name == "roundtrip":
        return [(lab, enc(le(_arg(a[0], 32))))]
    if name == "canonical":
        n = le(_arg(a[0], 32))
        return [(lab, "some:" + enc(n) if n < L else "none")]
    if name == "reduce_wide":
        return [(lab, enc(le(_arg(a[0], 64)) % L))]
    if name == "reduce_then_canonical":
        return [(lab, "some:" + enc(le(_arg(a[0], 64)) % L))]
    if name == "add":
        x, y = le(_arg(a[0], 32)), le(_arg(a[1], 32))
        if x >= L or y >= L:
            raise Skip("unreduced operand: no mathematical statement (Spec answers ?)")
        return [(lab, enc((x + y) % L))]
    if name == "mul":
        return [(lab, enc(le(_arg(a[0], 32)) * le(_arg(a[1], 32)) % L))]
    if name == "muladd":
        x, y, z = le(_arg(a[0], 32)), le(_arg(a[1], 32)), le(_arg(a[2], 32))
        if z >= L:
            raise Skip("unreduced operand: no mathematical statement (Spec answers ?)")
        return [(lab, enc((x * y + z) % L))]
    if name == "nibbles":
        n = le(_arg(a[0], 32))
        return [(lab, ",".join(str((n >> (4 * i)) & 15) for i in range(64)))]
    if name == "bits":
        n = le(_arg(a[0], 32))
        return [(lab, ",".join(str((n >> i) & 1) for i in range(256)))]
    raise Skip("no functional standard (sliding-window recoding: relation proved in Props.C15)")


# ------------------------------------------------------------------------------- Argon2 (C11)

ARGON2_CONST_SIZES = (1, 4, 5, 16, 31, 32, 33, 63, 64, 65, 96, 128, 300)
ARGON2_MAX_BLOCKS = 4096          # m * t bound for the pure-Python oracle


def ev_argon2(op, a):
    ty, v, t, m, p, T = a[0], int(a[1]), int(a[2]), int(a[3]), int(a[4]), int(a[5])
    pwd, salt, key, aad = (unhex(x) for x in a[6:10])
    if t == 0 or p == 0 or p >= 2 ** 24 or v not in (0x10, 0x13):
        raise Skip("API refusal (InvalidParam), not a statement of RFC 9106")
    if m < 8 * p or T < 4:
        raise Skip("outside the RFC 9106 input domain (Spec answers ?)")
    if m * t > ARGON2_MAX_BLOCKS:
        raise Skip("memory x passes too large for the pure-Python oracle")
    tag = argon2_ref({"d": 0, "i": 1, "id": 2}[ty], v, t, m, p, T, pwd, salt, key, aad).hex()
    lab = "python-ref" if v == 0x13 else "python-ref(v1.0 = overwrite instead of XOR)"
    return [(lab, f"{tag},{tag}" if T in ARGON2_CONST_SIZES else tag)]


# =============================================================================== op table, families

_MD = "sha1|sha224|sha256|sha384|sha512|sha512_224|sha512_256|ripemd160"
_S3 = "sha3_224|sha3_256|sha3_384|sha3_512|keccak224|keccak256|keccak384|keccak512"

# (op regex, family, evaluator)
OPS = [
    (rf"hash\.({_MD})", "hash", ev_hash_plain), (rf"hctx\.({_MD})", "hash", ev_hctx_plain),
    (rf"hlen\.({_MD})", "hash", ev_hlen),
    (rf"hash\.({_S3})", "sha3", ev_hash_plain), (rf"hctx\.({_S3})", "sha3", ev_hctx_plain),
    (r"(hash|hashdyn|finat|hashbits)\.blake2[bs]", "blake2", ev_blake2_oneshot),
    (r"hash\.blake2[bs]_\d+", "blake2", ev_blake2_fixed),
    (r"(hctx|hctxdyn|hctxstd)\.blake2[bs]", "blake2", ev_blake2_hctx),
    (r"dig\.blake2[bs]", "blake2", ev_dig_blake), (r"mac\.blake2[bs]", "blake2", ev_mac_blake),
    (r"dig\.obj", "hmac", ev_dig_obj), (r"mac\.hmac", "hmac", ev_mac_hmac),
    (r"kdf\.hkdf_extract", "kdf", ev_hkdf_extract), (r"kdf\.hkdf_expand", "kdf", ev_hkdf_expand),
    (r"kdf\.pbkdf2", "kdf", ev_pbkdf2), (r"kdf\.scrypt", "kdf", ev_scrypt), (r"kdf\.scrypt_params", "kdf", ev_scrypt_params),
    (r"stream\.(chacha|chachaorig|xchacha|salsa|xsalsa)", "stream", ev_stream_ctx),
    (r"stream\.eng2?", "stream", ev_stream_eng), (r"stream\.drg", "stream", ev_stream_drg),
    (r"poly\.mac", "poly", ev_poly_mac), (r"poly\.hist", "poly", ev_poly_hist),
    (r"aead\.seal", "aead", ev_aead_seal), (r"aead\.open", "aead", ev_aead_open),
    (r"aead\.inc", "aead", ev_aead_inc), (r"aead\.one", "aead", ev_aead_one),
    (r"x25519\.dh", "x25519", ev_x_dh), (r"x25519\.base", "x25519", ev_x_base), (r"x25519\.iter", "x25519", ev_x_iter),
    (r"x25519\.sym", "x25519", ev_x_sym),
    (r"ed25519\.keypair", "ed25519", ev_ed_keypair), (r"ed25519\.(sign|sign_via_ext)", "ed25519", ev_ed_sign),
    (r"ed25519\.sign_kp", "ed25519", ev_ed_sign_kp), (r"ed25519\.sign_ext", "ed25519", ev_ed_sign_ext),
    (r"ed25519\.ext_public", "ed25519", ev_ed_ext_public), (r"ed25519\.verify", "ed25519", ev_ed_verify),
    (r"ed25519\.exchange", "ed25519", ev_ed_exchange), (r"ed25519\.check", "ed25519", ev_ed_check),
    (r"ge\.\w+", "group", ev_ge), (r"fe\.prog", "field", ev_fe_prog),
    (r"scalar\.(const|roundtrip|canonical|reduce_wide|reduce_then_canonical|add|mul|muladd|nibbles|bits)", "scalar", ev_scalar),
    (r"argon2\.hash", "argon2", ev_argon2),
]
OPS = [(re.compile(rx + r"$"), fam, ev) for rx, fam, ev in OPS]

# ops of the generators that no oracle can judge: (op regex, family, reason)
UNJUDGED = [
    (r"long\.\w+", None, "metamorphic long-input op: the models are not run on it"),
    (r"ktie\.\w+(\.\w+)?", "poly", "internal limb kernel (no Spec, MIR tie)"),
    (r"poly\.output_bytes", "poly", "constant of the API"),
    (r"aead\.openbuf", "aead", "output buffer of a failed decrypt: not defined by RFC 8439 (Spec answers ?)"),
    (r"x25519\.tryfrom", "x25519", "API conversion rule, no standard involved"),
    (r"scalar\.(slide|slide_contract)", "scalar", "sliding-window recoding has no functional standard (relation proved in Props.C15)"),
    (r"simd\.\w+", None, "lane-batched kernels (C16), not a Spec op"),
    (r"b32\.[\w.]+", None, "32-bit backend ops (C17): Spec identical to the 64-bit ops judged in field/scalar"),
]
UNJUDGED = [(re.compile(rx + r"$"), fam, rx.replace("\\", "").replace("w+", "*").replace("(.*)?", "").replace("[w.]+", "*") + ": " + why)
            for rx, fam, why in UNJUDGED]

# family -> (properties whose generators feed it, quick cap, thorough cap)
FAMILIES = {
    "hash": (["C01", "C02", "C20"], 1600, 8000),
    "sha3": (["C01", "C02"], 1200, 5000),
    "blake2": (["C01", "C02", "C09", "C20"], 1600, 8000),
    "hmac": (["C08", "C09", "C20"], 900, 4000),
    "kdf": (["C10", "C20"], 700, 2500),
    "stream": (["C03", "C04", "C16"], 700, 4000),
    "poly": (["C05", "C09"], 900, 5000),
    "aead": (["C06", "C07", "C20"], 600, 3000),
    "x25519": (["C12"], 400, 2500),
    "ed25519": (["C13", "C14"], 170, 900),
    "group": (["C15"], 200, 1000),
    "field": (["C15"], 500, 3000),
    "scalar": (["C15"], 600, 4000),
    "argon2": (["C11", "C20"], 90, 400),
}

FAMILIES_BY_PROPERTY = {
    "C01": ["hash", "sha3", "blake2"], "C02": ["hash", "sha3", "blake2"],
    "C03": ["stream"], "C04": ["stream"], "C05": ["poly"],
    "C06": ["aead", "stream", "poly"], "C07": ["aead", "poly"],
    "C08": ["hmac"], "C09": ["hmac", "poly", "blake2"], "C10": ["kdf", "hmac"], "C11": ["argon2", "blake2"],
    "C12": ["x25519", "field"], "C13": ["ed25519", "group", "scalar"], "C14": ["ed25519", "group", "scalar"],
    "C15": ["field", "scalar", "group"],
}


def classify(op):
    for rx, fam, ev in OPS:
        if rx.match(op):
            return fam, ev, None
    for rx, fam, why in UNJUDGED:
        if rx.match(op):
            return fam, None, why
    return None, None, "op unknown to spec_oracles.py"


# =============================================================================== published vectors (line, expected answer, source)

def _two(d):
    return f"{d},{d}"


_SUN = (b"Ladies and Gentlemen of the class of '99: If I could offer you only one tip for the future, sunscreen would be it.")
_K0 = bytes(range(32)).hex()
_K8 = bytes(range(0x80, 0xa0)).hex()
_ABC = "616263"
_SHA512_ABC = ("ddaf35a193617abacc417349ae20413112e6fa4e89a97ea20a9eeee64b55d39a2192992a274fc1a836ba3c23a3feebbd"
               "454d4423643ce80e2a9ac94fa54ca49f")


def published_vectors(tier):
    """{family: [(line, expected, source)]} — only values the author is certain of; each is also evaluated by the
    family's oracle, so a vector remembered wrongly shows up as a vector-vs-oracle conflict, not silently"""
    V = {f: [] for f in FAMILIES}
    h = V["hash"]
    for alg, m, d in (
            ("sha1", _ABC, "a9993e364706816aba3e25717850c26c9cd0d89d"), ("sha1", "-", "da39a3ee5e6b4b0d3255bfef95601890afd80709"),
            ("sha224", _ABC, "23097d223405d8228642a477bda255b32aadbce4bda0b3f7e36c9da7"),
            ("sha256", _ABC, "ba7816bf8f01cfea414140de5dae2223b00361a396177a9cb410ff61f20015ad"),
            ("sha256", "-", "e3b0c44298fc1c149afbf4c8996fb92427ae41e4649b934ca495991b7852b855"),
            ("sha384", _ABC, "cb00753f45a35e8bb5a03d699ac65007272c32ab0eded1631a8b605a43ff5bed8086072ba1e7cc2358baeca134c825a7"),
            ("sha512", _ABC, _SHA512_ABC),
            ("ripemd160", "-", "9c1185a5c5e9fc54612808977ee8f548b2258d31"), ("ripemd160", _ABC, "8eb208f7e05d987a9b044a8e98c6b087f15a0bfc")):
        h.append((f"hash.{alg} {m}", _two(d), "FIPS 180-4 / RIPEMD-160 paper examples"))
    h.append((f"hash.sha512_224 {_ABC}", "4634270f707b6a54daae7530460842e20e37ed265ceee9a43e8924aa", "FIPS 180-4 example"))
    h.append((f"hash.sha512_256 {_ABC}", "53048e2681941ef99b2e29b76b4c7dabe4c2d0c634fc6d46e0e2f13107e7af23", "FIPS 180-4 example"))
    for alg, m, d in (
            ("sha3_224", "-", "6b4e03423667dbb73b6e15454f0eb1abd4597f9a1b078e3f5b5a6bc7"),
            ("sha3_256", "-", "a7ffc6f8bf1ed76651c14756a061d662f580ff4de43b49fa82d80a4b80f8434a"),
            ("sha3_384", "-", "0c63a75b845e4f7d01107d852e4c2485c51a50aaaa94fc61995e71bbee983a2ac3713831264adb47fb6bd1e058d5f004"),
            ("sha3_512", "-", "a69f73cca23a9ac5c8b567dc185a756e97c982164fe25859e0d1dcc1475c80a615b2123af1f5f94c11e3e9402c3ac558f500199d95b6d3e301758586281dcd26"),
            ("keccak256", "-", "c5d2460186f7233c927e7db2dcc703c0e500b653ca82273b7bfad8045d85a470"),
            ("keccak256", _ABC, "4e03657aea45a94fc7d47ba826c8d667c0d1e6e33a64a036ec44f58fa12d6c45"),
            ("keccak512", "-", "0eab42de4c3ceb9235fc91acffe746b29c29a8c366b7c60e4e67c466f36a4304c00fa9caf9d87976ba469bcbe06713b435f091ef2769fb160cdab33d3670680e")):
        V["sha3"].append((f"hash.{alg} {m}", _two(d), "FIPS 202 / Keccak team example values"))
    V["blake2"] += [
        (f"hash.blake2b 64 - {_ABC}", _two("ba80a53f981c4d0d6a2797b69f12f6e94c212f14685ac4b74b12bb6fdbffa2d17d87c5392aab792dc252d5de4533cc9518d38aa8dbf1925ab92386edd4009923"), "RFC 7693 App. A"),
        (f"hash.blake2s 32 - {_ABC}", _two("508c5e8c327c14e2e1a72ba34eeb452f37458b209ed63a294d999b4c86675982"), "RFC 7693 App. B")]
    V["hmac"] += [
        (f"mac.hmac sha256 {'0b' * 20} i{b'Hi There'.hex()};R", "b0344c61d8db38535ca8afceaf0bf12b881dc200c9833da726e9376c2e32cff7", "RFC 4231 4.2"),
        (f"mac.hmac sha256 {b'Jefe'.hex()} i{b'what do ya want for nothing?'.hex()};R", "5bdcc146bf60754e6a042426089575c75a003f089d2739839dec58b964ec3843", "RFC 4231 4.3"),
        (f"mac.hmac sha1 {'0b' * 20} i{b'Hi There'.hex()};R", "b617318655057264e28bc0b6fb378c8ef146be00", "RFC 2202 3"),
        (f"mac.hmac sha1 {b'Jefe'.hex()} i{b'what do ya want for nothing?'.hex()};R", "effcdf6ae5eb2fa2d27416d5f184df9c259a7c79", "RFC 2202 3")]
    k = V["kdf"]
    a1_prk = "077709362c2e32df0ddc3f0dc47bba6390b6c73bb50f9c3122ec844ad7c2b3e5"
    a2_prk = "06a6b88c5853361a06104c9ceb35b45cef760014904671014a193f40c15fc244"
    a3_prk = "19ef24a32c717b167f33a91d6f648bdf96596776afdb6377ac434c1c293ccb04"
    k += [
        (f"kdf.hkdf_extract sha256 {bytes(range(13)).hex()} {'0b' * 22} 32", a1_prk, "RFC 5869 A.1"),
        (f"kdf.hkdf_expand sha256 {a1_prk} {bytes(range(0xf0, 0xfa)).hex()} 42",
         "3cb25f25faacd57a90434f64d0362f2a2d2d0a90cf1a5a4c5db02d56ecc4c5bf34007208d5b887185865", "RFC 5869 A.1"),
        (f"kdf.hkdf_extract sha256 {bytes(range(0x60, 0xb0)).hex()} {bytes(range(0x50)).hex()} 32", a2_prk, "RFC 5869 A.2"),
        (f"kdf.hkdf_expand sha256 {a2_prk} {bytes(range(0xb0, 0x100)).hex()} 82",
         "b11e398dc80327a1c8e7f78c596a49344f012eda2d4efad8a050cc4c19afa97c59045a99cac7827271cb41c65e590e09da3275600c2f09b8367793a9aca3db71cc30c58179ec3e87c14c01d5c1f3434f1d87", "RFC 5869 A.2"),
        (f"kdf.hkdf_extract sha256 - {'0b' * 22} 32", a3_prk, "RFC 5869 A.3"),
        (f"kdf.hkdf_expand sha256 {a3_prk} - 42",
         "8da4e775a563c18f715f802a063c5a31b8a11f5c5ee1879ec3454e5f3c738d2d9d201395faa4b61a96c8", "RFC 5869 A.3"),
        (f"kdf.pbkdf2 sha256 {b'passwd'.hex()} {b'salt'.hex()} 1 64",
         "55ac046e56e3089fec1691c22544b605f94185216dde0465e68b9d57c20dacbc49ca9cccf179b645991664b39d77ef317c71b845b1e30bd509112041d3a19783", "RFC 7914 11"),
        ("kdf.scrypt - - 4 1 1 64",
         "77d6576238657b203b19ca42c18a0497f16b4844e3074ae8dfdffa3fede21442fcd0069ded0948f8326a753a0fc81f17e8d3e0fb2e0d3628cf35e20c38d18906", "RFC 7914 12")]
    if tier == "thorough":
        k += [
            (f"kdf.pbkdf2 sha256 {b'Password'.hex()} {b'NaCl'.hex()} 80000 64",
             "4ddcd8f60b98be21830cee5ef22701f9641a4418d04c0414aeff08876b34ab56a1d425a1225833549adb841b51c9b3176a272bdebba1d078478f62b397f33c8d", "RFC 7914 11"),
            (f"kdf.scrypt {b'password'.hex()} {b'NaCl'.hex()} 10 8 16 64",
             "fdbabe1c9d3472007856e7190d01e9fe7c6ad7cbc8237830e77376634b3731622eaf30d92e22a3886ff109279d9830dac727afb94a83ee6d8360cbdfa2cc0640", "RFC 7914 12")]
    s = V["stream"]
    s += [
        (f"stream.chacha 20 {_K0} 000000090000004a00000000 s1;p{'00' * 64}",
         "10f1e7e4d13b5915500fdd1fa32071c4c7d1f4c733c068030422aa9ac3d46c4ed2826446079faa0914c2d705d98b02a2b5129cd1de164eb9cbd083e8a2503c4e", "RFC 8439 2.3.2"),
        (f"stream.chacha 20 {_K0} 000000000000004a00000000 s1;p{_SUN.hex()}",
         "6e2e359a2568f98041ba0728dd0d6981e97e7aec1d4360c20a27afccfd9fae0bf91b65c5524733ab8f593dabcd62b3571639d624e65152ab8f530c359f0861d807ca0dbf500d6a6156a38e088a22b65e52bc514d16ccf806818ce91ab77937365af90bbf74a35be6b40b8eedf2785e42874d", "RFC 8439 2.4.2"),
        (f"stream.chacha 20 {_K8} 000000000001020304050607 p{'00' * 32}",
         "8ad5a08b905f81cc815040274ab29471a833b637e3fd0da508dbb8e2fdd1a646", "RFC 8439 2.6.2"),
        (f"stream.eng portable 20 {_K0} 000000090000004a0000000031415927 h",
         "82413b4227b27bfed30e42508a877d73a0f9e4d58a74a853c12ec41326d3ecdc", "draft-irtf-cfrg-xchacha 2.2.1"),
        (f"stream.salsa 20 {(bytes(range(1, 17)) + bytes(range(201, 217))).hex()} {bytes(range(101, 109)).hex()} "
         f"S{le(bytes(range(109, 117)))};p{'00' * 64}", bytes(SALSA_SPEC_K32).hex(), "Bernstein, Salsa20 specification 9"),
        (f"stream.salsa 20 {bytes(range(1, 17)).hex()} {bytes(range(101, 109)).hex()} "
         f"S{le(bytes(range(109, 117)))};p{'00' * 64}", bytes(SALSA_SPEC_K16).hex(), "Bernstein, Salsa20 specification 9"),
        ("stream.xsalsa 20 1b27556473e985d462cd51197a9a46c76009549eac6474f206c4ee0844f68389 "
         f"69696ee955b62b73cd62bda875fc73d68219e0036b7a0b37 p{'00' * 32}",
         "eea6a7251c1e72916d11c2cb214d3c252539121d8e234e652d651fa4c8cff880", "NaCl tests/stream3")]
    V["poly"].append(("poly.mac 85d6be7857556d337f4452fe42d506a80103808afb0db2fd4abff6af4149f51b - "
                      + b"Cryptographic Forum Research Group".hex(), "a8061dc1305136c6c22b8baf0c0127a9", "RFC 8439 2.5.2"))
    ct = ("d31a8d34648e60db7b86afbc53ef7ec2a4aded51296e08fea9e2b5a736ee62d63dbea45e8ca9671282fafb69da92728b1a71de0a9e060b2905d6a5b67e"
          "cd3b3692ddbd7f2d778b8c9803aee328091b58fab324e4fad675945585808b4831d7bc3ff4def08e4b7a9de576d26586cec64b6116")
    tag = "1ae10b594f09e26a7e902ecbd0600691"
    V["aead"] += [
        (f"aead.seal 20 {_K8} 070000004041424344454647 50515253c0c1c2c3c4c5c6c7 {_SUN.hex()}", f"{ct},{tag}", "RFC 8439 2.8.2"),
        (f"aead.open 20 {_K8} 070000004041424344454647 50515253c0c1c2c3c4c5c6c7 {ct} {tag}", f"{_SUN.hex()},true", "RFC 8439 2.8.2")]
    x = V["x25519"]
    x += [
        ("x25519.dh a546e36bf0527c9d3b16154b82465edd62144c0ac1fc5a18506a2244ba449ac4 e6db6867583030db3594c1a424b15f7c726624ec26b3353b10a903a6d0ab1c4c",
         _two("c3da55379de9c6908e94ea4df28d084f32eccf03491c71f754b4075577a28552"), "RFC 7748 5.2"),
        ("x25519.dh 4b66e9d4d1b4673c5ad22691957d6af5c11b6421e0ea01d42ca4169e7918ba0d e5210f12786811d3f4b7959d0538ae2c31dbe7106fc03c3efc4cd549c715a493",
         _two("95cbde9476e8907d7aade45cb4b873f88b595a68799fa152e6f8f7647aac7957"), "RFC 7748 5.2"),
        (f"x25519.iter 1 {BASE9.hex()} {BASE9.hex()}", "422c8e7a6227d7bca1350b3e2bb7279f7897b87bb6854b783c60e80311ae3079", "RFC 7748 5.2"),
        (f"x25519.iter 1000 {BASE9.hex()} {BASE9.hex()}", "684cf59ba83309552800ef566f2f4d3c1c3887c49360e3875f2eb94d99532c51", "RFC 7748 5.2"),
        ("x25519.base 77076d0a7318a57d3c16c17251b26645df4c2f87ebc0992ab177fba51db92c2a",
         _two("8520f0098930a754748b7ddcb43ef75a0dbf3a0d26381af4eba4a98eaa9b4e6a"), "RFC 7748 6.1"),
        ("x25519.dh 77076d0a7318a57d3c16c17251b26645df4c2f87ebc0992ab177fba51db92c2a de9edb7d7b7dc1b4d35b61c2ece435373f8343c85b78674dadfc7e146f882b4f",
         _two("4a5d9d5ba4ce2de1728e3bf480350f25e07e21c947d19e3376f09b3c1e161742"), "RFC 7748 6.1")]
    for sk, pk, m, sig, src in (
            ("9d61b19deffd5a60ba844af492ec2cc44449c5697b326919703bac031cae7f60", "d75a980182b10ab7d54bfed3c964073a0ee172f3daa62325af021a68f707511a", "-",
             "e5564300c360ac729086e2cc806e828a84877f1eb8e5d974d873e065224901555fb8821590a33bacc61e39701cf9b46bd25bf5f0595bbe24655141438e7a100b", "TEST 1"),
            ("4ccd089b28ff96da9db6c346ec114e0f5b8a319f35aba624da8cf6ed4fb8a6fb", "3d4017c3e843895a92b70aa74d1b7ebc9c982ccf2ec4968cc0cd55f12af4660c", "72",
             "92a009a9f0d4cab8720e820b5f642540a2b27b5416503f8fb3762223ebdb69da085ac1e43e15996e458f3613d0f11d8c387b2eaeb4302aeeb00d291612bb0c00", "TEST 2"),
            ("c5aa8df43f9f837bedb7442f31dcb7b166d38535076f094b85ce3a2e0b4458f7", "fc51cd8e6218a1a38da47ed00230f0580816ed13ba3303ac5deb911548908025", "af82",
             "6291d657deec24024827e69c3abe01a30ce548a284743a445e3680d7db5ac3ac18ff9b538d16f290ae67f760984dc6594a7c15e9716ed28dc027beceea1ec40a", "TEST 3"),
            ("833fe62409237b9d62ec77587520911e9a759cec1d19755b7da901b96dca3d42", "ec172b93ad5e563bf4932c70e1245034c35467ef2efd4d64ebf819683467e2bf", _SHA512_ABC,
             "dc2a4459e7369633a52b1bf277839a00201009a3efbf3ecb69bea2186c26b58909351fc9ac90b3ecfdfbc7c66431e0303dca179c138ac17ad9bef1177331a704", "TEST SHA(abc)")):
        V["ed25519"] += [
            (f"ed25519.keypair {sk}", f"{sk}{pk},{pk}", "RFC 8032 7.1 " + src),
            (f"ed25519.sign {sk} {m}", sig, "RFC 8032 7.1 " + src),
            (f"ed25519.verify {m} {pk} {sig}", "true", "RFC 8032 7.1 " + src),
            (f"ed25519.check {sk} {m} {pk} {sig}", "true", "RFC 8032 7.1 " + src)]
    for ty in ("d", "i", "id"):
        V["argon2"].append((f"argon2.hash {ty} 19 3 32 4 32 {'01' * 32} {'02' * 16} {'03' * 8} {'04' * 12}", _two(RFC9106[ty]), "RFC 9106 5"))
    return V


# =============================================================================== case selection

_PRIO_KIND = re.compile(r"bound|edge|carry|wrap|max|vector|rfc|refus|fill|padlike|limit|directed|zero|static|keylen|wild|"
                        r"bufsize|ctr|init|small|order|canon|malle|tors|clamp|noncanon|low|high|key[<>=]|padkey|r=|s-all|all-ones", re.I)
_BLOCKS = (16, 64, 72, 104, 128, 136, 144)


def _is_boundary(line, kind):
    if _PRIO_KIND.search(kind):
        return True
    n = max((len(t) for t in line.split(" ")[1:]), default=0) // 2      # byte length of the longest hex argument
    if n <= 2:
        return True
    for b in _BLOCKS:
        if n <= 4 * b + 1 and n % b in (0, 1, b - 1):
            return True
    return n % 64 in (55, 56) or n % 128 in (111, 112)


class Collector:
    """streaming selection (the thorough generators yield ~10^6 lines): per (op, boundary?, generator kind) group keep the
    first and the last line and a reservoir sample; `select(cap)` shares the cap equally between the ops present and
    serves every group round-robin, boundary groups (kind label or block-boundary length) first"""
    RES = 150

    def __init__(self, seed):
        self.rng = cxlib.Rng(seed)
        self.seen = set()
        self.groups = {}
        self.available = 0

    def add(self, line, kind):
        h = hash(line)
        if h in self.seen:
            return
        self.seen.add(h)
        self.available += 1
        key = (line.split(" ", 1)[0], 0 if _is_boundary(line, kind) else 1, kind)
        g = self.groups.get(key)
        if g is None:
            self.groups[key] = {"first": (line, kind), "last": None, "res": [], "n": 1}
            return
        g["n"] += 1
        if g["last"] is not None:
            # the previous `last` becomes an ordinary member: reservoir sampling over the members seen so far
            if len(g["res"]) < self.RES:
                g["res"].append(g["last"])
            else:
                j = self.rng.randrange(g["n"] - 2)
                if j < self.RES:
                    g["res"][j] = g["last"]
        g["last"] = (line, kind)

    def select(self, cap):
        by_op = {}
        for (op, prio, kind), g in sorted(self.groups.items()):
            members = list(g["res"])
            self.rng.shuffle(members)
            by_op.setdefault(op, {})[(prio, kind)] = [g["first"]] + ([g["last"]] if g["last"] else []) + members
        out, budget = [], cap
        ops = sorted(by_op, key=lambda o: (sum(len(v) for v in by_op[o].values()), o))
        for i, op in enumerate(ops):                       # ops with few cases first: their unused share goes to the others
            share = max(6, budget // (len(ops) - i))
            groups = by_op[op]
            idx = {k: 0 for k in groups}
            chosen = []
            # boundary groups up to 70 % of the share, then the other groups, then boundary groups again if room is left
            for prio, quota in ((0, (share * 7) // 10), (1, share), (0, share)):
                keys = sorted(k for k in groups if k[0] == prio)
                progressed = True
                while progressed and len(chosen) < quota:
                    progressed = False
                    for k in keys:
                        if idx[k] < len(groups[k]) and len(chosen) < quota:
                            chosen.append(groups[k][idx[k]])
                            idx[k] += 1
                            progressed = True
            budget -= len(chosen)
            out += chosen
        return out


def gather(families, tier, seed):
    """one pass over the generators of all properties that feed the requested families:
    {family: (Collector, {reason: count of lines no oracle can judge})}"""
    from props import _auto
    res = {f: (Collector(seed), {}) for f in families}
    props = sorted({p for f in families for p in FAMILIES[f][0]})
    cache = {}
    for prop in props:
        for unit, gen in _auto.gens(prop):
            for line, kind in gen(tier, cxlib.Rng(seed)):
                op = line.split(" ", 1)[0]
                c = cache.get(op)
                if c is None:
                    c = cache[op] = classify(op)
                fam, ev, why = c
                if fam not in res or prop not in FAMILIES[fam][0]:
                    continue
                if ev is None:
                    res[fam][1][why] = res[fam][1].get(why, 0) + 1
                else:
                    res[fam][0].add(line, f"{prop}/{unit}:{kind}")
    return res


# =============================================================================== evaluation

def _eval_line(line):
    global NOTES
    NOTES = {}
    toks = line.split(" ")
    fam, ev, why = classify(toks[0])
    try:
        res = ev(toks[0], toks[1:])
        return ("ok", res, NOTES)
    except Skip as e:
        return ("skip", str(e), NOTES)
    except Exception as e:                                  # an oracle bug must not pass silently
        return ("error", f"{type(e).__name__}: {e}", NOTES)


def _eval_chunk(lines):
    try:
        return [_eval_line(l) for l in lines]
    finally:
        if _TMP:
            shutil.rmtree(_TMP, ignore_errors=True)


def evaluate(lines, workers=None):
    workers = workers or min(cxlib.NCPU, 16)
    if len(lines) < 8 or workers <= 1:
        return _eval_chunk(lines)
    n = max(1, min(len(lines) // 4, workers * 6))
    chunks = [lines[i::n] for i in range(n)]
    res = [None] * len(lines)
    ctx = multiprocessing.get_context("fork")
    with cf.ProcessPoolExecutor(max_workers=workers, mp_context=ctx) as ex:
        for i, part in enumerate(ex.map(_eval_chunk, chunks)):
            for j, r in enumerate(part):
                res[i + j * n] = r
    return res


_BASE = ("hashlib", "hmac", "openssl", "python-ref", "published-vector")


def _short(s, n=300):
    return s if len(s) <= n else s[:n] + f"...[{len(s)} chars]"


def run_family(family, tier="quick", seed=20260927, cap=None, gathered=None):
    t0 = time.time()
    _, qcap, tcap = FAMILIES[family]
    cap = cap or (qcap if tier == "quick" else tcap)
    collector, unjudged = gathered if gathered else gather([family], tier, seed)[family]
    chosen = collector.select(cap)
    vectors = published_vectors(tier).get(family, [])
    vec = {line: (exp, src) for line, exp, src in vectors}
    kinds = {line: kind for line, kind in chosen}
    lines = list(vec) + [l for l, _ in chosen if l not in vec]
    spec = cxlib.run_exec([cxlib.CXDRV, "spec"], lines)
    need_impl = [i for i, o in enumerate(spec) if o == "?"]
    impl = dict(zip(need_impl, cxlib.run_exec([cxlib.CXDRV, "impl"], [lines[i] for i in need_impl]))) if need_impl else {}
    t_lean = time.time() - t0
    evald = evaluate(lines)
    out = {"cases": 0, "values_compared": 0, "mismatches": [], "skipped": dict(unjudged), "oracles": {}, "notes": {},
           "published_vectors": 0, "generator_cases_available": collector.available, "ops": {}, "impl_instead_of_spec": 0}
    skipped = out["skipped"]

    def skip(reason):
        skipped[reason] = skipped.get(reason, 0) + 1
    for i, line in enumerate(lines):
        status, res, notes = evald[i]
        for k, v in notes.items():
            out["notes"][k] = out["notes"].get(k, 0) + v
        lean, executor = spec[i], "spec"
        op = line.split(" ", 1)[0]
        if lean == "?":
            lean, executor = impl.get(i, "?"), "impl"
        if status == "error":
            out["mismatches"].append({"line": _short(line), "kind": kinds.get(line, "published-vector"), "executor": executor,
                                      "lean": _short(lean), "oracle": "ORACLE-ERROR", "expected": res})
            continue
        if lean in ("bad-args", "bad-op", "bad-prog") and line not in vec:
            skip("request rejected at the type level (bad-args / bad-op / bad-prog)")
            continue
        if status == "skip":
            skip(res)
            continue
        if lean == "CRASH":
            out["mismatches"].append({"line": _short(line), "kind": kinds.get(line, ""), "executor": executor, "lean": "CRASH",
                                      "oracle": res[0][0] if res else "", "expected": _short(res[0][1]) if res else ""})
            continue
        if line in vec:
            res = list(res) + [("published-vector: " + vec[line][1], vec[line][0])]
            out["published_vectors"] += 1
        if not res:
            skip("no oracle value")
            continue
        out["cases"] += 1
        out["ops"][op] = out["ops"].get(op, 0) + 1
        if executor == "impl":
            out["impl_instead_of_spec"] += 1
        for label, expected in res:
            out["values_compared"] += 1
            out["oracles"][label] = out["oracles"].get(label, 0) + 1
            if expected != lean:
                out["mismatches"].append({"line": _short(line), "kind": kinds.get(line, "published-vector"), "executor": executor,
                                          "lean": _short(lean), "oracle": label, "expected": _short(expected)})
    base = [b for b in _BASE if any(l.startswith(b) or ("+" + b) in l for l in out["oracles"])]
    out["oracle"] = "|".join(base)
    out["seconds"] = round(time.time() - t0, 1)
    out["seconds_lean"] = round(t_lean, 1)
    return out


def run(families=None, tier="quick", seed=None, selftest_first=True):
    """compare `cxdrv spec` with the independent oracles.  Returns
    {"families": {name: {"cases", "mismatches", "skipped", "oracle", ...}}, "ok": bool, "selftest": [...], ...}"""
    t0 = time.time()
    seed = int(os.environ.get("VERIF_SEED", "20260927")) if seed is None else seed
    fams = list(FAMILIES) if not families else list(dict.fromkeys(families))
    unknown = [f for f in fams if f not in FAMILIES]
    if unknown:
        raise ValueError(f"unknown families {unknown}; known: {sorted(FAMILIES)}")
    result = {"tool": "tools/spec_oracles.py", "tier": tier, "seed": seed, "families": {}, "ok": True,
              "openssl": None, "selftest": []}
    if not os.path.exists(cxlib.CXDRV):
        raise RuntimeError(f"{cxlib.CXDRV} missing: build it first (lake build cxdrv)")
    if OPENSSL:
        result["openssl"] = ossl(["version"])[1].decode().strip()
    try:
        if selftest_first:
            result["selftest"] = selftest()
            if result["selftest"]:
                result["ok"] = False
                result["error"] = "oracle self-test failed: " + ", ".join(result["selftest"])
                return result
        tg = time.time()
        gathered = gather(fams, tier, seed)
        result["seconds_generators"] = round(time.time() - tg, 1)
        cxlib.log(f"spec_oracles: generators done in {result['seconds_generators']}s")
        for f in fams:
            r = run_family(f, tier, seed, gathered=gathered[f])
            cxlib.log(f"spec_oracles: [{f}] cases={r['cases']} mismatches={len(r['mismatches'])} {r['seconds']}s")
            result["families"][f] = r
            if r["mismatches"]:
                result["ok"] = False
    finally:
        _cleanup_tmp()
    result["cases"] = sum(r["cases"] for r in result["families"].values())
    result["values_compared"] = sum(r["values_compared"] for r in result["families"].values())
    result["skipped_lines"] = sum(sum(r["skipped"].values()) for r in result["families"].values())
    result["seconds"] = round(time.time() - t0, 1)
    return result


def run_for_property(prop, tier="quick", seed=None):
    """the families relevant to the Spec of property `prop` (C01..C15); properties without a Spec of their own -> None"""
    fams = FAMILIES_BY_PROPERTY.get(prop)
    return run(fams, tier, seed) if fams else None


def summary_line(result):
    fams = result["families"]
    if result.get("error"):
        return "SPEC-ORACLES ERROR " + result["error"]
    skipped_ops = sorted({k.split(": ")[0] for r in fams.values() for k in r["skipped"] if re.match(r"[a-z0-9]+\.\S+: ", k)})
    if result["ok"]:
        return (f"SPEC-ORACLES ok families={','.join(fams)} cases={result['cases']} values={result['values_compared']} "
                f"skipped_lines={result['skipped_lines']} skipped_ops={','.join(skipped_ops) or '-'} seconds={result['seconds']}")
    bad = {f: len(r["mismatches"]) for f, r in fams.items() if r["mismatches"]}
    return (f"SPEC-ORACLES MISMATCH families={','.join(f'{f}:{n}' for f, n in bad.items())} cases={result['cases']} "
            f"seconds={result['seconds']}")


def main(argv=None):
    ap = argparse.ArgumentParser(description=__doc__.split("\n\n")[0])
    ap.add_argument("families", nargs="*", help="families (default: all): " + " ".join(FAMILIES) + "; or a property id C01..C15")
    ap.add_argument("--tier", choices=["quick", "thorough"], default="quick")
    ap.add_argument("--json", dest="json_out")
    ap.add_argument("--seed", type=int)
    ap.add_argument("--show", type=int, default=5, help="mismatches printed per family")
    a = ap.parse_args(argv)
    fams = []
    for f in a.families:
        fams += FAMILIES_BY_PROPERTY.get(f, [f])
    try:
        result = run(fams or None, a.tier, a.seed)
    except (ValueError, RuntimeError) as e:
        print("SPEC-ORACLES ERROR", e)
        return 2
    for f, r in result["families"].items():
        print(f"[{f}] cases={r['cases']} values_compared={r['values_compared']} published_vectors={r['published_vectors']} "
              f"mismatches={len(r['mismatches'])} oracle={r['oracle']} ({r['seconds']}s, of which cxdrv {r['seconds_lean']}s; "
              f"{r['generator_cases_available']} generator cases available)")
        print("    ops: " + " ".join(f"{k}={v}" for k, v in sorted(r["ops"].items())))
        print("    oracles: " + "; ".join(f"{k}={v}" for k, v in sorted(r["oracles"].items())))
        for k, v in sorted(r["skipped"].items()):
            print(f"    skipped {v}: {k}")
        for k, v in sorted(r["notes"].items()):
            print(f"    note {v}: {k}")
        if r["impl_instead_of_spec"]:
            print(f"    {r['impl_instead_of_spec']} cases judged on `cxdrv impl` because the Spec answers `?`")
        for m in r["mismatches"][:a.show]:
            print(f"    MISMATCH [{m['oracle']}] ({m['executor']}, {m['kind']})\n      line:   {m['line']}\n      lean:   {m['lean']}\n      oracle: {m['expected']}")
        if len(r["mismatches"]) > a.show:
            print(f"    ... {len(r['mismatches']) - a.show} more")
    if a.json_out:
        with open(a.json_out, "w") as f:
            json.dump(result, f, indent=1, sort_keys=True)
    print(summary_line(result))
    if result.get("error"):
        return 2
    return 0 if result["ok"] else 1


if __name__ == "__main__":
    sys.exit(main())
