#!/usr/bin/env python3
"""setup: build the Lean project (all theorems + driver) and every harness variant, offline."""
import os
import sys
sys.path.insert(0, os.path.dirname(os.path.abspath(__file__)))
import cxlib as cx
import extract_tables

ext = extract_tables.regenerate()
print("extracted", ext["tables"], "tables; errors:", ext["errors"])
rc, out, dt = cx.lake_build([])
print(f"lake build rc={rc} {dt:.0f}s")
if rc != 0:
    print(out[-4000:])
ok = rc == 0
for v in cx.VARIANTS:
    rc, out, dt = cx.cargo_build(v)
    print(f"cargo build {v} rc={rc} {dt:.0f}s")
    if rc != 0 and v != "force32":
        print(out[-3000:])
        ok = False
sys.exit(0 if ok else 1)
