#!/usr/bin/env python3
"""seed_regress.py [--workers N] [--only C05,C12-5,…] [--tier quick]

Regression of the whole seeded-change corpus: every /verif/seeded/<id>/patch.diff is applied to a scratch worktree of
/repo HEAD (never /repo itself; tools/seed_test.py) and the registered quick check of its property must exit 1 with a
VIOLATION line.  Runs N workers in parallel, each with its own scratch directory ($SEEDRUN_BASE/w<i>).  Writes
/verif/seeded/REGRESSION.json: per seed the exit status, whether a concrete failing input was reported
(or `no-failing-input-found`), and the wall time."""
import concurrent.futures as cf
import glob
import json
import os
import re
import subprocess
import sys
import time

V = os.path.dirname(os.path.dirname(os.path.abspath(__file__)))
BASE = os.environ.get("SEEDRUN_BASE", "/tmp/seedregress")


def run_one(args):
    sid, prop, w = args
    env = dict(os.environ, SEEDRUN=os.path.join(BASE, f"w{w}"))
    t0 = time.time()
    r = subprocess.run(["python3", "tools/seed_test.py", os.path.join(V, "seeded", sid, "patch.diff"), prop],
                       cwd=V, env=env, text=True, capture_output=True, timeout=7200)
    m = re.search(rf"{prop}: exit=(\d+) (.*)", r.stdout)
    ex = int(m.group(1)) if m else -1
    line = m.group(2) if m else r.stdout[-300:] + r.stderr[-300:]
    return {"id": sid, "property": prop, "exit": ex, "detected": ex == 1,
            "with_failing_input": ex == 1 and "no-failing-input-found" not in line,
            "seconds": round(time.time() - t0, 1), "line": line[:200]}


def main():
    a = sys.argv[1:]
    workers = int(a[a.index("--workers") + 1]) if "--workers" in a else 6
    only = a[a.index("--only") + 1].split(",") if "--only" in a else None
    jobs = []
    for d in sorted(glob.glob(os.path.join(V, "seeded", "C*-*"))):
        sid = os.path.basename(d)
        if only and not any(sid == o or sid.startswith(o + "-") for o in only):
            continue
        try:
            prop = json.load(open(os.path.join(d, "meta.json"))).get("property", sid[:3])
        except Exception:
            prop = sid[:3]
        jobs.append((sid, prop))
    os.makedirs(BASE, exist_ok=True)
    results = []
    # a worker's scratch directory is used by one job at a time: static partition of the jobs
    parts = [[(s, p, w) for i, (s, p) in enumerate(jobs) if i % workers == w] for w in range(workers)]

    def run_part(part):
        out = []
        for j in part:
            try:
                out.append(run_one(j))
            except Exception as e:  # noqa
                out.append({"id": j[0], "property": j[1], "exit": -1, "detected": False, "with_failing_input": False,
                            "seconds": 0, "line": f"runner error: {e}"[:200]})
            print(json.dumps(out[-1]), flush=True)
        return out
    with cf.ThreadPoolExecutor(max_workers=workers) as ex:
        for part in ex.map(run_part, parts):
            results += part
    results.sort(key=lambda r: r["id"])
    summary = {"seeds": len(results), "detected": sum(r["detected"] for r in results),
               "with_failing_input": sum(r["with_failing_input"] for r in results),
               "not_detected": [r["id"] for r in results if not r["detected"]],
               "repo_head": subprocess.run(["git", "-C", "/repo", "rev-parse", "--short", "HEAD"], capture_output=True, text=True).stdout.strip(),
               "verif_head": subprocess.run(["git", "-C", V, "rev-parse", "--short", "HEAD"], capture_output=True, text=True).stdout.strip(),
               "results": results}
    if not only:
        json.dump(summary, open(os.path.join(V, "seeded", "REGRESSION.json"), "w"), indent=1)
    print(f"SEED-REGRESSION seeds={summary['seeds']} detected={summary['detected']} with_failing_input={summary['with_failing_input']} "
          f"not_detected={summary['not_detected']}")
    # scratch worktrees are removed
    for w in range(workers):
        subprocess.run(f"git -C /repo worktree remove --force {os.path.join(BASE, f'w{w}', 'repo')}", shell=True, capture_output=True)
    subprocess.run(["rm", "-rf", BASE])


if __name__ == "__main__":
    main()
