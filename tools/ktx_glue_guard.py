#!/usr/bin/env python3
r"""ktx_glue_guard — what the glue translators (tools/ktx_glue*.py) share to REFUSE what they do not translate faithfully
(audit 3, findings F4, F5, F6, F7).  Everything here raises `TranslateError` (-> broken extraction -> VIOLATION); nothing is
skipped silently.

  cfg table      `eval_cfg(text)`: value of a `cfg(…)` predicate for the ONE configuration the verification speaks about:
                 x86_64, little endian, 64-bit pointers, target features sse/sse2/fxsr (the x86_64 baseline), `--cfg cryptoxide_verif`,
                 the DEFAULT cargo features of <repo>/Cargo.toml switched on (transitively), `test` off.  Any other key
                 (`debug_assertions`, `target_os`, …) is refused: a definition that depends on it has no single translation.
  item lookup    `find_fn(text, fn, scope)`: the function `fn` as a DIRECT item of the live `impl` blocks whose header matches the
                 regex `scope` (without scope: the one live definition that is not nested inside another function body).  The region is
                 the brace-matched block (string/char literals masked), item-level `#[cfg]` of the fn, of the impl and of every
                 enclosing item are evaluated with the table, the live match must be UNIQUE.  Same return value as
                 kernel_translate.find_fn: (header text up to and including `{`, body text).
  body lint      `lint_body(body_text, …)`: token-level scan of a function body before it is parsed —
                   * attributes: `#[cfg…]`/`#[cfg_attr…]`/any unknown attribute on a statement -> refused (`#[inline]`, `#[allow]`,
                     `#[rustfmt::skip]`, `#[doc]` are neutral), unless the translator evaluates statement cfgs itself (`cfg_ok`);
                   * nested items: `fn`, `use`, `struct`, `impl`, `mod`, `macro_rules!`, `extern`, `trait`, `enum`, `type`,
                     `static` inside a body -> refused, except nested `fn` names the translator declares it resolves (`nested_ok`);
                   * scoping: a binding (`let`, `for` pattern, `if let`/`while let`, match arm, closure parameter) inside a nested
                     block that SHADOWS a binding of an enclosing scope of the same function -> refused unless the translator
                     declares that it scopes bindings properly (`shadow_ok`);
                   * `let x = &mut …` / `let x: &mut T = …` / `ref mut` aliases -> refused unless `alias_ok`.
  use check      `check_uses(file_text, called_names)`: a file-level `use … as NAME` / `use … ::{…, X as NAME, …}` that renames
                 something to (or away from) a name in `called_names`, or a glob-free import of a called name under a changed last
                 path segment, is refused; `use_lines(file_text)` returns the normalised `use` items for spec-side token checks.
"""
import os
import re

import kernel_translate as KT
from kernel_translate import TranslateError, strip_comments


def REPO():
    return os.environ.get("CX_REPO", KT.REPO)


# ------------------------------------------------------------------------------------------------------ cfg table

CFG_TARGET = {"target_arch": {"x86_64"}, "target_feature": {"sse", "sse2", "fxsr"}, "target_pointer_width": {"64"},
              "target_endian": {"little"}}
CFG_FLAGS_ON = {"cryptoxide_verif"}
CFG_FLAGS_OFF = {"test"}
_FEATURES = {}


def cargo_default_features(repo=None):
    """the transitive closure of `default` in [features] of <repo>/Cargo.toml, and the set of all declared features"""
    repo = repo or REPO()
    path = os.path.join(repo, "Cargo.toml")
    try:
        st = os.stat(path)
        text = open(path).read()
    except OSError as e:
        raise TranslateError(f"cfg(feature = …): cannot read {path}: {e}")
    key = (path, st.st_mtime_ns, st.st_size)
    if key in _FEATURES:
        return _FEATURES[key]
    m = re.search(r"^\[features\]\s*$(.*?)(?=^\[|\Z)", text, flags=re.S | re.M)
    if not m:
        raise TranslateError("Cargo.toml has no [features] section")
    table = {}
    for fm in re.finditer(r"^\s*([A-Za-z0-9_-]+)\s*=\s*\[(.*?)\]", re.sub(r"#[^\n]*", "", m.group(1)), flags=re.S | re.M):
        table[fm.group(1)] = re.findall(r'"([^"]*)"', fm.group(2))
    on, todo = set(), list(table.get("default", []))
    while todo:
        f = todo.pop()
        if f in on:
            continue
        if f not in table:
            raise TranslateError(f"Cargo.toml: default feature `{f}` is not declared")
        on.add(f)
        todo += table[f]
    _FEATURES[key] = (on, set(table))
    return _FEATURES[key]


def eval_cfg(text):
    """value of the predicate inside `cfg(…)` (text without the outer `cfg( )`) for the configuration of the module docstring"""
    toks = re.findall(r'"[^"]*"|[A-Za-z_][A-Za-z0-9_]*|[(),=]|\S', text)
    pos = 0

    def peek():
        return toks[pos] if pos < len(toks) else None

    def pred():
        nonlocal pos
        if pos >= len(toks):
            raise TranslateError("cfg predicate: unexpected end")
        name = toks[pos]; pos += 1
        if not re.match(r"[A-Za-z_]", name):
            raise TranslateError(f"cfg predicate: unexpected `{name}`")
        if name in ("all", "any", "not"):
            if peek() != "(":
                raise TranslateError(f"cfg {name}: `(` expected")
            pos += 1
            vals = []
            while peek() != ")":
                if peek() is None:
                    raise TranslateError("cfg predicate: unbalanced")
                vals.append(pred())
                if peek() == ",":
                    pos += 1
            pos += 1
            if name == "not":
                if len(vals) != 1:
                    raise TranslateError("cfg not(..) arity")
                return not vals[0]
            return all(vals) if name == "all" else any(vals)
        if peek() == "=":
            if pos + 1 >= len(toks) or not toks[pos + 1].startswith('"'):
                raise TranslateError(f"cfg key `{name}`: string expected")
            val = toks[pos + 1].strip('"'); pos += 2
            if name == "feature":
                on, declared = cargo_default_features()
                if val not in declared:
                    raise TranslateError(f"cfg(feature = \"{val}\"): not a feature of Cargo.toml")
                return val in on
            if name not in CFG_TARGET:
                raise TranslateError(f"cfg key `{name}` is not in the translators' configuration table")
            return val in CFG_TARGET[name]
        if name in CFG_FLAGS_ON:
            return True
        if name in CFG_FLAGS_OFF:
            return False
        raise TranslateError(f"cfg flag `{name}` is not in the translators' configuration table")
    v = pred()
    if pos != len(toks):
        raise TranslateError("cfg predicate: trailing tokens")
    return v


NEUTRAL_ATTRS = ("inline", "allow", "rustfmt", "doc", "must_use", "deprecated", "cold", "track_caller", "derive", "repr", "target_feature")


def attrs_before(text, pos):
    """the attribute texts (inside `#[ ]`) that stand directly in front of position pos (visibility `pub`/`pub(..)`, `unsafe`,
    `const`, `default`, `extern "C"` keywords may stand in between)"""
    s = text[:pos].rstrip() + " "
    s = re.sub(r"(?:\b(?:pub(?:\s*\([^)]*\))?|unsafe|const|default|async|extern(?:\s*\"[^\"]*\")?)\s*)+$", "", s).rstrip()
    out = []
    while s.endswith("]"):
        d, j = 0, len(s) - 1
        while j >= 0:
            if s[j] == "]":
                d += 1
            elif s[j] == "[":
                d -= 1
                if d == 0:
                    break
            j -= 1
        if j < 0:
            break
        pre = s[:j].rstrip()
        if pre.endswith("!"):
            pre = pre[:-1].rstrip()
        if not pre.endswith("#"):
            break
        out.insert(0, s[j + 1:-1].strip())
        s = pre[:-1].rstrip()
    return out


def attrs_live(attrs, what):
    """conjunction of the `cfg(…)` attributes; `cfg_attr` is refused (it can attach anything)"""
    live = True
    for a in attrs:
        head = re.match(r"[A-Za-z_:]+", a)
        head = head.group(0) if head else ""
        if head == "cfg":
            inner = a[a.index("(") + 1:a.rindex(")")] if "(" in a else ""
            live = eval_cfg(inner) and live
        elif head == "cfg_attr":
            raise TranslateError(f"{what}: #[cfg_attr(…)] is not supported")
    return live


# ------------------------------------------------------------------------------------------------------ item lookup

def mask_literals(text):
    """same length as text, with the CONTENTS of string literals and char literals replaced by spaces (so that braces,
    `fn`, `#` inside them do not count); lifetimes (`'a`) are left alone"""
    out = list(text)
    i, n = 0, len(text)
    while i < n:
        c = text[i]
        if c == '"':
            j = i + 1
            while j < n and text[j] != '"':
                j += 2 if text[j] == "\\" else 1
            for k in range(i + 1, min(j, n)):
                if out[k] != "\n":
                    out[k] = " "
            i = j + 1
            continue
        if c == "r" and i + 1 < n and text[i + 1] in '#"' and (i == 0 or not (text[i - 1].isalnum() or text[i - 1] == "_")):
            m = re.match(r'r(#*)"', text[i:])
            if m:
                close = '"' + m.group(1)
                j = text.find(close, i + len(m.group(0)))
                j = n if j < 0 else j
                for k in range(i + len(m.group(0)), j):
                    if out[k] != "\n":
                        out[k] = " "
                i = j + len(close)
                continue
        if c == "'":
            m = re.match(r"'(\\.[^']*|[^'\\])'", text[i:])
            if m:
                for k in range(i + 1, i + len(m.group(0)) - 1):
                    out[k] = " "
                i += len(m.group(0))
                continue
        i += 1
    return "".join(out)


def close_of(masked, i):
    """index just after the brace/bracket/paren group opening at masked[i]"""
    pairs = {"{": "}", "(": ")", "[": "]"}
    op, cl = masked[i], pairs[masked[i]]
    d = 0
    for j in range(i, len(masked)):
        ch = masked[j]
        if ch == op:
            d += 1
        elif ch == cl:
            d -= 1
            if d == 0:
                return j + 1
    raise TranslateError("unbalanced brackets")


class Block:
    """one brace block of a file: kind "fn" | "impl" | "mod" | "trait" | "macro" | "other"; [hstart, open) is the item header,
    [open, end) the braces; parent = enclosing Block | None"""

    def __init__(self, kind, name, hstart, open_, end, parent, live):
        self.kind, self.name, self.hstart, self.open, self.end, self.parent, self.live = kind, name, hstart, open_, end, parent, live
        self.header = ""

    def nested_in_fn(self):
        p = self.parent
        while p is not None:
            if p.kind in ("fn", "other"):
                return True
            p = p.parent
        return False

    def all_live(self):
        b = self
        while b is not None:
            if not b.live:
                return False
            b = b.parent
        return True


_SCAN = {}
ITEM_HEAD = re.compile(r"\b(fn|impl|mod|trait|macro_rules|struct|enum|union)\b")


def scan_blocks(text):
    """all brace blocks of `text` (comments already stripped) that are opened by an item header (`fn NAME … {`, `impl … {`, `mod NAME {`,
    `trait … {`, `macro_rules! NAME {`), with nesting and `#[cfg]` liveness.  Other braces (expression blocks, struct literals, struct
    bodies) are recorded with kind "other" so that nesting stays exact."""
    if text in _SCAN:
        return _SCAN[text]
    masked = mask_literals(text)
    blocks = []
    stack = []          # open Blocks
    n = len(masked)
    i = 0
    stmt_start = 0      # start of the current item/statement at the current level (after the last `;`, `{` or `}`)
    pd, pstack = 0, []  # parenthesis/bracket depth inside the current brace level (`[u8; N]`, `f(a, |x| { … })`)
    while i < n:
        c = masked[i]
        if c in "([":
            pd += 1
        elif c in ")]":
            pd -= 1
        elif c == ";" and pd == 0:
            stmt_start = i + 1
        elif c == "}":
            if not stack:
                raise TranslateError("unbalanced `}`")
            stack.pop()
            pd = pstack.pop()
            if pd == 0:
                stmt_start = i + 1
        elif c == "{":
            seg = masked[stmt_start:i]
            kind, name, hstart = "other", None, i
            # the FIRST keyword of the segment outside parentheses/brackets decides (`unsafe` is skipped: `unsafe fn`, `unsafe impl`)
            depth, best = 0, None
            for m in re.finditer(r"[(\[]|[)\]]|\b(?:fn|impl|mod|trait|macro_rules|struct|enum|union|match|if|else|while|for|loop|move|let|return|in)\b|=>|=|\|", seg):
                t = m.group(0)
                if t in "([":
                    depth += 1
                elif t in ")]":
                    depth -= 1
                elif depth == 0:
                    best = (t if t in ("fn", "impl", "mod", "trait", "macro_rules", "struct", "enum", "union") else "expr", m.start())
                    break
            if best is not None and best[0] != "expr":
                kw, off = best
                rest = seg[off + len(kw):]
                nm = re.match(r"\s*!?\s*([A-Za-z_][A-Za-z0-9_]*)", rest)
                hstart = stmt_start + off
                if kw == "fn":
                    if nm:
                        kind, name = "fn", nm.group(1)
                elif kw == "macro_rules":
                    kind, name = "macro", nm.group(1) if nm else None
                elif kw in ("impl", "trait", "mod"):
                    kind, name = kw, nm.group(1) if nm else None
                else:
                    kind = "decl"
            parent = stack[-1] if stack else None
            live = True
            if kind in ("fn", "impl", "mod", "trait"):
                live = attrs_live(attrs_before(text, hstart), f"{kind} {name}")
            b = Block(kind, name, hstart, i, None, parent, live)
            blocks.append(b)
            stack.append(b)
            pstack.append(pd)
            pd = 0
            stmt_start = i + 1
        i += 1
    if stack:
        raise TranslateError("unbalanced `{`")
    # ends
    for b in blocks:
        b.end = close_of(masked, b.open)
        b.header = text[b.hstart:b.open + 1]
    _SCAN[text] = blocks
    if len(_SCAN) > 400:
        _SCAN.pop(next(iter(_SCAN)))
    return blocks


def impl_blocks(text, scope):
    """the live `impl`/`trait`/`mod` blocks whose header contains a match of the regex `scope` (Rust merges the `impl` blocks of a type:
    together they are the bounded region in which a method name is unique); at least one is required"""
    blocks = scan_blocks(text)
    ms = list(re.finditer(scope, text))
    if not ms:
        raise TranslateError(f"scope {scope!r} not found")
    hit = []
    for m in ms:
        own = [b for b in blocks if b.kind in ("impl", "trait", "mod", "fn") and b.hstart <= m.start() <= b.open
               and not any(p.kind == "macro" for p in ancestors(b))]
        if not own:
            # a match outside every item header (inside a body, a macro definition, a string …): it does not name a region
            continue
        b = max(own, key=lambda x: x.hstart)
        if b not in hit:
            hit.append(b)
    live = [b for b in hit if b.all_live()]
    if not live:
        raise TranslateError(f"scope {scope!r}: no live `impl` block matches ({len(hit)} cfg-disabled / none)")
    if any(b.kind == "fn" for b in live) and len(live) != 1:
        raise TranslateError(f"scope {scope!r}: {len(live)} live functions match; exactly one is required")
    return live


def find_fn(text, fn, scope=None, strip=True):
    """(header, body) of the function; see the module docstring.  `text` must be comment-free unless strip=True (idempotent)"""
    if strip:
        text = strip_comments(text)
    blocks = scan_blocks(text)
    if scope:
        regions = impl_blocks(text, scope)
        cands = [b for b in blocks if b.kind == "fn" and b.name == fn and any(b.parent is r for r in regions)]
    else:
        cands = [b for b in blocks if b.kind == "fn" and b.name == fn and not b.nested_in_fn()
                 and not any(p.kind == "macro" for p in ancestors(b))]
    live = [b for b in cands if b.all_live()]
    if len(live) != 1:
        where = f" in the block {scope!r}" if scope else ""
        raise TranslateError(f"fn {fn}{where}: {len(live)} live definitions ({len(cands)} in all); exactly one is required")
    b = live[0]
    return text[b.hstart:b.open + 1], text[b.open + 1:b.end - 1]


def ancestors(b):
    p = b.parent
    while p is not None:
        yield p
        p = p.parent


# ------------------------------------------------------------------------------------------------------ body lint

KEYWORDS = {"as", "break", "const", "continue", "crate", "else", "enum", "extern", "false", "fn", "for", "if", "impl", "in", "let",
            "loop", "match", "mod", "move", "mut", "pub", "ref", "return", "self", "Self", "static", "struct", "super", "trait", "true",
            "type", "unsafe", "use", "where", "while", "dyn", "_"}
ITEM_WORDS = ("use", "struct", "impl", "mod", "extern", "trait", "enum", "type", "static", "union")
TOK = re.compile(r"\s*(?:([A-Za-z_][A-Za-z0-9_]*)|([0-9][A-Za-z0-9_.]*)|(=>|->|::|\.\.=|\.\.|&&|\|\||[-+*/%&|^!=<>]=|<<=|>>=|<<|>>|[-+*/%&|^!=<>(){}\[\];:,.#?@$'\"~]))")


def body_tokens(body):
    """light tokens of a (comment-free) body: list of (kind, text) with kind "id" | "num" | "op"; literals are masked first"""
    masked = mask_literals(body)
    out, i = [], 0
    while i < len(masked):
        if masked[i:].strip() == "":
            break
        m = TOK.match(masked, i)
        if not m:
            raise TranslateError(f"guard: cannot lex near {masked[i:i+30]!r}")
        if m.group(1) is not None:
            out.append(("id", m.group(1)))
        elif m.group(2) is not None:
            out.append(("num", m.group(2)))
        else:
            out.append(("op", m.group(3)))
        i = m.end()
    return out


def pattern_names(toks):
    """names bound by a pattern given as light tokens (identifiers that are not paths, constructors, field names of a struct
    pattern, keywords or constants in UPPER CASE)"""
    names = []
    for i, (k, t) in enumerate(toks):
        if k != "id" or t in KEYWORDS:
            continue
        nxt = toks[i + 1][1] if i + 1 < len(toks) else None
        prv = toks[i - 1][1] if i > 0 else None
        if nxt in ("::", "(", "{", "!") or prv == "::":
            continue
        if nxt == ":" and not (i + 2 < len(toks) and toks[i + 2][1] == ":"):     # `Struct { field: pat }`
            continue
        if t[0].isupper():
            continue
        names.append(t)
    return names


def sig_params(hdr):
    """(names bound by the parameter list of a `fn` header incl. "self", the subset passed as `&mut` / `mut self` / `&mut self`)"""
    masked = mask_literals(hdr)
    m = re.search(r"\bfn\s+[A-Za-z_][A-Za-z0-9_]*", masked)
    if not m:
        raise TranslateError("guard: not a fn header")
    i = m.end()
    if i < len(masked) and masked[i:].lstrip().startswith("<"):
        i = masked.index("<", i)
        d = 0
        while i < len(masked):
            if masked[i] == "<":
                d += 1
            elif masked[i] == ">" and masked[i - 1] != "-":
                d -= 1
                if d == 0:
                    i += 1
                    break
            i += 1
    j = masked.index("(", i)
    end = close_of(masked, j)
    inner = masked[j + 1:end - 1]
    parts, d, cur = [], 0, ""
    for ch in inner:
        if ch in "([{<":
            d += 1
        elif ch in ")]}>":
            d -= 1
        if ch == "," and d == 0:
            parts.append(cur); cur = ""
        else:
            cur += ch
    if cur.strip():
        parts.append(cur)
    names, muts = [], []
    for part in parts:
        part = part.strip()
        if re.fullmatch(r"(&\s*('\w+\s+)?)?(mut\s+)?self(\s*:.*)?", part, flags=re.S):
            names.append("self")
            if re.match(r"&\s*('\w+\s+)?mut\b", part):
                muts.append("self")
            continue
        if ":" not in part:
            raise TranslateError(f"guard: parameter `{part}` not understood")
        pat, ty = part.split(":", 1)
        pn = pattern_names(body_tokens(pat))
        names += pn
        if re.match(r"\s*&\s*('\w+\s+)?mut\b", ty):
            muts += pn
    return names, muts


def lint_body(body, params=(), what="fn", shadow_ok=False, alias_ok=False, cfg_ok=False, nested_ok=(), attr_ok=(), mut_params=(),
              macro_rules_ok=False, weak_lit_ok=False):
    """see the module docstring; `params` = names bound by the signature (incl. "self"), `mut_params` = those whose final value is an
    output of the translation (`&mut` parameters): a `let` that re-binds one of them anywhere in the body is refused (the translators read
    the output under that name at the end).  Returns the list of nested fn names seen"""
    toks = body_tokens(body)
    n = len(toks)
    nested = []
    # --- attributes and nested items
    i = 0
    while i < n:
        k, t = toks[i]
        if k == "op" and t == "#":
            j = i + 1
            if j < n and toks[j][1] == "!":
                j += 1
            if j < n and toks[j][1] == "[":
                head = toks[j + 1][1] if j + 1 < n else ""
                if head in ("cfg", "cfg_attr"):
                    if not cfg_ok:
                        raise TranslateError(f"{what}: #[{head}(…)] on a statement / expression inside the body is not supported")
                elif head not in NEUTRAL_ATTRS and head not in attr_ok:
                    raise TranslateError(f"{what}: attribute #[{head}…] inside the body is not supported")
        if k == "id":
            prv = toks[i - 1][1] if i > 0 else None
            nxt = toks[i + 1] if i + 1 < n else ("eof", None)
            if t == "fn" and nxt[0] == "id":
                nested.append(nxt[1])
                if nxt[1] not in nested_ok:
                    raise TranslateError(f"{what}: nested `fn {nxt[1]}` inside the body is not translated (a call would resolve to the wrong item)")
            elif t in ITEM_WORDS and prv in (None, ";", "{", "}", "]", "pub") and nxt[0] == "id" and not (t == "type" and prv not in (None, ";", "{", "}")):
                raise TranslateError(f"{what}: nested `{t}` item inside the body is not supported")
            elif t == "macro_rules" and not macro_rules_ok:
                raise TranslateError(f"{what}: nested macro_rules! inside the body is not supported")
        i += 1
    # --- aliases
    if not alias_ok:
        for i, (k, t) in enumerate(toks):
            if k == "id" and t == "let":
                j = i + 1
                while j < n and toks[j][1] not in ("=", ";"):
                    if toks[j][1] == "&" and j + 1 < n and toks[j + 1][1] == "mut":
                        raise TranslateError(f"{what}: `let … : &mut T` binding (a mutable alias) is not supported")
                    if toks[j][1] == "ref" and j + 1 < n and toks[j + 1][1] == "mut":
                        raise TranslateError(f"{what}: `ref mut` binding (a mutable alias) is not supported")
                    j += 1
                if j < n and toks[j][1] == "=":
                    k2 = j + 1
                    while k2 < n and toks[k2][1] == "(":
                        k2 += 1
                    if k2 + 1 < n and toks[k2][1] == "&" and toks[k2 + 1][1] == "mut":
                        raise TranslateError(f"{what}: `let {toks[i + 1][1] if toks[i + 1][1] != 'mut' else toks[i + 2][1]} = &mut …` (a mutable alias) is not supported")
    # --- a `&mut` parameter moved into another name: `let y = out;` makes y the same place
    if mut_params and not alias_ok:
        for i, (k, t) in enumerate(toks):
            if k == "id" and t == "let":
                j = i + 1
                while j < n and toks[j][1] not in ("=", ";"):
                    j += 1
                if j < n and toks[j][1] == "=":
                    k2 = j + 1
                    while k2 < n and toks[k2][1] in ("(", "*", "&"):
                        k2 += 1
                    k3 = k2 + 1
                    while k3 < n and toks[k3][1] == ")":
                        k3 += 1
                    if k2 < n and toks[k2][0] == "id" and toks[k2][1] in mut_params and toks[k2][1] != "self" and k3 < n and toks[k3][1] == ";" \
                            and not (k2 > j + 1 and toks[k2 - 1][1] == "*"):
                        raise TranslateError(f"{what}: `let … = {toks[k2][1]};` moves the `&mut` parameter `{toks[k2][1]}` into another name (a mutable alias)")
    # --- `&mut` parameters re-bound
    if mut_params:
        for i, (k, t) in enumerate(toks):
            if k == "id" and t == "let":
                j, depth = i + 1, 0
                while j < n:
                    tt = toks[j][1]
                    if tt in ("(", "[", "{"):
                        depth += 1
                    elif tt in (")", "]", "}"):
                        depth -= 1
                    elif depth == 0 and tt in ("=", ";", ":"):
                        break
                    j += 1
                for nm in pattern_names(toks[i + 1:j]):
                    if nm in mut_params:
                        raise TranslateError(f"{what}: `let {nm}` re-binds the `&mut` parameter `{nm}` (its final value is an output)")
    # --- `let x = <unsuffixed integer literal>;` whose type nothing but a cast / a width-dependent method sees: rustc infers i32, the
    #     translators assume usize (ktx_glue.py and ktx_glue_kdf.py track this precisely: weak_lit_ok)
    if not weak_lit_ok:
        weak = set()
        for i, (k, t) in enumerate(toks):
            if k == "id" and t == "let":
                j = i + 1
                if j < n and toks[j][1] == "mut":
                    j += 1
                if j + 3 < n and toks[j][0] == "id" and toks[j + 1][1] == "=" and toks[j + 2][0] == "num" \
                        and re.fullmatch(r"[0-9][0-9_]*|0x[0-9a-fA-F_]+|0b[01_]+|0o[0-7_]+", toks[j + 2][1]) and toks[j + 3][1] == ";":
                    weak.add(toks[j][1])
        for i, (k, t) in enumerate(toks):
            if k == "id" and t in weak and i + 1 < n:
                nx = toks[i + 1][1]
                if nx == "as" or (nx == "." and i + 2 < n and toks[i + 2][1] in ("to_le_bytes", "to_be_bytes", "to_ne_bytes", "count_ones", "leading_zeros",
                                                                           "trailing_zeros", "rotate_left", "rotate_right", "swap_bytes", "pow",
                                                                           "checked_add", "checked_sub", "checked_mul", "wrapping_add", "wrapping_sub",
                                                                           "wrapping_mul", "overflowing_add", "overflowing_sub")) or nx in ("<<", "<<="):
                    raise TranslateError(f"{what}: `{t}` is bound to an unsuffixed integer literal and used where only its (inferred) type matters "
                                         f"(`{t} {nx} …`): rustc may infer i32, the translation assumes usize — write the type")
    # --- scoping
    if not shadow_ok:
        check_shadowing(strip_macro_defs(toks) if macro_rules_ok else toks, params, what)
    return nested


def strip_macro_defs(toks):
    """light tokens without the `macro_rules! name ( … );` definitions (their `=>` are not match arms, their `$x` are not bindings)"""
    out, i, n = [], 0, len(toks)
    while i < n:
        if toks[i] == ("id", "macro_rules") and i + 3 < n and toks[i + 1][1] == "!" and toks[i + 3][1] in ("(", "{", "["):
            op = toks[i + 3][1]; cl = {"(": ")", "{": "}", "[": "]"}[op]
            d, j = 0, i + 3
            while j < n:
                if toks[j][1] == op:
                    d += 1
                elif toks[j][1] == cl:
                    d -= 1
                    if d == 0:
                        break
                j += 1
            i = j + 1
            if i < n and toks[i][1] == ";":
                i += 1
            continue
        out.append(toks[i]); i += 1
    return out


def lint_fn(hdr, body, what=None, **kw):
    """lint_body with the parameter names taken from the header"""
    names, muts = sig_params(hdr)
    if what is None:
        m = re.search(r"\bfn\s+([A-Za-z_][A-Za-z0-9_]*)", hdr)
        what = "fn " + (m.group(1) if m else "?")
    return lint_body(body, params=names, mut_params=muts, what=what, **kw)


def check_shadowing(toks, params, what):
    """refuse a binding in a NESTED block that shadows a binding of an enclosing scope (same function).  Scopes = brace blocks;
    `for PAT in`, `if let PAT =`, `while let PAT =`, `PAT =>` and closure parameters bind in the block / expression that follows
    (treated as one more nested scope level)."""
    n = len(toks)
    scopes = [set(params)]          # scopes[0] = parameters + function-level lets
    pending = []                    # names to be bound when the next `{` opens (for / if let / while let patterns)
    i = 0

    def outer_has(name, upto):
        return any(name in s for s in scopes[:upto])

    def bind(names, level_is_nested, ctx):
        for nm in names:
            if nm == "_" or nm.startswith("_") and len(nm) == 1:
                continue
            if level_is_nested and outer_has(nm, len(scopes) - 1):
                raise TranslateError(f"{what}: `{nm}` bound by {ctx} in a nested block shadows an outer `{nm}` (block scoping of shadowed names is not translated)")
            scopes[-1].add(nm)

    while i < n:
        k, t = toks[i]
        if k == "op" and t == "{":
            scopes.append(set())
            if pending:
                for nm, ctx in pending:
                    if outer_has(nm, len(scopes) - 1):
                        raise TranslateError(f"{what}: `{nm}` bound by {ctx} shadows an outer `{nm}` (block scoping of shadowed names is not translated)")
                    scopes[-1].add(nm)
                pending = []
        elif k == "op" and t == "}":
            if len(scopes) > 1:
                scopes.pop()
        elif k == "id" and t == "let":
            prv = toks[i - 1][1] if i > 0 else None
            j = i + 1
            depth = 0
            while j < n:
                tt = toks[j][1]
                if tt in ("(", "[", "{"):
                    depth += 1
                elif tt in (")", "]", "}"):
                    depth -= 1
                elif depth == 0 and tt in ("=", ";", ":"):
                    break
                j += 1
            names = pattern_names(toks[i + 1:j])
            if prv in ("if", "while") or (prv == "&&"):
                pending += [(nm, f"`{prv} let`") for nm in names]
            else:
                bind(names, len(scopes) > 1, "`let`")
            i = j
            continue
        elif k == "id" and t == "for":
            j = i + 1
            depth = 0
            while j < n and not (toks[j] == ("id", "in") and depth == 0):
                depth += (toks[j][1] in "([") - (toks[j][1] in ")]") if toks[j][0] == "op" and len(toks[j][1]) == 1 else 0
                j += 1
            pending += [(nm, "a `for` pattern") for nm in pattern_names(toks[i + 1:j])]
            i = j
            continue
        elif k == "op" and t == "=>":
            # the pattern of a match arm: tokens back to the previous `,` / `{` / `}` at the same depth
            j = i - 1
            depth = 0
            while j >= 0:
                tt = toks[j][1]
                if tt in (")", "]"):
                    depth += 1
                elif tt in ("(", "["):
                    depth -= 1
                elif depth == 0 and tt in (",", "{", "}"):
                    break
                j -= 1
            names = pattern_names(toks[j + 1:i])
            for nm in names:
                if outer_has(nm, len(scopes)) or nm in scopes[-1]:
                    raise TranslateError(f"{what}: `{nm}` bound by a match arm shadows an outer `{nm}` (block scoping of shadowed names is not translated)")
        elif k == "op" and t in ("|", "||"):
            # closure parameters: `|` in operand position (after `(`, `,`, `=`, `move`, `{`, `;`, `return`, `=>`)
            prv = toks[i - 1][1] if i > 0 else None
            if prv in (None, "(", ",", "=", "move", "{", ";", "return", "=>", "[") and t == "|":
                j = i + 1
                while j < n and toks[j][1] != "|":
                    j += 1
                ptoks = toks[i + 1:j]
                # drop type annotations `name: T`
                names, skip, d = [], False, 0
                for kk, tt in ptoks:
                    if tt in ("(", "[", "<"):
                        d += 1
                    elif tt in (")", "]", ">"):
                        d -= 1
                    if tt == ":" and d == 0:
                        skip = True
                    elif tt == "," and d == 0:
                        skip = False
                    elif not skip and kk == "id" and tt not in KEYWORDS and not tt[0].isupper():
                        names.append(tt)
                # a closure parameter that shadows is scoped by every translator (the body is translated in a copy of the
                # environment); it is recorded so that an inner block of the closure is checked against it
                if j + 1 < n and toks[j + 1][1] == "{":
                    pending += [(nm, "a closure parameter") for nm in names if not outer_has(nm, len(scopes) + 1)]
                i = j
        i += 1


# ------------------------------------------------------------------------------------------------------ use items

def use_lines(text):
    """normalised file-level-or-nested `use` items of a (comment-free) file: ["use a::b::{c, d as e};", …]"""
    masked = mask_literals(text)
    out = []
    for m in re.finditer(r"(?<![A-Za-z0-9_])use\s+[^;{]*(?:\{[^;]*\})?[^;]*;", masked):
        out.append(re.sub(r"\s+", " ", m.group(0)).replace(" ::", "::").replace(":: ", "::").strip())
    return out


def use_renames(text):
    """[(original last segment, new name)] of every `… X as NAME` inside a `use` item (`as _` excluded)"""
    out = []
    for u in use_lines(text):
        for m in re.finditer(r"([A-Za-z_][A-Za-z0-9_]*)\s+as\s+([A-Za-z_][A-Za-z0-9_]*)", u):
            if m.group(2) != "_":
                out.append((m.group(1), m.group(2)))
    return out


def check_uses(text, names, what):
    """refuse `use … as …` renames that touch one of `names` (the names a translated body resolves by spelling: callees, types,
    constants): a rename TO such a name makes the spelling mean something else, a rename OF such a name hides the item"""
    names = set(names)
    for orig, new in use_renames(text):
        if orig == new:
            continue
        if new in names or orig in names:
            raise TranslateError(f"{what}: `use … {orig} as {new}` renames a name the translation resolves by spelling")


# ------------------------------------------------------------------------------------------------------ constants

def find_const(text, name):
    """(type text, initialiser text) of the ONE live `const NAME: T = e;` / `static NAME: T = e;` of a (comment-free) file; None when there
    is none; several live ones (or an unevaluable #[cfg]) are refused"""
    found = []
    for m in re.finditer(r"\b(?:const|static)\s+" + re.escape(name) + r"\s*:\s*([^=;]+)=([^;]+);", mask_keep(text)):
        if attrs_live(attrs_before(text, m.start()), f"const {name}"):
            found.append((text[m.start(1):m.end(1)].strip(), text[m.start(2):m.end(2)].strip()))
    if not found:
        return None
    if len({re.sub(r"\s+", " ", a + "=" + b) for a, b in found}) != 1:
        raise TranslateError(f"const {name}: {len(found)} different live definitions; exactly one is required")
    return found[0]


def mask_keep(text):
    return mask_literals(text)


# ------------------------------------------------------------------------------------------------------ expected imports

def imported_names(use_item):
    """the names a normalised `use …;` item brings into scope (last segments, group members, `as` names); "*" for a glob"""
    body = use_item[use_item.index("use") + 3:].rstrip(";").strip()
    names = set()

    def walk(t):
        t = t.strip()
        if not t:
            return
        if "{" in t:
            i = t.index("{")
            j = len(t) - 1 - t[::-1].index("}")
            inner, d, cur = t[i + 1:j], 0, ""
            for ch in inner:
                if ch == "{":
                    d += 1
                elif ch == "}":
                    d -= 1
                if ch == "," and d == 0:
                    walk(cur); cur = ""
                else:
                    cur += ch
            walk(cur)
            return
        m = re.search(r"\bas\s+(\w+)$", t)
        if m:
            names.add(m.group(1))
            return
        last = t.split("::")[-1].strip()
        names.add(last)
    walk(body)
    names.discard("self"); names.discard("_")
    return names


def check_uses(relfile, text, used_names, what):
    """every `use` item of the file that brings one of `used_names` (the identifiers of a translated signature + body) into scope — or a
    glob import — must be one of the items the translators' specs were written against (EXPECTED_USES[relfile]); renames (`as`) are held
    to the same list.  A changed import means the same spelling may name another item: the translation by spelling is then not faithful."""
    expected = EXPECTED_USES.get(relfile)
    if expected is None:
        if not use_lines(text):
            return                  # a file without imports (synthetic sources of the self tests)
        raise TranslateError(f"{what}: no expected `use` list for {relfile} in tools/ktx_glue_guard.py (EXPECTED_USES)")
    used = set(used_names)
    for u in use_lines(text):
        names = imported_names(u)
        if "*" in names or names & used:
            if u not in expected:
                raise TranslateError(f"{what}: `{u}` in {relfile} is not among the imports the translation was written against "
                                     f"(a name the body uses would resolve differently)")


def ident_names(*texts):
    out = set()
    for t in texts:
        out |= set(re.findall(r"[A-Za-z_][A-Za-z0-9_]*", mask_literals(t)))
    return out


def check_fn_uses(relfile, file_text, hdr, body, what=None):
    """check_uses for one function (file_text comment-free)"""
    check_uses(relfile, file_text, ident_names(hdr, body), what or "fn")


EXPECTED_USES = {}      # relative file -> list of normalised `use` items; filled below (generated by `python3 tools/ktx_glue_guard.py --dump-uses`)


def dump_uses(repo=None):
    repo = repo or REPO()
    out = {}
    for root, _, fs in os.walk(os.path.join(repo, "src")):
        for f in sorted(fs):
            if f.endswith(".rs"):
                p = os.path.join(root, f)
                rel = os.path.relpath(p, repo)
                out[rel] = use_lines(strip_comments(open(p).read()))
    return dict(sorted(out.items()))


# the `use` items of /repo/src the translators' specs were written against (normalised; regenerate with --dump-uses after a REVIEWED change of imports)
EXPECTED_USES.update({'src/blake2b.rs': ['use crate::digest::Digest;',
                    'use crate::hashing::blake2b;',
                    'use crate::mac::{Mac, MacResult};',
                    'use alloc::vec::Vec;',
                    'use core::iter::repeat;',
                    'use super::Blake2b;',
                    'use crate::mac::Mac;'],
 'src/blake2s.rs': ['use crate::digest::Digest;',
                    'use crate::hashing::blake2s;',
                    'use crate::mac::{Mac, MacResult};',
                    'use alloc::vec::Vec;',
                    'use core::iter::repeat;',
                    'use super::Blake2s;',
                    'use crate::mac::Mac;'],
 'src/chacha/mod.rs': ['use reference as reference_verif;'],
 'src/chacha/reference.rs': ['use crate::cryptoutil::{read_u32_le, write_u32v_le};'],
 'src/chacha/sse2.rs': ['use core::arch::x86::*;', 'use core::arch::x86_64::*;', 'use core::convert::TryInto;'],
 'src/chacha20.rs': ['use core::cmp;',
                     'use crate::chacha::ChaChaEngine as ChaChaState;',
                     'use crate::cryptoutil::xor_keystream_mut;',
                     'use alloc::vec::Vec;',
                     'use core::iter::repeat;',
                     'use super::ChaCha20;',
                     'use super::ChaChaOriginal;',
                     'use super::XChaCha;',
                     'use super::ChaCha20;',
                     'use test::Bencher;'],
 'src/chacha20poly1305.rs': ['use crate::chacha20::ChaCha;',
                             'use crate::constant_time::{Choice, CtEqual};',
                             'use crate::cryptoutil::write_u64_le;',
                             'use crate::mac::Mac;',
                             'use crate::poly1305::Poly1305;',
                             'use core::convert::TryFrom;',
                             'use super::ChaCha20Poly1305;',
                             'use super::ChaCha20Poly1305;',
                             'use test::Bencher;'],
 'src/constant_time.rs': ['use super::Choice;', 'use super::*;'],
 'src/cryptoutil.rs': ['use core::convert::TryFrom;', 'use core::{mem::size_of, ptr};'],
 'src/curve25519/fe/fe32/mod.rs': ['use crate::constant_time::{ct_array32_maybe_set, ct_array32_maybe_swap_with, Choice, CtEqual};',
                                   'use core::cmp::{Eq, PartialEq};',
                                   'use core::ops::{Add, Mul, Neg, Sub};',
                                   'use super::load::{load_3i, load_4i};'],
 'src/curve25519/fe/fe32/precomp.rs': ['use super::super::super::ge::GePrecomp;', 'use super::Fe;'],
 'src/curve25519/fe/fe64/mod.rs': ['use crate::constant_time::{ct_array64_maybe_set, ct_array64_maybe_swap_with, Choice, CtEqual};',
                                   'use core::ops::{Add, Mul, Neg, Sub};',
                                   'use super::*;'],
 'src/curve25519/fe/fe64/precomp.rs': ['use super::super::super::ge::GePrecomp;', 'use super::Fe;'],
 'src/curve25519/fe/load.rs': [],
 'src/curve25519/fe/mod.rs': ['use fe32::*;', 'use fe64::*;', 'use super::*;'],
 'src/curve25519/ge.rs': ['use core::cmp::Ordering;',
                          'use core::ops::{Add, Neg, Sub};',
                          'use super::fe::{precomp, Fe};',
                          'use super::scalar::Scalar;',
                          'use crate::constant_time::{Choice, CtEqual, CtZero};'],
 'src/curve25519/mod.rs': ['use fe::Fe;',
                           'use ge::{Ge, GeCached, GeP1P1, GePartial, GePrecomp};',
                           'use scalar::Scalar;',
                           'use crate::constant_time::CtZero;',
                           'use crate::constant_time::CtZero;',
                           'use super::{curve25519_base, Fe};',
                           'use super::*;',
                           'use test::Bencher;'],
 'src/curve25519/scalar/mod.rs': ['use scalar32::*;', 'use scalar64::*;', 'use super::Scalar;', 'use super::*;'],
 'src/curve25519/scalar/scalar32.rs': ['use super::super::fe::load::{load_3i, load_4i};'],
 'src/curve25519/scalar/scalar64.rs': ['use super::Scalar;',
                                       'use super::*;',
                                       'use crate::curve25519::testrng::{GeneratorOf, GeneratorOf2, GeneratorRaw};'],
 'src/curve25519/testrng.rs': [],
 'src/digest.rs': ['use alloc::string::String;', 'use alloc::vec::Vec;', 'use core::iter::repeat;'],
 'src/drg/chacha.rs': ['use crate::chacha20::ChaCha;'],
 'src/drg/mod.rs': [],
 'src/ed25519.rs': ['use crate::constant_time::CtEqual;',
                    'use crate::curve25519::{curve25519, scalar, Fe, Ge, GePartial, Scalar};',
                    'use crate::hashing::sha2::Sha512;',
                    'use core::convert::TryFrom;',
                    'use super::{exchange, keypair, signature, verify};',
                    'use crate::curve25519::{curve25519, curve25519_base};',
                    'use crate::digest::Digest;',
                    'use crate::sha2::Sha512;',
                    'use core::convert::TryFrom;'],
 'src/hashing/blake2/avx.rs': ['use super::common::{b, s, LastBlock};', 'use core::arch::x86::*;', 'use core::arch::x86_64::*;'],
 'src/hashing/blake2/avx2.rs': ['use super::common::{b, LastBlock};', 'use core::arch::x86::*;', 'use core::arch::x86_64::*;'],
 'src/hashing/blake2/common.rs': [],
 'src/hashing/blake2/mod.rs': ['use common::LastBlock;', 'use common::{b, s};'],
 'src/hashing/blake2/reference.rs': ['use super::common::{b, s, LastBlock, SIGMA};', 'use crate::cryptoutil::{read_u32v_le, read_u64v_le};'],
 'src/hashing/blake2b.rs': ['use super::blake2::{EngineB as Engine, LastBlock};',
                            'use crate::cryptoutil::{write_u64v_le, zero};',
                            'use super::super::tests::{test_hashing, Test};',
                            'use super::{Blake2b, Context};',
                            'use super::super::tests::{test_hashing_keyed, TestKey};',
                            'use super::{Blake2b, Context};',
                            'use test::Bencher;',
                            'use super::Blake2b;'],
 'src/hashing/blake2s.rs': ['use super::blake2::{EngineS as Engine, LastBlock};',
                            'use crate::cryptoutil::{write_u32v_le, zero};',
                            'use super::super::tests::{test_hashing, Test};',
                            'use super::{Blake2s, Context};',
                            'use super::super::tests::{test_hashing_keyed, TestKey};',
                            'use super::{Blake2s, Context};',
                            'use test::Bencher;',
                            'use super::Blake2s;'],
 'src/hashing/keccak.rs': ['use super::sha3::{Engine, B};', 'use super::super::tests::{test_hashing, Test};', 'use super::*;'],
 'src/hashing/mod.rs': [],
 'src/hashing/ripemd160.rs': ['use crate::cryptoutil::{read_u32v_le, write_u32_le, FixedBuffer};',
                              'use super::super::tests::{test_hashing, Test};',
                              'use super::*;',
                              'use super::Ripemd160;',
                              'use test::Bencher;'],
 'src/hashing/sha1.rs': ['use crate::cryptoutil::{read_u32v_be, write_u32_be, FixedBuffer};',
                         'use crate::simd::u32x4;',
                         'use super::super::tests::{test_hashing, Test};',
                         'use super::*;',
                         'use super::*;',
                         'use test::Bencher;'],
 'src/hashing/sha2/eng256.rs': ['use crate::cryptoutil::write_u32v_be;', 'use super::impl256::*;'],
 'src/hashing/sha2/eng512.rs': ['use crate::cryptoutil::{write_u32_be, write_u64v_be};', 'use super::impl512::*;'],
 'src/hashing/sha2/impl256/aarch64.rs': ['use core::arch::aarch64::*;', 'use super::reference;'],
 'src/hashing/sha2/impl256/avx.rs': ['use core::arch::x86::*;',
                                     'use core::arch::x86_64::*;',
                                     'use super::reference;',
                                     'use super::sse41;',
                                     'use core::ptr::read;',
                                     'use super::reference::{e0, e1};'],
 'src/hashing/sha2/impl256/mod.rs': [],
 'src/hashing/sha2/impl256/reference.rs': ['use crate::cryptoutil::read_u32v_be;'],
 'src/hashing/sha2/impl256/sse41.rs': ['use core::arch::x86::*;',
                                       'use core::arch::x86_64::*;',
                                       'use super::reference;',
                                       'use core::ptr::read;',
                                       'use super::reference::{e0, e1};'],
 'src/hashing/sha2/impl512/mod.rs': [],
 'src/hashing/sha2/impl512/reference.rs': ['use crate::cryptoutil::read_u64v_be;', 'use crate::simd::u64x2;'],
 'src/hashing/sha2/initials.rs': ['use super::eng256;', 'use super::eng512;'],
 'src/hashing/sha2/mod.rs': ['use crate::cryptoutil::FixedBuffer;',
                             'use initials::*;',
                             'use super::super::tests::{test_hashing, Test};',
                             'use super::*;',
                             'use super::eng256;',
                             'use super::eng512;',
                             'use super::{Sha256, Sha512};',
                             'use test::Bencher;'],
 'src/hashing/sha3.rs': ['use alloc::vec;',
                         'use core::cmp;',
                         'use crate::cryptoutil::{read_u64v_le, write_u64v_le, zero};',
                         'use super::super::tests::{test_hashing, Test};',
                         'use super::*;'],
 'src/hashing/tests.rs': [],
 'src/hkdf.rs': ['use alloc::vec::Vec;',
                 'use core::iter::repeat;',
                 'use crate::digest::Digest;',
                 'use crate::hmac::Hmac;',
                 'use crate::mac::Mac;',
                 'use alloc::vec::Vec;',
                 'use core::iter::repeat;',
                 'use crate::digest::Digest;',
                 'use crate::hkdf::{hkdf_expand, hkdf_extract};',
                 'use crate::sha2::Sha256;'],
 'src/hmac.rs': ['use core::iter::repeat;',
                 'use crate::digest::Digest;',
                 'use crate::mac::{Mac, MacResult};',
                 'use alloc::vec::Vec;',
                 'use crate::hmac::Hmac;',
                 'use crate::mac::Mac;',
                 'use crate::blake2s::Blake2s;',
                 'use crate::sha2::Sha256;'],
 'src/kdf/argon2.rs': ['use crate::cryptoutil::xor_array64_mut;',
                       'use crate::hashing::blake2b;',
                       'use alloc::borrow::ToOwned;',
                       'use alloc::boxed::Box;',
                       'use alloc::vec;',
                       'use core::num::NonZeroU32;',
                       'use core::ops::{BitXorAssign, Index, IndexMut};',
                       'use super::*;'],
 'src/kdf/mod.rs': [],
 'src/lib.rs': [],
 'src/mac.rs': ['use crate::constant_time::CtEqual;', 'use alloc::vec::Vec;'],
 'src/pbkdf2.rs': ['use crate::mac::Mac;',
                   'use alloc::vec::Vec;',
                   'use core::iter::repeat;',
                   'use super::pbkdf2;',
                   'use crate::hmac::Hmac;',
                   'use crate::sha1::Sha1;'],
 'src/poly1305.rs': ['use core::cmp::min;',
                     'use crate::cryptoutil::{read_u32_le, write_u32_le};',
                     'use crate::mac::{Mac, MacResult};',
                     'use crate::mac::Mac;',
                     'use crate::poly1305::Poly1305;',
                     'use crate::mac::Mac;',
                     'use crate::poly1305::Poly1305;',
                     'use test::Bencher;'],
 'src/ripemd160.rs': ['use crate::digest::Digest;', 'use crate::hashing::ripemd160;'],
 'src/salsa20.rs': ['use crate::cryptoutil::{read_u32_le, write_u32_le, write_u32v_le, xor_keystream_mut};',
                    'use core::cmp;',
                    'use super::{Salsa20, XSalsa20};',
                    'use crate::digest::Digest;',
                    'use crate::sha2::Sha256;',
                    'use super::Salsa20;',
                    'use test::Bencher;'],
 'src/scrypt.rs': ['use alloc::vec::Vec;',
                   'use core::iter::repeat;',
                   'use core::mem::size_of;',
                   'use crate::cryptoutil::{read_u32_le, read_u32v_le, write_u32_le};',
                   'use crate::hmac::Hmac;',
                   'use crate::pbkdf2::pbkdf2;',
                   'use crate::sha2::Sha256;',
                   'use alloc::vec::Vec;',
                   'use core::iter::repeat;',
                   'use super::{scrypt, ScryptParams};'],
 'src/sha1.rs': ['use crate::digest::Digest;', 'use crate::hashing::sha1;'],
 'src/sha2.rs': ['use crate::digest::Digest;', 'use crate::hashing::sha2;'],
 'src/sha3.rs': ['use crate::digest::Digest;', 'use crate::hashing::keccak;', 'use crate::hashing::sha3;'],
 'src/simd.rs': ['use self::fake::*;', 'use core::ops::{Add, BitAnd, BitOr, BitXor, Shl, Shr, Sub};'],
 'src/x25519.rs': ['use crate::curve25519::{curve25519, curve25519_base};']})


if __name__ == "__main__":
    import pprint
    import sys
    if "--dump-uses" in sys.argv:
        print("EXPECTED_USES.update(" + pprint.pformat(dump_uses(), width=150) + ")")
