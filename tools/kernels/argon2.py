"""kernel specs: src/kdf/argon2.rs  (shape of lean/CxVerif/Impl/Argon2.lean: UInt64 words, `Block = Vector UInt64 128`)"""
import ktx_misc
from ktx_misc import MK, TranslateError, V

TRANSLATE = ktx_misc.translate
F = "src/kdf/argon2.rs"
VS = [f"v{i}" for i in range(16)]
BLOCK = ("vec", "u64", 128)
ROT = {64: (None, "rotate_right {0} {1}")}
P_CALL = ("p_src ⟨" + ", ".join("{%d}" % i for i in range(16)) + "⟩", list(range(16)), ("⟨", "⟩"))


def nth_loop_body(n):
    def sel(stmts):
        loops = [s for s in stmts if s[0] == "for"]
        if len(loops) <= n:
            raise TranslateError("loop not found")
        if loops[n][1] != ("var", "i"):
            raise TranslateError("loop variable is not `i`")
        lo, hi = loops[n][2][1], loops[n][2][2]
        if lo != ("lit", 0, None) or hi != ("lit", 8, None):
            raise TranslateError("loop range is not 0..8 (the step function is indexed by `Fin 8`)")
        return loops[n][3]
    return sel


def clone_into(tr, e, st, out, ind):
    """`src.clone_into(dst)`: dst := src"""
    src = tr.ex(e[1], st, None, out, ind)
    if len(e[3]) != 1:
        raise TranslateError("clone_into arity")
    tr.assign_place(e[3][0], src, st, out, ind)


def src_const(name):
    """value of `const NAME: u32 = <literal>;` in the source (so that the constant is re-read on every run)"""
    import re
    m = re.search(r"const\s+" + name + r"\s*:\s*u32\s*=\s*(\d+)\s*;", ktx_misc.read_src(F))
    if not m:
        raise TranslateError(f"const {name} not found")
    return int(m.group(1))


NAT_OPS = {("+", 32): "add32", ("*", 32): "mul32", ("-", 32): "subU", ("+", 64): "add64", ("*", 64): "mul64", ("-", 64): "subU",
           ("%", 64): "remU", ("%", 32): "remU", ("/", 32): "divU", ("/", 64): "divU"}
PFIELDS = {("Params", f): ("{0}." + f, "u32") for f in ("segment_length", "lane_length", "lanes", "memory_blocks", "iterations", "parallelism")}
PFIELDS.update({("BlockPos", f): ("{0}." + f, "u32") for f in ("pass", "lane", "slice", "index")})

KERNELS = [
    MK(file=F, fn="add_and_mul", lean_name="add_and_mul_src", params="(x y : UInt64)", ret_type="UInt64",
       env={"x": ("x", "u64"), "y": ("y", "u64")}, checked_ok="*",
       doc="`add_and_mul` (the checked `*` of two 32-bit values cannot overflow: `add_and_mul_no_overflow`)"),
    MK(file=F, fn="gb", lean_name="gb_src", params="(a b c d : UInt64)", ret_type="Q4", env={v: (v, "u64") for v in "abcd"}, rot=ROT,
       calls={"add_and_mul": ("add_and_mul_src {0} {1}", "u64", ["u64", "u64"])},
       result=lambda tr, st, ret, out, ind: "⟨" + ", ".join(st.vars[v].t for v in "abcd") + "⟩", doc="`gb(a, b, c, d)` (the four `&mut u64` are returned)"),
    MK(file=F, fn="p", lean_name="p_src", params="(v : V16)", ret_type="V16", env={x: (f"v.{x}", "u64") for x in VS},
       mut_calls={"gb": ("gb_src", [0, 1, 2, 3], ("⟨", "⟩"))},
       result=lambda tr, st, ret, out, ind: "⟨" + ", ".join(tr.ex(("path", x), st, None, out, ind).t for x in VS) + "⟩",
       doc="permutation `p(v0, …, v15)` (the nested `add_and_mul`, `gb` are tied separately)"),
    MK(file=F, fn="fill_block", lean_name="fill_block_row_src", params="(block_r : Block) (i : Fin 8)", ret_type="Block",
       env={"block_r": ("block_r", BLOCK)}, consts={"i": ("i.val", "usize")}, select=nth_loop_body(0), mut_calls={"p": P_CALL},
       result=lambda tr, st, ret, out, ind: st.vars["block_r"].t if "block_r" in st.vars else "block_r",
       doc="body of the first `for i in 0..8` of `fill_block` (row-wise permutation); index arithmetic on Nat, every index proved `< 128`"),
    MK(file=F, fn="fill_block", lean_name="fill_block_col_src", params="(block_r : Block) (i : Fin 8)", ret_type="Block",
       env={"block_r": ("block_r", BLOCK)}, consts={"i": ("i.val", "usize")}, select=nth_loop_body(1), mut_calls={"p": P_CALL},
       result=lambda tr, st, ret, out, ind: st.vars["block_r"].t if "block_r" in st.vars else "block_r",
       doc="body of the second `for i in 0..8` of `fill_block` (column-wise permutation)"),
    MK(file=F, fn="fill_block", lean_name="fill_block_src", params="(prev_block ref_block next_block : Block) (with_xor : Bool)", ret_type="Block",
       env={"prev_block": ("prev_block", BLOCK), "ref_block": ("ref_block", BLOCK), "next_block": ("next_block", BLOCK), "with_xor": ("with_xor", "bool")},
       methods={("vec", "bitxor"): ("Block.bitxor_assign {0} {1}", BLOCK, [None])}, iloops=["fill_block_row_src", "fill_block_col_src"],
       stmt_methods={"clone_into": clone_into},
       result=lambda tr, st, ret, out, ind: tr.ex(("path", "next_block"), st, None, out, ind).t,
       doc="`fill_block`: returns the new `*next_block` (the two loops are folds of the step functions translated from their bodies)"),
    MK(file=F, fn="index_alpha", lean_name="index_alpha_src", params="(params : Params) (position : BlockPos) (pseudo_rand : Nat) (same_lane : Bool)",
       ret_type="Option Nat", mode="natopt", monadic=True, int_ops=NAT_OPS, fields=PFIELDS, panic="none",
       env={"params": ("params", "Params"), "position": ("position", "BlockPos"), "pseudo_rand": ("pseudo_rand", "u32"), "same_lane": ("same_lane", "bool")},
       consts=lambda: {"SYNC_POINTS": (src_const("SYNC_POINTS"), "u32")},
       doc="`index_alpha` (RFC 9106 3.4.2 mapping): u32 arithmetic for the reference area size and the start position, u64 for the "
           "mapping; `none` = arithmetic-overflow / division-by-zero panic"),
]
HEADER = "import CxVerif.Impl.Argon2\nnamespace Cx.Extracted.KernelsArgon2\nopen Cx Cx.Impl.Argon2\nopen Cx.Spec.Argon2 (Block)\nset_option autoImplicit false\n"
FOOTER = "end Cx.Extracted.KernelsArgon2\n"
LEAN_FILE = "KernelsArgon2"
