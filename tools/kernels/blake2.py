"""word-kernel specs: src/hashing/blake2/reference.rs `compress_b` / `compress_s` (macros `compressbody!`, `round!`, `G!`;
   constants of src/hashing/blake2/common.rs: `b::IV/R1..R4/ROUNDS`, `s::…`, `SIGMA`)
   -> lean/CxVerif/Extracted/KernelsBlake2.lean, tied to the SHARED core `Spec.Blake2.compressCore` (G / round /
   compress skeleton used by both Spec and Impl) as instantiated by `Impl.Blake2.reference_compress`, by
   lean/CxVerif/Props/C01/KernelTieBlake2.lean"""
import ktx_words as kw
from ktx_words import WKernel, words, opaque, load_prim, Rec

TRANSLATE = kw.translate
F = "src/hashing/blake2/reference.rs"
FILES = ["src/hashing/blake2/common.rs"]
M = [f"m{i}" for i in range(16)]
H = [f"h{i}" for i in range(8)]


def comp(fn, ty, lty, rot, readf):
    return WKernel(file=F, files=FILES, fn=fn, lean_name=f"{fn}_src",
                   params=f"({' '.join(H)} t0 t1 : {lty}) ({' '.join(M)} : {lty}) (last : Bool)", ret_type=f"Vector {lty} 8",
                   args={"h": words(H, ty), "t": words(["t0", "t1"], ty), "buf": opaque("buf"), "last": opaque("last")},
                   prims={readf: load_prim("buf", M, ty)},
                   conds={"last == LastBlock::Yes": "last"},
                   render={"rotate_right": rot + " {x} {n}"},
                   result=lambda ex: "mk8 " + " ".join(ex.wts(ex.var("h"), ty)),
                   doc=f"`{fn}(h, t, buf, last)` = `compressbody!(…)` on the sixteen little-endian words m0..m15 of `buf` "
                       f"(`{readf}(&mut ms, buf)`), `last` = (`last == LastBlock::Yes`): v-initialisation from h, IV, t and "
                       "the last flag, the `round!`/`G!` invocations (SIGMA, R1..R4, ROUNDS of common.rs resolved), final "
                       "`h[i] ^= vs[i] ^ vs[i + 8]`; the result is the new `h`")


# the build the hand model `Impl.Blake2.Engine.compress` describes: x86_64 without `-C target-feature=+avx/+avx2`
# (the AVX / AVX2 dispatch targets are modelled and tied separately by unit `simd`, property C16)
# The OTHER cfg sets (+sse4.1, +avx, +avx2) of `EngineB/EngineS::compress` — which `return avx2::compress_b(..)` / `avx::compress_b/s(..)` —
# are translated by tools/kernels/sha2_dispatch.py (ktx_glue.py after cfg resolution; the dispatch targets are the generated definitions of
# Extracted/GlueSimd.lean) into Extracted/GlueSha2Disp.lean and tied by Props/C16/GlueTieSha2Disp.lean (audit 3, F1).
CFG = {'target_arch = "x86"': False, 'target_arch = "x86_64"': True, 'target_feature = "avx"': False, 'target_feature = "avx2"': False}
FM = "src/hashing/blake2/mod.rs"


def engine(name, fn, ty, lty, rot, readf):
    return WKernel(file=FM, files=[F] + FILES, fn="compress", scope=r"impl\s+" + name + r"\b", lean_name=f"{name}_compress_src",
                   params=f"({' '.join(H)} t0 t1 : {lty}) ({' '.join(M)} : {lty}) (last : Bool)",
                   ret_type=f"Vector {lty} 8 × {lty} × {lty}",
                   args={"self": Rec({"h": words(H, ty), "t": words(["t0", "t1"], ty)}), "buf": opaque("buf"), "last": opaque("last")},
                   prims={readf: load_prim("buf", M, ty)}, conds={"last == LastBlock::Yes": "last"},
                   render={"rotate_right": rot + " {x} {n}"}, cfg=CFG,
                   result=lambda ex: "(mk8 " + " ".join(ex.wts(ex.var("self").fields["h"], ty)) + ", "
                                     + ", ".join(ex.wts(ex.var("self").fields["t"], ty)) + ")",
                   doc=f"`{name}::compress(&mut self, buf, last)` in the build without AVX (cfg: x86_64, no avx, no avx2): the "
                       f"dispatch falls through to `reference::{fn}(&mut self.h, &mut self.t, buf, last)`, inlined; the result "
                       "is the new `(h, t[0], t[1])`")


KERNELS = [comp("compress_b", "u64", "UInt64", "rotr64", "read_u64v_le"),
           comp("compress_s", "u32", "UInt32", "rotr32", "read_u32v_le"),
           engine("EngineB", "compress_b", "u64", "UInt64", "rotr64", "read_u64v_le"),
           engine("EngineS", "compress_s", "u32", "UInt32", "rotr32", "read_u32v_le")]
HEADER = ("import CxVerif.Util.Bytes\nnamespace Cx.Extracted.KernelsBlake2\nopen Cx\n\n"
          "/-- `[a0, …, a7]` as a `Vector` (outside the generated `let` chains: the size proof is checked once, here) -/\n"
          "def mk8 {α : Type} (a0 a1 a2 a3 a4 a5 a6 a7 : α) : Vector α 8 := #v[a0, a1, a2, a3, a4, a5, a6, a7]\n")
FOOTER = "end Cx.Extracted.KernelsBlake2\n"
LEAN_FILE = "KernelsBlake2"
