"""glue specs (translator tools/ktx_glue.py): the SHA-2 multi-block DRIVERS and the cfg DISPATCHERS in the build without SIMD
   src/hashing/sha2/impl256/reference.rs  `digest_block`  (`while i < block.len() { digest_block_u32(state, &block[i..i + 64]); i += 64; }`)
   src/hashing/sha2/impl512/reference.rs  `digest_block`  (SHA-512's only byte-to-word load `read_u64v_be(&mut block2[..], &block[0..128])`,
                                                           the advance `block = &block[128..]`)
   src/hashing/sha2/impl256/mod.rs        `digest_block`  (cfg dispatch avx / sse4.1 / aarch64 / reference) under the BASELINE cfg set
   src/hashing/sha2/impl512/mod.rs        `digest_block`  (cfg dispatch: two empty cfg blocks, then reference) — under all four cfg sets
   src/cryptoutil.rs                      `read_u64v_be`, `read_u64v_le` (own copies of the `read_array_type!` expansions, so that this file does
                                          not depend on Extracted/GlueMd.lean, which calls the definitions generated here)
   -> lean/CxVerif/Extracted/GlueSha2Drv.lean; tie theorems lean/CxVerif/Props/C01/GlueTieSha2Drv.lean (helpers Proofs/GlueSha2Drv.lean).
   The SIMD cfg sets of impl256/mod.rs and the BLAKE2 engine dispatch are in tools/kernels/sha2_dispatch.py (they need Extracted/GlueSimd.lean).

Three SOURCE PREPARATIONS are done here, in the spec (class `Prepared`: a GlueCfg whose `src()` applies them when a file is first read),
because the engine tools/ktx_glue.py has no counterpart: it refuses `#[cfg]` on statements, has no `is_empty`, and handles an early
`return` only in an `if` that is a direct statement of the function body.  They are part of the trusted translator; each one leaves alone
or refuses what it does not understand:
  * `resolve_cfg(text, table)`: every `#[cfg(P)]` attribute of the file is EVALUATED with the stated table (`all` / `any` / `not` /
    `key = "value"`; a key that the table does not list is an error) and the attributed element — a `{ … }` block, a
    `const …;` / `mod …;` / `mod … { … }` / `use …;` item, or an `if c { … }` statement without `else` — is kept (attribute removed) or deleted.  Any
    other attributed element, and any attribute inside a function body that is not `cfg`, is refused.  One cfg SET = one table = one
    generated definition; the tables are `CFG_SETS` below (x86_64; baseline, +sse4.1, +avx, +avx2 with the implications rustc applies:
    avx2 ⇒ avx ⇒ sse4.1).
  * `flatten_blocks(text)`: a bare block in statement position that consists only of `const` items, `if c { … }` statements without `else`
    and such blocks again — what is left of `#[cfg(..)] { const HAS_AVX: bool = true; #[cfg(..)] { if HAS_AVX { return …; } } }` — is replaced
    by its statements, provided that no constant it declares is mentioned anywhere else in the enclosing block (so the wider scope cannot
    change the meaning of any name).  The engine then sees `if HAS_AVX { return avx::digest_block(state, block); }` at function level.
  * `desugar_is_empty(text)`: `x.is_empty()` on a simple variable `x` is rewritten to `(x.len() == 0)`, which is the definition of
    `<[T]>::is_empty` in core; ktx_glue then requires `x` to be a slice / array (`.len()` on anything else is refused).
"""
import re

import ktx_glue
from ktx_glue import GlueCfg, GK, Extern
from kernel_translate import TranslateError, strip_comments

CU = "src/cryptoutil.rs"
R256 = "src/hashing/sha2/impl256/reference.rs"
R512 = "src/hashing/sha2/impl512/reference.rs"
M256 = "src/hashing/sha2/impl256/mod.rs"
M512 = "src/hashing/sha2/impl512/mod.rs"

# ------------------------------------------------------------------------------------------------ cfg sets
X86_64 = {'target_arch = "x86"': False, 'target_arch = "x86_64"': True, 'target_arch = "aarch64"': False,
          'feature = "use-stdsimd"': False}


def cfg_set(sse41, avx, avx2):
    return {**X86_64, 'target_feature = "sse4.1"': sse41, 'target_feature = "avx"': avx, 'target_feature = "avx2"': avx2}


# name -> truth table of the cfg predicates (rustc: `+avx2` enables avx, `+avx` enables sse4.1)
CFG_SETS = {"baseline": cfg_set(False, False, False), "sse41": cfg_set(True, False, False),
            "avx": cfg_set(True, True, False), "avx2": cfg_set(True, True, True)}


# ------------------------------------------------------------------------------------------------ source preparation
def _match(text, i, open_c, close_c):
    """index just after the bracket that closes the one at text[i]"""
    assert text[i] == open_c
    depth = 0
    while i < len(text):
        if text[i] == open_c:
            depth += 1
        elif text[i] == close_c:
            depth -= 1
            if depth == 0:
                return i + 1
        i += 1
    raise TranslateError("cfg: unbalanced brackets")


def eval_cfg(pred, table):
    """truth value of the cfg predicate text `pred` (inside `cfg( … )`) under `table`"""
    toks = re.findall(r'"[^"]*"|[A-Za-z_][A-Za-z0-9_]*|[(),=]', pred)
    if "".join(toks) != re.sub(r"\s+", "", pred):
        raise TranslateError(f"cfg predicate not understood: {pred!r}")
    pos = 0

    def p():
        nonlocal pos
        name = toks[pos]; pos += 1
        if name in ("all", "any", "not"):
            if toks[pos] != "(":
                raise TranslateError("cfg: `(` expected")
            pos += 1
            vals = []
            while toks[pos] != ")":
                vals.append(p())
                if toks[pos] == ",":
                    pos += 1
                elif toks[pos] != ")":
                    raise TranslateError("cfg: `,` expected")
            pos += 1
            if name == "not":
                if len(vals) != 1:
                    raise TranslateError("cfg: not(..) arity")
                return not vals[0]
            return all(vals) if name == "all" else any(vals)
        key = name
        if pos < len(toks) and toks[pos] == "=":
            key = f"{name} = {toks[pos + 1]}"; pos += 2
        if key not in table:
            raise TranslateError(f"cfg predicate `{key}` is not declared in the cfg table of the spec")
        return table[key]
    v = p()
    if pos != len(toks):
        raise TranslateError("cfg predicate: trailing tokens")
    return v


ATTR = re.compile(r"#\s*(!?)\s*\[")


def _element_end(text, i):
    """end of the element that the attribute in front of text[i:] applies to (see the module docstring); refuses anything else"""
    while text[i].isspace():
        i += 1
    if text[i] == "{":
        return _match(text, i, "{", "}")
    m = re.match(r"(?:pub\s*(?:\([^)]*\))?\s*)?(const|mod|use)\b", text[i:])
    if m:
        j, depth = i, 0
        while j < len(text):
            c = text[j]
            if c == "{" and depth == 0 and m.group(1) == "mod":
                return _match(text, j, "{", "}")            # `mod name { … }`
            if c in "([{":
                depth += 1
            elif c in ")]}":
                depth -= 1
            elif c == ";" and depth == 0:
                return j + 1
            if depth < 0:
                break
            j += 1
        raise TranslateError("cfg: item without `;`")
    if re.match(r"if\b", text[i:]):
        j, depth = i, 0
        while j < len(text):
            c = text[j]
            if c in "([":
                depth += 1
            elif c in ")]":
                depth -= 1
            elif c == "{" and depth == 0:
                e = _match(text, j, "{", "}")
                if re.match(r"\s*else\b", text[e:]):
                    raise TranslateError("cfg: attribute on an `if … else`")
                return e
            j += 1
        raise TranslateError("cfg: `if` without a block")
    raise TranslateError(f"cfg: attribute on an unsupported element `{' '.join(text[i:i + 40].split())}…`")


def resolve_cfg(text, table):
    """`text` (comments stripped) with every `#[cfg(P)] element` replaced by `element` (P true under `table`) or removed (P false);
    attributes nested in a removed element are not evaluated.  Other attributes stay (the engine decides about them)."""
    out, i = [], 0
    while True:
        m = ATTR.search(text, i)
        if not m:
            out.append(text[i:])
            return "".join(out)
        close = _match(text, m.end() - 1, "[", "]")
        inner = text[m.end():close - 1].strip()
        mm = re.match(r"(cfg|cfg_attr)\b", inner)
        if not mm:
            out.append(text[i:close]); i = close
            continue
        if mm.group(1) == "cfg_attr" or m.group(1) == "!":
            raise TranslateError("cfg_attr / inner cfg attributes are not supported")
        rest = inner[3:].strip()
        if not (rest.startswith("(") and _match(rest, 0, "(", ")") == len(rest)):
            raise TranslateError(f"cfg attribute not understood: {inner!r}")
        live = eval_cfg(rest[1:-1], table)
        out.append(text[i:m.start()])
        end = _element_end(text, close)
        if live:
            out.append(resolve_cfg(text[close:end], table))
        i = end


def _split_simple(body):
    """the statements of `body` (text between the braces of a block) if each is a `const …;` item, an `if c { … }` without `else`, or a
    bare `{ … }` block; else None.  Returns [(kind, text)]"""
    out, i = [], 0
    while True:
        while i < len(body) and body[i].isspace():
            i += 1
        if i == len(body):
            return out
        if body[i] == "{":
            e = _match(body, i, "{", "}")
            out.append(("block", body[i:e])); i = e
            continue
        m = re.match(r"(const|if)\b", body[i:])
        if not m:
            return None
        try:
            e = _element_end(body, i)
        except TranslateError:
            return None
        out.append((m.group(1), body[i:e])); i = e


def flatten_blocks(text):
    """a bare block in statement position (`{` directly after `{`, `}` or `;`) whose statements are only `const` items, `if c { … }`
    statements without `else` and such blocks again is replaced by its statements — provided that no name it declares occurs anywhere else
    in the enclosing block (so that the wider scope changes nothing).  Everything else is left as it is."""
    i = 0
    while True:
        m = re.compile(r"(?<=[{};])(\s*)\{").search(text, i)
        if not m:
            return text
        b = m.end() - 1
        e = _match(text, b, "{", "}")
        inner = flatten_blocks(text[b + 1:e - 1])
        parts = _split_simple(inner)
        ok = parts is not None
        if ok:
            # the rest of the enclosing block: up to the `}` that closes it
            depth, j = 0, e
            while j < len(text):
                if text[j] == "{":
                    depth += 1
                elif text[j] == "}":
                    if depth == 0:
                        break
                    depth -= 1
                j += 1
            # … and the part of the enclosing block in front of it: back to the `{` that opens it
            depth, a = 0, b - 1
            while a >= 0:
                if text[a] == "}":
                    depth += 1
                elif text[a] == "{":
                    if depth == 0:
                        break
                    depth -= 1
                a -= 1
            rest = text[a + 1:b] + " " + text[e:j]
            for kind, t in parts:
                if kind == "const":
                    name = re.match(r"const\s+([A-Za-z_]\w*)", t)
                    if not name or re.search(r"\b" + name.group(1) + r"\b", rest):
                        ok = False
        if ok:
            text = text[:b] + " " + inner + " " + text[e:]
            i = b
        else:
            text = text[:b + 1] + inner + text[e - 1:]
            i = b + 1


def desugar_is_empty(text):
    """`x.is_empty()` -> `(x.len() == 0)` for a simple variable `x` (not a field / call result: those stay and are refused by ktx_glue)"""
    return re.sub(r"(?<![\w.])([A-Za-z_]\w*)\s*\.\s*is_empty\s*\(\s*\)", r"(\1.len() == 0)", text)


class Prepared(GlueCfg):
    """a GlueCfg whose source files go through `resolve_cfg` (with `self.table`) and `desugar_is_empty` when they are first read
    (CX_REPO is honoured: the file is read at translation time)"""

    def __init__(self, table, **kw):
        super().__init__(**kw)
        self.table = table

    def src(self, f):
        if f not in self._src:
            raw = super().src(f)
            self._src[f] = desugar_is_empty(flatten_blocks(resolve_cfg(strip_comments(raw), self.table)))
        return self._src[f]


TRANSLATE = ktx_glue.translate

# ------------------------------------------------------------------------------------------------ kernels
W8 = lambda w, t: dict(lean=f"Spec.Sha2.W8 {w}", elem=t, n=8, to_list="{0}.toList", proj=list("abcdefgh"))
BYTES = ("list", ("word", 8))
W8_32, W8_64 = ("custom", "[u32;8]"), ("custom", "[u64;8]")
CUSTOM = {"[u32;8]": W8("UInt32", "u32"), "[u64;8]": W8("UInt64", "u64")}

# (a) the reference drivers.  `digest_block_u32` / `digest_block_u64` are the compression functions, tied by Props/C01/KernelTieSha256 /
#     KernelTieSha512 (the byte-to-word load of SHA-256, `read_u32v_be(&mut w[0..16], block)`, is inside `digest_block_u32`)
DRV = Prepared(CFG_SETS["baseline"], custom_types=CUSTOM, externs={
    (None, "digest_block_u32"): Extern("Impl.Sha2.Impl256.digest_block_u32 {0} {1}", [("mut", W8_32), ("val", BYTES)], fallible=True),
    (None, "digest_block_u64"): Extern("Impl.Sha2.Impl512.digest_block_u64 {0} {1}", [("mut", W8_64), ("val", ("list", ("word", 64)))], fallible=True),
})


def RD(name):
    return GK(DRV, file=CU, fn=name, lean_name=f"{name}_src", macro="read_array_type", doc=f"`cryptoutil::{name}`")


KERNELS = [
    RD("read_u64v_be"), RD("read_u64v_le"),
    GK(DRV, file=R256, fn="digest_block", key=("impl256::reference", "digest_block"), lean_name="Impl256.reference_digest_block_src",
       fuel={"1": "block.len()"}, doc="`impl256::reference::digest_block` (loop fuel `block.len()`: the tie theorem shows it never runs out)"),
    GK(DRV, file=R512, fn="digest_block", key=("impl512::reference", "digest_block"), lean_name="Impl512.reference_digest_block_src",
       fuel={"1": "block.len()"}, doc="`impl512::reference::digest_block` (loop fuel `block.len()`: the tie theorem shows it never runs out)"),
]


def dispatcher(table_name, file, ns, wty, lean_name, externs, doc):
    """one cfg set of a `digest_block` dispatcher: module paths `avx::f` are resolved through `aliases` to a key (<mod>, f) — there is
    no extern under the bare name, so a call through an unexpected path is refused"""
    cfg = Prepared(CFG_SETS[table_name], custom_types=CUSTOM, externs=externs,
                   aliases={(file, m): f"{ns}::{m}" for m in ("reference", "sse41", "avx", "aarch64")})
    return GK(cfg, file=file, fn="digest_block", key=(f"{ns}::{table_name}", "digest_block"), lean_name=lean_name, doc=doc)


REF256 = {("impl256::reference", "digest_block"):
          Extern("Impl256.reference_digest_block_src {0} {1}", [("mut", W8_32), ("val", BYTES)], fallible=True)}
REF512 = {("impl512::reference", "digest_block"):
          Extern("Impl512.reference_digest_block_src {0} {1}", [("mut", W8_64), ("val", BYTES)], fallible=True)}

# (b) the dispatchers that reach only the reference driver
KERNELS.append(dispatcher("baseline", M256, "impl256", W8_32, "Impl256.digest_block_baseline_src", REF256,
                          "`impl256::digest_block` under cfg {x86_64, no sse4.1, no avx}: falls through to `reference::digest_block`"))
for name in CFG_SETS:
    KERNELS.append(dispatcher(name, M512, "impl512", W8_64, f"Impl512.digest_block_{name}_src", REF512,
                              f"`impl512::digest_block` under the cfg set `{name}`"))

HEADER = """import CxVerif.Util.GlueRt
import CxVerif.Impl.Sha2
/-!
  Extracted.GlueSha2Drv — GENERATED by tools/ktx_glue.py (kernel specs tools/kernels/sha2_drivers.py): the SHA-2 multi-block drivers
  `impl256::reference::digest_block`, `impl512::reference::digest_block` and the cfg dispatchers `impl256::digest_block` (baseline cfg
  set), `impl512::digest_block` (all cfg sets), translated from the CURRENT Rust source.  Tie theorems: Props/C01/GlueTieSha2Drv.lean.
-/
namespace Cx.Extracted.GlueSha2Drv
open Cx Cx.Impl
set_option linter.unusedVariables false
"""
FOOTER = "end Cx.Extracted.GlueSha2Drv\n"
LEAN_FILE = "GlueSha2Drv"
