"""word-kernel specs: src/hashing/sha3.rs `keccak_f` (Keccak-compact64 organisation: theta / rho-pi walk with PIL,ROTC /
   chi / iota, 24 rounds)  -> lean/CxVerif/Extracted/KernelsKeccak.lean, tied to Impl/Sha3.lean (`keccak_f_lanes`,
   loop-shaped model in the Option monad on an `Array UInt64`) by lean/CxVerif/Props/C01/KernelTieKeccak.lean"""
import ktx_words as kw
from ktx_words import WKernel, opaque, load_prim, store_prim

TRANSLATE = kw.translate
F = "src/hashing/sha3.rs"
S = [f"a{i}" for i in range(25)]
RENDER = {"rotate_left": "rotl64 {x} {n}"}           # `u64::rotate_left` = Util.Bytes.rotl64 (std primitive)

KERNELS = [
    WKernel(file=F, fn="keccak_f", lean_name="keccak_f_src",
            params="(" + " ".join(S) + " : UInt64)", ret_type="Array UInt64",
            args={"state": opaque("state")},
            prims={"read_u64v_le": load_prim("state", S, "u64"), "write_u64v_le": store_prim("state", "s")},
            render=RENDER,
            result=lambda ex: "#[" + ", ".join(x.text for x in ex.outputs["s"]) + "]",
            doc="`keccak_f(state)` on the 25 little-endian lanes a0..a24 of `state` (`read_u64v_le(&mut s, state)`): "
                "`for round in 0..NROUNDS { Theta; Rho Pi; Chi; Iota }` fully unrolled (RC/ROTC/PIL/M5 entries as the "
                "literals / indices of the source); the result is the lane array handed to `write_u64v_le(state, &s)`"),
]
HEADER = "import CxVerif.Util.Bytes\nnamespace Cx.Extracted.KernelsKeccak\nopen Cx\n"
FOOTER = "end Cx.Extracted.KernelsKeccak\n"
LEAN_FILE = "KernelsKeccak"
