"""kernel specs: src/chacha/reference.rs  (shape of lean/CxVerif/Impl/ChaCha.lean, namespace Reference: W16 records of UInt32)"""
import ktx_misc
from ktx_misc import MK, TranslateError

TRANSLATE = ktx_misc.translate
F = "src/chacha/reference.rs"
X = [f"x{i}" for i in range(16)]
WS = lambda v: [f"{v}.x{i}" for i in range(16)]
ROT = {32: ("rotl32 {0} {1}", None)}
BYTES = ("list", "u8", None)


def read_u32_le(tr, vs):
    (_, base, lo, hi), = vs
    if hi is None or hi - lo != 4:
        raise TranslateError("read_u32_le of a slice that is not 4 bytes long (would panic)")
    return f"read_u32_le {base.p()} {lo}"


CALLS = {"read_u32_le": (read_u32_le, "u32", [None])}


def w16_of(place):
    def result(tr, st, ret, out, ind):
        arr = st.vars[place]
        return "⟨" + ", ".join(v.t for v in arr) + "⟩"
    return result


def vars16(tr, st, ret, out, ind):
    return "⟨" + ", ".join(st.vars[x].t for x in X) + "⟩"


def loop_body(stmts):
    """the destructuring `let [mut x0, …] = self.state;` + the body of the `for` (one iteration)"""
    out = []
    for s in stmts:
        if s[0] == "for":
            return out + s[3]
        out.append(s)
    raise TranslateError("no for loop")


def init_result(tr, st, ret, out, ind):
    if ret is None or ret[0] != "struct" or ret[1] != "Self" or [f for f, _ in ret[2]] != ["state"] or ret[2][0][1] != ("path", "state"):
        raise TranslateError("expected trailing `Self { state }`")
    return ".ok ⟨" + ", ".join(v.t for v in st.vars["state"]) + "⟩"


CST = {**{f"Self::CST16[{i}]": (t, "u32") for i, t in enumerate(["CST16.1", "CST16.2.1", "CST16.2.2.1", "CST16.2.2.2"])},
       **{f"Self::CST32[{i}]": (t, "u32") for i, t in enumerate(["CST32.1", "CST32.2.1", "CST32.2.2.1", "CST32.2.2.2"])}}

KERNELS = [
    MK(kind="macro", file=F, fn="QR", lean_name="QR_src", params="(a b c d : UInt32)", ret_type="UInt32 × UInt32 × UInt32 × UInt32",
       env={v: (v, "u32") for v in "abcd"}, rot=ROT, doc="`QR!(a, b, c, d)` (the macro assigns all four parameters; they are returned)",
       result=lambda tr, st, ret, out, ind: "(" + ", ".join(st.vars[v].t for v in "abcd") + ")"),
    MK(file=F, fn="rounds", lean_name="doubleRound_src", params="(w : W16)", ret_type="W16", env={"self.state": (WS("w"), "u32")},
       rot=ROT, macro_fns={"QR": "QR_src"}, select=loop_body, result=vars16,
       doc="one iteration of the `for _ in 0..(ROUNDS / 2)` loop of `State::rounds`"),
    MK(file=F, fn="rounds", lean_name="rounds_src", params="(R : Nat) (w : W16)", ret_type="W16", env={"self.state": (WS("w"), "u32")},
       consts={"ROUNDS": ("R", "usize")}, rot=ROT, macro_fns={"QR": "QR_src"},
       loop_fn=("loop", "doubleRound_src", lambda ts, places: "⟨" + ", ".join(dict(zip(places, ts))[x] for x in X) + "⟩",
                lambda ns, places: "⟨" + ", ".join(dict(zip(places, ns))[x] for x in X) + "⟩"),
       result=w16_of("self.state"), doc="`State::rounds` (the loop body is `doubleRound_src`, translated from the same lines)"),
    MK(file=F, fn="set_counter", lean_name="set_counter_src", params="(w : W16) (counter : UInt32)", ret_type="W16",
       env={"self.state": (WS("w"), "u32"), "counter": ("counter", "u32")}, result=w16_of("self.state"), doc="`State::set_counter`"),
    MK(file=F, fn="increment", lean_name="increment_src", params="(w : W16)", ret_type="W16",
       env={"self.state": (WS("w"), "u32")}, result=w16_of("self.state"), doc="`State::increment`"),
    MK(file=F, fn="verif_set_counter64", lean_name="verif_set_counter64_src", params="(w : W16) (counter : UInt64)", ret_type="W16",
       env={"self.state": (WS("w"), "u32"), "counter": ("counter", "u64")}, result=w16_of("self.state"), doc="`State::verif_set_counter64` (hook)"),
    MK(file=F, fn="increment64", lean_name="increment64_src", params="(w : W16)", ret_type="W16",
       env={"self.state": (WS("w"), "u32")}, result=w16_of("self.state"), doc="`State::increment64`"),
    MK(file=F, fn="add_back", lean_name="add_back_src", params="(s initial : W16)", ret_type="W16",
       env={"self.state": (WS("s"), "u32"), "initial.state": (WS("initial"), "u32")}, result=w16_of("self.state"),
       doc="`State::add_back` (the `for i in 0..16` loop unrolled)"),
    MK(file=F, fn="init", lean_name="init_src", params="(key nonce : Bytes)", ret_type="Except String W16",
       env={"key": ("key", BYTES), "nonce": ("nonce", BYTES), **CST}, calls=CALLS, panic='.error "PANIC"', result=init_result,
       doc="`State::init`: key / nonce layout; slicing beyond the length and `unreachable!()` are the panic value"),
]
HEADER = "import CxVerif.Impl.ChaCha\nnamespace Cx.Extracted.KernelsChaChaRef\nopen Cx Cx.Impl Cx.Impl.ChaCha.Reference\nset_option autoImplicit false\n"
FOOTER = "end Cx.Extracted.KernelsChaChaRef\n"
LEAN_FILE = "KernelsChaChaRef"
