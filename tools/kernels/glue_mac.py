"""glue specs (tools/ktx_glue_mac.py): the stateful glue of the MAC objects
     src/mac.rs       MacResult (structure generated from the declaration), new / new_from_owned / code / eq
     src/poly1305.rs  Poly1305::new, block (hibit + kernel tail), finish (prologue + kernel tail), impl Mac for Poly1305
     src/hmac.rs      derive_key, expand_key, create_keys, Hmac::new, impl Mac for Hmac<D>
   -> lean/CxVerif/Extracted/GlueMac.lean; tie theorems: lean/CxVerif/Props/C05/GlueTieMac.lean"""
import ktx_glue_mac as G
from ktx_glue_mac import Module, Fn, Ext, Rec, StructSpec, KernelTail, Ty, TNat, TBool
from kernel_translate import show, TranslateError

TRANSLATE = G.translate

CHOICE = Ty("ext", "Impl.CT.Choice")

MAC = Module(
    file="src/mac.rs", style="option", prefix="",
    structs={"MacResult": StructSpec("MacResult", generate=True)},
    # `impl CtEqual for &[u8]` (asserts equal lengths) and `impl From<Choice> for bool` (= is_true): src/constant_time.rs,
    # tied by Props/C18 KernelTieCT; here they are externs
    ext_fns={"CtEqual::ct_eq": Ext("Impl.CT.slice_u8_ct_eq {0} {1}", args=["val", "val"], ret=CHOICE, fails="option")},
    ext_methods={("Impl.CT.Choice", "into"): Ext("{self}.isTrue", ret=TBool)},
)

P = "Impl.Poly1305."
POLY = Module(
    file="src/poly1305.rs", style="except", prefix="Poly1305.", panic_ty=P + "Panic", uses=[MAC],
    structs={"Poly1305": StructSpec(P + "State")},
    recs={("u32", 5): Rec(P + "L5", ["l0", "l1", "l2", "l3", "l4"]), ("u32", 4): Rec(P + "L4", ["w0", "w1", "w2", "w3"])},
    ext_fns={
        # cryptoutil::read_u32_le: `<&[u8; 4]>::try_from(input).unwrap()` then from_le_bytes
        "read_u32_le": Ext("leNat {0}", args=["val"], ret=TNat("u32"), arg_len={0: 4}),
        # cryptoutil::write_u32_le: `*<&mut [u8; 4]>::try_from(dst).unwrap() = input.to_le_bytes()`
        "write_u32_le": Ext("", args=["set", "val"], writes={0: "natToLE 4 {1}"}, arg_len={0: 4}),
    },
)

HMAC = Module(
    file="src/hmac.rs", style="option", prefix="Hmac.", uses=[MAC],
    generic=("D", "δ", "D", "Impl.Digest.DigestModel δ"),
    structs={"Hmac": StructSpec("Impl.Hmac.Hmac δ")},
    # `trait Digest` (src/digest.rs) through the dictionary `D : DigestModel δ` (Impl/Digest.lean): `result` takes the
    # LENGTH of the output slice and returns its new contents
    ext_methods={
        ("D", "block_size"): Ext("{D}.block_size {self}", ret=TNat("usize")),
        ("D", "output_bytes"): Ext("{D}.output_bytes {self}", ret=TNat("usize")),
        ("D", "input"): Ext("{D}.input {self} {0}", args=["val"], mut_self=True, fails="option"),
        ("D", "result"): Ext("{D}.result {self} {0.len}", args=["out"], mut_self=True, fails="option"),
        ("D", "reset"): Ext("{D}.reset {self}", mut_self=True, fails="option"),
    },
)

IMPL_POLY = r"impl Poly1305 \{"
MAC_POLY = r"impl Mac for Poly1305"
IMPL_HMAC = r"impl<D: Digest> Hmac<D> \{"
MAC_HMAC = r"Mac for Hmac<D>"


def block_glue(i, s):
    return s[0] == "let" and s[1] == ("var", "hibit")


def finish_glue(i, s):
    if s[0] in ("expr", "ret") and s[1][0] == "if":
        return True
    if s[0] == "assign":
        try:
            return show(s[1]) == "self.finalized"
        except TranslateError:
            return False
    return False


KERNELS = [
    # ---- src/mac.rs
    Fn(MAC, "MacResult", kind="struct", name="MacResult"),
    Fn(MAC, "new", r"impl MacResult \{", owner="MacResult", name="MacResult.new_src", doc="`MacResult::new`"),
    Fn(MAC, "new_from_owned", r"impl MacResult \{", owner="MacResult", name="MacResult.new_from_owned_src", doc="`MacResult::new_from_owned`"),
    Fn(MAC, "code", r"impl MacResult \{", owner="MacResult", name="MacResult.code_src", doc="`MacResult::code`"),
    Fn(MAC, "eq", r"impl PartialEq for MacResult", owner="MacResult", name="MacResult.eq_src", doc="`impl PartialEq for MacResult`"),
    # ---- src/poly1305.rs
    Fn(POLY, "Poly1305", kind="check_struct", name="struct_ok",
       glue=[("r", P + "L5"), ("h", P + "L5"), ("pad", P + "L4"), ("leftover", "Nat"), ("buffer", "Bytes"), ("finalized", "Bool")]),
    Fn(POLY, "new", IMPL_POLY, owner="Poly1305", doc="`Poly1305::new`: clamp, limb split, pad words"),
    Fn(POLY, "block", IMPL_POLY, owner="Poly1305", glue=block_glue,
       tail=KernelTail("poly1305", "block", "Poly1305.blockKernel self.r self.h m hibit"),
       doc="`Poly1305::block`: the choice of `hibit`, then the limb kernel (tied by Props/C05/KernelTie.lean)"),
    Fn(POLY, "finish", IMPL_POLY, owner="Poly1305", glue=finish_glue,
       tail=KernelTail("poly1305", "finish", "Poly1305.finishKernel self.h self.pad"),
       doc="`Poly1305::finish`: final partial block with the 0x01 marker, the `finalized` flag, then the limb kernel"),
    Fn(POLY, "input", MAC_POLY, owner="Poly1305", fuel=["m.length"],
       doc="`impl Mac for Poly1305`: `input` (staging buffer, top-up, whole-block loop, tail)"),
    Fn(POLY, "reset", MAC_POLY, owner="Poly1305", doc="`impl Mac for Poly1305`: `reset`"),
    Fn(POLY, "raw_result", MAC_POLY, owner="Poly1305", doc="`impl Mac for Poly1305`: `raw_result`"),
    Fn(POLY, "result", MAC_POLY, owner="Poly1305", doc="`impl Mac for Poly1305`: `result`"),
    Fn(POLY, "output_bytes", MAC_POLY, owner="Poly1305", doc="`impl Mac for Poly1305`: `output_bytes`"),
    # ---- src/hmac.rs
    Fn(HMAC, "Hmac", kind="check_struct", name="struct_ok",
       glue=[("digest", "δ"), ("i_key", "Bytes"), ("o_key", "Bytes"), ("finished", "Bool")]),
    Fn(HMAC, "derive_key", doc="`derive_key`"),
    Fn(HMAC, "expand_key", doc="`expand_key`"),
    Fn(HMAC, "create_keys", doc="`create_keys`"),
    Fn(HMAC, "new", IMPL_HMAC, owner="Hmac", doc="`Hmac::new`"),
    Fn(HMAC, "input", MAC_HMAC, owner="Hmac", doc="`impl Mac for Hmac<D>`: `input`"),
    Fn(HMAC, "reset", MAC_HMAC, owner="Hmac", doc="`impl Mac for Hmac<D>`: `reset`"),
    Fn(HMAC, "raw_result", MAC_HMAC, owner="Hmac", doc="`impl Mac for Hmac<D>`: `raw_result`"),
    Fn(HMAC, "result", MAC_HMAC, owner="Hmac", doc="`impl Mac for Hmac<D>`: `result`"),
    Fn(HMAC, "output_bytes", MAC_HMAC, owner="Hmac", doc="`impl Mac for Hmac<D>`: `output_bytes`"),
]

HEADER = """import CxVerif.Impl.Poly1305
import CxVerif.Impl.Hmac
import CxVerif.Impl.ConstantTime
import CxVerif.Extracted.KernelsPoly1305
/-!
  Extracted.GlueMac — the stateful glue of the MAC objects as the source says it NOW (tools/ktx_glue_mac.py;
  specs: tools/kernels/glue_mac.py).  `&mut` parameters are returned; `Except Panic` / `Option` failure exactly where
  Rust panics.  Tie theorems: Props/C05/GlueTieMac.lean.
-/
set_option linter.unusedVariables false
namespace Cx.Extracted.GlueMac
open Cx

/-- kernel wrapper of `Poly1305::block` (hand-written part of the contract): the VALUE is the generated kernel
    `KernelsPoly1305.block_src`; the panics (`&m[12..16]` on a short slice, a checked u32/u64 operation that does not fit)
    are those of the hand model -/
def Poly1305.blockKernel (r h : Impl.Poly1305.L5) (m : Bytes) (hibit : Nat) : Except Impl.Poly1305.Panic Impl.Poly1305.L5 :=
  if m.length < 16 then .error .index else
  if (Impl.Poly1305.blockArith r h (Impl.Poly1305.loadBlock m hibit)).Ok then .ok (KernelsPoly1305.block_src r h m hibit)
  else .error .overflow

/-- kernel wrapper of `Poly1305::finish` from `// fully carry h` on -/
def Poly1305.finishKernel (h : Impl.Poly1305.L5) (pad : Impl.Poly1305.L4) : Except Impl.Poly1305.Panic Impl.Poly1305.L4 :=
  if (Impl.Poly1305.finishArith h pad).Ok then .ok (KernelsPoly1305.finish_src h pad) else .error .overflow
"""
FOOTER = "end Cx.Extracted.GlueMac\n"
LEAN_FILE = "GlueMac"
