"""kernel spec: `Poly1305::new` of src/poly1305.rs (key clamp / split; shape of `Impl.Poly1305.new`: Nat limbs).
(`block` / `finish` are tied by tools/kernels/poly1305.py with the Nat backends of kernel_translate.py.)"""
import ktx_misc
from ktx_misc import MK, TranslateError

TRANSLATE = ktx_misc.translate
F = "src/poly1305.rs"


def rd32(tr, vs):
    (_, base, lo, hi), = vs
    if hi is None or hi - lo != 4:
        raise TranslateError("read_u32_le of a slice that is not 4 bytes long (would panic)")
    return f"rd32 {base.p()} {lo}"


def new_result(tr, st, ret, out, ind):
    if ret is None or ret[0] != "struct" or ret[1] != "Poly1305":
        raise TranslateError("expected trailing `Poly1305 { … }`")
    fields = dict(ret[2])
    if sorted(fields) != ["buffer", "finalized", "h", "leftover", "pad", "r"]:
        raise TranslateError(f"unexpected fields {sorted(fields)}")

    def arr(e, n, ety):
        if e[0] == "path":
            vs = st.vars.get(e[1])
        elif e[0] == "repeat" and tr.const_int(e[2], st) == n:
            v = tr.ex(e[1], st, ety, out, ind)
            vs = [v] * n
        else:
            vs = None
        if not isinstance(vs, list) or len(vs) != n or any(v.ty != ety for v in vs):
            raise TranslateError("field is not an array of the expected shape")
        return vs
    r, h, pad = arr(fields["r"], 5, "u32"), arr(fields["h"], 5, "u32"), arr(fields["pad"], 4, "u32")
    buf = arr(fields["buffer"], 16, "u8")
    if any(v.t != "0" for v in buf):
        raise TranslateError("buffer is not zero-initialised")
    if fields["leftover"] != ("lit", 0, None) or fields["finalized"] != ("path", "false"):
        raise TranslateError("leftover / finalized initial values")
    t = lambda vs: "⟨" + ", ".join(v.t for v in vs) + "⟩"
    return f"{{ r := {t(r)}, h := {t(h)}, pad := {t(pad)}, leftover := 0, buffer := zeros 16, finalized := false }}"


KERNELS = [
    MK(file=F, fn="new", lean_name="new_src", params="(key : Bytes)", ret_type="State", mode="nat",
       env={"key": ("key", ("list", "u8", 32))}, calls={"read_u32_le": (rd32, "u32", [None])}, result=new_result,
       doc="`Poly1305::new(key: &[u8; 32])`: clamped r limbs (26-bit, overlapping loads), the pad words, zero state"),
]
HEADER = "import CxVerif.Impl.Poly1305\nnamespace Cx.Extracted.KernelsPoly1305New\nopen Cx Cx.Impl.Poly1305\nset_option autoImplicit false\n"
FOOTER = "end Cx.Extracted.KernelsPoly1305New\n"
LEAN_FILE = "KernelsPoly1305New"
