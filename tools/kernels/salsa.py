"""kernel specs: src/salsa20.rs `State<R>`  (shape of lean/CxVerif/Impl/Salsa.lean: W16 records of UInt32)"""
import ktx_misc
from ktx_misc import MK, TranslateError, V
from kernels.chacha_ref import X, WS, ROT, BYTES, CALLS, w16_of, vars16, loop_body

TRANSLATE = ktx_misc.translate
F = "src/salsa20.rs"
SC = r"impl<const ROUNDS: usize> State<ROUNDS>"


def write_u32_le(tr, e, st, out, ind):
    """`write_u32_le(&mut output[a..a+4], v)`: records the word written at byte offset a"""
    dst, val = e[2]
    while dst[0] in ("paren", "deref"):
        dst = dst[1]
    if dst[0] != "index" or dst[2][0] != "range" or tr.place_key(dst[1], st) != "output":
        raise TranslateError("write_u32_le: destination is not a slice of `output`")
    lo, hi = tr.const_int(dst[2][1], st), tr.const_int(dst[2][2], st)
    if hi - lo != 4 or lo % 4 or not 0 <= lo < 32:
        raise TranslateError("write_u32_le: destination is not an aligned 4-byte slice of the 32-byte buffer")
    v = tr.ex(val, st, "u32", out, ind)
    if v.ty != "u32":
        raise TranslateError("write_u32_le: value type")
    st.outputs[f"output@{lo:02d}"] = v.t


def ad_result(tr, st, ret, out, ind):
    keys = sorted(st.outputs)
    if keys != [f"output@{4 * i:02d}" for i in range(8)]:
        raise TranslateError(f"output_ad_bytes does not write every word of the 32-byte buffer exactly: {keys}")
    return "[" + ", ".join(st.outputs[k] for k in keys) + "].flatMap u32le"


def init_result(tr, st, ret, out, ind):
    if ret is None or ret[0] != "struct" or ret[1] != "Self" or [f for f, _ in ret[2]] != ["state"] or ret[2][0][1] != ("path", "state"):
        raise TranslateError("expected trailing `Self { state }`")
    return ".ok ⟨" + ", ".join(v.t for v in st.vars["state"]) + "⟩"


KERNELS = [
    MK(kind="macro", file=F, fn="QR", lean_name="QR_src", params="(a b c d : UInt32)", ret_type="UInt32 × UInt32 × UInt32 × UInt32",
       env={v: (v, "u32") for v in "abcd"}, rot=ROT, doc="`QR!(a, b, c, d)` (the macro assigns all four parameters; they are returned)",
       result=lambda tr, st, ret, out, ind: "(" + ", ".join(st.vars[v].t for v in "abcd") + ")"),
    MK(file=F, fn="rounds", scope=SC, lean_name="doubleRound_src", params="(w : W16)", ret_type="W16", env={"self.state": (WS("w"), "u32")},
       rot=ROT, macro_fns={"QR": "QR_src"}, select=loop_body, result=vars16,
       doc="one iteration of the `for _ in 0..(ROUNDS / 2)` loop of `State::rounds`"),
    MK(file=F, fn="rounds", scope=SC, lean_name="rounds_src", params="(R : Nat) (w : W16)", ret_type="W16", env={"self.state": (WS("w"), "u32")},
       consts={"ROUNDS": ("R", "usize")}, rot=ROT, macro_fns={"QR": "QR_src"},
       loop_fn=("loop", "doubleRound_src", lambda ts, places: "⟨" + ", ".join(dict(zip(places, ts))[x] for x in X) + "⟩",
                lambda ns, places: "⟨" + ", ".join(dict(zip(places, ns))[x] for x in X) + "⟩"),
       result=w16_of("self.state"), doc="`State::rounds` (the loop body is `doubleRound_src`, translated from the same lines)"),
    MK(file=F, fn="add_back", scope=SC, lean_name="add_back_src", params="(s initial : W16)", ret_type="W16",
       env={"self.state": (WS("s"), "u32"), "initial.state": (WS("initial"), "u32")}, result=w16_of("self.state"),
       doc="`State::add_back` (the `for i in 0..16` loop unrolled)"),
    MK(file=F, fn="verif_set_counter64", scope=SC, lean_name="verif_set_counter64_src", params="(w : W16) (counter : UInt64)", ret_type="W16",
       env={"self.state": (WS("w"), "u32"), "counter": ("counter", "u64")}, result=w16_of("self.state"), doc="`State::verif_set_counter64` (hook)"),
    MK(file=F, fn="increment", scope=SC, lean_name="increment_src", params="(w : W16)", ret_type="W16",
       env={"self.state": (WS("w"), "u32")}, result=w16_of("self.state"), doc="`State::increment` (64-bit counter in words 8, 9)"),
    MK(file=F, fn="output_ad_bytes", scope=SC, lean_name="output_ad_bytes_src", params="(w : W16)", ret_type="Bytes",
       env={"self.state": (WS("w"), "u32")}, stmt_calls={"write_u32_le": write_u32_le}, result=ad_result,
       doc="`State::output_ad_bytes` (HSalsa20 output words 0,5,10,15,6,7,8,9): the eight 4-byte writes cover `[u8; 32]` exactly"),
    MK(file=F, fn="init", scope=SC, lean_name="init_src", params="(key nonce : Bytes)", ret_type="Except String W16",
       env={"key": ("key", BYTES), "nonce": ("nonce", BYTES)}, calls=CALLS, panic='.error "PANIC"', result=init_result,
       bstr={"expand 16-byte k": ("Cx.Extracted.Stream.SALSA_CST16", ("list", "u8", 16)), "expand 32-byte k": ("Cx.Extracted.Stream.SALSA_CST32", ("list", "u8", 16))},
       doc="`State::init`: constant / key / nonce layout; slicing beyond the length and `unreachable!()` are the panic value "
           "(the byte strings are the extracted tables SALSA_CST16/32: `Props.C03` table theorems)"),
]
HEADER = "import CxVerif.Impl.Salsa\nnamespace Cx.Extracted.KernelsSalsa\nopen Cx Cx.Impl Cx.Impl.Salsa\nset_option autoImplicit false\n"
FOOTER = "end Cx.Extracted.KernelsSalsa\n"
LEAN_FILE = "KernelsSalsa"
