"""glue specs (tools/ktx_glue_kdf.py): the stateful glue of the key-derivation functions
     src/hkdf.rs        hkdf_extract, hkdf_expand (per-block loop, one-byte counter)
     src/pbkdf2.rs      calculate_block (c = 1 / c = 2 / `for _ in 2..c`), pbkdf2 (block loop, partial last block, refusals)
     src/scrypt.rs      xor, scrypt_block_mix, integerify, scrypt_ro_mix, ScryptParams::new, scrypt
   -> lean/CxVerif/Extracted/GlueKdf.lean; tie theorems: lean/CxVerif/Props/C10/GlueTieKdf.lean"""
import ktx_glue_kdf as K
from ktx_glue_kdf import KModule, KFn, Ext, StructSpec, Ty, TNat, TBytes, TExt

TRANSLATE = K.translate

HM = "Impl.Hmac.Hmac"

# `impl Mac for Hmac<D>` / `Hmac::new` (src/hmac.rs): the MODEL's functions, tied to the source by Props/C05/GlueTieMac.lean
def hmac_methods(key, D):
    return {
        (key, "input"): Ext(f"{HM}.input {D} {{self}} {{0}}", args=["val"], mut_self=True, fails="option"),
        (key, "raw_result"): Ext(f"{HM}.raw_result {D} {{self}} {{0.len}}", args=["out"], mut_self=True, fails="option"),
        (key, "reset"): Ext(f"{HM}.reset {D} {{self}}", mut_self=True, fails="option"),
        (key, "output_bytes"): Ext(f"{HM}.output_bytes {D} {{self}}", ret=TNat("usize")),
    }

HMAC_D = TExt(f"{HM} δ")
HKDF = KModule(
    file="src/hkdf.rs", style="option", prefix="",
    generic=("D", "δ", "D", "Impl.Digest.DigestModel δ"),
    checked={("u8", "checked_add"): "checkedAdd {bits} {0} {1}"},
    arith={"usize": {"+": "math", "*": "math", "-": "guard", "/": "guard", "%": "guard"}},
    ext_fns={"Hmac::new": Ext(f"{HM}.new D {{0}} {{1}}", args=["val", "val"], ret=HMAC_D, fails="option")},
    ext_methods={
        # `trait Digest` through the dictionary `D : DigestModel δ`
        ("D", "output_bytes"): Ext("{D}.output_bytes {self}", ret=TNat("usize")),
        ("D", "reset"): Ext("{D}.reset {self}", mut_self=True, fails="option"),
        **hmac_methods(HMAC_D.lean, "D"),
    },
)

PBKDF2 = KModule(
    file="src/pbkdf2.rs", style="option", prefix="",
    generic=("M", "μ", "M", "Impl.Digest.MacModel μ"),
    checked={("u32", "checked_add"): "checkedAdd {bits} {0} {1}"},
    arith={"usize": {"+": "math", "*": "math", "-": "guard", "/": "guard", "%": "guard"}},
    ext_methods={
        # `trait Mac` through the dictionary `M : MacModel μ`
        ("M", "input"): Ext("{D}.input {self} {0}", args=["val"], mut_self=True, fails="option"),
        ("M", "raw_result"): Ext("{D}.raw_result {self} {0.len}", args=["out"], mut_self=True, fails="option"),
        ("M", "reset"): Ext("{D}.reset {self}", mut_self=True, fails="option"),
        ("M", "output_bytes"): Ext("{D}.output_bytes {self}", ret=TNat("usize")),
    },
)

SHA = "Impl.Kdf.sha256Digest"
HMAC_SHA = TExt(f"{HM} Impl.Kdf.Sha256Obj")
SHA_OBJ = TExt("Impl.Kdf.Sha256Obj")
SCRYPT = KModule(
    file="src/scrypt.rs", style="option", prefix="", uses=[PBKDF2],
    structs={"ScryptParams": StructSpec("Impl.Kdf.ScryptParams")},
    checked={("usize", "checked_mul"): "Impl.Kdf.checked_mul {0} {1}"},
    arith={"usize": {"+": "math", "*": "math", "-": "guard", "/": "guard", "%": "guard"}},
    dicts={"pbkdf2": f"(Impl.Hmac.hmacMac {SHA})"},
    ext_fns={
        # cryptoutil::read_u32_le: `<&[u8; 4]>::try_from(input).unwrap()` then from_le_bytes
        "read_u32_le": Ext("leNat {0}", args=["val"], ret=TNat("u32"), arg_len={0: 4}),
        # `fn salsa20_8(input, output: 64 bytes)`: the model's function over the re-extracted row table (Props/C10/Scrypt.lean)
        "salsa20_8": Ext("Impl.Kdf.salsa20_8 {0}", args=["val", "out"], fails="option", arg_len={1: 64}),
        "Sha256::new": Ext("Impl.Digest.Legacy.new Impl.Digest.sha256Ctx", args=[], ret=SHA_OBJ),
        "Hmac::new": Ext(f"{HM}.new {SHA} {{0}} {{1}}", args=["val", "val"], ret=HMAC_SHA, fails="option"),
    },
)

KERNELS = [
    # ---- src/hkdf.rs
    KFn(HKDF, "hkdf_extract", doc="`hkdf_extract`"),
    KFn(HKDF, "hkdf_expand", doc="`hkdf_expand`: the per-block loop with the one-byte counter"),
    # ---- src/pbkdf2.rs
    KFn(PBKDF2, "calculate_block", doc="`calculate_block`: first iteration, second iteration (`c > 1`), `for _ in 2..c`"),
    KFn(PBKDF2, "pbkdf2", doc="`pbkdf2`: refusals, block loop with the u32 block index, partial last block"),
    # ---- src/scrypt.rs
    KFn(SCRYPT, "ScryptParams", kind="check_struct", name="ScryptParams.struct_ok",
        fields=[("log_n", "Nat"), ("r", "Nat"), ("p", "Nat")]),
    KFn(SCRYPT, "xor", doc="`xor`: three-way zip"),
    KFn(SCRYPT, "scrypt_block_mix", doc="`scrypt_block_mix`"),
    KFn(SCRYPT, "integerify", r"fn scrypt_ro_mix", doc="`integerify` (nested in `scrypt_ro_mix`)"),
    KFn(SCRYPT, "scrypt_ro_mix", doc="`scrypt_ro_mix`: fill loop over `v.chunks_mut(len)`, walk loop"),
    KFn(SCRYPT, "new", r"impl ScryptParams \{", owner="ScryptParams", name="ScryptParams.new_src", doc="`ScryptParams::new` with every check"),
    KFn(SCRYPT, "scrypt", doc="`scrypt`: the buffers, the per-chunk loop, the two PBKDF2 calls"),
]

HEADER = """import CxVerif.Impl.Kdf
/-!
  Extracted.GlueKdf — the stateful glue of the key-derivation functions as the source says it NOW (tools/ktx_glue_kdf.py; specs:
  tools/kernels/glue_kdf.py).  `&mut` parameters are returned; `none` exactly where Rust panics.
  Tie theorems: Props/C10/GlueTieKdf.lean.
-/
set_option linter.unusedVariables false
namespace Cx.Extracted.GlueKdf
open Cx

/-- `a.checked_add(b)` on an unsigned type of `bits` bits (hand-written part of the contract) -/
def checkedAdd (bits a b : Nat) : Option Nat := if a + b < 2 ^ bits then some (a + b) else none

/-- `for (o, &i) in dst.iter_mut().zip(src.iter()) { *o = f(*o, i) }`: the zip stops at the shorter one -/
def zipMut2 (f : UInt8 → UInt8 → UInt8) : Bytes → Bytes → Bytes
  | o :: dst, i :: src => f o i :: zipMut2 f dst src
  | dst, _ => dst

/-- `for ((o, &a), &b) in dst.iter_mut().zip(x.iter()).zip(y.iter()) { *o = f(*o, a, b) }` -/
def zipMut3 (f : UInt8 → UInt8 → UInt8 → UInt8) : Bytes → Bytes → Bytes → Bytes
  | o :: dst, a :: x, b :: y => f o a b :: zipMut3 f dst x y
  | dst, _, _ => dst
"""
FOOTER = "end Cx.Extracted.GlueKdf\n"
LEAN_FILE = "GlueKdf"
