"""kernel specs: src/poly1305.rs block / finish  (shape of lean/CxVerif/Impl/Poly1305.lean: Nat let-chains)"""
from kernel_translate import Kernel, TranslateError

L5 = lambda v: {f"self.{v}[{i}]": (f"{v}.l{i}", "u32") for i in range(5)}


def rd32(tr, args):
    """`read_u32_le(&m[a..b])`: the Lean primitive `rd32 m a` reads FOUR bytes, so the slice must be exactly `a..a+4` (read_u32_le
    asserts `input.len() == 4`: any other length is a panic the model does not have)"""
    if len(args) != 1 or not isinstance(args[0], tuple):
        raise TranslateError("read_u32_le of something that is not a constant slice `&m[a..b]`")
    base, lo, hi = args[0]
    if not (lo.isdigit() and hi.isdigit()) or int(hi) - int(lo) != 4:
        raise TranslateError(f"read_u32_le(&{base}[{lo}..{hi}]): the slice is not 4 bytes long (would panic)")
    return f"rd32 {base} {lo}"


CALLS = {"mul64": ("{0} * {1}", "u64", ["u32", "u32"]), "read_u32_le": (rd32, "u32", [])}
USES = {"read_u32_le": "crate::cryptoutil::read_u32_le"}


def finish_prologue(i, s):
    """the first statement of `finish`, `if self.leftover > 0 { pad; self.block(&tmp) }`, belongs to the stateful glue
    (tools/kernels/glue_mac.py: finish prologue); ONLY that statement is left out here"""
    return (i == 0 and s[0] in ("expr", "ret") and s[1][0] == "if" and s[1][3] is None
            and s[1][1] == ("bin", ">", ("field", ("path", "self"), "leftover"), ("lit", 0, None)))


def block_result(tr, ret):
    o = tr.outputs
    return "⟨" + ", ".join(o[f"h{i}"] for i in range(5)) + "⟩"


def finish_result(tr, ret):
    o = tr.outputs
    return "⟨" + ", ".join(o[f"h{i}"] for i in range(4)) + "⟩"


KERNELS = [
    Kernel(file="src/poly1305.rs", fn="block", lean_name="block_src", backend="natlet",
           params="(r h : L5) (m : Bytes) (hibit : Nat)", ret_type="L5",
           env={**L5("r"), **L5("h"), "hibit": ("hibit", "u32")},
           calls=CALLS, uses=USES, stores={f"self.h[{i}]": f"h{i}" for i in range(5)},
           stmt_filter=lambda i, s: not (i == 0 and s[0] == "let" and s[1] == ("var", "hibit")),
           result=block_result, doc="the arithmetic of `Poly1305::block` (r, h limbs; message bytes m; hibit)"),
    Kernel(file="src/poly1305.rs", fn="finish", lean_name="finish_src", backend="natlet",
           params="(h : L5) (pad : L4)", ret_type="L4",
           env={**L5("h"), **{f"self.pad[{i}]": (f"pad.w{i}", "u32") for i in range(4)}},
           calls=CALLS, uses=USES, stores={**{f"self.h[{i}]": f"h{i}" for i in range(4)}, "self.finalized": "_fin"},
           stmt_filter=lambda i, s: not finish_prologue(i, s),
           result=finish_result, doc="the arithmetic of `Poly1305::finish` after the optional last block"),
]
HEADER = "import CxVerif.Impl.Poly1305\nnamespace Cx.Extracted.KernelsPoly1305\nopen Cx Cx.Impl.Poly1305\n"
FOOTER = "end Cx.Extracted.KernelsPoly1305\n"
LEAN_FILE = "KernelsPoly1305"
