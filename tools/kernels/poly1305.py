"""kernel specs: src/poly1305.rs block / finish  (shape of lean/CxVerif/Impl/Poly1305.lean: Nat let-chains)"""
from kernel_translate import Kernel

L5 = lambda v: {f"self.{v}[{i}]": (f"{v}.l{i}", "u32") for i in range(5)}
CALLS = {"mul64": ("{0} * {1}", "u64", ["u32", "u32"]), "read_u32_le": ("rd32 {0} {1}", "u32", [])}


def block_result(tr, ret):
    o = tr.outputs
    return "⟨" + ", ".join(o[f"h{i}"] for i in range(5)) + "⟩"


def finish_result(tr, ret):
    o = tr.outputs
    return "⟨" + ", ".join(o[f"h{i}"] for i in range(4)) + "⟩"


KERNELS = [
    Kernel(file="src/poly1305.rs", fn="block", lean_name="block_src", backend="natlet",
           params="(r h : L5) (m : Bytes) (hibit : Nat)", ret_type="L5",
           env={**L5("r"), **L5("h"), "hibit": ("hibit", "u32")},
           calls=CALLS, stores={f"self.h[{i}]": f"h{i}" for i in range(5)},
           stmt_filter=lambda i, s: not (s[0] == "let" and s[1] == ("var", "hibit")),
           result=block_result, doc="the arithmetic of `Poly1305::block` (r, h limbs; message bytes m; hibit)"),
    Kernel(file="src/poly1305.rs", fn="finish", lean_name="finish_src", backend="natlet",
           params="(h : L5) (pad : L4)", ret_type="L4",
           env={**L5("h"), **{f"self.pad[{i}]": (f"pad.w{i}", "u32") for i in range(4)}},
           calls=CALLS, stores={**{f"self.h[{i}]": f"h{i}" for i in range(4)}, "self.finalized": "_fin"},
           stmt_filter=lambda i, s: not (s[0] in ("expr", "ret") and s[1][0] == "if"),
           result=finish_result, doc="the arithmetic of `Poly1305::finish` after the optional last block"),
]
HEADER = "import CxVerif.Impl.Poly1305\nnamespace Cx.Extracted.KernelsPoly1305\nopen Cx Cx.Impl.Poly1305\n"
FOOTER = "end Cx.Extracted.KernelsPoly1305\n"
LEAN_FILE = "KernelsPoly1305"
