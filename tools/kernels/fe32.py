"""kernel specs: src/curve25519/fe/fe32/mod.rs  (shape of lean/CxVerif/Impl/Fe32.lean: signed limbs on `Int`, every checked
`+ - *` of the Rust code a bind in the Option monad, `<<`/`as i32` the two's-complement wrap, `>>` floor division)"""
import ktx_misc
from ktx_misc import MK, TranslateError, V

TRANSLATE = ktx_misc.translate
F = "src/curve25519/fe/fe32/mod.rs"
LIMBS = lambda v: [f"{v}.l{i}" for i in range(10)]
INT_OPS = {
    ("+", 32): "add32", ("-", 32): "sub32", ("*", 32): "mul32", ("neg", 32): "neg32",
    ("+", 64): "add64", ("-", 64): "sub64", ("*", 64): "mul64", ("sum", 64): "sum64",
    ("<<", 32): "shl32 {0} {1}", ("<<", 64): "shl64 {0} {1}", (">>", 32): "shr {0} {1}", (">>", 64): "shr {0} {1}",
    ("cast", "i64", "i32"): "wrap32 {0}", ("cast", "u32nat", "i64"): "{0}",
    ("cast", "i32", "u8"): "u8of {0}", ("cast|", "u8"): "u8or {0} {1}",
}
def load(name, n):
    def tmpl(tr, vs):
        (_, base, lo, hi), = vs
        if base.t != "b" or hi is None or hi - lo != n:
            raise TranslateError(f"{name}: argument is not a {n}-byte slice of the input")
        return f"{name} b h {lo} (by omega)"
    return tmpl


CALLS = {"emul": ("emul {0} {1}", "i64", ["i32", "i32"]), "load_3i": (load("load_3i", 3), "i64", [None]), "load_4i": (load("load_4i", 4), "i64", [None])}


def self0_result(tr, st, ret, out, ind):
    if ret is not None:
        raise TranslateError("unexpected trailing expression")
    return "pure ⟨" + ", ".join(v.t for v in st.vars["self.0"]) + "⟩"


def bytes_result(tr, st, ret, out, ind):
    if ret is None or ret[0] != "array" or len(ret[1]) != 32:
        raise TranslateError("expected a trailing array of 32 bytes")
    vs = [tr.ex(x, st, None, out, ind) for x in ret[1]]
    if any(v.ty != "u8" for v in vs):
        raise TranslateError("output element that is not a u8")
    return "pure [" + ", ".join(v.t for v in vs) + "]"


def fe_result(tr, st, ret, out, ind):
    """trailing `Fe([e0, …, e9])`"""
    if ret is None or ret[0] != "call" or ret[1] != ("path", "Fe") or len(ret[2]) != 1 or ret[2][0][0] != "array" or len(ret[2][0][1]) != 10:
        raise TranslateError("expected trailing `Fe([..10 limbs..])`")
    vs = [tr.ex(x, st, None, out, ind) for x in ret[2][0][1]]
    if any(v.ty != "i32" for v in vs):
        raise TranslateError("Fe limb that is not an i32")
    return "pure ⟨" + ", ".join(v.t for v in vs) + "⟩"


def K(fn, scope, name, params, env, doc, **kw):
    return MK(file=F, fn=fn, scope=scope, lean_name=name, params=params, ret_type="Option Fe", env=env, doc=doc, mode="int", monadic=True,
              int_ops=INT_OPS, calls=CALLS, result=kw.pop("result", fe_result), panic="none", **kw)


FG = {"self": (LIMBS("f"), "i32"), "rhs": (LIMBS("g"), "i32")}
F1 = {"self": (LIMBS("f"), "i32")}
KERNELS = [
    K("add", r"impl Add for &Fe", "add_src", "(f g : Fe)", FG, "`impl Add for &Fe`"),
    K("sub", r"impl Sub for &Fe", "sub_src", "(f g : Fe)", FG, "`impl Sub for &Fe`"),
    K("neg", r"impl Neg for &Fe", "neg_src", "(f : Fe)", F1, "`impl Neg for &Fe`"),
    K("mul", r"impl Mul for &Fe", "mul_src", "(f g : Fe)", FG, "`impl Mul for &Fe` (`emul` is the exact i64 product of two i32)"),
    K("square", None, "square_src", "(f : Fe)", F1, "`Fe::square`"),
    K("square_and_double", None, "square_and_double_src", "(f : Fe)", F1, "`Fe::square_and_double`"),
    K("mul_small", None, "mul_small_src", "(f : Fe) (S0 : Nat)", F1, "`Fe::mul_small::<S0>` (`S0: u32`, `S0 as i64`)",
      consts={"S0": ("((S0 % 2^32 : Nat) : Int)", "u32nat")}),
    K("negate_mut", None, "negate_mut_src", "(f : Fe)", {"self.0": (LIMBS("f"), "i32")}, "`Fe::negate_mut`", result=self0_result),
    K("from_bytes", None, "from_bytes_src", "(b : Bytes) (h : b.length = 32)",
      {"s": ("b", ("list", "u8", 32))}, "`Fe::from_bytes` (`load_3i`/`load_4i` of fe/load.rs are the model's loads)"),
    MK(file=F, fn="to_bytes", lean_name="to_bytes_src", params="(f : Fe)", ret_type="Option Bytes", env=F1,
       doc="`Fe::to_bytes`: estimate of q, `h0 += 19 q`, ten plain carries on i32, the 32 output bytes", mode="int", monadic=True,
       int_ops=INT_OPS, calls=CALLS, result=bytes_result, panic="none"),
]
HEADER = "import CxVerif.Impl.Fe32\nnamespace Cx.Extracted.KernelsFe32\nopen Cx Cx.Impl.Fe32\nset_option autoImplicit false\n"
FOOTER = "end Cx.Extracted.KernelsFe32\n"
LEAN_FILE = "KernelsFe32"
