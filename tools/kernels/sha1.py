"""word-kernel specs: src/hashing/sha1.rs  (SHA-1 block function written with emulated SHA-NI intrinsics on u32x4)
   -> lean/CxVerif/Extracted/KernelsSha1.lean, tied to Impl/Sha1.lean by lean/CxVerif/Props/C01/KernelTieSha1.lean"""
import ktx_words as kw
from ktx_words import WKernel, word, words, Tup, Int

TRANSLATE = kw.translate
F = "src/hashing/sha1.rs"
FILES = ["src/simd.rs"]                                   # `struct u32x4`, `impl Add / BitXor for u32x4`
B = [f"b{i}" for i in range(16)]
ST = ["state.a", "state.b", "state.c", "state.d", "state.e"]
RENDER = {"rotate_left": "rotate_left {x} {n}"}           # `u32::rotate_left` = Impl.Sha1.rotate_left (= rotl32)


def x4(name):
    return Tup("u32x4", [word(f"{name}.x{i}", "u32") for i in range(4)])


def quad(ex, v):
    return "⟨" + ", ".join(ex.wts(v, "u32")) + "⟩"


def vec(fn, params, lean_params, **kw_):
    return WKernel(file=F, files=FILES, fn=fn, lean_name=kw_.pop("lean_name", f"{fn}_src"), params=lean_params, ret_type="u32x4",
                   args=params, render=RENDER, result=lambda ex: quad(ex, ex.ret), doc=kw_.pop("doc", f"`fn {fn}`"), **kw_)


KERNELS = [
    WKernel(file=F, files=FILES, fn="sha1_first", lean_name="sha1_first_src", params="(w0 : u32x4)", ret_type="UInt32",
            args={"w0": x4("w0")}, render=RENDER, result=lambda ex: ex.wt(ex.ret, "u32"), doc="`fn sha1_first`"),
    vec("sha1_first_add", {"e": word("e", "u32"), "w0": x4("w0")}, "(e : UInt32) (w0 : u32x4)"),
    vec("sha1msg1", {"a": x4("a"), "b": x4("b")}, "(a b : u32x4)"),
    vec("sha1msg2", {"a": x4("a"), "b": x4("b")}, "(a b : u32x4)"),
    vec("sha1_schedule_x4", {"v0": x4("v0"), "v1": x4("v1"), "v2": x4("v2"), "v3": x4("v3")}, "(v0 v1 v2 v3 : u32x4)"),
    vec("sha1_first_half", {"abcd": x4("abcd"), "msg": x4("msg")}, "(abcd msg : u32x4)"),
    vec("sha1rnds4c", {"abcd": x4("abcd"), "msg": x4("msg")}, "(abcd msg : u32x4)"),
    vec("sha1rnds4p", {"abcd": x4("abcd"), "msg": x4("msg")}, "(abcd msg : u32x4)"),
    vec("sha1rnds4m", {"abcd": x4("abcd"), "msg": x4("msg")}, "(abcd msg : u32x4)"),
] + [
    vec("sha1_digest_round_x4", {"abcd": x4("abcd"), "work": x4("work"), "i": Int(i, "i8")}, "(abcd work : u32x4)",
        lean_name=f"sha1_digest_round_x4_{i}_src", doc=f"`fn sha1_digest_round_x4` with `i = {i}` (the `match i` arm; K{i}V from K{i})")
    for i in range(4)
] + [
    WKernel(file=F, files=FILES, fn="digest_block_u32", lean_name="digest_block_u32_src",
            params="(state : Hash) (" + " ".join(B) + " : UInt32)", ret_type="Hash",
            args={"state": words(ST, "u32"), "block": words(B, "u32")}, render=RENDER,
            result=lambda ex: "⟨" + ", ".join(ex.wts(ex.var("state"), "u32")) + "⟩",
            doc="`digest_block_u32(state, block)`: the twenty `rounds4!` / `sha1_digest_round_x4` steps with the `schedule!` of "
                "the u32x4 lanes (helpers `sha1msg1/2`, `sha1_first_half`, `sha1rnds4c/p/m` inlined), final `state[j].wrapping_add(…)`"),
]
HEADER = ("import CxVerif.Impl.Sha1\nnamespace Cx.Extracted.KernelsSha1\nopen Cx\nopen Cx.Spec.Sha1 (Hash)\n"
          "open Cx.Impl.Sha1 (u32x4 rotate_left)\n")
FOOTER = "end Cx.Extracted.KernelsSha1\n"
LEAN_FILE = "KernelsSha1"
