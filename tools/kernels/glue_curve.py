"""glue specs (tools/ktx_glue_curve.py): the CURVE LAYER above the fe64 / scalar64 limb kernels
     src/curve25519/ge.rs      every representation and formula, select, scalarmult_base, double_scalarmult_vartime
     src/ed25519.rs            keypair / signature / verify / exchange and their helpers
     src/curve25519/mod.rs     curve25519, curve25519_base (clamping + ladder);  src/x25519.rs  dh, base
     src/curve25519/fe/…       the compositions (invert, pow25523, predicates, masked swaps)
     src/curve25519/scalar/…   from_bytes_canonical, muladd, slide
   -> lean/CxVerif/Extracted/GlueCurve.lean; tie theorems: lean/CxVerif/Props/C15/GlueTieCurve.lean"""
import ktx_glue_curve as G
from ktx_glue_curve import Fn, Ext, StructSpec, Program

TRANSLATE = G.translate
LEAN_FILE = "GlueCurve"

F_GE = "src/curve25519/ge.rs"
F_FE = "src/curve25519/fe/mod.rs"
F_FE64 = "src/curve25519/fe/fe64/mod.rs"
F_SC = "src/curve25519/scalar/mod.rs"
F_SC64 = "src/curve25519/scalar/scalar64.rs"
F_CURVE = "src/curve25519/mod.rs"
F_X = "src/x25519.rs"
F_ED = "src/ed25519.rs"

STRUCTS = {
    "Fe": StructSpec(F_FE64, "Fe", newtype="[u64; 5]"),
    "Scalar": StructSpec(F_SC64, "Scalar64.Scalar", newtype="[u64; 5]"),
    "Ge": StructSpec(F_GE, "Ge", [("x", "x", "Fe"), ("y", "y", "Fe"), ("z", "z", "Fe"), ("t", "t", "Fe")]),
    "GePartial": StructSpec(F_GE, "GePartial", [("x", "x", "Fe"), ("y", "y", "Fe"), ("z", "z", "Fe")]),
    "GeP1P1": StructSpec(F_GE, "GeP1P1", [("x", "x", "Fe"), ("y", "y", "Fe"), ("z", "z", "Fe"), ("t", "t", "Fe")]),
    "GePrecomp": StructSpec(F_GE, "GePrecomp", [("y_plus_x", "y_plus_x", "Fe"), ("y_minus_x", "y_minus_x", "Fe"), ("xy2d", "xy2d", "Fe")]),
    "GeAffine": StructSpec(F_GE, "GeAffine", [("x", "x", "Fe"), ("y", "y", "Fe")]),
    "GeCached": StructSpec(F_GE, "GeCached", [("y_plus_x", "y_plus_x", "Fe"), ("y_minus_x", "y_minus_x", "Fe"), ("z", "z", "Fe"), ("t2d", "t2d", "Fe")]),
    "Sha512": StructSpec("src/hashing/sha2/mod.rs", "Sha2.Ctx512", opaque=True),
    "SecretKey": StructSpec(F_X, None, newtype="[u8; 32]"),
    "PublicKey": StructSpec(F_X, None, newtype="[u8; 32]"),
    "SharedSecret": StructSpec(F_X, None, newtype="[u8; 32]"),
}

B32, B64 = "[u8; 32]", "[u8; 64]"
EXT = {
    # ---- fe64 limb kernels (tied by Props/C15/KernelTieFe64.lean) and the Fe compositions (tied below, family (a))
    ("Fe", "square"): Ext("square {self}", [], "Fe", fails=True, recv="Fe"),
    ("Fe", "square_and_double"): Ext("square_and_double {self}", [], "Fe", fails=True, recv="Fe"),
    ("Fe", "square_repeatdly"): Ext("square_repeatdly {self} {0}", ["usize"], "Fe", fails=True, recv="Fe"),
    ("Fe", "mul_small"): Ext("mul_small {self} {g0}", [], "Fe", fails=True, recv="Fe"),
    ("Fe", "negate_mut"): Ext("negate_mut {self}", [], None, fails=True, outs=["self"], recv="Fe"),
    ("Fe", "invert"): Ext("invert {self}", [], "Fe", fails=True, recv="Fe"),
    ("Fe", "pow25523"): Ext("pow25523 {self}", [], "Fe", fails=True, recv="Fe"),
    ("Fe", "is_nonzero"): Ext("is_nonzero {self}", [], "bool", fails=True, recv="Fe"),
    ("Fe", "is_negative"): Ext("is_negative {self}", [], "bool", fails=True, recv="Fe"),
    ("Fe", "to_bytes"): Ext("Fe64.to_bytes {self}", [], B32, fails=True, recv="Fe"),
    ("Fe", "from_bytes"): Ext("Fe64.fromBytes {0}", [B32], "Fe", fails=True),
    ("Fe", "maybe_set"): Ext("Fe64.maybe_set {self} {0} {1}", ["Fe", "Choice"], None, outs=["self"], recv="Fe"),
    ("Fe", "maybe_swap_with"): Ext("maybe_swap_with {self} {0} {1}", ["Fe", "Choice"], None, outs=["self", 0], recv="Fe"),
    ("Fe", "to_packed"): Ext("to_packed {self}", [], "[u64; 4]", fails=True, recv="Fe"),
    ("Fe", "ct_eq"): Ext("Fe64.ct_eq {self} {0}", ["Fe"], "Choice", fails=True, recv="Fe"),
    (None, "ct_array64_maybe_swap_with"): Ext("(fun r => (Fe.ofWords r.1, Fe.ofWords r.2)) (CT.ct_array64_maybe_swap_with (Fe.toWords {0}) (Fe.toWords {1}) {2})",
                                              ["&mut Fe", "&mut Fe", "Choice"], None, outs=[0, 1]),
    (None, "ct_array64_maybe_set"): Ext("Fe.ofWords (CT.ct_array64_maybe_set (Fe.toWords {0}) (Fe.toWords {1}) {2})",
                                        ["&mut Fe", "Fe", "Choice"], None, outs=[0]),
    ("u64", "to_le_bytes"): Ext("natToLE 8 {self}", [], "[u8; 8]", recv="u64"),
    ("choice", "negate"): Ext("CT.Choice.negate {self}", [], "Choice", recv="Choice"),
    ("choice", "is_true"): Ext("CT.Choice.isTrue {self}", [], "bool", recv="Choice"),
    ("list:u64", "ct_eq"): Ext("CT.array_u64_ct_eq ({self}.map UInt64.ofNat) ({0}.map UInt64.ofNat)", ["[u64; 4]"], "Choice", recv="[u64; 4]"),
    (None, "barrett_reduce256"): Ext("Scalar64.barrett_reduce256 {0} {1}", ["Scalar", "Scalar"], "Scalar", fails=True),
    (None, "lt_order"): Ext("Scalar64.lt_order {0}", ["Scalar"], "bool", fails=True),
    (None, "mul"): Ext("Scalar64.mul {0} {1}", ["Scalar", "Scalar"], "Scalar", fails=True),
    (None, "add"): Ext("Scalar64.add {0} {1}", ["Scalar", "Scalar"], "Scalar", fails=True),
    ("Scalar", "bits"): Ext("(Scalar64.bits {self}).toList", [], "[i8; 256]", recv="Scalar"),
    # ---- constant_time.rs (tied by Props/C18KernelTie.lean)
    ("u8", "ct_eq"): Ext("CT.u8_ct_eq {self} {0}", ["u8"], "Choice", recv="u8"),
    ("u8", "ct_nonzero"): Ext("CT.u8_ct_nonzero {self}", [], "Choice", recv="u8"),
    ("u64", "ct_zero"): Ext("CT.u64_ct_zero {self}", [], "Choice", recv="u64"),
    ("bytes", "ct_eq"): Ext("CT.array_u8_ct_eq {self} {0}", [B32], "Choice", recv=B32),
    ("bytes", "ct_ne"): Ext("CT.array_u8_ct_ne {self} {0}", [B32], "Choice", recv=B32),
    # ---- ge.rs (each tied below)
    ("GeAffine", "to_bytes"): Ext("GeAffine.to_bytes {self}", [], B32, fails=True, recv="GeAffine"),
    ("GeAffine", "from_bytes"): Ext("GeAffine.from_bytes {0}", [B32], "Option<GeAffine>", fails=True),
    ("GeP1P1", "to_partial"): Ext("GeP1P1.to_partial {self}", [], "GePartial", fails=True, recv="GeP1P1"),
    ("GeP1P1", "to_full"): Ext("GeP1P1.to_full {self}", [], "Ge", fails=True, recv="GeP1P1"),
    ("GePartial", "to_bytes"): Ext("GePartial.to_bytes {self}", [], B32, fails=True, recv="GePartial"),
    ("GePartial", "double_p1p1"): Ext("GePartial.double_p1p1 {self}", [], "GeP1P1", fails=True, recv="GePartial"),
    ("GePartial", "double"): Ext("GePartial.double {self}", [], "GePartial", fails=True, recv="GePartial"),
    ("GePartial", "double_full"): Ext("GePartial.double_full {self}", [], "Ge", fails=True, recv="GePartial"),
    ("GePartial", "double_scalarmult_vartime"): Ext("GePartial.double_scalarmult_vartime {0} {1} {2}", ["Scalar", "Ge", "Scalar"],
                                                    "GePartial", fails=True),
    ("Ge", "from_affine"): Ext("Ge.from_affine {0}", ["GeAffine"], "Ge", fails=True),
    ("Ge", "to_affine"): Ext("Ge.to_affine {self}", [], "GeAffine", fails=True, recv="Ge"),
    ("Ge", "from_bytes"): Ext("Ge.from_bytes {0}", [B32], "Option<Ge>", fails=True),
    ("Ge", "negate"): Ext("Ge.negate {self}", [], "Ge", fails=True, recv="Ge"),
    ("Ge", "to_partial"): Ext("Ge.to_partial {self}", [], "GePartial", recv="Ge"),
    ("Ge", "to_cached"): Ext("Ge.to_cached {self}", [], "GeCached", fails=True, recv="Ge"),
    ("Ge", "double_p1p1"): Ext("Ge.double_p1p1 {self}", [], "GeP1P1", fails=True, recv="Ge"),
    ("Ge", "double"): Ext("Ge.double {self}", [], "Ge", fails=True, recv="Ge"),
    ("Ge", "double_partial"): Ext("Ge.double_partial {self}", [], "GePartial", fails=True, recv="Ge"),
    ("Ge", "to_bytes"): Ext("Ge.to_bytes {self}", [], B32, fails=True, recv="Ge"),
    ("Ge", "scalarmult_base"): Ext("Ge.scalarmult_base {0}", ["Scalar"], "Ge", fails=True),
    ("GePrecomp", "maybe_set"): Ext("GePrecomp.maybe_set {self} {0} {1}", ["GePrecomp", "Choice"], None, outs=["self"], recv="GePrecomp"),
    ("GePrecomp", "select"): Ext("GePrecomp.select {0} {1}", ["usize", "i8"], "GePrecomp", fails=True),
    # ---- scalar (kernels tied by Props/C15/KernelTieScalar64.lean; the rest tied below, family (b))
    ("Scalar", "nibbles"): Ext("(Scalar64.nibbles {self}).toList", [], "[i8; 64]", recv="Scalar"),
    ("Scalar", "slide"): Ext("Option.map Vector.toList (Scalar64.slide {self})", [], "[i8; 256]", fails=True, recv="Scalar"),
    ("Scalar", "from_bytes"): Ext("Scalar64.fromBytes {0}", [B32], "Scalar", fails=True),
    ("Scalar", "from_bytes_canonical"): Ext("Scalar64.fromBytesCanonical {0}", [B32], "Option<Scalar>", fails=True),
    ("Scalar", "reduce_from_wide_bytes"): Ext("Scalar64.reduceFromWideBytes {0}", [B64], "Scalar", fails=True),
    ("Scalar", "to_bytes"): Ext("Scalar64.to_bytes {self}", [], B32, recv="Scalar"),
    (None, "muladd"): Ext("Scalar64.muladd {0} {1} {2}", ["Scalar", "Scalar", "Scalar"], "Scalar", fails=True),
    # ---- SHA-512 context (src/hashing/sha2: model Impl/Sha2.lean, glue tied by Props/C01/GlueTieMd.lean)
    ("Sha512", "new"): Ext("Sha2.Ctx512.new Sha2.Sha512", [], "Sha512"),
    ("Sha512", "update"): Ext("Sha2.Ctx512.update {self} {0}", ["&[u8]"], "Sha512", fails=True, recv="Sha512"),
    ("Sha512", "finalize"): Ext("Sha2.Ctx512.finalize Sha2.Sha512 {self}", [], B64, fails=True, recv="Sha512"),
    # ---- ed25519.rs (each tied below)
    (None, "clamp_scalar"): Ext("Ed25519.clamp_scalar {0}", ["&mut [u8]"], None, fails=True, outs=[0]),
    (None, "extended_secret"): Ext("Ed25519.extended_secret {0}", [B32], B64, fails=True),
    (None, "keypair_private"): Ext("Ed25519.keypair_private {0}", [B64], B32, fails=True),
    (None, "keypair_public"): Ext("Ed25519.keypair_public {0}", [B64], B32, fails=True),
    (None, "extended_scalar"): Ext("Ed25519.extended_scalar {0}", [B64], "Scalar", fails=True),
    (None, "extended_scalar_bytes"): Ext("Ed25519.extended_scalar_bytes {0}", [B64], B32, fails=True),
    (None, "extended_to_public"): Ext("Ed25519.extended_to_public {0}", [B64], B32, fails=True),
    (None, "keypair"): Ext("Ed25519.keypair {0}", [B32], "([u8; 64], [u8; 32])", fails=True),
    (None, "signature_nonce"): Ext("Ed25519.signature_nonce {0} {1}", [B64, "&[u8]"], "Scalar", fails=True),
    (None, "signature"): Ext("Ed25519.signature {0} {1}", ["&[u8]", B64], B64, fails=True),
    (None, "signature_extended"): Ext("Ed25519.signature_extended {0} {1}", ["&[u8]", B64], B64, fails=True),
    (None, "verify"): Ext("Ed25519.verify {0} {1} {2}", ["&[u8]", B32, B64], "bool", fails=True),
    (None, "exchange"): Ext("Ed25519.exchange {0} {1}", [B32, B32], B32, fails=True),
    (None, "edwards_to_montgomery_x"): Ext("Ed25519.edwards_to_montgomery_x {0}", ["Fe"], "Fe", fails=True),
    # ---- curve25519/mod.rs, x25519.rs (tied below; `curve25519M` = the model with its length proofs supplied, see HEADER)
    (None, "curve25519"): Ext("curve25519M {0} {1}", [B32, B32], B32, fails=True),
    (None, "curve25519_base"): Ext("curve25519_baseM {0}", [B32], B32, fails=True),
    (None, "dh"): Ext("curve25519M {0} {1}", [B32, B32], B32, fails=True),
    (None, "base"): Ext("curve25519_baseM {0}", [B32], B32, fails=True),
}
# operator impls, keyed (op, left type, right type)
OPS = {
    ("+", "Fe", "Fe"): Ext("add {0} {1}", ["Fe", "Fe"], "Fe", fails=True),
    ("-", "Fe", "Fe"): Ext("sub {0} {1}", ["Fe", "Fe"], "Fe", fails=True),
    ("*", "Fe", "Fe"): Ext("mul {0} {1}", ["Fe", "Fe"], "Fe", fails=True),
    ("neg", "Fe", None): Ext("neg {0}", ["Fe"], "Fe", fails=True),
    ("+", "Ge", "GeCached"): Ext("Ge.add_cached {0} {1}", ["Ge", "GeCached"], "GeP1P1", fails=True),
    ("+", "Ge", "GePrecomp"): Ext("Ge.add_precomp {0} {1}", ["Ge", "GePrecomp"], "GeP1P1", fails=True),
    ("-", "Ge", "GeCached"): Ext("Ge.sub_cached {0} {1}", ["Ge", "GeCached"], "GeP1P1", fails=True),
    ("-", "Ge", "GePrecomp"): Ext("Ge.sub_precomp {0} {1}", ["Ge", "GePrecomp"], "GeP1P1", fails=True),
    ("^", "choice", "choice"): Ext("CT.Choice.xor {0} {1}", ["Choice", "Choice"], "Choice"),
}
CONSTS = {
    "Fe::ZERO": ("Fe.ZERO", "Fe"), "Fe::ONE": ("Fe.ONE", "Fe"), "Fe::D": ("Fe.D", "Fe"), "Fe::D2": ("Fe.D2", "Fe"),
    "Fe::SQRTM1": ("Fe.SQRTM1", "Fe"),
    "Ge::ZERO": ("Ge.ZERO", "Ge"), "GePartial::ZERO": ("GePartial.ZERO", "GePartial"), "GePrecomp::ZERO": ("GePrecomp.ZERO", "GePrecomp"),
    "BASE": ("X25519.BASE", "[u8; 32]"),
    "precomp::GE_BASE": ("GE_BASE", "[[GePrecomp; 8]; 32]"), "precomp::BI": ("BI", "[GePrecomp; 8]"),
}
PROG = Program(STRUCTS, EXT, OPS, CONSTS)


def K(file, scope, fn, owner=None, **kw):
    return Fn(PROG, file, fn, scope=scope, owner=owner, **kw)


def OP(file, scope, fn, name, key, doc):
    return Fn(PROG, file, fn, scope=scope, owner="Ge", name=name, ext_key=key, doc=doc)


def E(fn, hints=None):
    k = Fn(PROG, F_ED, fn, name=f"Ed25519.{fn}_src", doc=f"`ed25519::{fn}`")
    k.hints = hints or {}
    return k


I_FE2 = r"const MASK: u64 = \(1 << 51\) - 1;\s*impl Fe \{"      # the second `impl Fe` block of fe64/mod.rs
I_SC1 = r"const MASK56: u64 = 0x00ff_ffff_ffff_ffff;\s*impl Scalar \{"
SQR = Fn(PROG, F_FE64, "square_repeatdly", scope=I_FE2, owner="Fe", kind="limb_loop",
         doc="`Fe::square_repeatdly`: the loop around the limb kernel (tied by Props/C15/KernelTieFe64.lean)")
SQR.body_kernel = "KernelsFe64.square_repeatdly_body_src"
FE_CONSTS = {"MASK": ("MASK", "u64"), "FOUR_P0": ("FOUR_P0", "u64"), "FOUR_P1234": ("FOUR_P1234", "u64")}
FE_LOAD = Fn(PROG, F_FE64, "load", scope=r"pub const fn from_bytes\(bytes: &\[u8; 32\]\) -> Fe", owner="Fe", name="Fe.from_bytes_load_src",
             ext_key=None, doc="`load` inside `Fe::from_bytes`: 8 bytes at `ofs`, little endian")
FE_FROM_BYTES = Fn(PROG, F_FE64, "from_bytes", scope=I_FE2, owner="Fe", doc="`Fe::from_bytes`")
FE_FROM_BYTES.local_ext = {(None, "load"): Ext("Fe.from_bytes_load_src {0} {1}", [B32, "usize"], "u64", fails=True)}
FE_FROM_BYTES.local_consts = FE_CONSTS
FE_TO_BYTES = Fn(PROG, F_FE64, "to_bytes", scope=I_FE2, owner="Fe", doc="`Fe::to_bytes`: `to_packed`, then the four `write8!`")
FE_NEGATE_MUT = Fn(PROG, F_FE64, "negate_mut", scope=I_FE2, owner="Fe", doc="`Fe::negate_mut` (the statements of `Neg`, in place)")
FE_NEGATE_MUT.local_consts = FE_CONSTS
SC_CONSTS = {"MASK16": ("Scalar64.MASK16", "u64"), "MASK40": ("Scalar64.MASK40", "u64"), "MASK56": ("Scalar64.MASK56", "u64")}
I_SC2 = r"reduce256\(reduce256\(out\)\)\s*\}\s*impl Scalar \{"       # the second `impl Scalar` block of scalar64.rs
SC_LOAD32 = Fn(PROG, F_SC64, "load", scope=r"pub const fn from_bytes\(bytes: &\[u8; 32\]\) -> Self", owner="Scalar",
               name="Scalar.from_bytes_load_src", ext_key=None, doc="`load` inside `Scalar::from_bytes`")
SC_FROM_BYTES = Fn(PROG, F_SC64, "from_bytes", scope=I_SC1, owner="Scalar", doc="`Scalar::from_bytes`")
SC_FROM_BYTES.local_ext = {(None, "load"): Ext("Scalar.from_bytes_load_src {0} {1}", [B32, "usize"], "u64", fails=True)}
SC_FROM_BYTES.local_consts = SC_CONSTS
SC_TO_BYTES = Fn(PROG, F_SC64, "to_bytes", scope=I_SC1, owner="Scalar", doc="`Scalar::to_bytes`")
SC_LOAD64 = Fn(PROG, F_SC64, "load", scope=r"pub const fn reduce_from_wide_bytes\(s: &\[u8; 64\]\) -> Scalar", owner="Scalar",
               name="Scalar.reduce_from_wide_bytes_load_src", ext_key=None, doc="`load` inside `Scalar::reduce_from_wide_bytes`")
SC_REDUCE = Fn(PROG, F_SC64, "reduce_from_wide_bytes", scope=I_SC2, owner="Scalar",
               doc="`Scalar::reduce_from_wide_bytes`: the two 264-bit windows, then the Barrett kernel (tied by Props/C15/KernelTieScalar64.lean)")
SC_REDUCE.local_ext = {(None, "load"): Ext("Scalar.reduce_from_wide_bytes_load_src {0} {1}", [B64, "usize"], "u64", fails=True)}
SC_REDUCE.local_consts = SC_CONSTS
SC_REDUCE.arrays = {("u64", 5): "Scalar"}
SC_REDUCE.hints = {"out": "[u64; 5]", "q1": "[u64; 5]"}
SC_BITS = Fn(PROG, F_SC64, "bits", scope=I_SC1, owner="Scalar", doc="`Scalar::bits`")
SC_BITS.hints = {"c": "[u64; 4]"}
SC_NIBBLES = Fn(PROG, F_SC64, "nibbles", scope=I_SC1, owner="Scalar", doc="`Scalar::nibbles`")
SC_NIBBLES.hints = {"c": "[u64; 4]"}
I_AFF, I_P1P1, I_PART, I_GE, I_PRE = r"impl GeAffine \{", r"impl GeP1P1 \{", r"impl GePartial \{", r"impl Ge \{", r"impl GePrecomp \{"

KERNELS = [
    # ---------------------------------------------------------------- (c) ge.rs: representations and formulas
    K(F_GE, I_AFF, "to_bytes", "GeAffine", doc="`GeAffine::to_bytes`"),
    K(F_GE, I_AFF, "from_bytes", "GeAffine", doc="`GeAffine::from_bytes` (RFC 8032 5.1.3 decompression)"),
    K(F_GE, I_P1P1, "to_partial", "GeP1P1", doc="`GeP1P1::to_partial`"),
    K(F_GE, I_P1P1, "to_full", "GeP1P1", doc="`GeP1P1::to_full`"),
    K(F_GE, I_PART, "ZERO", "GePartial", kind="const", name="GePartial.ZERO_src", doc="`GePartial::ZERO`"),
    K(F_GE, I_PART, "to_bytes", "GePartial", doc="`GePartial::to_bytes`"),
    K(F_GE, I_PART, "double_p1p1", "GePartial", doc="`GePartial::double_p1p1`"),
    K(F_GE, I_PART, "double", "GePartial", doc="`GePartial::double`"),
    K(F_GE, I_PART, "double_full", "GePartial", doc="`GePartial::double_full`"),
    K(F_GE, I_GE, "ZERO", "Ge", kind="const", name="Ge.ZERO_src", doc="`Ge::ZERO`"),
    K(F_GE, I_GE, "from_affine", "Ge", doc="`Ge::from_affine`"),
    K(F_GE, I_GE, "to_affine", "Ge", doc="`Ge::to_affine`"),
    K(F_GE, I_GE, "from_bytes", "Ge", doc="`Ge::from_bytes`"),
    K(F_GE, I_GE, "negate", "Ge", doc="`Ge::negate`"),
    K(F_GE, I_GE, "to_partial", "Ge", doc="`Ge::to_partial`"),
    K(F_GE, I_GE, "to_cached", "Ge", doc="`Ge::to_cached`"),
    K(F_GE, I_GE, "double_p1p1", "Ge", doc="`Ge::double_p1p1`"),
    K(F_GE, I_GE, "double", "Ge", doc="`Ge::double`"),
    K(F_GE, I_GE, "double_partial", "Ge", doc="`Ge::double_partial`"),
    K(F_GE, I_GE, "to_bytes", "Ge", doc="`Ge::to_bytes`"),
    OP(F_GE, r"impl Add<&GeCached> for &Ge", "add", "Ge.add_cached_src", ("+", "Ge", "GeCached"), "`impl Add<&GeCached> for &Ge`"),
    OP(F_GE, r"impl Add<&GePrecomp> for &Ge", "add", "Ge.add_precomp_src", ("+", "Ge", "GePrecomp"), "`impl Add<&GePrecomp> for &Ge`"),
    OP(F_GE, r"impl Sub<&GeCached> for &Ge", "sub", "Ge.sub_cached_src", ("-", "Ge", "GeCached"), "`impl Sub<&GeCached> for &Ge`"),
    OP(F_GE, r"impl Sub<&GePrecomp> for &Ge", "sub", "Ge.sub_precomp_src", ("-", "Ge", "GePrecomp"), "`impl Sub<&GePrecomp> for &Ge`"),
    OP(F_GE, r"impl Sub<GeCached> for Ge", "sub", "Ge.sub_cached_val_src", ("-", "Ge", "GeCached"), "`impl Sub<GeCached> for Ge` (by value)"),
    OP(F_GE, r"impl Sub<GePrecomp> for Ge", "sub", "Ge.sub_precomp_val_src", ("-", "Ge", "GePrecomp"), "`impl Sub<GePrecomp> for Ge` (by value)"),
    K(F_GE, I_PRE, "ZERO", "GePrecomp", kind="const", name="GePrecomp.ZERO_src", doc="`GePrecomp::ZERO`"),
    K(F_GE, I_PRE, "maybe_set", "GePrecomp", doc="`GePrecomp::maybe_set`"),
    K(F_GE, I_PRE, "select", "GePrecomp", doc="`GePrecomp::select` (masked table lookup)"),
    # ---------------------------------------------------------------- (c) ge.rs: the loops
    K(F_GE, I_GE, "scalarmult_base", "Ge", doc="`Ge::scalarmult_base`: signed radix-16 recoding (carry loop), the two comb loops, four doublings"),
    K(F_GE, I_PART, "double_scalarmult_vartime", "GePartial", fuel=["i + 1", "i + 1"],
      doc="`GePartial::double_scalarmult_vartime`: slide recodings, odd multiples table, top-index search loop, window loop"),
    # ---------------------------------------------------------------- (e) ed25519.rs
    E("clamp_scalar"), E("extended_secret"), E("keypair_private"), E("keypair_public"), E("extended_scalar"),
    E("extended_scalar_bytes"), E("extended_to_public"), E("keypair"), E("signature_nonce"),
    E("signature", hints={"signature": "[u8; 64]"}), E("signature_extended", hints={"signature": "[u8; 64]"}),
    E("verify", hints={"d": "u8"}), E("exchange"), E("edwards_to_montgomery_x"),
    # ---------------------------------------------------------------- (a) Fe: the compositions above the limb kernels
    K(F_FE, r"impl Fe \{", "pow25523", "Fe", doc="`Fe::pow25523`"),
    K(F_FE, r"impl Fe \{", "invert", "Fe", doc="`Fe::invert`"),
    SQR,
    K(F_FE64, I_FE2, "square_and_double", "Fe", doc="`Fe::square_and_double`"),
    K(F_FE64, I_FE2, "is_nonzero", "Fe", doc="`Fe::is_nonzero`"),
    K(F_FE64, I_FE2, "is_negative", "Fe", doc="`Fe::is_negative`"),
    K(F_FE64, I_FE2, "maybe_swap_with", "Fe", doc="`Fe::maybe_swap_with`"),
    K(F_FE64, I_FE2, "maybe_set", "Fe", doc="`Fe::maybe_set`"),
    K(F_FE64, r"impl CtEqual for &Fe", "ct_eq", "Fe", doc="`impl CtEqual for &Fe`: `ct_eq`"),
    K(F_FE64, r"impl CtEqual for &Fe", "ct_ne", "Fe", doc="`impl CtEqual for &Fe`: `ct_ne`", ext_key=None),
    K(F_FE64, r"impl PartialEq for Fe", "eq", "Fe", doc="`impl PartialEq for Fe`", ext_key=None),
    FE_LOAD, FE_FROM_BYTES, FE_TO_BYTES, FE_NEGATE_MUT,
    # ---------------------------------------------------------------- (b) Scalar
    SC_LOAD32, SC_FROM_BYTES, SC_TO_BYTES, SC_LOAD64, SC_REDUCE, SC_BITS, SC_NIBBLES,
    K(F_SC64, I_SC1, "from_bytes_canonical", "Scalar", doc="`Scalar::from_bytes_canonical`"),
    Fn(PROG, F_SC64, "muladd", name="Scalar.muladd_src", ext_key=(None, "muladd"), doc="`scalar::muladd`"),
    K(F_SC, r"impl Scalar \{", "slide", "Scalar", doc="`Scalar::slide`: the signed sliding-window recoding (three nested loops)"),
    # ---------------------------------------------------------------- (d) curve25519/mod.rs, x25519.rs
    Fn(PROG, F_CURVE, "curve25519", name="curve25519_src", doc="`curve25519`: clamping, the 255-step ladder with masked swaps, the final inversion"),
    Fn(PROG, F_CURVE, "curve25519_base", name="curve25519_base_src", doc="`curve25519_base` (the source repeats the ladder)"),
    Fn(PROG, F_X, "dh", name="X25519.dh_src", doc="`x25519::dh`"),
    Fn(PROG, F_X, "base", name="X25519.base_src", doc="`x25519::base`"),
]

HEADER = """import CxVerif.Util.GlueDebug
import CxVerif.Impl.Ge
import CxVerif.Impl.Ed25519
import CxVerif.Impl.X25519
import CxVerif.Extracted.KernelsFe64
/-!
  Extracted.GlueCurve — the curve layer (ge.rs, ed25519.rs, curve25519/mod.rs, x25519.rs, Fe / Scalar compositions) as the source
  says it NOW (tools/ktx_glue_curve.py; specs: tools/kernels/glue_curve.py).  `Option`: `none` = a Rust panic, exactly where Rust
  panics.  Callees are the model functions (limb kernels tied by Props/C15/KernelTie*.lean; the functions of this layer each tied
  to their own translation).  Tie theorems: Props/C15/GlueTieCurve.lean.
-/
set_option linter.unusedVariables false
namespace Cx.Extracted.GlueCurve
open Cx Cx.Impl Cx.Impl.Fe64 Cx.Impl.Ge
open Cx.Impl.Scalar64 (ckI8 shlI8)

/-- `x as u8` for an `i8` value (hand-written part of the contract) -/
def i8AsU8 (x : Int) : UInt8 := UInt8.ofNat (x % 256).toNat
/-- `x as i8` for a `u8` value -/
def u8AsI8 (x : UInt8) : Int := if x.toNat < 128 then (x.toNat : Int) else (x.toNat : Int) - 256
/-- `a & b` on `i8`: the bitwise and of the two's complement bytes -/
def i8And (a b : Int) : Int := u8AsI8 (i8AsU8 a &&& i8AsU8 b)
/-- the model of `curve25519(n: &[u8; 32], p: &[u8; 32])` with the length facts of its array types supplied -/
def curve25519M (n p : Bytes) : Option Bytes :=
  if h : n.length = 32 ∧ p.length = 32 then X25519.curve25519 n p h.1 h.2 else none
/-- the model of `curve25519_base(n: &[u8; 32])` -/
def curve25519_baseM (n : Bytes) : Option Bytes :=
  if h : n.length = 32 then X25519.curve25519_base n h else none
"""
FOOTER = "end Cx.Extracted.GlueCurve\n"
