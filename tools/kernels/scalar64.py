"""kernel specs: src/curve25519/scalar/scalar64.rs (shape of lean/CxVerif/Impl/Scalar64.lean: one `ckN` per checked sum)"""
from kernel_translate import Kernel

F = "src/curve25519/scalar/scalar64.rs"
L = lambda v: [f"{v}.l{i}" for i in range(5)]
CONSTS = {"MASK16": ("MASK16", "u64"), "MASK40": ("MASK40", "u64"), "MASK56": ("MASK56", "u64")}
CALLS = {"mul128": ("mul128 {0} {1}", "u128", ["u64", "u64"]), "shr128": ("shr128 {0} {1}", "u64", ["u128", None]),
         "lt": ("lt {0} {1}", "u64", ["u64", "u64"])}
TABLES = {**{f"M[{i}]": (f"M.l{i}", "u64") for i in range(5)}, **{f"MU[{i}]": (f"MU.l{i}", "u64") for i in range(5)}}


def arr_result(name):
    def f(tr, ret):
        return "⟨" + ", ".join(tr.vars[name][0]) + "⟩"
    return f


def bool_result(tr, ret):
    return "(" + tr.ex(ret)[0] + ")"


def call_chain_result(tr, ret):
    """trailing `Scalar(f(args…))` / `f(g(x))` of aggregate-returning functions"""
    def agg(e):
        if e[0] == "call":
            name = e[1][1].split("::")[-1]
            if name == "Scalar":
                return agg(e[2][0])
            args = [agg(a) for a in e[2]]
            return ("call", name, args)
        key = e[1] if e[0] == "path" else None
        if key in tr.vars and isinstance(tr.vars[key][0], list):
            return ("val", "⟨" + ", ".join(tr.vars[key][0]) + "⟩")
        raise Exception(f"unsupported tail {e}")
    node = agg(ret)
    lines = []

    def emit(n, top):
        if n[0] == "val":
            return n[1]
        args = [emit(a, False) for a in n[2]]
        call = f"{n[1]} " + " ".join(args)
        if top:
            return call
        v = tr.fresh("out")
        lines.append(f"  let {v} ← {call}")
        return v
    final = emit(node, True)
    return "\n".join(lines + ["  " + final]) if lines else "  " + final


def K(fn, name, params, env, result, ret_type="Option Scalar", doc=""):
    return Kernel(file=F, fn=fn, scope=None, lean_name=name, backend="cksum", params=params, ret_type=ret_type,
                  env={**TABLES, **env}, consts=CONSTS, calls=CALLS, result=result, doc=doc or f"`{fn}`")


def scalar_result(tr, ret):
    return "(" + tr.ex(ret)[0] + ")"


KERNELS = [
    K("lt", "lt_src", "(a b : Nat)", {"a": ("a", "u64"), "b": ("b", "u64")}, scalar_result, ret_type="Option Nat"),
    K("mul128", "mul128_src", "(a b : Nat)", {"a": ("a", "u64"), "b": ("b", "u64")}, scalar_result, ret_type="Option Nat"),
    K("shr128", "shr128_src", "(value shift : Nat)", {"value": ("value", "u128"), "shift": ("shift", "usize")}, scalar_result,
      ret_type="Option Nat"),
    K("lt_order", "lt_order_src", "(v : Scalar)", {"v": (L("v"), "u64")}, bool_result, ret_type="Option Bool"),
    K("reduce256", "reduce256_src", "(r : Scalar)", {"r": (L("r"), "u64")}, arr_result("r")),
    K("barrett_reduce256", "barrett_reduce256_src", "(q1 r1 : Scalar)", {"q1": (L("q1"), "u64"), "r1": (L("r1"), "u64")},
      call_chain_result),
    K("add", "add_src", "(x y : Scalar)", {"x": (L("x"), "u64"), "y": (L("y"), "u64")}, call_chain_result),
    K("mul", "mul_src", "(x y : Scalar)", {"x": (L("x"), "u64"), "y": (L("y"), "u64")}, call_chain_result),
]
HEADER = "import CxVerif.Impl.Scalar64\nnamespace Cx.Extracted.KernelsScalar64\nopen Cx Cx.Impl.Scalar64\n"
FOOTER = "end Cx.Extracted.KernelsScalar64\n"
LEAN_FILE = "KernelsScalar64"
