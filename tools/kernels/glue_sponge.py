"""glue specs (tools/ktx_glue_sponge.py): the STATEFUL GLUE of the sponge and of the BLAKE2 contexts
   src/hashing/sha3.rs          `Engine<DIGESTLEN, DSLEN>` (rate/new/finalize + nested set_domain_sep/pad_len/set_pad,
                                process, reset, output) and the `sha3_impl!` contexts
   src/hashing/blake2/mod.rs    `EngineB` / `EngineS` (consts, new, reset, increment_counter)
   src/hashing/blake2b.rs, blake2s.rs   `Context<BITS>`, `ContextDyn`, `context_finalize!`
   -> lean/CxVerif/Extracted/GlueSponge.lean, tied to Impl/Sha3.lean and Impl/Blake2.lean by
   lean/CxVerif/Props/C02/GlueTieSponge.lean (helpers in lean/CxVerif/Proofs/GlueSponge.lean)."""
import ktx_glue_sponge as G
from ktx_glue_sponge import GK, World, Struct, Callee

LEAN_FILE = "GlueSponge"

# ------------------------------------------------------------------------------------------------ SHA-3 sponge
F3 = "src/hashing/sha3.rs"
ENG3 = ("struct", "Engine")
W3 = World(
    structs={
        "Engine": Struct("Engine", {"state": ("bytes", ["state"]), "can_absorb": ("bool", ["can_absorb"]),
                                    "can_squeeze": ("bool", ["can_squeeze"]), "offset": ("usize", ["offset"])},
                         lit=lambda f: "{ state := %s, can_absorb := %s, can_squeeze := %s, offset := %s }"
                                       % (f["state"], f["can_absorb"], f["can_squeeze"], f["offset"])),
        # `pub struct $context(Engine<$digestlength, 2>)`: the model's `abbrev Context := Engine`
        "Context": Struct("Context", {"0": (ENG3, [])}),
    },
    consts={"B": ("B", "usize"), "true": ("true", "bool"), "false": ("false", "bool")},
    callees={
        "keccak_f": Callee("keccak_f {0}", [("mut", "bytes")], fallible=True),        # tied by Props/C01/KernelTieKeccak
        "zero": Callee("zeros {0}.length", [("mut", "bytes")]),                       # cryptoutil::zero
        "cmp::min": Callee("min {0} {1}", [("val", "usize"), ("val", "usize")], ret="usize"),
        "vec::from_elem": Callee("List.replicate {1} {0}", [("val", "u8"), ("val", "usize")], ret="bytes"),
        "Self": Callee("{0}", [("val", ENG3)], ret=("struct", "Context")),            # tuple-struct constructor of $context
    },
    aliases={"$context": "Context"})

ENG3_SCOPE = r"impl<const DIGESTLEN: usize, const DSLEN: usize> Engine<DIGESTLEN, DSLEN>\s*\{"
CTX3_SCOPE = r"impl\s+\$context\s*\{"
CTX3_SUBST = {"$digestlength": "DIGESTLEN", "$context": "Context"}
GE = ["DIGESTLEN", "DSLEN"]


def e3(fn, **kw):
    return GK(W3, file=F3, fn=fn, scope=ENG3_SCOPE, struct="Engine", generics=GE, lean_name=f"Engine.{fn}_src", **kw)


def c3(fn, **kw):
    return GK(W3, file=F3, fn=fn, scope=CTX3_SCOPE, struct="Context", generics=["DIGESTLEN"], subst=CTX3_SUBST,
              call_generics={"Engine": ["DIGESTLEN", "2"]}, lean_name=f"Context.{fn}_src", **kw)


SHA3 = [
    GK(W3, kind="struct", file=F3, fn="Engine", scope=r"pub\(super\) struct Engine<", lean_name="Engine_struct_src",
       expect="pub(super) struct Engine<const DIGESTLEN: usize, const DSLEN: usize> { state: [u8; B], can_absorb: bool, "
              "can_squeeze: bool, offset: usize, }"),
    GK(W3, kind="struct", file=F3, fn="$context", scope=r"pub struct \$context\(", lean_name="Context_struct_src",
       expect="pub struct $context(Engine<$digestlength, 2>);"),
    # the primitives named by the spec (`zero`, `keccak_f`, `cmp::min`, `vec::from_elem`) are the ones these lines import
    GK(W3, kind="struct", file=F3, fn="use", scope=r"use alloc::vec;\s*use core::cmp;\s*use crate::cryptoutil::\{", lean_name="Imports_src",
       expect="use alloc::vec; use core::cmp; use crate::cryptoutil::{read_u64v_le, write_u64v_le, zero};"),
    e3("rate", doc="`B - (DIGESTLEN * 2)`"),
    e3("new"),
    GK(W3, file=F3, fn="set_domain_sep", scope=ENG3_SCOPE, outer="finalize", lean_name="set_domain_sep_src"),
    GK(W3, file=F3, fn="pad_len", scope=ENG3_SCOPE, outer="finalize", generics=["DSLEN"], lean_name="pad_len_src"),
    GK(W3, file=F3, fn="set_pad", scope=ENG3_SCOPE, outer="finalize", generics=["DSLEN"], lean_name="set_pad_src"),
    e3("process", fuel=["in_len - in_pos + 1"],
       doc="absorb; the `while in_pos < in_len` loop runs at most `in_len - in_pos` times (+1 for the exit test)"),
    e3("finalize"),
    e3("reset"),
    e3("output", fuel=["in_len - in_pos + 1"], doc="squeeze; `out` is returned as the second component"),
    c3("new"), c3("update_mut"), c3("update"), c3("finalize_reset"), c3("finalize"), c3("reset"),
    # `impl $C { pub fn new() -> $context { $context::new() } }` (the algorithm marker types `Sha3_224` …)
    GK(W3, file=F3, fn="new", scope=r"impl\s+\$C\s*\{", generics=["DIGESTLEN"], subst=CTX3_SUBST, lean_name="Algorithm.new_src"),
]


# ------------------------------------------------------------------------------------------------ BLAKE2b / BLAKE2s
FM = "src/hashing/blake2/mod.rs"


def blake2_world(X, w):
    """X = "b" | "s" (the model's `Params`, `common::b` / `common::s`), w = word bits"""
    Wd = f"u{w}"
    ENG = ("struct", "Engine")
    return World(
        structs={
            # `EngineB { h: [u64; 8], t: [u64; 2] }`: the model keeps the two counter words as naturals `t0`, `t1`
            "Engine": Struct(f"(Engine UInt{w})", {"h": (("vec", Wd, 8), ["h"]), "t": (("natarr", w), [("t0", "t1")])},
                             lit=lambda f: "{ h := %s, t0 := %s, t1 := %s }" % (f["h"], f["t"][0], f["t"][1])),
            "Context": Struct(f"(Ctx UInt{w})", {"eng": (ENG, ["eng"]), "buf": ("bytes", ["buf"]), "buflen": ("usize", ["buflen"])},
                              lit=lambda f: "{ eng := %s, buf := %s, buflen := %s }" % (f["eng"], f["buf"], f["buflen"])),
            # the model's `ContextDyn` = the shared fields (`ctx : Ctx W`) + `outlen`
            "ContextDyn": Struct(f"(ContextDyn UInt{w})",
                                 {"eng": (ENG, ["ctx", "eng"]), "buf": ("bytes", ["ctx", "buf"]),
                                  "buflen": ("usize", ["ctx", "buflen"]), "outlen": ("usize", ["outlen"])},
                                 lit=lambda f: "{ ctx := { eng := %s, buf := %s, buflen := %s }, outlen := %s }"
                                               % (f["eng"], f["buf"], f["buflen"], f["outlen"])),
        },
        consts={f"{X}::IV": (f"{X}.iv", ("vec", Wd, 8)), f"{X}::MAX_OUTLEN": (f"{X}.maxOut", "usize"),
                f"{X}::MAX_KEYLEN": (f"{X}.maxKey", "usize"), f"{X}::BLOCK_BYTES": (f"{X}.bb", "usize"),
                "Engine::BLOCK_BYTES": ("Engine.BLOCK_BYTES_src", "usize"),
                "Engine::MAX_OUTLEN": ("Engine.MAX_OUTLEN_src", "usize"),
                "Engine::MAX_KEYLEN": ("Engine.MAX_KEYLEN_src", "usize"),
                "Engine::BLOCK_BYTES_NATIVE": ("Engine.BLOCK_BYTES_NATIVE_src", ("nat", w))},
        callees={
            # `Engine::compress` -> reference::compress_b/s: tied by Props/C01/KernelTieBlake2 (dispatch + compression core)
            ("Engine", "compress"): Callee(f"Engine.compress {X} {{self}} {{0}} {{1}}",
                                           [("val", "bytes"), ("val", ("enum", "LastBlock"))], selfm="mut"),
            "zero": Callee("zeros {0}.length", [("mut", "bytes")]),
            f"write_u{w}v_le": Callee(f"write_u{w}v_le {{0}} {{1}}", [("mut", "bytes"), ("val", ("wlist", Wd))],
                                      fallible=True),
        },
        aliases={"EngineB": "Engine", "EngineS": "Engine"})


def blake2_kernels(X, w):
    W = blake2_world(X, w)
    U = X.upper()
    FC = f"src/hashing/blake2{X}.rs"
    ES = rf"impl Engine{U}\s*\{{"
    nat = ("nat", w)
    ks = [
        GK(W, kind="struct", file=FM, fn=f"Engine{U}", scope=rf"pub struct Engine{U}\b", lean_name="Engine_struct_src",
           expect=f"pub struct Engine{U} {{ pub h: [u{w}; 8], pub t: [u{w}; 2], }}"),
        GK(W, kind="struct", file=FC, fn="Context", scope=r"pub struct Context<", lean_name="Context_struct_src",
           expect="pub struct Context<const BITS: usize> { eng: Engine, buf: [u8; Engine::BLOCK_BYTES], buflen: usize, }"),
        GK(W, kind="struct", file=FC, fn="ContextDyn", scope=r"pub struct ContextDyn\b", lean_name="ContextDyn_struct_src",
           expect="pub struct ContextDyn { eng: Engine, buf: [u8; Engine::BLOCK_BYTES], buflen: usize, outlen: usize, }"),
        GK(W, kind="struct", file=FC, fn="use", scope=r"use super::blake2::\{", lean_name="Engine_alias_src",
           expect=f"use super::blake2::{{Engine{U} as Engine, LastBlock}};"),
        GK(W, kind="struct", file=FC, fn="use", scope=r"use crate::cryptoutil::\{", lean_name="Imports_src",
           expect=f"use crate::cryptoutil::{{write_u{w}v_le, zero}};"),
    ]
    for c in ("BLOCK_BYTES", "MAX_OUTLEN", "MAX_KEYLEN"):
        ks.append(GK(W, kind="const", file=FM, fn=c, scope=ES, lean_name=f"Engine.{c}_src"))
    ks.append(GK(W, kind="const", file=FM, fn="BLOCK_BYTES_NATIVE", scope=ES, lean_name="Engine.BLOCK_BYTES_NATIVE_src", ret_type=nat,
                 doc=f"a `u{w}` kept as a natural (`as u{w}` = `% 2 ^ {w}`)"))
    for fn in ("new", "reset"):
        ks.append(GK(W, file=FM, fn=fn, scope=ES, struct="Engine", lean_name=f"Engine.{fn}_src"))
    ks.append(GK(W, file=FM, fn="increment_counter", scope=ES, struct="Engine", lean_name="Engine.increment_counter_src",
                 param_types={"inc": nat}, doc=f"`inc : u{w}` and the counter words `t[0], t[1]` are naturals below 2^{w} in the model"))
    CS = r"impl<const BITS: usize> Context<BITS>\s*\{"
    for fn in ("new_keyed", "new", "update_mut", "update", "internal_final", "reset", "reset_with_key", "finalize_at", "finalize_reset_at",
               "finalize_reset_with_key_at"):
        ks.append(GK(W, file=FC, fn=fn, scope=CS, struct="Context", generics=["BITS"], lean_name=f"Context.{fn}_src",
                     fuel=["input.length + 1"] if fn == "update_mut" else []))
    for fn in ("finalize", "finalize_reset", "finalize_reset_with_key"):
        ks.append(GK(W, file=FC, fn=fn, scope=r"macro_rules!\s+context_finalize", struct="Context", generics=["BITS"],
                     subst={"$size": "BITS"}, lean_name=f"Context.{fn}_src",
                     doc="`context_finalize!($size)` with `$size` = BITS (the invocations 224/256/384/512 are separate impls of the same text)"))
    # `impl<const BITS: usize> Blake2b<BITS> { pub fn new() -> Context<BITS> { Context::new() } … }`
    AS = rf"impl<const BITS: usize> Blake2{X}<BITS>\s*\{{"
    for fn in ("new", "new_keyed"):
        ks.append(GK(W, file=FC, fn=fn, scope=AS, generics=["BITS"], lean_name=f"Algorithm.{fn}_src"))
    DS = r"impl ContextDyn\s*\{"
    for fn in ("new_keyed", "new", "update_mut", "update", "internal_final", "reset", "reset_with_key", "finalize_at", "finalize_reset_at",
               "finalize_reset_with_key_at", "output_bits"):
        ks.append(GK(W, file=FC, fn=fn, scope=DS, struct="ContextDyn", lean_name=f"ContextDyn.{fn}_src",
                     fuel=["input.length + 1"] if fn == "update_mut" else []))
    return ks


class Section:
    """pseudo kernel: literal Lean text between kernels (namespace switches)"""

    def __init__(self, text):
        self.text, self.lean_name, self.params = text, "_section", ""


def TRANSLATE(k):
    return k.text if isinstance(k, Section) else G.translate(k)


def ns(name, opens):
    return Section(f"namespace {name}\n{opens}\n")


KERNELS = ([ns("Sha3", "open Cx.Impl.Sha3\nopen Cx.Extracted.Sha3 (B)")] + SHA3 + [Section("end Sha3\n")]
           + [ns("Blake2b", "open Cx.Impl.Blake2\nopen Cx.Impl.Sha3 (usizechk idx upd)")] + blake2_kernels("b", 64) + [Section("end Blake2b\n")]
           + [ns("Blake2s", "open Cx.Impl.Blake2\nopen Cx.Impl.Sha3 (usizechk idx upd)")] + blake2_kernels("s", 32) + [Section("end Blake2s\n")])

HEADER = """import CxVerif.Impl.Sha3
import CxVerif.Impl.Blake2
namespace Cx.Extracted.GlueSponge
open Cx
set_option linter.unusedVariables false

/-! ## the primitives of the translation (tools/ktx_glue_sponge.py) -/

/-- `a - b` on `usize` (panics on underflow in every build: the operands are never constants) -/
def usub (a b : Nat) : Option Nat := if b ≤ a then some (a - b) else none
/-- `a / b`, `a % b` on `usize` with a divisor that is not a non-zero literal -/
def udiv (a b : Nat) : Option Nat := if b = 0 then none else some (a / b)
def urem (a b : Nat) : Option Nat := if b = 0 then none else some (a % b)
/-- checked `+`, `*` on a `w`-bit word kept as a natural -/
def wordchk (w v : Nat) : Option Nat := if v < 2 ^ w then some v else none
/-- `a << n` on `u8` (overflow check of the shift amount) -/
def shlU8 (a : UInt8) (n : Nat) : Option UInt8 := if n < 8 then some (a <<< UInt8.ofNat n) else none
/-- `&a[lo..hi]` -/
def slice (a : Bytes) (lo hi : Nat) : Option Bytes :=
  if lo ≤ hi ∧ hi ≤ a.length then some ((a.drop lo).take (hi - lo)) else none
/-- `&a[lo..hi]` of a word array -/
def lslice {α : Type} (a : List α) (lo hi : Nat) : Option (List α) :=
  if lo ≤ hi ∧ hi ≤ a.length then some ((a.drop lo).take (hi - lo)) else none
/-- `&a[lo..]` -/
def sliceFrom (a : Bytes) (lo : Nat) : Option Bytes := if lo ≤ a.length then some (a.drop lo) else none
/-- `dst[lo..hi].copy_from_slice(src)` (also the write-back of a `&mut dst[lo..hi]` argument) -/
def copyInto (dst : Bytes) (lo hi : Nat) (src : Bytes) : Option Bytes :=
  if lo ≤ hi ∧ hi ≤ dst.length ∧ src.length = hi - lo then some (dst.take lo ++ src ++ dst.drop hi) else none
/-- `for i in lo..lo+n { st = body i st }` -/
def forRange {σ : Type} (body : Nat → σ → Option σ) : Nat → Nat → σ → Option σ
  | 0, _, st => some st
  | n + 1, lo, st =>
    match body lo st with
    | none => none
    | some st' => forRange body n (lo + 1) st'
/-- `while …`: `step` returns the new state and whether the loop goes on (`false` = condition false or `break`);
    structural recursion on the fuel, exhausted fuel = `none` -/
def whileLoop {σ : Type} (step : σ → Option (σ × Bool)) : Nat → σ → Option σ
  | 0, _ => none
  | fuel + 1, st =>
    match step st with
    | none => none
    | some (st', true) => whileLoop step fuel st'
    | some (st', false) => some st'
/-- `cryptoutil::write_u64v_le(dst, input)` / `write_u32v_le`: `assert!(dst.len() == 8 * input.len())`, little-endian words -/
def write_u64v_le (dst : Bytes) (input : List UInt64) : Option Bytes :=
  if dst.length = 8 * input.length then some (input.flatMap u64le) else none
def write_u32v_le (dst : Bytes) (input : List UInt32) : Option Bytes :=
  if dst.length = 4 * input.length then some (input.flatMap u32le) else none
"""
FOOTER = "end Cx.Extracted.GlueSponge\n"
