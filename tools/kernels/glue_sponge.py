"""glue specs (tools/ktx_glue_sponge.py): the STATEFUL GLUE of the sponge and of the BLAKE2 contexts
   src/hashing/sha3.rs          `Engine<DIGESTLEN, DSLEN>` (rate/new/finalize + nested set_domain_sep/pad_len/set_pad,
                                process, reset, output) and the `sha3_impl!` contexts
   src/hashing/blake2/mod.rs    `EngineB` / `EngineS` (consts, new, reset, increment_counter)
   src/hashing/blake2b.rs, blake2s.rs   `Context<BITS>`, `ContextDyn`, `context_finalize!`
   -> lean/CxVerif/Extracted/GlueSponge.lean, tied to Impl/Sha3.lean and Impl/Blake2.lean by
   lean/CxVerif/Props/C02/GlueTieSponge.lean (helpers in lean/CxVerif/Proofs/GlueSponge.lean)."""
import ktx_glue_sponge as G
from ktx_glue_sponge import GK, World, Struct, Callee

TRANSLATE = G.translate
LEAN_FILE = "GlueSponge"

# ------------------------------------------------------------------------------------------------ SHA-3 sponge
F3 = "src/hashing/sha3.rs"
ENG3 = ("struct", "Engine")
W3 = World(
    structs={
        "Engine": Struct("Engine", {"state": ("bytes", ["state"]), "can_absorb": ("bool", ["can_absorb"]),
                                    "can_squeeze": ("bool", ["can_squeeze"]), "offset": ("usize", ["offset"])},
                         lit=lambda f: "{ state := %s, can_absorb := %s, can_squeeze := %s, offset := %s }"
                                       % (f["state"], f["can_absorb"], f["can_squeeze"], f["offset"])),
        # `pub struct $context(Engine<$digestlength, 2>)`: the model's `abbrev Context := Engine`
        "Context": Struct("Context", {"0": (ENG3, [])}),
    },
    consts={"B": ("B", "usize"), "true": ("true", "bool"), "false": ("false", "bool")},
    callees={
        "keccak_f": Callee("keccak_f {0}", [("mut", "bytes")], fallible=True),        # tied by Props/C01/KernelTieKeccak
        "zero": Callee("zeros {0}.length", [("mut", "bytes")]),                       # cryptoutil::zero
        "cmp::min": Callee("min {0} {1}", [("val", "usize"), ("val", "usize")], ret="usize"),
        "vec::from_elem": Callee("List.replicate {1} {0}", [("val", "u8"), ("val", "usize")], ret="bytes"),
        "Self": Callee("{0}", [("val", ENG3)], ret=("struct", "Context")),            # tuple-struct constructor of $context
    },
    aliases={"$context": "Context"})

ENG3_SCOPE = r"impl<const DIGESTLEN: usize, const DSLEN: usize> Engine<DIGESTLEN, DSLEN>\s*\{"
CTX3_SCOPE = r"impl\s+\$context\s*\{"
CTX3_SUBST = {"$digestlength": "DIGESTLEN", "$context": "Context"}
GE = ["DIGESTLEN", "DSLEN"]


def e3(fn, **kw):
    return GK(W3, file=F3, fn=fn, scope=ENG3_SCOPE, struct="Engine", generics=GE, lean_name=f"Engine.{fn}_src", **kw)


def c3(fn, **kw):
    return GK(W3, file=F3, fn=fn, scope=CTX3_SCOPE, struct="Context", generics=["DIGESTLEN"], subst=CTX3_SUBST,
              call_generics={"Engine": ["DIGESTLEN", "2"]}, lean_name=f"Context.{fn}_src", **kw)


SHA3 = [
    GK(W3, kind="struct", file=F3, fn="Engine", scope=r"pub\(super\) struct Engine<", lean_name="Engine_struct_src",
       expect="pub(super) struct Engine<const DIGESTLEN: usize, const DSLEN: usize> { state: [u8; B], can_absorb: bool, "
              "can_squeeze: bool, offset: usize, }"),
    GK(W3, kind="struct", file=F3, fn="$context", scope=r"pub struct \$context\(", lean_name="Context_struct_src",
       expect="pub struct $context(Engine<$digestlength, 2>);"),
    e3("rate", doc="`B - (DIGESTLEN * 2)`"),
    e3("new"),
    GK(W3, file=F3, fn="set_domain_sep", scope=ENG3_SCOPE, outer="finalize", lean_name="set_domain_sep_src"),
    GK(W3, file=F3, fn="pad_len", scope=ENG3_SCOPE, outer="finalize", generics=["DSLEN"], lean_name="pad_len_src"),
    GK(W3, file=F3, fn="set_pad", scope=ENG3_SCOPE, outer="finalize", generics=["DSLEN"], lean_name="set_pad_src"),
    e3("process", fuel=["in_len - in_pos + 1"],
       doc="absorb; the `while in_pos < in_len` loop runs at most `in_len - in_pos` times (+1 for the exit test)"),
    e3("finalize"),
    e3("reset"),
    e3("output", fuel=["in_len - in_pos + 1"], doc="squeeze; `out` is returned as the second component"),
    c3("new"), c3("update_mut"), c3("update"), c3("finalize_reset"), c3("finalize"), c3("reset"),
]

KERNELS = SHA3

HEADER = """import CxVerif.Impl.Sha3
import CxVerif.Impl.Blake2
namespace Cx.Extracted.GlueSponge
open Cx
set_option linter.unusedVariables false

/-! ## the primitives of the translation (tools/ktx_glue_sponge.py) -/

/-- `a - b` on `usize` (panics on underflow in every build: the operands are never constants) -/
def usub (a b : Nat) : Option Nat := if b ≤ a then some (a - b) else none
/-- `a / b`, `a % b` on `usize` with a divisor that is not a non-zero literal -/
def udiv (a b : Nat) : Option Nat := if b = 0 then none else some (a / b)
def urem (a b : Nat) : Option Nat := if b = 0 then none else some (a % b)
/-- `a << n` on `u8` (overflow check of the shift amount) -/
def shlU8 (a : UInt8) (n : Nat) : Option UInt8 := if n < 8 then some (a <<< UInt8.ofNat n) else none
/-- `&a[lo..hi]` -/
def slice (a : Bytes) (lo hi : Nat) : Option Bytes :=
  if lo ≤ hi ∧ hi ≤ a.length then some ((a.drop lo).take (hi - lo)) else none
/-- `&a[lo..]` -/
def sliceFrom (a : Bytes) (lo : Nat) : Option Bytes := if lo ≤ a.length then some (a.drop lo) else none
/-- `dst[lo..hi].copy_from_slice(src)` (also the write-back of a `&mut dst[lo..hi]` argument) -/
def copyInto (dst : Bytes) (lo hi : Nat) (src : Bytes) : Option Bytes :=
  if lo ≤ hi ∧ hi ≤ dst.length ∧ src.length = hi - lo then some (dst.take lo ++ src ++ dst.drop hi) else none
/-- `for i in lo..lo+n { st = body i st }` -/
def forRange {σ : Type} (body : Nat → σ → Option σ) : Nat → Nat → σ → Option σ
  | 0, _, st => some st
  | n + 1, lo, st =>
    match body lo st with
    | none => none
    | some st' => forRange body n (lo + 1) st'
/-- `while …`: `step` returns the new state and whether the loop goes on (`false` = condition false or `break`);
    structural recursion on the fuel, exhausted fuel = `none` -/
def whileLoop {σ : Type} (step : σ → Option (σ × Bool)) : Nat → σ → Option σ
  | 0, _ => none
  | fuel + 1, st =>
    match step st with
    | none => none
    | some (st', true) => whileLoop step fuel st'
    | some (st', false) => some st'
/-- `cryptoutil::write_u64v_le(dst, input)` / `write_u32v_le`: `assert!(dst.len() == 8 * input.len())`, little-endian words -/
def write_u64v_le (dst : Bytes) (input : List UInt64) : Option Bytes :=
  if dst.length = 8 * input.length then some (input.flatMap u64le) else none
def write_u32v_le (dst : Bytes) (input : List UInt32) : Option Bytes :=
  if dst.length = 4 * input.length then some (input.flatMap u32le) else none

namespace Sha3
open Cx.Impl.Sha3
open Cx.Extracted.Sha3 (B)
"""
FOOTER = "end Sha3\nend Cx.Extracted.GlueSponge\n"
