"""word-kernel specs: src/hashing/sha2/impl512/reference.rs  (SHA-512 portable block function, u64x2 pair lanes)
   -> lean/CxVerif/Extracted/KernelsSha512.lean, tied to Impl/Sha2.lean (Impl512) by
   lean/CxVerif/Props/C01/KernelTieSha512.lean"""
import ktx_words as kw
from ktx_words import WKernel, word, words, Tup

TRANSLATE = kw.translate
F = "src/hashing/sha2/impl512/reference.rs"
FILES = ["src/simd.rs"]                                   # `struct u64x2`, `impl Add for u64x2`
B = [f"b{i}" for i in range(16)]
ST = ["state.a", "state.b", "state.c", "state.d", "state.e", "state.f", "state.g", "state.h"]
RENDER = {"rotate_right": "rotate_right {x} {n}", "rotate_left": "rotate_left {x} {n}"}   # std primitives of Impl512


def x2(name):
    return Tup("u64x2", [word(f"{name}._0", "u64"), word(f"{name}._1", "u64")])


def pair(ex, v):
    return "⟨" + ", ".join(ex.wts(v, "u64")) + "⟩"


KERNELS = [
    WKernel(file=F, files=FILES, fn="sha512load", lean_name="sha512load_src", params="(v0 v1 : u64x2)", ret_type="u64x2",
            args={"v0": x2("v0"), "v1": x2("v1")}, render=RENDER, result=lambda ex: pair(ex, ex.ret), doc="`fn sha512load`"),
    WKernel(file=F, files=FILES, fn="schedule_x2", lean_name="schedule_x2_src", params="(v0 v1 v4to5 v7 : u64x2)", ret_type="u64x2",
            args={"v0": x2("v0"), "v1": x2("v1"), "v4to5": x2("v4to5"), "v7": x2("v7")}, render=RENDER,
            result=lambda ex: pair(ex, ex.ret), doc="`fn schedule_x2` (with the nested `sigma0`, `sigma1`)"),
    WKernel(file=F, files=FILES, fn="digest_round", lean_name="digest_round_src", params="(ae bf cg dh : u64x2) (wk0 : UInt64)",
            ret_type="u64x2", args={"ae": x2("ae"), "bf": x2("bf"), "cg": x2("cg"), "dh": x2("dh"), "wk0": word("wk0", "u64")},
            render=RENDER, result=lambda ex: pair(ex, ex.ret),
            doc="`fn digest_round` (macros `big_sigma0!`, `big_sigma1!`, `bool3ary_202!`, `bool3ary_232!`)"),
    WKernel(file=F, files=FILES, fn="digest_block_u64", lean_name="digest_block_u64_src",
            params="(state : W8 UInt64) (" + " ".join(B) + " : UInt64)", ret_type="W8 UInt64",
            args={"state": words(ST, "u64"), "block": words(B, "u64")}, render=RENDER,
            result=lambda ex: "⟨" + ", ".join(ex.wts(ex.var("state"), "u64")) + "⟩",
            doc="`digest_block_u64(state, block)`: the 40 `rounds4!` invocations with the sliding `schedule!` of the u64x2 "
                "lanes, `K64X2` entries as the literals of the source, final `state[j].wrapping_add(…)`"),
]
HEADER = ("import CxVerif.Impl.Sha2\nnamespace Cx.Extracted.KernelsSha512\nopen Cx\nopen Cx.Spec.Sha2 (W8)\n"
          "open Cx.Impl.Sha2.Impl512 (u64x2 rotate_left rotate_right)\n")
FOOTER = "end Cx.Extracted.KernelsSha512\n"
LEAN_FILE = "KernelsSha512"
