"""word-kernel specs: src/hashing/sha2/impl256/reference.rs  (SHA-256 portable block function)
   -> lean/CxVerif/Extracted/KernelsSha256.lean, tied to Impl/Sha2.lean (Impl256) and to the shared schedule core
   Spec.Sha2.schedule256 by lean/CxVerif/Props/C01/KernelTieSha256.lean"""
import ktx_words as kw
from ktx_words import WKernel, word, words, opaque, load_prim

TRANSLATE = kw.translate
F = "src/hashing/sha2/impl256/reference.rs"
M = [f"m{i}" for i in range(16)]
ST = ["state.a", "state.b", "state.c", "state.d", "state.e", "state.f", "state.g", "state.h"]
RENDER = {"rotate_right": "rotate_right {x} {n}"}          # `u32::rotate_right` = Impl256.rotate_right (std primitive)


def small(fn):
    return WKernel(file=F, fn=fn, lean_name=f"{fn}_src", params="(x : UInt32)", ret_type="UInt32",
                   args={"x": word("x", "u32")}, render=RENDER, result=lambda ex: ex.wt(ex.ret, "u32"),
                   doc=f"`fn {fn}`")


KERNELS = [small("e0"), small("e1"), small("s0"), small("s1"),
           WKernel(file=F, fn="digest_block_u32", lean_name="schedule_src",
                   params="(" + " ".join(M) + " : UInt32)", ret_type="List UInt32",
                   args={"state": words(ST, "u32"), "buf": opaque("buf")},
                   prims={"read_u32v_be": load_prim("buf", M, "u32")}, render=RENDER,
                   until=lambda st: st[0] == "let" and st[1] == ("var", "a"),
                   result=lambda ex: "[" + ", ".join(ex.wts(ex.var("w"), "u32")) + "]",
                   doc="the message schedule of `digest_block_u32`: the array `w` after `read_u32v_be(&mut w[0..16], buf)` "
                       "(words m0..m15) and the loop `for i in 16..64` (the statements before `let mut a = state[0]`)"),
           WKernel(file=F, fn="digest_block_u32", lean_name="digest_block_u32_src",
                   params="(state : W8 UInt32) (" + " ".join(M) + " : UInt32)", ret_type="W8 UInt32",
                   args={"state": words(ST, "u32"), "buf": opaque("buf")},
                   prims={"read_u32v_be": load_prim("buf", M, "u32")}, render=RENDER,
                   result=lambda ex: "⟨" + ", ".join(ex.wts(ex.var("state"), "u32")) + "⟩",
                   doc="`digest_block_u32(state, buf)` on the sixteen big-endian words m0..m15 of `buf` "
                       "(`read_u32v_be(&mut w[0..16], buf)`): message schedule `for i in 16..64`, the 8×8 `round!` "
                       "invocations of `while i != 64`, final `state[j].wrapping_add(…)`; K32 entries are the literals of the source")]
HEADER = ("import CxVerif.Impl.Sha2\nnamespace Cx.Extracted.KernelsSha256\nopen Cx\nopen Cx.Spec.Sha2 (W8)\n"
          "open Cx.Impl.Sha2.Impl256 (rotate_right)\n")
FOOTER = "end Cx.Extracted.KernelsSha256\n"
LEAN_FILE = "KernelsSha256"
