"""kernel specs: src/chacha/sse2.rs  (shape of lean/CxVerif/Impl/ChaCha.lean, namespace Sse2: rows a,b,c,d of four u32 lanes;
the intrinsics `_mm_*` are the lane-wise definitions of the model — what the machine instruction does is observed by C16's
correspondence, not proved)"""
import ktx_misc
from ktx_misc import MK, TranslateError, V

TRANSLATE = ktx_misc.translate
F = "src/chacha/sse2.rs"
M = "M128"
CALLS = {
    "_mm_add_epi32": ("_mm_add_epi32 {0} {1}", M, [M, M]), "_mm_xor_si128": ("_mm_xor_si128 {0} {1}", M, [M, M]),
    "_mm_slli_epi32": ("_mm_slli_epi32 {0} {1}", M, [M, "usize"]), "_mm_srli_epi32": ("_mm_srli_epi32 {0} {1}", M, [M, "usize"]),
    "_mm_shuffle_epi32": ("_mm_shuffle_epi32 {0} {1}", M, [M, "usize"]),
}
ROWS = {f"self.{r}": (f"s.{r}", M) for r in "abcd"}
IROWS = {f"initial.{r}": (f"initial.{r}", M) for r in "abcd"}


def rows(tr, st, ret, out, ind):
    return "⟨" + ", ".join(tr.ex(("field", ("path", "self"), r), st, None, out, ind).t for r in "abcd") + "⟩"


def loop_body(stmts):
    """`unsafe { for _ in 0..(ROUNDS / 2) { … } }` -> the loop body"""
    if len(stmts) == 1 and stmts[0][0] in ("ret", "expr") and stmts[0][1][0] == "blockexpr":
        stmts = stmts[0][1][1]
    for s in stmts:
        if s[0] == "for":
            return s[3]
    raise TranslateError("no for loop")


# --- `Align128`: a `[u32; 4]` view of a row
def align_zero(tr, name, init, st, out, ind):
    st.vars[name + ".0"] = [V("(0 : UInt32)", "u32", True) for _ in range(4)]
    st.vars[name] = V(name, "Align128", True)


def from_m128i(tr, e, st, out, ind):
    recv = tr.place_key(e[1], st)
    if recv + ".0" not in st.vars or len(e[3]) != 1:
        raise TranslateError("from_m128i on something that is not a tracked Align128")
    v = tr.ex(e[3][0], st, None, out, ind)
    if v.ty != M:
        raise TranslateError("from_m128i of a non-row")
    st.vars[recv + ".0"] = [V(f"{v.p()}.l{i}", "u32", True) for i in range(4)]


class Tr2(ktx_misc.Tr):
    def method(self, e, st, want, out, ind):
        if e[2] == "to_m128i" and not e[3]:
            recv = self.place_key(e[1], st)
            arr = st.vars.get(recv + ".0")
            if not isinstance(arr, list) or len(arr) != 4:
                raise TranslateError("to_m128i on something that is not a tracked Align128")
            return V("(⟨" + ", ".join(x.t for x in arr) + "⟩ : M128)", M, True)
        return super().method(e, st, want, out, ind)


def K(**kw):
    return MK(file=F, calls=CALLS, tr_class=Tr2, **kw)


STATE_LOOP = ("loop", "doubleRound_src",
              lambda ts, places: "⟨" + ", ".join(dict(zip(places, ts))[f"self.{r}"] for r in "abcd") + "⟩",
              lambda ns, places: "⟨" + ", ".join(dict(zip(places, ns))[f"self.{r}"] for r in "abcd") + "⟩")
ALIGN = dict(let_hooks={"Align128::zero": align_zero}, stmt_methods={"from_m128i": from_m128i})

KERNELS = [
    K(kind="macro", fn="add_rotate_xor", lean_name="add_rotate_xor_src", params="(a b c : M128) (d : Nat)", ret_type="M128 × M128",
      env={"a": ("a", M), "b": ("b", M), "c": ("c", M)}, consts={"d": ("d", "usize")}, checked_ok="-",
      result=lambda tr, st, ret, out, ind: f"({st.vars['a'].t}, {st.vars['c'].t})",
      doc="`add_rotate_xor!(a, b, c, d)`: `a += b; c ^= a; c <<<= d` (assigns `$a`, `$c`: returned).  `32 - $d` is Nat subtraction: "
          "`$d` is a literal 16/12/8/7 at every call site (`0 < $d < 32` is checked where `round!` is translated)"),
    K(kind="macro", fn="round", lean_name="round_src", params="(a b c d : M128)", ret_type="M128 × M128 × M128 × M128",
      env={v: (v, M) for v in "abcd"}, macro_fns={"add_rotate_xor": "add_rotate_xor_src"},
      macro_lit_ok={"add_rotate_xor": lambda vals: 0 < int(vals[3]) < 32},
      result=lambda tr, st, ret, out, ind: "(" + ", ".join(st.vars[v].t for v in "abcd") + ")",
      doc="`round!(a, b, c, d)`: four `add_rotate_xor!` with rotations 16, 12, 8, 7"),
    K(kind="macro", fn="swizzle", lean_name="swizzle_src", params="(b c d : M128)", ret_type="M128 × M128 × M128",
      env={v: (v, M) for v in "bcd"},
      result=lambda tr, st, ret, out, ind: "(" + ", ".join(st.vars[v].t for v in "bcd") + ")",
      doc="`swizzle!(b, c, d)`: the three `_mm_shuffle_epi32` immediates"),
    K(fn="rounds", lean_name="doubleRound_src", params="(s : State)", ret_type="State", env=ROWS, select=loop_body,
      macro_fns={"round": "round_src", "swizzle": "swizzle_src"}, result=rows,
      doc="one iteration of the loop of `State::rounds`: round, swizzle(b,c,d), round, swizzle(d,c,b)"),
    K(fn="rounds", lean_name="rounds_src", params="(R : Nat) (s : State)", ret_type="State", env=ROWS, consts={"ROUNDS": ("R", "usize")},
      macro_fns={"round": "round_src", "swizzle": "swizzle_src"}, loop_fn=STATE_LOOP, result=rows,
      doc="`State::rounds` (the loop body is `doubleRound_src`, translated from the same lines)"),
    K(fn="set_counter", lean_name="set_counter_src", params="(s : State) (counter : UInt32)", ret_type="State",
      env={**ROWS, "counter": ("counter", "u32")}, result=rows, doc="`State::set_counter` (lane 0 of row d through `Align128`)", **ALIGN),
    K(fn="verif_set_counter64", lean_name="verif_set_counter64_src", params="(s : State) (counter : UInt64)", ret_type="State",
      env={**ROWS, "counter": ("counter", "u64")}, result=rows, doc="`State::verif_set_counter64` (hook)", **ALIGN),
    K(fn="increment", lean_name="increment_src", params="(s : State)", ret_type="State", env=ROWS, result=rows,
      doc="`State::increment` (lane 0 of row d)", **ALIGN),
    K(fn="increment64", lean_name="increment64_src", params="(s : State)", ret_type="State", env=ROWS, result=rows,
      doc="`State::increment64`: `overflowing_add(1)` on lane 0, carry into lane 1 (`overflowed` = the 33rd bit of the sum)", **ALIGN),
    K(fn="add_back", lean_name="add_back_src", params="(s initial : State)", ret_type="State", env={**ROWS, **IROWS}, result=rows,
      doc="`State::add_back`"),
]
HEADER = "import CxVerif.Impl.ChaCha\nnamespace Cx.Extracted.KernelsChaChaSse2\nopen Cx Cx.Impl Cx.Impl.ChaCha.Sse2\nset_option autoImplicit false\n"
FOOTER = "end Cx.Extracted.KernelsChaChaSse2\n"
LEAN_FILE = "KernelsChaChaSse2"
