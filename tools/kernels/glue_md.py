"""kernel specs (glue translator tools/ktx_glue.py): the Merkle–Damgård buffering and padding —
src/cryptoutil.rs `FixedBuffer<N>` and the byte writers, src/hashing/sha2/{mod,eng256,eng512}.rs engines.
Shape of lean/CxVerif/Impl/FixedBuffer.lean, Impl/MdEngine.lean, Impl/Sha2.lean; tie theorems in
lean/CxVerif/Props/C01/GlueTieMd.lean."""
import ktx_glue
from ktx_glue import GlueCfg, GK, GStruct, Extern

TRANSLATE = ktx_glue.translate
CU = "src/cryptoutil.rs"
MOD = "src/hashing/sha2/mod.rs"
E256 = "src/hashing/sha2/eng256.rs"
E512 = "src/hashing/sha2/eng512.rs"
W8 = lambda w, t: dict(lean=f"Spec.Sha2.W8 {w}", elem=t, n=8, to_list="{0}.toList", proj=list("abcdefgh"))
BYTES = ("list", ("word", 8))

CFG = GlueCfg(
    structs={
        "FixedBuffer": dict(lean="FixedBuffer", file=CU, generics=["N"]),
        "eng256::Engine": dict(lean="Impl.Sha2.Eng256.Engine", file=E256, rust="Engine"),
        "eng512::Engine": dict(lean="Impl.Sha2.Eng512.Engine", file=E512, rust="Engine"),
        "Engine256": dict(lean="Impl.Sha2.Engine256", file=MOD),
        "Engine512": dict(lean="Impl.Sha2.Engine512", file=MOD),
    },
    aliases={(E256, "Engine"): "eng256::Engine", (E512, "Engine"): "eng512::Engine"},
    # `[u32; STATE_LEN]` / `[u64; STATE_LEN]` (STATE_LEN = 8) are the record `W8` of the hand models
    custom_types={"[u32;STATE_LEN]": W8("UInt32", "u32"), "[u64;STATE_LEN]": W8("UInt64", "u64")},
    # byte counters: Nat with the truncation written (`+=` wraps: release semantics, see Impl/Sha2.lean header)
    nat_fields={"Engine256.processed_bytes", "Engine512.processed_bytes"},
)

# the six `digest!` invocations of sha2/mod.rs: (family, unit struct, context struct, output fn, bits, IV constant)
DIGESTS = [(512, "Sha512", "Context512", 512, "H512"), (512, "Sha384", "Context384", 384, "H384"),
           (512, "Sha512Trunc256", "Context512_256", 256, "H512_TRUNC_256"), (512, "Sha512Trunc224", "Context512_224", 224, "H512_TRUNC_224"),
           (256, "Sha256", "Context256", 256, "H256"), (256, "Sha224", "Context224", 224, "H224")]
for fam, alg, ctx, bits, iv in DIGESTS:
    CFG.structs[ctx] = dict(lean=f"Impl.Sha2.Ctx{fam}", file=MOD, macro="digest", macro_args=rf"{fam}\s+{alg}\s*,")
    CFG.consts[iv] = f"Impl.Sha2.{iv}"

FB = dict(file=CU, scope=r"impl<const N: usize> FixedBuffer<N>", impl="FixedBuffer", impl_generics=["N"])
# `digest_block` = `super::impl256::digest_block` / `super::impl512::digest_block` (`use super::impl256::*;`): the cfg dispatchers, GENERATED
# for the baseline cfg set (x86_64 without sse4.1 / avx: the build the hand models describe) by tools/kernels/sha2_drivers.py into
# Extracted/GlueSha2Drv.lean together with the reference drivers they call; tied to the hand models by Props/C01/GlueTieSha2Drv.lean
EN256 = dict(file=E256, scope=r"impl Engine \{", impl="eng256::Engine",
             externs={(None, "digest_block"): Extern("GlueSha2Drv.Impl256.digest_block_baseline_src {0} {1}", [("mut", ("custom", "[u32;STATE_LEN]")), ("val", BYTES)], fallible=True)})
EN512 = dict(file=E512, scope=r"impl Engine \{", impl="eng512::Engine",
             externs={(None, "digest_block"): Extern("GlueSha2Drv.Impl512.digest_block_baseline_src {0} {1}", [("mut", ("custom", "[u64;STATE_LEN]")), ("val", BYTES)], fallible=True)})
M256 = dict(file=MOD, scope=r"impl Engine256 \{", impl="Engine256")
M512 = dict(file=MOD, scope=r"impl Engine512 \{", impl="Engine512")


def WR(name):
    return GK(CFG, file=CU, fn=name, lean_name=f"{name}_src", macro="write_array_type", doc=f"`cryptoutil::{name}`")


def RD(name):
    return GK(CFG, file=CU, fn=name, lean_name=f"{name}_src", macro="read_array_type", doc=f"`cryptoutil::{name}`")


KERNELS = [
    # ---- cryptoutil.rs
    GStruct(CFG, "FixedBuffer", lean_name="FixedBuffer.mk_src"),
    GK(CFG, file=CU, fn="zero", lean_name="zero_src", doc="`cryptoutil::zero`"),
    GK(CFG, fn="new", lean_name="FixedBuffer.new_src", doc="`FixedBuffer::new`", **FB),
    GK(CFG, fn="input", lean_name="FixedBuffer.input_src", doc="`FixedBuffer::input`", **FB),
    GK(CFG, fn="reset", lean_name="FixedBuffer.reset_src", doc="`FixedBuffer::reset`", **FB),
    GK(CFG, fn="zero_until", lean_name="FixedBuffer.zero_until_src", doc="`FixedBuffer::zero_until`", **FB),
    GK(CFG, fn="next", lean_name="FixedBuffer.next_write_src", mode="write",
       doc="`*self.next::<I>() = v` (`FixedBuffer::next` with the store through the returned borrow)", **FB),
    GK(CFG, fn="full_buffer", lean_name="FixedBuffer.full_buffer_src", doc="`FixedBuffer::full_buffer`", **FB),
    GK(CFG, fn="standard_padding", lean_name="FixedBuffer.standard_padding_src", doc="`FixedBuffer::standard_padding`", **FB),
    GK(CFG, file=CU, fn="write_u64_le", lean_name="write_u64_le_src", doc="`cryptoutil::write_u64_le`"),
    GK(CFG, file=CU, fn="write_u32_le", lean_name="write_u32_le_src", doc="`cryptoutil::write_u32_le`"),
    GK(CFG, file=CU, fn="write_u32_be", lean_name="write_u32_be_src", doc="`cryptoutil::write_u32_be`"),
    WR("write_u64v_le"), WR("write_u64v_be"), WR("write_u32v_le"), WR("write_u32v_be"),
    RD("read_u64v_be"), RD("read_u64v_le"), RD("read_u32v_be"), RD("read_u32v_le"),
    GK(CFG, file=CU, fn="read_u32_le", lean_name="read_u32_le_src", doc="`cryptoutil::read_u32_le`"),
    # ---- sha2/eng256.rs
    GStruct(CFG, "eng256::Engine", lean_name="Eng256.Engine.mk_src"),
    GK(CFG, fn="new", lean_name="Eng256.Engine.new_src", doc="`eng256::Engine::new`", **EN256),
    GK(CFG, fn="reset", lean_name="Eng256.Engine.reset_src", doc="`eng256::Engine::reset`", **EN256),
    GK(CFG, fn="blocks", lean_name="Eng256.Engine.blocks_src", doc="`eng256::Engine::blocks`", **EN256),
    GK(CFG, fn="output_224bits_at", lean_name="Eng256.Engine.output_224bits_at_src", doc="`eng256::Engine::output_224bits_at`", **EN256),
    GK(CFG, fn="output_256bits_at", lean_name="Eng256.Engine.output_256bits_at_src", doc="`eng256::Engine::output_256bits_at`", **EN256),
    # ---- sha2/mod.rs: Engine256
    GStruct(CFG, "Engine256", lean_name="Engine256.mk_src"),
    GK(CFG, fn="new", lean_name="Engine256.new_src", doc="`Engine256::new`", **M256),
    GK(CFG, fn="reset", lean_name="Engine256.reset_src", doc="`Engine256::reset`", **M256),
    GK(CFG, fn="input", lean_name="Engine256.input_src", doc="`Engine256::input`", **M256),
    GK(CFG, fn="finish", lean_name="Engine256.finish_src", doc="`Engine256::finish`", **M256),
    # ---- sha2/eng512.rs
    GStruct(CFG, "eng512::Engine", lean_name="Eng512.Engine.mk_src"),
    GK(CFG, fn="new", lean_name="Eng512.Engine.new_src", doc="`eng512::Engine::new`", **EN512),
    GK(CFG, fn="reset", lean_name="Eng512.Engine.reset_src", doc="`eng512::Engine::reset`", **EN512),
    GK(CFG, fn="blocks", lean_name="Eng512.Engine.blocks_src", doc="`eng512::Engine::blocks`", **EN512),
    GK(CFG, fn="output_224bits_at", lean_name="Eng512.Engine.output_224bits_at_src", doc="`eng512::Engine::output_224bits_at`", **EN512),
    GK(CFG, fn="output_256bits_at", lean_name="Eng512.Engine.output_256bits_at_src", doc="`eng512::Engine::output_256bits_at`", **EN512),
    GK(CFG, fn="output_384bits_at", lean_name="Eng512.Engine.output_384bits_at_src", doc="`eng512::Engine::output_384bits_at`", **EN512),
    GK(CFG, fn="output_512bits_at", lean_name="Eng512.Engine.output_512bits_at_src", doc="`eng512::Engine::output_512bits_at`", **EN512),
    # ---- sha2/mod.rs: Engine512
    GStruct(CFG, "Engine512", lean_name="Engine512.mk_src"),
    GK(CFG, fn="new", lean_name="Engine512.new_src", doc="`Engine512::new`", **M512),
    GK(CFG, fn="reset", lean_name="Engine512.reset_src", doc="`Engine512::reset`", **M512),
    GK(CFG, fn="input", lean_name="Engine512.input_src", doc="`Engine512::input`", **M512),
    GK(CFG, fn="finish", lean_name="Engine512.finish_src", doc="`Engine512::finish`", **M512),
]
# ---- sha2/mod.rs: the contexts the `digest!` macro defines (public API: new / update_mut / update / reset / finalize / finalize_reset)
for fam, alg, ctx, bits, iv in DIGESTS:
    D = dict(file=MOD, macro="digest", macro_args=rf"{fam}\s+{alg}\s*,", scope=rf"impl {ctx} \{{", impl=ctx, untyped_array_elem="u8")
    KERNELS.append(GStruct(CFG, ctx, lean_name=f"{ctx}.mk_src"))
    for fn in ("new", "update_mut", "update", "reset", "finalize", "finalize_reset"):
        KERNELS.append(GK(CFG, fn=fn, lean_name=f"{ctx}.{fn}_src", doc=f"`{ctx}::{fn}` (`digest!({fam} {alg}, …)`)", **D))


HEADER = """import CxVerif.Util.GlueRt
import CxVerif.Impl.Sha2
import CxVerif.Extracted.GlueSha2Drv
namespace Cx.Extracted.GlueMd
open Cx Cx.Impl
set_option linter.unusedVariables false
"""
FOOTER = "end Cx.Extracted.GlueMd\n"
LEAN_FILE = "GlueMd"
