"""glue specs (tools/ktx_glue_kdf.py): src/kdf/argon2.rs above the already tied compression core (Props/C11/KernelTie.lean ties
   add_and_mul, gb, p, fill_block, index_alpha — used here through the model's functions):
     Params (def, argon2d/argon2i/argon2id, memory_kb, parallelism, iterations, version, parallelism_override_memory),
     Block::new, BitXorAssign, Memory (stride, new, block_index, block_index64, mut_block_index, mut_block_at),
     next_addresses, fill_segment, hprime, hprime_block_init, H0::new, process, argon2_at, argon2
   -> lean/CxVerif/Extracted/GlueArgon2.lean; tie theorems: lean/CxVerif/Props/C11/GlueTieArgon2.lean"""
import ktx_glue_kdf as K
from ktx_glue_kdf import KModule, KFn, Ext, StructSpec, Ty, TNat, TBytes, TExt, TBool, TW64

TRANSLATE = K.translate

A = "Impl.Argon2."
B2 = "Impl.Blake2."
NZ = TNat("u32"); NZ.nonzero = True
BLOCK = Ty("ext", "Spec.Argon2.Block", elem=TW64(), n=128, newtype=True)
BLOCKS = Ty("ext", "Array Spec.Argon2.Block", elem=BLOCK, n=None, arr=True)
CTX = TExt(B2 + "Context UInt64")
CTXDYN = TExt(B2 + "ContextDyn UInt64")
H0 = TBytes(None); H0.newtype = True
BYTES1024 = TBytes(1024)

U32 = {"+": A + "add32", "*": A + "mul32", "-": A + "subU", "/": (A + "divU",), "%": (A + "remU",)}
U64 = {"+": A + "add64", "*": A + "mul64", "-": A + "subU", "/": (A + "divU",), "%": (A + "remU",)}
# positions inside a live byte buffer (`pos + 32`): the mathematical sum, as in the hand model and in ktx_glue_mac
USIZE_BUF = {"+": "math", "*": "math", "-": A + "subU", "/": (A + "divU",), "%": (A + "remU",)}

ARGON2 = KModule(
    file="src/kdf/argon2.rs", style="option", prefix="",
    structs={"Params": StructSpec(A + "Params"), "Memory": StructSpec(A + "Memory"), "BlockPos": StructSpec(A + "BlockPos")},
    enums={"Type": (A + "Type'", {"Argon2d": A + "Type'.Argon2d", "Argon2i": A + "Type'.Argon2i", "Argon2id": A + "Type'.Argon2id"},
                    "{0}.toNat"),
           "InvalidParam": (A + "InvalidParam", {v: A + "InvalidParam." + v for v in
                            ["ParallelismZero", "ParallelismTooHigh", "IterationsZero", "UnknownVersion", "MemoryTooHigh"]}, None)},
    exttypes={"NonZeroU32": NZ, ("arr", "Block", None): BLOCKS, ("arr", "u64", 128): BLOCK},
    newtypes={"Block": BLOCK, "H0": H0},
    arrays={BLOCK.lean: BLOCKS},
    arith={"u32": U32, "u64": U64, "usize": U64},
    views={(BLOCK.lean, "as_u8_mut"): (A + "Block.as_u8 {0}", A + "Block.of_u8 {0}", BYTES1024)},
    ext_fns={
        # the compression core and the index mapping: the MODEL's functions (tied by Props/C11/KernelTie.lean)
        "fill_block": Ext(A + "fill_block {0} {1} {2} {3}", args=["val", "val", "out", "val"], argty={3: TBool}),
        "index_alpha": Ext(A + "index_alpha {0} {1} {2} {3}", args=["val", "val", "val", "val"], ret=TNat("u32"), fails="option",
                           argty={3: TBool}),
        # cryptoutil::xor_array64_mut (a zip of two `[u64; N]`)
        "xor_array64_mut": Ext("", args=["set", "val"], writes={0: "Vector.zipWith (· ^^^ ·) {0} {1}"}),
        # hashing::blake2b contexts (Impl/Blake2.lean; C02), the profile of the code as it is
        "blake2b::Context::<512>::new": Ext(B2 + "Context.new " + B2 + "b 512", args=[], ret=CTX, fails="option"),
        "blake2b::ContextDyn::new": Ext(B2 + "ContextDyn.new " + B2 + "b {0}", args=["val"], ret=CTXDYN, fails="option",
                                        argty={0: TNat("usize")}),
    },
    ext_methods={
        (CTX.lean, "update"): Ext(B2 + "Context.update " + B2 + "b .wrapping {self} {0}", args=["val"], ret=CTX, fails="option"),
        (CTX.lean, "finalize"): Ext(B2 + "Context.finalize " + B2 + "b .wrapping 512 {self}", args=[], ret=TBytes(None), fails="option"),
        (CTX.lean, "finalize_at"): Ext(B2 + "Context.finalize_at " + B2 + "b .wrapping 512 {self} {0.len}", args=["out"], fails="option"),
        (CTXDYN.lean, "update"): Ext(B2 + "ContextDyn.update " + B2 + "b .wrapping {self} {0}", args=["val"], ret=CTXDYN, fails="option"),
        (CTXDYN.lean, "finalize_at"): Ext(B2 + "ContextDyn.finalize_at " + B2 + "b .wrapping {self} {0.len}", args=["out"], fails="option"),
        # `Block::as_u8` (an `unsafe` pointer cast: the little-endian byte view), `impl BitXorAssign<&Block> for Block`
        (BLOCK.lean, "as_u8"): Ext(A + "Block.as_u8 {self}", args=[], ret=BYTES1024),
        (BLOCK.lean, "bitxor_assign"): Ext(A + "Block.bitxor_assign {self} {0}", args=["val"], mut_self=True),
    },
)

PARAMS = r"impl Params \{"
MEMORY = r"impl Memory \{"

KERNELS = [
    KFn(ARGON2, "Params", kind="check_struct", name="Params.struct_ok",
        fields=[("parallelism", "Nat"), ("iterations", "Nat"), ("memory_kb", "Nat"), ("version", "Nat"), ("hash_type", A + "Type'"),
                ("memory_blocks", "Nat"), ("segment_length", "Nat"), ("lane_length", "Nat")]),
    KFn(ARGON2, "Memory", kind="check_struct", name="Memory.struct_ok",
        fields=[("lane_length", "Nat"), ("blocks", "Array Spec.Argon2.Block")]),
    KFn(ARGON2, "BlockPos", kind="check_struct", name="BlockPos.struct_ok",
        fields=[("pass", "Nat"), ("lane", "Nat"), ("slice", "Nat"), ("index", "Nat")]),
    # ---- Params
    KFn(ARGON2, "def", PARAMS, owner="Params", name="Params.def_src", doc="`Params::def`"),
    KFn(ARGON2, "argon2d", PARAMS, owner="Params", name="Params.argon2d_src", doc="`Params::argon2d`"),
    KFn(ARGON2, "argon2id", PARAMS, owner="Params", name="Params.argon2id_src", doc="`Params::argon2id`"),
    KFn(ARGON2, "argon2i", PARAMS, owner="Params", name="Params.argon2i_src", doc="`Params::argon2i`"),
    KFn(ARGON2, "parallelism_override_memory", PARAMS, owner="Params", name="Params.parallelism_override_memory_src",
        doc="`Params::parallelism_override_memory` (u32 arithmetic)"),
    KFn(ARGON2, "memory_kb", PARAMS, owner="Params", name="Params.memory_kb_src", doc="`Params::memory_kb`"),
    KFn(ARGON2, "parallelism", PARAMS, owner="Params", name="Params.parallelism_src", doc="`Params::parallelism`"),
    KFn(ARGON2, "iterations", PARAMS, owner="Params", name="Params.iterations_src", doc="`Params::iterations`"),
    KFn(ARGON2, "version", PARAMS, owner="Params", name="Params.version_src", doc="`Params::version`"),
    # ---- Block
    KFn(ARGON2, "new", r"impl Block \{", owner="Block", name="Block.new_src", doc="`Block::new`"),
    KFn(ARGON2, "bitxor_assign", r"BitXorAssign<&'a Block> for Block", owner="Block", name="Block.bitxor_assign_src",
        doc="`impl BitXorAssign<&Block> for Block`"),
    # ---- Memory
    KFn(ARGON2, "stride", MEMORY, owner="Memory", name="Memory.stride_src", doc="`Memory::stride`"),
    KFn(ARGON2, "new", MEMORY, owner="Memory", name="Memory.new_src", doc="`Memory::new`"),
    KFn(ARGON2, "block_index", MEMORY, owner="Memory", name="Memory.block_index_src", doc="`Memory::block_index`"),
    KFn(ARGON2, "block_index64", MEMORY, owner="Memory", name="Memory.block_index64_src", doc="`Memory::block_index64`"),
    KFn(ARGON2, "mut_block_index", MEMORY, owner="Memory", name="Memory.mut_block_index_src", kind="lens", doc="`Memory::mut_block_index`"),
    KFn(ARGON2, "mut_block_at", MEMORY, owner="Memory", name="Memory.mut_block_at_src", kind="lens", doc="`Memory::mut_block_at`"),
    # ---- the hash H'
    KFn(ARGON2, "hprime", fuel=["bytes"], arith={"u32": U32, "u64": U64, "usize": USIZE_BUF}, doc="`hprime`"),
    KFn(ARGON2, "hprime_block_init", arith={"u32": U32, "u64": U64, "usize": USIZE_BUF}, doc="`hprime_block_init`"),
    KFn(ARGON2, "new", r"impl H0 \{", owner="H0", name="H0.new_src", doc="`H0::new`"),
    # ---- segments
    KFn(ARGON2, "next_addresses", doc="`next_addresses`"),
    KFn(ARGON2, "fill_segment", doc="`fill_segment`: prologue, address refresh, the block loop"),
    KFn(ARGON2, "process", doc="`process`: first two blocks of every lane, the three nested fill loops, the final xor and H'"),
    KFn(ARGON2, "argon2_at", doc="`argon2_at`"),
    KFn(ARGON2, "argon2", const_generics=["T"], doc="`argon2::<T>`"),
]

HEADER = """import CxVerif.Impl.Argon2
/-!
  Extracted.GlueArgon2 — src/kdf/argon2.rs above the compression core as the source says it NOW (tools/ktx_glue_kdf.py; specs:
  tools/kernels/glue_argon2.py).  `&mut` parameters are returned; `none` exactly where Rust (overflow-checked build) panics.
  Tie theorems: Props/C11/GlueTieArgon2.lean.
-/
set_option linter.unusedVariables false
namespace Cx.Extracted.GlueArgon2
open Cx
"""
FOOTER = "end Cx.Extracted.GlueArgon2\n"
LEAN_FILE = "GlueArgon2"
