"""kernel specs: the STATEFUL GLUE of src/chacha20.rs, src/salsa20.rs, src/cryptoutil.rs::xor_keystream_mut, src/drg/chacha.rs,
src/chacha20poly1305.rs  (shape of lean/CxVerif/Impl/StreamCtx.lean, ChaCha.lean, Salsa.lean, Drg.lean, Aead.lean).
Translator: tools/ktx_glue_stream.py.  Tie theorems: lean/CxVerif/Props/C04/GlueTieStream.lean."""
import ktx_glue_stream
from ktx_glue_stream import GK, Ext, Struct, Program, TranslateError

TRANSLATE = ktx_glue_stream.translate
LEAN_FILE = "GlueStream"

F_CC, F_SA, F_CU, F_DRG, F_AEAD = "src/chacha20.rs", "src/salsa20.rs", "src/cryptoutil.rs", "src/drg/chacha.rs", "src/chacha20poly1305.rs"
CTX = "Ctx σ"
CTX_FIELDS = {"state": "state", "output": "output", "offset": "offset"}

STRUCTS = {
    "ChaCha": Struct(F_CC, f"Cx.Impl.StreamCtx.Ctx σ", CTX_FIELDS, types={"ChaChaState": "engine"}),
    "XChaCha": Struct(F_CC, f"Cx.Impl.StreamCtx.Ctx σ", CTX_FIELDS, types={"ChaChaState": "engine"}),
    "ChaChaOriginal": Struct(F_CC, f"Cx.Impl.StreamCtx.Ctx σ", CTX_FIELDS, types={"ChaChaState": "engine"}),
    "Salsa": Struct(F_SA, "Cx.Impl.StreamCtx.Ctx W16", CTX_FIELDS, types={"State": "salsa"}),
    "XSalsa": Struct(F_SA, "Cx.Impl.StreamCtx.Ctx W16", CTX_FIELDS, types={"State": "salsa"}),
    "Drg": Struct(F_DRG, newtype=True),
    "Context": Struct(F_AEAD, "Cx.Impl.Aead.Context σ", {"cipher": "cipher", "mac": "mac", "aad_len": "aad_len", "data_len": "data_len"},
                      types={"Poly1305": "poly"}),
    "ContextEncryption": Struct(F_AEAD, newtype=True),
    "ContextDecryption": Struct(F_AEAD, newtype=True),
    "Tag": Struct(F_AEAD, newtype=True, eq=("Tag", "eq")),
    "ChaChaPoly1305": Struct(F_AEAD, "Cx.Impl.Aead.ChaChaPoly1305 σ", {"finished": "finished", "context": "context"}),
}


def need_len(i, n, what):
    def check(tr, recv, args):
        if tr.static_len(args[i].ty) != n:
            raise TranslateError(f"{what}: the destination is not statically {n} bytes long")
    return check


ENGINE = "Cx.Impl.ChaCha.Engine"
SALSA = "Cx.Impl.Salsa"
POLY = "Cx.Impl.Poly1305"
EXT = {
    # ChaChaEngine<R> (src/chacha/{reference,sse2}.rs): the model's engine record `E` (tied by Props/C03/KernelTie*.lean, C16)
    ("engine", "init"): Ext("E.init {0} {1}", ["ref", "ref"], None, ("ext", "engine"), fallible=True),
    ("engine", "rounds"): Ext("E.rounds R {self}", [], "mut", outs=["self"]),
    ("engine", "add_back"): Ext("E.add_back {self} {0}", ["ref"], "mut", outs=["self"]),
    ("engine", "output_bytes"): Ext("E.output_bytes {self}", ["mutref"], "ref", outs=["0"], check=need_len(0, 64, "output_bytes")),
    ("engine", "output_ad_bytes"): Ext("E.output_ad_bytes {self}", ["mutref"], "ref", outs=["0"], check=need_len(0, 32, "output_ad_bytes")),
    ("engine", "set_counter"): Ext("E.set_counter {self} {0}", ["val"], "mut", outs=["self"]),
    ("engine", "verif_set_counter64"): Ext("E.verif_set_counter64 {self} {0}", ["val"], "mut", outs=["self"]),
    ("engine", "increment"): Ext("E.increment {self}", [], "mut", outs=["self"]),
    ("engine", "increment64"): Ext("E.increment64 {self}", [], "mut", outs=["self"]),
    # salsa20.rs `State<R>` (tied by Props/C03/KernelTie.lean, namespace Salsa)
    ("salsa", "init"): Ext(f"{SALSA}.init {{0}} {{1}}", ["ref", "ref"], None, ("ext", "salsa"), fallible=True),
    ("salsa", "rounds"): Ext(f"{SALSA}.rounds R {{self}}", [], "mut", outs=["self"]),
    ("salsa", "add_back"): Ext(f"{SALSA}.add_back {{self}} {{0}}", ["ref"], "mut", outs=["self"]),
    ("salsa", "output_bytes"): Ext(f"{SALSA}.output_bytes {{self}}", ["mutref"], "ref", outs=["0"], check=need_len(0, 64, "output_bytes")),
    ("salsa", "output_ad_bytes"): Ext(f"{SALSA}.output_ad_bytes {{self}}", ["mutref"], "ref", outs=["0"], check=need_len(0, 32, "output_ad_bytes")),
    ("salsa", "verif_set_counter64"): Ext(f"{SALSA}.verif_set_counter64 {{self}} {{0}}", ["val"], "mut", outs=["self"]),
    ("salsa", "increment"): Ext(f"{SALSA}.increment {{self}}", [], "mut", outs=["self"]),
    # Poly1305 (tied by Props/C05/KernelTie.lean); `raw_result` overwrites the first 16 bytes of its buffer
    ("poly", "new"): Ext(f"{POLY}.new {{0}}", ["ref"], None, ("ext", "poly"), argtys=[("bytes", 32)]),
    ("poly", "input"): Ext(f"Cx.Impl.Aead.liftP ({POLY}.input {{self}} {{0}})", ["ref"], "mut", fallible=True, outs=["self"]),
    ("poly", "raw_result"): Ext(f"Cx.Impl.Aead.liftP ({POLY}.raw_result {POLY}.codeVariant {{self}} {{len0}})", ["mutref"], "mut", fallible=True,
                                outs=["self", "0"], check=need_len(0, 16, "raw_result")),
    # cryptoutil / core
    (None, "write_u64_le"): Ext("natToLE 8 {1}", ["mutref", "val"], None, outs=["0"], check=need_len(0, 8, "write_u64_le"), argtys=[None, "u64"]),
    (None, "cmp::min"): Ext("min {0} {1}", ["val", "val"], None, lambda tr, r, a: a[0].ty, argtys=["usize", "usize"]),
    (None, "u64::from_be_bytes"): Ext("beU64 {0}", ["val"], None, ("opaque", "UInt64"), argtys=[("bytes", 8)]),
    (None, "u32::from_be_bytes"): Ext("beU32 {0}", ["val"], None, ("opaque", "UInt32"), argtys=[("bytes", 4)]),
    # constant_time.rs (tied by Props/C18 KernelTie): `impl CtEqual for &[u8; N]`, `Choice::is_true`
    ("bytes", "ct_eq"): Ext("Cx.Impl.CT.array_u8_ct_eq {self} {0}", ["ref"], "ref", ("ext", "choice")),
    ("choice", "is_true"): Ext("Cx.Impl.CT.Choice.isTrue {self}", [], "ref", "bool"),
}
EXT_LEAN = {"engine": "σ", "salsa": "W16", "poly": f"{POLY}.State", "choice": "Cx.Impl.CT.Choice"}

PROG = Program(STRUCTS, EXT, enums={"DecryptionResult": {"Match": "true", "MisMatch": "false"}},
               generics=[("E", f"(E : {ENGINE} σ)"), ("R", "(R : Nat)")], const_generics={"ROUNDS": "R"}, ext_lean=EXT_LEAN)


def K(file, scope, fn, self_ty, lean_name, **kw):
    return GK(prog=PROG, file=file, scope=scope, fn=fn, self_ty=self_ty, lean_name=lean_name, **kw)


def stream_kernels(file, ty, types, counter_fn, counter_param):
    sc = rf"impl<const ROUNDS: usize> {ty}<ROUNDS>\s*\{{"
    opq = {"position": "UInt32", "counter": "UInt64"}
    return [
        K(file, sc, "update", ty, f"{ty}.update_src", types=types, doc=f"`{ty}::update`: the next keystream block into `self.output`"),
        K(file, sc, "process_mut", ty, f"{ty}.process_mut_src", types=types, variants={1: "len - i"},
          doc=f"`{ty}::process_mut` (the `while i < len` loop runs on fuel `len - i`)"),
        K(file, sc, "process", ty, f"{ty}.process_src", types=types, doc=f"`{ty}::process`"),
        K(file, sc, "new", ty, f"{ty}.new_src", types=types, doc=f"`{ty}::new`"),
        K(file, sc, counter_fn, ty, f"{ty}.{counter_fn}_src", types=types, opaque=opq, doc=f"`{ty}::{counter_fn}`"),
    ]


CC_T = {"ChaChaState": "engine"}
SA_T = {"State": "salsa"}
AE_T = {"Poly1305": "poly", "Choice": "choice"}
IMPL = lambda ty: rf"impl<const ROUNDS: usize> {ty}<ROUNDS>\s*\{{"

KERNELS = (
    [K(F_CU, None, "xor_keystream_mut", None, "xor_keystream_mut_src",
       doc="`cryptoutil::xor_keystream_mut` (raw-pointer loop: an out-of-bounds access would be `.error \"UB\"`)")]
    + stream_kernels(F_CC, "ChaCha", CC_T, "seek", "position")
    + stream_kernels(F_CC, "XChaCha", CC_T, "seek", "position")
    + stream_kernels(F_CC, "ChaChaOriginal", CC_T, "verif_set_counter64", "counter")
    + stream_kernels(F_SA, "Salsa", SA_T, "verif_set_counter64", "counter")
    + stream_kernels(F_SA, "XSalsa", SA_T, "verif_set_counter64", "counter")
    + [
        K(F_DRG, IMPL("Drg"), "new", "Drg", "Drg.new_src", doc="`Drg::new`"),
        K(F_DRG, IMPL("Drg"), "bytes", "Drg", "Drg.bytes_src", doc="`Drg::bytes::<N>`"),
        K(F_DRG, IMPL("Drg"), "fill_bytes", "Drg", "Drg.fill_bytes_src", doc="`Drg::fill_bytes::<N>` (`N` is the length of `out`)"),
        K(F_DRG, IMPL("Drg"), "fill_slice", "Drg", "Drg.fill_slice_src", doc="`Drg::fill_slice`"),
        K(F_DRG, IMPL("Drg"), "u64", "Drg", "Drg.u64_src", ret_lean="UInt64", doc="`Drg::u64`"),
        K(F_DRG, IMPL("Drg"), "u32", "Drg", "Drg.u32_src", ret_lean="UInt32", doc="`Drg::u32`"),
        # chacha20poly1305.rs
        K(F_AEAD, None, "pad16", None, "Aead.pad16_src", types=AE_T, doc="`pad16`"),
        K(F_AEAD, IMPL("Context"), "new", "Context", "Aead.Context.new_src", types=AE_T, doc="`Context::new`"),
        K(F_AEAD, IMPL("Context"), "add_encrypted", "Context", "Aead.Context.add_encrypted_src", types=AE_T, doc="`Context::add_encrypted`"),
        K(F_AEAD, IMPL("Context"), "add_data", "Context", "Aead.Context.add_data_src", types=AE_T, doc="`Context::add_data`"),
        K(F_AEAD, IMPL("Context"), "to_encryption", "Context", "Aead.Context.to_encryption_src", types=AE_T, doc="`Context::to_encryption`"),
        K(F_AEAD, IMPL("Context"), "to_decryption", "Context", "Aead.Context.to_decryption_src", types=AE_T, doc="`Context::to_decryption`"),
        K(F_AEAD, None, "finalize_raw", None, "Aead.finalize_raw_src", types=AE_T, doc="`finalize_raw`: pad16, the length block, the tag"),
        K(F_AEAD, IMPL("ContextEncryption"), "encrypt_mut", "ContextEncryption", "Aead.ContextEncryption.encrypt_mut_src", types=AE_T),
        K(F_AEAD, IMPL("ContextEncryption"), "encrypt", "ContextEncryption", "Aead.ContextEncryption.encrypt_src", types=AE_T),
        K(F_AEAD, IMPL("ContextEncryption"), "finalize", "ContextEncryption", "Aead.ContextEncryption.finalize_src", types=AE_T),
        K(F_AEAD, r"impl CtEqual for &Tag\s*\{", "ct_eq", "Tag", "Aead.Tag.ct_eq_src", types=AE_T, doc="`<&Tag as CtEqual>::ct_eq`"),
        K(F_AEAD, r"impl PartialEq for Tag\s*\{", "eq", "Tag", "Aead.Tag.eq_src", types=AE_T, doc="`<Tag as PartialEq>::eq`"),
        K(F_AEAD, IMPL("ContextDecryption"), "decrypt_mut", "ContextDecryption", "Aead.ContextDecryption.decrypt_mut_src", types=AE_T),
        K(F_AEAD, IMPL("ContextDecryption"), "decrypt", "ContextDecryption", "Aead.ContextDecryption.decrypt_src", types=AE_T),
        K(F_AEAD, IMPL("ContextDecryption"), "finalize", "ContextDecryption", "Aead.ContextDecryption.finalize_src", types=AE_T),
        K(F_AEAD, IMPL("ChaChaPoly1305"), "new", "ChaChaPoly1305", "Aead.ChaChaPoly1305.new_src", types=AE_T),
        K(F_AEAD, IMPL("ChaChaPoly1305"), "encrypt", "ChaChaPoly1305", "Aead.ChaChaPoly1305.encrypt_src", types=AE_T),
        K(F_AEAD, IMPL("ChaChaPoly1305"), "decrypt", "ChaChaPoly1305", "Aead.ChaChaPoly1305.decrypt_src", types=AE_T),
    ])

HEADER = '''import CxVerif.Impl.StreamCtx
import CxVerif.Impl.ChaCha
import CxVerif.Impl.Salsa
import CxVerif.Impl.Poly1305
import CxVerif.Impl.ConstantTime
import CxVerif.Impl.Aead
/-!
  Extracted.GlueStream — GENERATED by tools/ktx_glue_stream.py (kernel specs tools/kernels/glue_stream.py): the stateful glue of
  chacha20.rs, salsa20.rs, cryptoutil.rs::xor_keystream_mut, drg/chacha.rs and chacha20poly1305.rs, translated statement by statement
  from the CURRENT Rust source.  The definitions before `-- translated functions` are the fixed run-time library of the translation
  (checked arithmetic, raw-pointer access, loop combinators); they do not depend on the source.
  Tie theorems: CxVerif/Props/C04/GlueTieStream.lean.
-/
namespace Cx.Extracted.GlueStream
open Cx Cx.Impl Cx.Impl.StreamCtx
set_option autoImplicit false
set_option linter.unusedVariables false

/-- checked `a + b` on `usize`/`u64` (64-bit target) -/
def addChk (a b : Nat) : Except String Nat := if a + b < 2 ^ 64 then .ok (a + b) else .error "PANIC"
/-- checked `a - b` on `usize`/`u64` -/
def subChk (a b : Nat) : Except String Nat := if b ≤ a then .ok (a - b) else .error "PANIC"
/-- `n as isize` for `n : usize` (two's complement) -/
def usizeToIsize (n : Nat) : Int := if n % 2 ^ 64 < 2 ^ 63 then (n % 2 ^ 64 : Nat) else ((n % 2 ^ 64 : Nat) : Int) - 2 ^ 64
/-- `*p.offset(i)` for a pointer to the first byte of `buf`: outside the buffer it is undefined behaviour -/
def getUB (buf : Bytes) (i : Int) : Except String UInt8 :=
  if 0 ≤ i then (match buf[i.toNat]? with | some b => .ok b | none => .error "UB") else .error "UB"
/-- `*p.offset(i) = v` -/
def setUB (buf : Bytes) (i : Int) (v : UInt8) : Except String Bytes :=
  if 0 ≤ i ∧ i.toNat < buf.length then .ok (buf.set i.toNat v) else .error "UB"
/-- `while cond { body }` on the tuple of assigned variables; `fuel` is the variant the spec names for the loop: a loop that is
    still running when the fuel is used up is `.error "DIVERGE"` -/
def whileFuel {S : Type} (cond : S → Bool) (body : S → Except String S) : Nat → S → Except String S
  | 0, s => if cond s then .error "DIVERGE" else .ok s
  | fuel + 1, s =>
    if cond s then
      match body s with
      | .error e => .error e
      | .ok s' => whileFuel cond body fuel s'
    else .ok s
/-- `n` iterations `i, i+1, …` -/
def forN {S : Type} (body : Int → S → Except String S) : Nat → Int → S → Except String S
  | 0, _, s => .ok s
  | n + 1, i, s =>
    match body i s with
    | .error e => .error e
    | .ok s' => forN body n (i + 1) s'
/-- `for i in lo..hi { body }` over `isize` (empty when `hi ≤ lo`) -/
def forRangeI {S : Type} (lo hi : Int) (body : Int → S → Except String S) (s : S) : Except String S :=
  forN body (hi - lo).toNat lo s

variable {σ : Type}

-- translated functions
'''
FOOTER = "end Cx.Extracted.GlueStream\n"
