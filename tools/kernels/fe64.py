"""kernel specs: src/curve25519/fe/fe64/mod.rs  (shape of lean/CxVerif/Impl/Fe64.lean: checked ops in the Option monad)"""
from kernel_translate import Kernel

F = "src/curve25519/fe/fe64/mod.rs"
LIMBS = lambda v: [f"{v}.l{i}" for i in range(5)]
CONSTS = {"FOUR_P0": ("FOUR_P0", "u64"), "FOUR_P1234": ("FOUR_P1234", "u64"), "MASK": ("MASK", "u64")}
CALLS = {"mul128": ("mul128 {0} {1}", "u128", ["u64", "u64"]), "shl128": ("shl128 {0} {1}", "u64", ["u128", None])}
WIDTHS = {64: ("add64", "sub64", "mul64"), 128: ("add128", "sub128", "mul128c")}


def fe_result(tr, ret):
    # trailing `Fe([h0, h1, h2, h3, h4])` or `[t0, t1 & MASK, …]`
    if ret is not None and ret[0] == "call":
        items = ret[2][0][1]
    elif ret is not None and ret[0] == "array":
        items = ret[1]
    else:
        raise Exception("expected trailing Fe([...]) / [...]")
    return "⟨" + ", ".join(tr.ex(it)[0] for it in items) + "⟩"


def loop_body(stmts):
    """statements before the first `for` + the body of that `for` (one iteration)"""
    out = []
    for s in stmts:
        if s[0] == "for":
            return out + s[3]
        out.append(s)
    raise Exception("no for loop")


def regs_result(tr, ret):
    return "⟨" + ", ".join(tr.vars[f"r{i}"][0] for i in range(5)) + "⟩"


def packed_result(tr, ret):
    if ret is None or ret[0] != "array":
        raise Exception("expected trailing [out0, …]")
    return "[" + ", ".join(tr.ex(it)[0] for it in ret[1]) + "]"


def K(fn, scope, name, params, env, doc):
    return Kernel(file=F, fn=fn, scope=scope, lean_name=name, backend="optchk", params=params, ret_type="Option Fe",
                  env=env, consts=CONSTS, calls=CALLS, widths=WIDTHS, result=fe_result, doc=doc)


KERNELS = [
    K("add", r"impl Add for &Fe", "add_src", "(f g : Fe)", {"self": (LIMBS("f"), "u64"), "rhs": (LIMBS("g"), "u64")}, "`impl Add for &Fe`"),
    K("sub", r"impl Sub for &Fe", "sub_src", "(f g : Fe)", {"self": (LIMBS("f"), "u64"), "rhs": (LIMBS("g"), "u64")}, "`impl Sub for &Fe`"),
    K("neg", r"impl Neg for &Fe", "neg_src", "(g : Fe)", {"self": (LIMBS("g"), "u64")}, "`impl Neg for &Fe`"),
    K("mul", r"impl Mul for &Fe", "mul_src", "(f g : Fe)", {"self": (LIMBS("f"), "u64"), "rhs": (LIMBS("g"), "u64")}, "`impl Mul for &Fe`"),
    K("square", r"impl Fe \{", "square_src", "(f : Fe)", {"self": (LIMBS("f"), "u64")}, "`Fe::square`"),
]
# `mul_small::<S0>`: the const generic is a parameter of the Lean definition
KERNELS.append(Kernel(file=F, fn="mul_small", scope=r"impl Fe \{", lean_name="mul_small_src", backend="optchk",
                      params="(f : Fe) (S0 : Nat)", ret_type="Option Fe",
                      env={"self": (LIMBS("f"), "u64"), "S0": ("S0 % 2^32", "u32")}, consts=CONSTS, calls=CALLS, widths=WIDTHS,
                      result=fe_result, doc="`Fe::mul_small::<S0>`"))
TLIMBS = {"t": (LIMBS("t"), "u64")}
KERNELS.append(Kernel(file=F, fn="carry_full", scope=r"fn to_packed", lean_name="carry_full_src", backend="optchk",
                      params="(t : Fe)", ret_type="Option Fe", env=TLIMBS, consts=CONSTS, calls=CALLS, widths=WIDTHS,
                      result=fe_result, doc="`carry_full` inside `Fe::to_packed`"))
KERNELS.append(Kernel(file=F, fn="carry_final", scope=r"fn to_packed", lean_name="carry_final_src", backend="optchk",
                      params="(t : Fe)", ret_type="Option Fe", env=TLIMBS, consts=CONSTS, calls=CALLS, widths=WIDTHS,
                      result=fe_result, doc="`carry_final` inside `Fe::to_packed`"))
KERNELS.append(Kernel(file=F, fn="square_repeatdly", scope=r"impl Fe \{", lean_name="square_repeatdly_body_src", backend="optchk",
                      params="(f : Fe)", ret_type="Option Fe", env={"self": (LIMBS("f"), "u64")}, consts=CONSTS, calls=CALLS,
                      widths=WIDTHS, select=loop_body, result=regs_result,
                      doc="one iteration of the loop of `Fe::square_repeatdly`"))
KERNELS.append(Kernel(file=F, fn="to_packed", scope=r"impl Fe \{", lean_name="to_packed_src", backend="optchk",
                      params="(f : Fe)", ret_type="Option (List Nat)", env={"self": (LIMBS("f"), "u64")}, consts=CONSTS, calls=CALLS,
                      widths=WIDTHS, result=packed_result,
                      agg_calls={"carry_full": ("carry_full", ["l0", "l1", "l2", "l3", "l4"], "u64", True),
                                 "carry_final": ("carry_final", ["l0", "l1", "l2", "l3", "l4"], "u64", True)},
                      doc="`Fe::to_packed` (the nested helper functions are tied separately)"))
HEADER = "import CxVerif.Impl.Fe64\nnamespace Cx.Extracted.KernelsFe64\nopen Cx Cx.Impl.Fe64\n"
FOOTER = "end Cx.Extracted.KernelsFe64\n"
LEAN_FILE = "KernelsFe64"
